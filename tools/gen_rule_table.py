#!/usr/bin/env python3
"""Rewrites section 9 of DESIGN.md ("Rules as built") from the evidence files of the last runs."""
import json, glob, os, re
here = os.path.dirname(os.path.dirname(os.path.abspath(__file__)))
lines = ["", "---------------------------------------------------------------------------------------------", "",
 "## 9. Rules as built (generated from the evidence of the last run)", "",
 "One line per rule: its statement as documented by the checker and the number of obligations it produced on the",
 "current tree (discharged / known finding). This table is authoritative where it differs from section 4.", ""]
for f in sorted(glob.glob(os.path.join(here, "evidence/C*.json"))):
    e = json.load(open(f)); cov = e["coverage"]
    lines.append(f"**{e['property_id']}** — {cov['obligations']} obligations, {cov['discharged']} discharged, {cov.get('known_findings',0)} known findings.")
    lines.append("")
    rules = cov.get("rules") or {}
    rv = cov.get("rule_verdicts") or {}
    def key(r):
        m = re.match(r"C(\d+)-R(\d+)", r); return (int(m.group(1)), int(m.group(2))) if m else (999, 0)
    for r in sorted(set(list(rules) + [x for x in rv if x.startswith('C')]), key=key):
        v = rv.get(r, {})
        cnt = ", ".join(f"{k} {n}" for k, n in sorted(v.items()))
        lines.append(f"* `{r}` ({cnt or 'no instance'}): {rules.get(r, '')}")
    lines.append("")
p = os.path.join(here, "DESIGN.md"); s = open(p).read()
i = s.find("\n---------------------------------------------------------------------------------------------\n\n## 9. Rules as built")
if i >= 0: s = s[:i]
s = s.rstrip("\n") + "\n" + "\n".join(lines)
open(p, "w").write(s)
print("rules table written")
