#!/usr/bin/env python3
"""usage: add_finding.py property rule construct status commit what"""
import json, sys, os
here = os.path.dirname(os.path.dirname(os.path.abspath(__file__)))
f = os.path.join(here, "known_findings.json")
k = json.load(open(f))
p, r, cons, st, commit, what = sys.argv[1:7]
prefix = "fixed: property=%s %s " % (p, commit) if st == "fixed" else ""
e = {"property": p, "rule": r, "construct": cons, "status": st, "what": prefix + what}
if commit: e["commit"] = commit
k["findings"] = [x for x in k["findings"] if not (x["rule"] == r and x["construct"] == cons)] + [e]
json.dump(k, open(f, "w"), indent=1, ensure_ascii=False)
