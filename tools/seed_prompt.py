#!/usr/bin/env python3
import json, sys, os
here = os.path.dirname(os.path.dirname(os.path.abspath(__file__)))
pid = sys.argv[1]; n = sys.argv[2] if len(sys.argv) > 2 else "a"
HINTS = {
 "a": "prefer a change in the main control path (ordering, guards, state updates).",
 "n": "prefer a change OUTSIDE the function that most obviously implements the property: a helper two calls away, a sibling package it relies on (pkg/cache, pkg/store, pkg/sync, pkg/p2p, types, core/*, node wiring, configuration defaults), a constructor or option that sets up the state the property depends on, or the interaction of two functions that each stay correct alone. Changes that add a small feature or optimisation (a cache, a fast path, batching, a retry, a metric, a validation) and get one corner wrong are especially welcome.",
 "p": "prefer a change in how a FAILURE or an ABSENCE is handled rather than in the normal path: an error swallowed, logged instead of returned, retried, or wrapped into a different class; a partial result kept (or a side effect left behind) after a failure; a cleanup or rollback skipped on an error path; a timeout or cancellation treated like success or like a permanent fault; a default silently substituted for a value that could not be read; a 'not found' / empty / nil / zero case that takes the wrong branch. The normal path must stay exactly as it is.",
 "q": "prefer a change in data OWNERSHIP or BOUNDARIES: a slice, map or pointer that is now shared instead of copied (or a buffer that is reused) so that a later mutation shows through somewhere else; an off-by-one or inclusive/exclusive boundary (<= vs <, first/last element, height vs height+1, empty vs nil, zero-length vs absent); a unit or width confusion (bytes vs count, seconds vs milliseconds, uint64 truncated to int/uint32, overflow or wrap-around on an addition or a subtraction of unsigned values); a default value (0, \"\", nil) that is a legal value somewhere else.",
 "o": "prefer a change that alters WHEN something happens rather than WHAT happens (an operation moved before/after another, done once instead of every time, done lazily, deferred, skipped when 'nothing changed', done in the background), or WHICH instance is used (a shared value instead of a fresh one, the wrong one of two similar fields/caches/keys, a stale copy).",
}
p = [json.loads(l) for l in open(os.path.join(here, "properties.jsonl")) if json.loads(l)["id"] == pid][0]
wt = f"/tmp/seed_{pid}{n}"; out = f"/tmp/seed_out/{pid}{n}"
print(f"""You are helping to test verification tooling for the Go repository at /repo (module github.com/evstack/ev-node: a sovereign-rollup node framework with a block manager, DA submission/retrieval, P2P sync, sequencers, store, config, signer). Your job: write ONE realistic code change (a plausible maintainer mistake: a refactoring slip, a dropped guard, a reordered pair of calls, an optimisation that is subtly wrong, a helper that is almost equivalent) that BREAKS the following property while the code still compiles and the existing test suite still passes.

PROPERTY {pid}: {p['title']}
{p['statement']}
(Quantified over: {p['quantifier']['text']})

Rules:
1. Do NOT work in /repo itself and do not look at or write anything under /verif. Create your own scratch worktree: `git -C /repo worktree add --detach {wt} HEAD` and work only there. (If {wt} exists, remove it first with `git -C /repo worktree remove --force {wt}`.)
2. The sandbox is offline. Use: `export GOFLAGS=-mod=mod GOPROXY=off` before go commands. The repo has several Go modules (root, core, da, sequencers/single, sequencers/based, apps/testapp); run `go build ./... && go test -count=1 -vet=off ./...` inside the module(s) you touch (root-module tests take a few minutes; you may restrict to the packages you touched plus their dependants, e.g. ./block/... ./types/... ./node/... ./pkg/...). Known pre-existing failures you may ignore: TestSaveGenesis_InvalidPath, and flaky TestHTTPServerContextCancellation, TestClientInfoMethods, TestDiscovery.
3. The change must need something SPECIFIC to manifest: a particular interleaving, a crash or fault at a particular point, a multi-step sequence of operations, an unusual input, or two cooperating sites that each look fine alone. It must NOT be something ordinary use or the existing tests would expose at once. Keep it small (typically 1-15 changed lines), only in non-test .go files, and make it look like an honest edit (no comments announcing the bug).
4. Write a demonstration: a new Go test file (name it zz_seed_{pid.lower()}{n}_test.go in the relevant package) with a test that FAILS with your change applied and PASSES on the unchanged code. It may use the package's existing test helpers/mocks. Confirm both directions yourself (git stash / apply) and include the observed output.
5. Deliver into {out}/ (create it): patch.diff (output of `git diff` for the non-test source change ONLY, relative to HEAD, applying with `git apply` from the repo root), the demonstration test file (separately, not in patch.diff), and meta.json with keys: property ("{pid}"), summary (what the change does), needs (what specific circumstance is needed for the violation to manifest), files (changed files), demo (file name, package dir, and the exact `go test -run ...` command), observed (what you saw with and without the change), existing_tests (which test commands you ran with the change applied and that they passed).
6. When finished, remove your worktree: `git -C /repo worktree remove --force {wt}`. Leave only {out}/.

Variant hint: this is request "{n}" for this property; {HINTS.get(n, "prefer a change in a different area/clause of the property than the most obvious one (error paths, restart/recovery, boundary inputs, a helper or secondary component).")}

Reply with a short summary of the change and the demo result.""")
