#!/bin/bash
# usage: tools/keep_seed.sh <id> [props...]  — copies a confirmed seed from /tmp/seed_out/<id> into /verif/seeded/<id>
# and records which checks/rules catch it (runs the quick checks on a scratch copy with the patch applied).
set -u
HERE="$(cd "$(dirname "$0")/.." && pwd)"
ID="$1"; shift
SRC=/tmp/seed_out/$ID
[ -f "$SRC/confirm.json" ] || { echo "no confirm.json for $ID (run tools/confirm_seed.sh first)"; exit 2; }
DST="$HERE/seeded/$ID"; mkdir -p "$DST"
cp "$SRC/patch.diff" "$SRC"/*_test.go "$DST/"
OUT=$("$HERE/tools/try_patch.sh" "$SRC/patch.diff" "$@" 2>&1)
echo "$OUT" | tail -4 | cut -c1-300
printf '%s' "$OUT" > "$DST/.tryout.txt"
python3 - "$SRC" "$DST" <<'PY'
import json,sys,re,os
src,dst=sys.argv[1:3]
m=json.load(open(src+"/meta.json")); c=json.load(open(src+"/confirm.json"))
out=open(dst+"/.tryout.txt",errors="replace").read(); os.remove(dst+"/.tryout.txt")
caught=re.findall(r"CAUGHT-BY:(.*)",out)
caught=caught[-1].split() if caught else []
caught=[x for x in caught if x!="none"]
rules=sorted(set(re.findall(r"rule=(C\d+-R\d+)",out)))
meta={"property":m.get("property"),"summary":m.get("summary"),"needs":m.get("needs"),"files":m.get("files"),"demo":m.get("demo"),
 "agent_observed":m.get("observed"),"confirmed_by_me":c,
 "what_i_ran":"tools/confirm_seed.sh (scratch worktree: demo passes without the change, fails with it, module tests pass with it) and tools/try_patch.sh (quick checks on a scratch copy with the patch applied)",
 "caught_by_checks":caught,"caught_by_rules":rules}
json.dump(meta,open(dst+"/meta.json","w"),indent=1,ensure_ascii=False)
print("kept",dst,"caught_by",caught,rules)
PY
