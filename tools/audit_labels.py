#!/usr/bin/env python3
"""Vacuity audit: lists instance-label fragments that occur in the rule sources (string literals with ⟂)
but in no evidence file of the last run. Labels produced only by violations / lost anchors are expected
here; a label of a *positive* sub-check that never shows up means that sub-check selects nothing on the
current tree (a vacuous check) and must be repaired. Run after tools/run_all.sh quick."""
import re, glob, json, os
here = os.path.dirname(os.path.dirname(os.path.abspath(__file__)))
allev = ""
for f in glob.glob(os.path.join(here, "evidence", "C*.json")):
    allev += json.dumps(json.load(open(f)), ensure_ascii=False)
allev = allev.replace('\\"', '"').replace("\\u003c", "<").replace("\\u003e", ">").replace("\\u0026", "&")
seen = set()
for f in sorted(glob.glob(os.path.join(here, "checker", "rules_c*.go"))):
    src = open(f).read()
    for m in re.finditer(r'(c\.(OK|Decide)\([^\n]*?)"([^"\n]*⟂[^"\n]*)"', src):
        lit = m.group(3)
        for piece in lit.split("⟂"):
            piece = piece.strip()
            if len(piece) < 6 or "%" in piece: continue
            if piece not in allev and (os.path.basename(f), piece) not in seen:
                seen.add((os.path.basename(f), piece))
                print(os.path.basename(f), src[:m.start()].count("\n") + 1, m.group(2), repr(piece))
