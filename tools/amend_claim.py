#!/usr/bin/env python3
"""usage: amend_claim.py Cnn 'sentence appended to the claim text' ['sentence appended to the technique']"""
import json, sys, os, subprocess
here = os.path.dirname(os.path.dirname(os.path.abspath(__file__)))
f = os.path.join(here, "tools", "claims.json")
c = json.load(open(f))
pid = sys.argv[1]
e = c["checks"][pid]
if sys.argv[2] not in e["text"]:
    e["text"] = e["text"].rstrip() + " " + sys.argv[2]
if len(sys.argv) > 3 and sys.argv[3] not in e["technique"]:
    e["technique"] = e["technique"].rstrip() + " " + sys.argv[3]
json.dump(c, open(f, "w"), indent=1, ensure_ascii=False)
subprocess.check_call([sys.executable, os.path.join(here, "tools", "gen_manifest.py")])
