#!/bin/bash
# Generates /verif/variants/revert-<commit>.patch: for every fix: commit in /repo, the patch
# (relative to the current HEAD) that undoes it. Used by the thorough tier to check that the
# rule which found the defect still fires when the defect returns. Works in a scratch worktree.
set -u
HERE="$(cd "$(dirname "$0")/.." && pwd)"
WT=/tmp/verif-revert-wt
git -C /repo worktree remove --force $WT >/dev/null 2>&1
git -C /repo worktree add --detach $WT HEAD >/dev/null 2>&1 || exit 2
trap 'git -C /repo worktree remove --force $WT >/dev/null 2>&1' EXIT
for c in $(git -C /repo log --format=%h --grep='^fix:' 6a63a01..HEAD); do
  (cd $WT && git checkout -q --detach HEAD 2>/dev/null; git reset -q --hard HEAD
   if git revert --no-commit $c >/dev/null 2>&1; then
     git diff HEAD > "$HERE/variants/revert-$c.patch"; echo "ok $c $(git log --format=%s -1 $c | cut -c1-70)"
   else
     git revert --abort >/dev/null 2>&1; git reset -q --hard HEAD; echo "CONFLICT $c"
   fi
   git reset -q --hard HEAD)
done
