#!/bin/bash
# usage: tools/try_patch.sh <patch.diff> [Cnn ...]   (default: all claimed properties)
# Applies the patch to a scratch copy of /repo's working tree (outside /repo and /verif), runs
# the quick checks against the copy with a private evidence directory, prints which rules fire,
# and removes the copy. Never touches /repo or /verif/evidence.
set -u
HERE="$(cd "$(dirname "$0")/.." && pwd)"
PATCH="$(readlink -f "$1")"; shift
PROPS="$*"
if [ -z "$PROPS" ]; then PROPS=$(python3 -c "import json;print(' '.join(c['property_id'] for c in json.load(open('$HERE/MANIFEST.json'))['checks']))"); fi
# keep the Go build cache from growing without bound (every scratch directory adds its own entries)
if [ "$(du -sm /root/.cache/go-build 2>/dev/null | cut -f1)" -gt 40000 ] 2>/dev/null; then go clean -cache >/dev/null 2>&1; fi
S=$(mktemp -d /tmp/verif-try.XXXXXX)
trap 'rm -rf "$S"' EXIT
rsync -a --exclude .git /repo/ "$S/repo/"
(cd "$S/repo" && git init -q . >/dev/null 2>&1; git apply --whitespace=nowarn "$PATCH" 2>/dev/null || patch -p1 -s < "$PATCH") || { echo "PATCH-DOES-NOT-APPLY"; exit 3; }
mkdir -p "$S/ev"
# a private snapshot of the checker: edits to the checker sources while this runs do not disturb it
if [ -z "${VERIF_BIN:-}" ]; then
  for i in 1 2 3 4 5 6; do "$HERE/run.sh" build >/dev/null 2>&1 && break; sleep 10; done
  cp "$HERE/bin/checker" "$S/checker" || { echo "CHECK-BROKEN: no checker binary"; exit 2; }
  export VERIF_BIN="$S/checker"
fi
caught=""
for p in $PROPS; do
  out=$(VERIF_REPO="$S/repo" VERIF_EVIDENCE_DIR="$S/ev" "$HERE/run.sh" "$p" quick 2>&1); rc=$?
  if [ $rc -ne 0 ]; then
    caught="$caught $p"
    echo "== $p rc=$rc"
    echo "$out" | grep -E "^\s+(violated|undecided):|CHECK-BROKEN" | cut -c1-330
  fi
done
echo "CAUGHT-BY:${caught:- none}"
