#!/usr/bin/env python3
"""Builds variants/index.json: which variant patches the thorough tier applies for which property and
which rule must report the broken instance. Sources: revert patches of the fix: commits (from
known_findings.json, status fixed) and the kept seeded changes (seeded/*/meta.json), and hand-written positive examples (variants/hand/*.patch + .json) for rules whose expected count on the pinned tree is zero."""
import json, os, glob
here = os.path.dirname(os.path.dirname(os.path.abspath(__file__)))
kf = json.load(open(os.path.join(here, "known_findings.json")))["findings"]
idx = []
seen = set()
for f in kf:
    if f["status"] != "fixed": continue
    patch = f"variants/revert-{f['commit']}.patch"
    if not os.path.exists(os.path.join(here, patch)): continue
    key = (f["property"], patch, f["rule"])
    if key in seen: continue
    seen.add(key)
    idx.append({"id": f"revert-{f['commit']}", "patch": patch, "property": f["property"], "expect_rule": f["rule"], "what": f["what"][:140]})
for m in sorted(glob.glob(os.path.join(here, "seeded/*/meta.json"))):
    d = json.load(open(m)); sid = os.path.basename(os.path.dirname(m))
    rules = d.get("caught_by_rules") or []
    byprop = {}
    for r in rules: byprop.setdefault(r.split("-")[0], []).append(r)
    for prop, rs in byprop.items():
        idx.append({"id": f"seed-{sid}", "patch": f"seeded/{sid}/patch.diff", "property": prop, "expect_rule": rs[0], "what": (d.get("summary") or "")[:140]})
for j in sorted(glob.glob(os.path.join(here, "variants/hand/*.json"))):
    d = json.load(open(j)); name = os.path.basename(j)[:-5]
    idx.append({"id": f"hand-{name}", "patch": f"variants/hand/{name}.patch", "property": d["property"], "expect_rule": d["expect_rule"], "what": d["what"][:140]})
json.dump(idx, open(os.path.join(here, "variants", "index.json"), "w"), indent=1, ensure_ascii=False)
print(len(idx), "variants")
