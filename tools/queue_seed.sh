#!/bin/bash
# usage: tools/queue_seed.sh <id>... — process delivered seeds one after the other (serialised by a lock)
HERE="$(cd "$(dirname "$0")/.." && pwd)"
for s in "$@"; do
  ( flock 9; "$HERE/tools/process_seed.sh" "$s" > /tmp/proc_$s.log 2>&1 ) 9>/tmp/seed_queue.lock
done
