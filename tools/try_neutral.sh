#!/bin/bash
# usage: tools/try_neutral.sh <dir with patchN.diff> — every check must stay silent on each patch
HERE="$(cd "$(dirname "$0")/.." && pwd)"
for pch in "$1"/patch*.diff; do
  echo "### $(basename $pch)"
  "$HERE/tools/try_patch.sh" "$pch" | cut -c1-330 | tail -6
done
