#!/bin/bash
# usage: tools/try_neutral.sh <dir with patchN.diff> [parallelism] — every check must stay silent on each patch.
# Prints one block per patch; a patch that is reported by any check is a false alarm to repair.
HERE="$(cd "$(dirname "$0")/.." && pwd)"
P=${2:-5}
"$HERE/run.sh" build || exit 2
ls "$1"/patch*.diff | sort -V | xargs -P "$P" -I{} bash -c 'o=$("'"$HERE"'/tools/try_patch.sh" {} 2>&1 | cut -c1-330 | tail -6); printf "### %s\n%s\n" "{}" "$o"'
