#!/bin/bash
# usage: tools/confirm_seed.sh <seed dir, e.g. /tmp/seed_out/C04a> [module dir relative to repo, default .]
# Confirms a seeded change in a scratch worktree: demo passes without the change, fails with it,
# and the existing tests of the touched module's relevant packages pass with it. Writes confirm.json
# into the seed dir. Removes the worktree afterwards.
set -u
D="$(readlink -f "$1")"; ID="$(basename "$D")"
export GOFLAGS=-mod=mod GOPROXY=off
WT=/tmp/confirm_$ID
git -C /repo worktree remove --force "$WT" >/dev/null 2>&1
git -C /repo worktree add --detach "$WT" HEAD >/dev/null 2>&1 || { echo "worktree failed"; exit 2; }
trap 'git -C /repo worktree remove --force "$WT" >/dev/null 2>&1' EXIT
DEMO=$(ls "$D"/*_test.go | head -1)
PKG=$(python3 - "$D/meta.json" <<'PY'
import json,sys,re
m=json.load(open(sys.argv[1])); d=m.get("demo",{})
if isinstance(d,dict):
    p=d.get("package dir") or d.get("package_dir") or d.get("package") or d.get("dir") or ""
else: p=""
print(p.split()[0] if p.split() else "")
PY
)
# derive module + package dir from the patch if meta is unclear
FILES=$(grep '^+++ b/' "$D/patch.diff" | sed 's#^+++ b/##')
FIRST=$(echo "$FILES" | head -1)
MOD=.
for m in sequencers/single sequencers/based apps/testapp da core; do case "$FIRST" in $m/*) MOD=$m;; esac; done
if [ -z "$PKG" ] || [ ! -d "$WT/$PKG" ]; then PKG=$(dirname "$FIRST"); fi
PKG=${PKG#./}
# the demonstration decides the module (a change in the root module may be demonstrated in a dependant module)
for m in sequencers/single sequencers/based apps/testapp da core; do case "$PKG/" in $m/*) MOD=$m;; esac; done
# a demonstration in the root module of a change made in another module
case "$PKG/" in $MOD/*) ;; *) [ "$MOD" != "." ] && MOD=. ;; esac
REL=${PKG#$MOD/}; [ "$MOD" = "." ] && REL=$PKG; [ "$PKG" = "$MOD" ] && REL=.
TESTNAME=$(grep -ho '^func Test[A-Za-z0-9_]*' "$DEMO" | sed 's/func //' | paste -sd'|')
cp "$DEMO" "$WT/$PKG/"
echo "seed=$ID module=$MOD pkg=$PKG tests=$TESTNAME"
(cd "$WT/$MOD" && go test -count=1 -vet=off -run "^($TESTNAME)\$" "./$REL/" > "$D/confirm_without.log" 2>&1); RC_WITHOUT=$?
(cd "$WT" && git apply --whitespace=nowarn "$D/patch.diff") || { echo "patch does not apply"; exit 3; }
(cd "$WT/$MOD" && go build ./... > "$D/confirm_build.log" 2>&1); RC_BUILD=$?
(cd "$WT/$MOD" && go test -count=1 -vet=off -run "^($TESTNAME)\$" "./$REL/" > "$D/confirm_with.log" 2>&1); RC_WITH=$?
rm -f "$WT/$PKG/$(basename "$DEMO")"
if [ "$MOD" = "." ]; then PKGS="./block/... ./types/... ./node/... ./pkg/..."; else PKGS="./..."; fi
(cd "$WT/$MOD" && go test -count=1 -vet=off $PKGS > "$D/confirm_suite.log" 2>&1); RC_SUITE=$?
FAILS=$(grep -E '^--- FAIL' "$D/confirm_suite.log" | grep -v -E 'TestSaveGenesis_InvalidPath|TestHTTPServerContextCancellation|TestClientInfoMethods|TestDiscovery' | head -5)
python3 - <<PY
import json
json.dump({"seed":"$ID","module":"$MOD","package":"$PKG","demo_tests":"$TESTNAME","demo_without_change_rc":$RC_WITHOUT,"build_with_change_rc":$RC_BUILD,"demo_with_change_rc":$RC_WITH,"suite_with_change_rc":$RC_SUITE,"suite_unexpected_failures":"""$FAILS""","suite_cmd":"go test -count=1 -vet=off $PKGS (in module $MOD)","confirmed": ($RC_WITHOUT==0 and $RC_BUILD==0 and $RC_WITH!=0 and """$FAILS"""=="")},open("$D/confirm.json","w"),indent=1)
print(open("$D/confirm.json").read())
PY
