#!/bin/bash
# usage: tools/refresh_seeds.sh [parallelism] — re-runs every quick check on every kept seed (scratch copies)
# with a snapshot of the current checker binary, rewrites caught_by_checks / caught_by_rules in
# seeded/*/meta.json and prints the seeds that no rule reports any more.
HERE="$(cd "$(dirname "$0")/.." && pwd)"
P=${1:-6}
"$HERE/run.sh" build || exit 2
SNAP=$(mktemp /tmp/checker-snap.XXXXXX); cp "$HERE/bin/checker" "$SNAP"; chmod +x "$SNAP"
OUT=$(mktemp -d /tmp/refresh.XXXXXX)
ls -d "$HERE"/seeded/*/ | xargs -P "$P" -I{} bash -c 'id=$(basename {}); VERIF_BIN='"$SNAP"' "'"$HERE"'/tools/try_patch.sh" {}patch.diff > '"$OUT"'/$id.txt 2>&1'
python3 - "$HERE" "$OUT" <<'PY'
import json,sys,re,os,glob
here,out=sys.argv[1:3]
missed=[];changed=[]
for f in sorted(glob.glob(out+"/*.txt")):
    sid=os.path.basename(f)[:-4]; txt=open(f,errors="replace").read()
    mp=os.path.join(here,"seeded",sid,"meta.json")
    if not os.path.exists(mp): continue
    if "PATCH-DOES-NOT-APPLY" in txt or "CAUGHT-BY" not in txt:
        print("PROBLEM",sid,txt[-200:]); continue
    caught=[x for x in re.findall(r"CAUGHT-BY:(.*)",txt)[-1].split() if x!="none"]
    rules=sorted(set(re.findall(r"rule=(C\d+-R\d+)",txt)))
    m=json.load(open(mp))
    if (m.get("caught_by_rules") or [])!=rules: changed.append((sid,m.get("caught_by_rules"),rules))
    m["caught_by_checks"]=caught; m["caught_by_rules"]=rules
    json.dump(m,open(mp,"w"),indent=1,ensure_ascii=False)
    if not rules: missed.append(sid)
for c in changed: print("CHANGED",*c)
print("MISSED",missed)
PY
rm -rf "$OUT" "$SNAP"
