#!/usr/bin/env python3
"""usage: add_claim.py Cnn 'design_ref' 'text' 'note' 'technique' ; updates tools/claims.json and regenerates MANIFEST.json"""
import json, sys, os, subprocess
here = os.path.dirname(os.path.dirname(os.path.abspath(__file__)))
f = os.path.join(here, "tools", "claims.json")
c = json.load(open(f))
pid, ref, text, note, tech = sys.argv[1:6]
c["checks"][pid] = {"text": text, "design_ref": ref, "note": note, "technique": tech}
c["not_applicable"].pop(pid, None)
json.dump(c, open(f, "w"), indent=1, ensure_ascii=False)
subprocess.check_call([sys.executable, os.path.join(here, "tools", "gen_manifest.py")])
