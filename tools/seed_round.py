#!/usr/bin/env python3
"""usage: seed_round.py <letter> — writes /tmp/seed_prompts/<Cnn><letter>.txt for every property, listing the
ideas already used for that property (summaries of kept and delivered seeds) as exclusions."""
import json, sys, os, glob, subprocess
here = os.path.dirname(os.path.dirname(os.path.abspath(__file__)))
letter = sys.argv[1]
os.makedirs("/tmp/seed_prompts", exist_ok=True)
props = [json.loads(l)["id"] for l in open(os.path.join(here, "properties.jsonl"))]
for pid in props:
    used = {}
    for d in sorted(glob.glob(os.path.join(here, "seeded", pid + "*")) + glob.glob("/tmp/seed_out/" + pid + "?")):
        try:
            m = json.load(open(os.path.join(d, "meta.json")))
        except Exception:
            continue
        s = m.get("summary") or ""
        if isinstance(s, dict): s = json.dumps(s)
        used[os.path.basename(d)] = " ".join(str(s).split())[:420]
    base = subprocess.check_output([sys.executable, os.path.join(here, "tools", "seed_prompt.py"), pid, letter], text=True)
    excl = ""
    if used:
        excl = "IMPORTANT — these ideas have already been used for this property; do NOT use them or close variations of them:\n" + \
            "\n".join(f"  - {v}" for v in used.values()) + \
            "\nFind a genuinely different way to break a different clause or a different code path of the property (think about: error paths, rarely-taken branches, helper functions, boundary values such as empty/zero/first/last, restart paths, a second function that has to stay consistent with the first, cache/metadata side effects, concurrency between two loops, configuration corner cases). Do not use `git stash` (the worktree shares its stash with /repo); use `git diff > file` and `git apply -R` instead.\n\n"
    marker = "Variant hint:"
    i = base.index(marker)
    open(f"/tmp/seed_prompts/{pid}{letter}.txt", "w").write(base[:i] + excl + base[i:])
    print(pid + letter, len(used), "exclusions")
