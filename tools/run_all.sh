#!/bin/bash
# usage: tools/run_all.sh [quick|thorough] — runs every claimed check, prints one line each
cd "$(dirname "$0")/.."
T=${1:-quick}
rc=0
for p in $(python3 -c "import json;print(' '.join(c['property_id'] for c in json.load(open('MANIFEST.json'))['checks']))"); do
  out=$(./run.sh $p $T 2>&1); r=$?
  echo "$out" | head -1 | cut -c1-170
  [ $r -ne 0 ] && { rc=1; echo "$out" | grep -E "^\s+(violated|undecided)" | cut -c1-250; }
done
exit $rc
