#!/bin/bash
# Runs the repository's pinned baseline suite (command of /root/.vp/BASELINE.json) on /repo as it is
# and compares with the stable-pass list. Usage: tools/run_baseline.sh [outfile]
OUT=${1:-/tmp/baseline_run.json}
CMD=$(python3 -c "import json;print(json.load(open('/root/.vp/BASELINE.json'))['cmd'])")
( eval "$CMD" ) > "$OUT" 2>/tmp/baseline_run.err
python3 - "$OUT" <<'PY'
import json,sys
base=json.load(open('/root/.vp/BASELINE.json'))
res={}
for l in open(sys.argv[1]):
    try: e=json.loads(l)
    except Exception: continue
    if e.get('Action') in ('pass','fail','skip') and e.get('Test'):
        res[e['Package']+'::'+e['Test']]=e['Action']
stable=base['stable_pass']
bad=[t for t in stable if res.get(t)!='pass']
print('stable tests:',len(stable),'passing now:',len(stable)-len(bad))
for t in bad: print('  NOT PASSING:',t,res.get(t))
PY
