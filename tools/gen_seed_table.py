#!/usr/bin/env python3
"""Rewrites section 8 of DESIGN.md from seeded/*/meta.json."""
import json, glob, os, re
here = os.path.dirname(os.path.dirname(os.path.abspath(__file__)))
rows = []
for m in sorted(glob.glob(os.path.join(here, "seeded/*/meta.json"))):
    d = json.load(open(m)); sid = os.path.basename(os.path.dirname(m))
    summ = re.sub(r"\s+", " ", (d.get("summary") or ""))[:170].replace("|", "/")
    needs = re.sub(r"\s+", " ", (d.get("needs") or "") if isinstance(d.get("needs"), str) else json.dumps(d.get("needs")))[:150].replace("|", "/")
    rules = ", ".join(d.get("caught_by_rules") or []) or "**missed**"
    rows.append(f"| {sid} | {d.get('property')} | {summ} | {needs} | {rules} |")
sec = ["", "---------------------------------------------------------------------------------------------", "",
       "## 8. Seeded changes and the rules that report them", "",
       "Each row is a change written by an independent sub-agent from the property's text alone, confirmed by me",
       "(demo fails with it, passes without it; the module's existing tests pass with it). `seeded/<id>/` holds the",
       "patch, the demonstration and `meta.json`. The last column lists the rules that report a violation on a scratch",
       "copy with the patch applied (`tools/try_patch.sh`); the thorough tier re-checks this on every run (2.4(e)).",
       "Rules marked † were added or repaired because the change was first missed.", "",
       "| id | property | change | needs | reported by |", "|---|---|---|---|---|"] + rows + [""]
p = os.path.join(here, "DESIGN.md")
s = open(p).read()
i = s.find("\n---------------------------------------------------------------------------------------------\n\n## 8. Seeded changes")
if i >= 0: s = s[:i]
s = s.rstrip("\n") + "\n" + "\n".join(sec)
open(p, "w").write(s)
print(len(rows), "seeds in table")
