#!/bin/bash
# usage: tools/process_seed.sh <id> — confirm a delivered seed (/tmp/seed_out/<id>) and try every check on it
HERE="$(cd "$(dirname "$0")/.." && pwd)"
ID="$1"
"$HERE/tools/confirm_seed.sh" /tmp/seed_out/$ID 2>&1 | grep -E '"confirmed"|"suite_unexpected|demo_with|demo_without|worktree failed|does not apply'
"$HERE/tools/try_patch.sh" /tmp/seed_out/$ID/patch.diff 2>&1 | grep -E "^==|violated|undecided|CAUGHT|BROKEN|APPLY" | cut -c1-420
