#!/usr/bin/env python3
"""Regenerates /verif/MANIFEST.json from tools/claims.json (one entry per property).
Keeps the manifest valid by construction: every property of properties.jsonl is either a check
or listed under not_applicable with a reason."""
import json, os, sys
here = os.path.dirname(os.path.dirname(os.path.abspath(__file__)))
props = [json.loads(l) for l in open(os.path.join(here, "properties.jsonl"))]
claims = json.load(open(os.path.join(here, "tools", "claims.json")))
baseline = json.load(open("/root/.vp/BASELINE.json"))["cmd"] if os.path.exists("/root/.vp/BASELINE.json") else ""
m = {
    "version": 1,
    "setup_cmd": "./run.sh build && ./run.sh warm",
    "hooks": {
        "guard": "verif",
        "enable": "no hooks: the checks are static analyses of /repo's working tree (go/packages + go/ssa, x/tools v0.50.0, go1.26.8); nothing in /repo is built with a tag or executed",
        "baseline_off_cmd": baseline,
        "source_commits": [],
        "add_only": True,
    },
    "engines": [{
        "name": "checker",
        "path": "checker/",
        "serves_properties": sorted(claims["checks"].keys()),
        "kind_free_text": "repository-specific static analyser: type-checked SSA, inter-procedurally expanded CFG (effect order, guards), symbolic access paths (value provenance), call-site/writer census, enum-conditioned reachability, lockset and blocking-operation audit, table agreement",
    }],
    "checks": [],
    "not_applicable": [],
    "notes": claims.get("notes", ""),
}
for p in props:
    pid = p["id"]
    if pid in claims["checks"]:
        c = claims["checks"][pid]
        m["checks"].append({
            "property_id": pid,
            "quick_cmd": f"./run.sh {pid} quick",
            "thorough_cmd": f"./run.sh {pid} thorough",
            "evidence_file": f"evidence/{pid}.json",
            "replay_cmd_template": f"./run.sh {pid} quick --replay {{path}}",
            "engine": "checker",
            "level_claimed": {"category": "other", "text": c["text"], "design_ref": c["design_ref"]},
            "level_note": c["note"],
            "technique": c["technique"],
        })
    else:
        m["not_applicable"].append({"property_id": pid, "reason": claims["not_applicable"].get(pid, "rules for this property are not built yet (see DESIGN.md section 4); no claim is made")})
json.dump(m, open(os.path.join(here, "MANIFEST.json"), "w"), indent=1)
print("checks:", len(m["checks"]), "not_applicable:", len(m["not_applicable"]))
