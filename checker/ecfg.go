package main

import (
	"fmt"
	"go/token"
	"go/types"
	"sort"
	"strings"

	"golang.org/x/tools/go/ssa"
)

// ---------------------------------------------------------------------------------------------
// EO primitive: expanded control-flow graph (ECFG).
//
// Nodes are SSA instructions cloned per inlining context, plus pseudo nodes for the two
// outgoing edges of every If (so that "guarded by cond on polarity p" is a must-pass query),
// for function entries and for call returns.

type NodeKind int

const (
	NInstr   NodeKind = iota
	NTrue             // taken edge of an If (cond true)
	NFalse            // cond false
	NEntry            // entry of an (expanded) function
	NCallRet          // return point of an expanded call
)

type Node struct {
	ID   int
	Kind NodeKind
	In   ssa.Instruction // instruction (for NTrue/NFalse: the *ssa.If; for NEntry nil; NCallRet: the call)
	Ctx  *Ctx
	Succ []*Node
	Pred []*Node
	// RetClass for NCallRet nodes split by result correlation: 'A' (err!=nil / true), 'B' (nil / false), 0 (merged)
	RetClass byte
}

func (n *Node) Fn() *ssa.Function {
	if n.Ctx != nil {
		return n.Ctx.Fn
	}
	return nil
}

type GoSite struct {
	Node    *Node
	Targets []funcTarget
}

type Graph struct {
	P         *Prog
	Root      *ssa.Function
	Entry     *Node
	Nodes     []*Node
	Exits     []*Node // Return instructions of the root function
	Undecided []string
	Unbound   []*Node // dynamic calls with no binding (leaf)
	GoSites   []GoSite
	Recursive []*Node // call sites not expanded because of recursion
	DepthCut  []*Node // call sites not expanded because of the depth bound
	opts      ExpandOpts
	ctxN      int

	pendingEdges []pendingEdge
	live         map[*Node]bool
	heads        map[*Ctx]map[*ssa.BasicBlock]*Node
	headOf       map[*Node]*ssa.BasicBlock
	RootCtx      *Ctx
}

type ExpandOpts struct {
	MaxDepth int
	// Stop makes a function a leaf even though it has a body.
	Stop func(fn *ssa.Function) bool
	// Resolve may bind invoke-mode / dynamic calls to concrete functions (e.g. the reference
	// implementation of an interface when the property is about that implementation).
	Resolve func(site ssa.CallInstruction, ctx *Ctx) []*ssa.Function
	// NodeCap bounds the graph size (0 = default).
	NodeCap int
	// RootCtx, if set, is the context of the root function (binds its parameters to a call site
	// of an enclosing analysis so that terms are rendered in the caller's vocabulary).
	RootCtx *Ctx
}

type funcTarget struct {
	Fn         *ssa.Function
	Closure    *ssa.MakeClosure
	ClosureCtx *Ctx
}

func (p *Prog) Expandable(fn *ssa.Function) bool {
	if fn == nil || fn.Blocks == nil {
		return false
	}
	if p.InRepo(fn) {
		return true
	}
	if fn.Synthetic != "" {
		if o := fn.Object(); o != nil && o.Pkg() != nil && p.spkg[o.Pkg().Path()] != nil {
			return true
		}
		// bound method wrappers / thunks have no Object in some versions: look at the receiver type
		if strings.Contains(fn.Synthetic, "bound method wrapper") || strings.Contains(fn.Synthetic, "wrapper for") || strings.Contains(fn.Synthetic, "thunk") {
			return strings.Contains(fn.String(), rootPath)
		}
	}
	return false
}

func BuildECFG(p *Prog, root *ssa.Function, opts ExpandOpts) *Graph {
	if opts.NodeCap == 0 {
		opts.NodeCap = 400000
	}
	g := &Graph{P: p, Root: root, opts: opts, heads: map[*Ctx]map[*ssa.BasicBlock]*Node{}}
	ctx := &Ctx{Fn: root}
	if opts.RootCtx != nil {
		ctx = opts.RootCtx
		ctx.Fn = root
	}
	g.RootCtx = ctx
	entry, exits := g.expand(root, ctx)
	g.Entry = entry
	g.Exits = exits
	g.finalize()
	return g
}

func (g *Graph) newNode(k NodeKind, in ssa.Instruction, ctx *Ctx) *Node {
	n := &Node{ID: len(g.Nodes), Kind: k, In: in, Ctx: ctx}
	g.Nodes = append(g.Nodes, n)
	return n
}

func link(a, b *Node) {
	if a == nil || b == nil {
		return
	}
	for _, s := range a.Succ {
		if s == b {
			return
		}
	}
	a.Succ = append(a.Succ, b)
	b.Pred = append(b.Pred, a)
}

// resolveFuncValue finds the functions a func-typed value may denote.
func (g *Graph) resolveFuncValue(v ssa.Value, ctx *Ctx, depth int) ([]funcTarget, bool) {
	if depth > 8 {
		return nil, false
	}
	switch x := v.(type) {
	case *ssa.Function:
		return []funcTarget{{Fn: x}}, true
	case *ssa.MakeClosure:
		fn, _ := x.Fn.(*ssa.Function)
		return []funcTarget{{Fn: fn, Closure: x, ClosureCtx: ctx}}, true
	case *ssa.ChangeType:
		return g.resolveFuncValue(x.X, ctx, depth+1)
	case *ssa.MakeInterface:
		return g.resolveFuncValue(x.X, ctx, depth+1)
	case *ssa.Parameter:
		if ctx != nil && ctx.Site != nil && ctx.Fn == x.Parent() {
			idx := -1
			for i, q := range x.Parent().Params {
				if q == x {
					idx = i
				}
			}
			args := siteArgs(ctx.Site, ctx.Fn)
			if idx >= 0 && idx < len(args) {
				return g.resolveFuncValue(args[idx], ctx.Parent, depth+1)
			}
		}
		return nil, false
	case *ssa.FreeVar:
		if ctx != nil && ctx.Closure != nil && ctx.Fn == x.Parent() {
			for i, fv := range x.Parent().FreeVars {
				if fv == x && i < len(ctx.Closure.Bindings) {
					return g.resolveFuncValue(ctx.Closure.Bindings[i], ctx.ClosureCtx, depth+1)
				}
			}
		}
		return nil, false
	case *ssa.Phi:
		var out []funcTarget
		for _, e := range x.Edges {
			if c, ok := e.(*ssa.Const); ok && c.Value == nil {
				continue
			}
			ts, ok := g.resolveFuncValue(e, ctx, depth+1)
			if !ok {
				return nil, false
			}
			out = append(out, ts...)
		}
		return out, len(out) > 0
	case *ssa.UnOp:
		if x.Op != token.MUL {
			return nil, false
		}
		switch a := x.X.(type) {
		case *ssa.IndexAddr:
			// an element of a slice of function values (a step list handed to a runner): any of
			// the functions stored into the slice at its construction site (order is not modelled)
			return g.sliceElemFuncs(a.X, ctx, depth+1)
		case *ssa.FieldAddr:
			fns := g.P.FieldFuncs(a)
			if len(fns) == 0 {
				return nil, false
			}
			var out []funcTarget
			for _, t := range fns {
				out = append(out, t)
			}
			return out, true
		case *ssa.Alloc:
			var out []funcTarget
			for _, r := range *a.Referrers() {
				if s, ok := r.(*ssa.Store); ok && s.Addr == a {
					ts, ok := g.resolveFuncValue(s.Val, ctx, depth+1)
					if !ok {
						return nil, false
					}
					out = append(out, ts...)
				}
			}
			return out, len(out) > 0
		case *ssa.FreeVar:
			if ctx != nil && ctx.Closure != nil && ctx.Fn == a.Parent() {
				for i, fv := range a.Parent().FreeVars {
					if fv == a && i < len(ctx.Closure.Bindings) {
						if al, ok := ctx.Closure.Bindings[i].(*ssa.Alloc); ok {
							var out []funcTarget
							for _, r := range *al.Referrers() {
								if s, ok := r.(*ssa.Store); ok && s.Addr == al {
									ts, ok := g.resolveFuncValue(s.Val, ctx.ClosureCtx, depth+1)
									if !ok {
										return nil, false
									}
									out = append(out, ts...)
								}
							}
							return out, len(out) > 0
						}
					}
				}
			}
		}
	}
	return nil, false
}

// sliceElemFuncs: the function values a slice (or array) of functions may hold: follows a slice
// parameter to the caller's argument and a slice expression to the stores into its array.
func (g *Graph) sliceElemFuncs(v ssa.Value, ctx *Ctx, depth int) ([]funcTarget, bool) {
	if depth > 8 {
		return nil, false
	}
	switch x := v.(type) {
	case *ssa.Parameter:
		if ctx != nil && ctx.Site != nil && ctx.Fn == x.Parent() {
			idx := -1
			for i, q := range x.Parent().Params {
				if q == x {
					idx = i
				}
			}
			args := siteArgs(ctx.Site, ctx.Fn)
			if idx >= 0 && idx < len(args) {
				return g.sliceElemFuncs(args[idx], ctx.Parent, depth+1)
			}
		}
	case *ssa.Slice:
		return g.sliceElemFuncs(x.X, ctx, depth+1)
	case *ssa.Alloc:
		var out []funcTarget
		for _, r := range *x.Referrers() {
			ia, ok := r.(*ssa.IndexAddr)
			if !ok {
				continue
			}
			for _, rr := range *ia.Referrers() {
				if st, ok := rr.(*ssa.Store); ok && st.Addr == ssa.Value(ia) {
					ts, ok := g.resolveFuncValue(st.Val, ctx, depth+1)
					if !ok {
						return nil, false
					}
					out = append(out, ts...)
				}
			}
		}
		return out, len(out) > 0
	}
	return nil, false
}

// FieldFuncs: census of the function values stored into a func-typed struct field anywhere in
// the program (CS primitive used to bind test seams such as Manager.publishBlock).
func (p *Prog) FieldFuncs(fa *ssa.FieldAddr) []funcTarget {
	key := fieldKey(fa.X.Type(), fa.Field)
	if p.fieldBind == nil {
		p.fieldBind = map[string][]*ssa.Function{}
		p.fieldBindT = map[string][]funcTarget{}
		for _, fn := range p.Funcs {
			for _, b := range fn.Blocks {
				for _, in := range b.Instrs {
					st, ok := in.(*ssa.Store)
					if !ok {
						continue
					}
					a, ok := st.Addr.(*ssa.FieldAddr)
					if !ok {
						continue
					}
					if _, isSig := st.Val.Type().Underlying().(*types.Signature); !isSig {
						continue
					}
					k := fieldKey(a.X.Type(), a.Field)
					val := st.Val
					for {
						if ct, ok := val.(*ssa.ChangeType); ok {
							val = ct.X
							continue
						}
						break
					}
					switch v := val.(type) {
					case *ssa.Function:
						p.fieldBindT[k] = append(p.fieldBindT[k], funcTarget{Fn: v})
					case *ssa.MakeClosure:
						f, _ := v.Fn.(*ssa.Function)
						p.fieldBindT[k] = append(p.fieldBindT[k], funcTarget{Fn: f, Closure: v, ClosureCtx: &Ctx{Fn: fn}})
					case *ssa.Const:
						// nil store: not a target
					default:
						p.fieldBindT[k] = append(p.fieldBindT[k], funcTarget{}) // unknown store
					}
				}
			}
		}
	}
	ts := p.fieldBindT[key]
	for _, t := range ts {
		if t.Fn == nil {
			return nil // some store is not resolvable: unbound
		}
	}
	return ts
}

func fieldKey(t types.Type, field int) string {
	if p, ok := t.Underlying().(*types.Pointer); ok {
		t = p.Elem()
	}
	return fmt.Sprintf("%s#%d", types.TypeString(t, nil), field)
}

// callTargets decides what a call site may invoke. expandable: functions to inline. leaf: treat as a leaf node.
func (g *Graph) callTargets(site ssa.CallInstruction, ctx *Ctx) (targets []funcTarget, dynamicUnbound bool) {
	cc := site.Common()
	if cc.IsInvoke() {
		if g.opts.Resolve != nil {
			for _, f := range g.opts.Resolve(site, ctx) {
				targets = append(targets, funcTarget{Fn: f})
			}
		}
		return targets, false
	}
	if fn := cc.StaticCallee(); fn != nil {
		if mc, ok := cc.Value.(*ssa.MakeClosure); ok {
			return []funcTarget{{Fn: fn, Closure: mc, ClosureCtx: ctx}}, false
		}
		return []funcTarget{{Fn: fn}}, false
	}
	if _, ok := cc.Value.(*ssa.Builtin); ok {
		return nil, false
	}
	ts, ok := g.resolveFuncValue(cc.Value, ctx, 0)
	if ok {
		return ts, false
	}
	if g.opts.Resolve != nil {
		if fs := g.opts.Resolve(site, ctx); len(fs) > 0 {
			for _, f := range fs {
				targets = append(targets, funcTarget{Fn: f})
			}
			return targets, false
		}
	}
	return nil, true
}

// closureArgs: function values passed as arguments to a call that is not expanded (library
// call such as errgroup.Group.Go, sync.Once.Do): they may be invoked during the call.
func (g *Graph) closureArgs(site ssa.CallInstruction, ctx *Ctx) []funcTarget {
	var out []funcTarget
	cc := site.Common()
	for _, a := range cc.Args {
		if _, ok := a.Type().Underlying().(*types.Signature); !ok {
			continue
		}
		if ts, ok := g.resolveFuncValue(a, ctx, 0); ok {
			out = append(out, ts...)
		}
	}
	return out
}

type retClass byte

const (
	rcU retClass = 0
	rcA retClass = 'A' // error non-nil / bool true
	rcB retClass = 'B' // error nil / bool false
)

// classifyReturn classifies result k of a Return instruction.
func classifyReturn(ret *ssa.Return, k int) retClass {
	if k < 0 || k >= len(ret.Results) {
		return rcU
	}
	return classifyValueAt(spilledResult(ret, k), ret.Block())
}

func classifyValueAt(v ssa.Value, at *ssa.BasicBlock) retClass {
	switch x := v.(type) {
	case *ssa.Const:
		if x.Value == nil {
			if isBoolType(x.Type()) {
				return rcU
			}
			return rcB
		}
		if isBoolType(x.Type()) {
			if x.Value.String() == "true" {
				return rcA
			}
			return rcB
		}
		return rcU
	case *ssa.MakeInterface:
		return rcA
	case *ssa.Alloc:
		return rcA // the address of a local or a literal is never nil
	case *ssa.Call:
		if fn := x.Common().StaticCallee(); fn != nil {
			switch fn.String() {
			case "fmt.Errorf", "errors.New":
				return rcA
			}
		}
		if x.Common().IsInvoke() && x.Common().Method != nil && x.Common().Method.FullName() == "(context.Context).Err" {
			// ctx.Err() is non-nil only once the context is done: returned from the case of a
			// select (the <-ctx.Done() case) or behind a test of ctx.Err() itself it is an error
			// return; anywhere else it may well be nil ("return ctx.Err()" on a path chosen by
			// something other than this context reports success while the context is alive)
			if at != nil {
				for d := at; d != nil; d = d.Idom() {
					if d.Comment == "select.body" {
						return rcA
					}
					if id := d.Idom(); id != nil && len(id.Instrs) > 0 {
						if ifi, ok := id.Instrs[len(id.Instrs)-1].(*ssa.If); ok && len(id.Succs) == 2 && id.Succs[0] == d {
							if b, ok := ifi.Cond.(*ssa.BinOp); ok && b.Op == token.NEQ {
								if c2, ok := b.X.(*ssa.Call); ok && c2.Common().IsInvoke() && c2.Common().Method != nil && c2.Common().Method.FullName() == "(context.Context).Err" {
									return rcA
								}
							}
						}
					}
				}
			}
			return rcU
		}
	case *ssa.UnOp:
		if x.Op == token.MUL {
			if gl, ok := x.X.(*ssa.Global); ok && strings.HasPrefix(gl.Name(), "Err") {
				return rcA
			}
		}
	}
	// dominated by a nil test of v
	if at == nil {
		return rcU
	}
	for d := at.Idom(); d != nil; d = d.Idom() {
		ifi, ok := d.Instrs[len(d.Instrs)-1].(*ssa.If)
		if !ok {
			continue
		}
		pol, ok := nilTestOf(ifi.Cond, v)
		if !ok {
			continue
		}
		// pol: true => cond true means v != nil
		t, f := d.Succs[0], d.Succs[1]
		if t != f && len(t.Preds) == 1 && t.Dominates(at) {
			if pol {
				return rcA
			}
			return rcB
		}
		if t != f && len(f.Preds) == 1 && f.Dominates(at) {
			if pol {
				return rcB
			}
			return rcA
		}
	}
	// the block itself may be the direct successor
	return rcU
}

func isBoolType(t types.Type) bool {
	b, ok := t.Underlying().(*types.Basic)
	return ok && b.Info()&types.IsBoolean != 0
}

// nilTestOf: cond is `v != nil` (true,true) or `v == nil` (false,true); for bools `v` / `!v`.
func nilTestOf(cond ssa.Value, v ssa.Value) (nonNilOnTrue bool, ok bool) {
	if cond == v && isBoolType(v.Type()) {
		return true, true
	}
	switch c := cond.(type) {
	case *ssa.BinOp:
		if c.Op != token.NEQ && c.Op != token.EQL {
			return false, false
		}
		var other ssa.Value
		if c.X == v {
			other = c.Y
		} else if c.Y == v {
			other = c.X
		} else {
			return false, false
		}
		k, isC := other.(*ssa.Const)
		if !isC {
			return false, false
		}
		if k.Value == nil {
			return c.Op == token.NEQ, true
		}
		if isBoolType(k.Type()) {
			isTrue := k.Value.String() == "true"
			return (c.Op == token.EQL) == isTrue, true
		}
	case *ssa.UnOp:
		if c.Op == token.NOT && c.X == v {
			return false, true
		}
	}
	return false, false
}

// corrResult: the result index of callee that callers branch on (last error result, or sole bool).
func corrResult(fn *ssa.Function) int {
	res := fn.Signature.Results()
	if res.Len() == 0 {
		return -1
	}
	last := res.At(res.Len() - 1).Type()
	if types.Identical(last, types.Universe.Lookup("error").Type()) {
		return res.Len() - 1
	}
	if isBoolType(last) {
		return res.Len() - 1
	}
	return -1
}

func (g *Graph) expand(fn *ssa.Function, ctx *Ctx) (*Node, []*Node) {
	g.ctxN++
	ctx.id = g.ctxN
	entry := g.newNode(NEntry, nil, ctx)
	if len(g.Nodes) > g.opts.NodeCap {
		g.Undecided = append(g.Undecided, "node cap exceeded at "+ctx.String())
		return entry, []*Node{entry}
	}
	first := map[*ssa.BasicBlock]*Node{}
	// head placeholder per block so that edges can be linked before the body is built
	for _, b := range fn.Blocks {
		first[b] = g.newNode(NInstr, nil, ctx) // filled below: acts as a no-op head
	}
	g.heads[ctx] = first
	var exits []*Node
	// collect defers (for RunDefers)
	type deferSite struct {
		in *ssa.Defer
	}
	var defers []deferSite
	for _, b := range fn.Blocks {
		for _, in := range b.Instrs {
			if d, ok := in.(*ssa.Defer); ok {
				defers = append(defers, deferSite{d})
			}
		}
	}
	link(entry, first[fn.Blocks[0]])
	for _, b := range fn.Blocks {
		tails := []*Node{first[b]}
		addSeq := func(n *Node) {
			for _, t := range tails {
				link(t, n)
			}
			tails = []*Node{n}
		}
		for idx, in := range b.Instrs {
			switch x := in.(type) {
			case *ssa.If:
				n := g.newNode(NInstr, in, ctx)
				addSeq(n)
				tn := g.newNode(NTrue, in, ctx)
				fnn := g.newNode(NFalse, in, ctx)
				link(n, tn)
				link(n, fnn)
				link(tn, first[b.Succs[0]])
				link(fnn, first[b.Succs[1]])
				tails = nil
			case *ssa.Jump:
				n := g.newNode(NInstr, in, ctx)
				addSeq(n)
				link(n, first[b.Succs[0]])
				tails = nil
			case *ssa.Return:
				n := g.newNode(NInstr, in, ctx)
				addSeq(n)
				exits = append(exits, n)
				tails = nil
			case *ssa.Panic:
				n := g.newNode(NInstr, in, ctx)
				addSeq(n)
				tails = nil
			case *ssa.Go:
				n := g.newNode(NInstr, in, ctx)
				addSeq(n)
				ts, _ := g.callTargets(x, ctx)
				g.GoSites = append(g.GoSites, GoSite{Node: n, Targets: ts})
			case *ssa.Defer:
				n := g.newNode(NInstr, in, ctx)
				addSeq(n)
			case *ssa.RunDefers:
				n := g.newNode(NInstr, in, ctx)
				addSeq(n)
				for i := len(defers) - 1; i >= 0; i-- {
					d := defers[i].in
					before := tails
					g.expandCall(d, ctx, &tails, b, idx, false)
					if !d.Block().Dominates(b) {
						// the defer may not have been registered on this path
						tails = append(tails, before...)
					}
				}
			case *ssa.Call:
				n := g.newNode(NInstr, in, ctx)
				addSeq(n)
				g.expandCallFrom(n, x, ctx, &tails, b, idx)
			default:
				n := g.newNode(NInstr, in, ctx)
				addSeq(n)
			}
		}
	}
	return entry, exits
}

// expandCall expands a deferred call at the current tails.
func (g *Graph) expandCall(site ssa.CallInstruction, ctx *Ctx, tails *[]*Node, b *ssa.BasicBlock, idx int, _ bool) {
	n := g.newNode(NInstr, deferredCall{site.(*ssa.Defer)}, ctx)
	for _, t := range *tails {
		link(t, n)
	}
	*tails = []*Node{n}
	g.expandCallFrom(n, site, ctx, tails, nil, -1)
}

// deferredCall marks the execution point of a deferred call (as opposed to its registration).
type deferredCall struct{ *ssa.Defer }

func (g *Graph) expandCallFrom(n *Node, site ssa.CallInstruction, ctx *Ctx, tails *[]*Node, b *ssa.BasicBlock, idx int) {
	targets, unbound := g.callTargets(site, ctx)
	if unbound {
		g.Unbound = append(g.Unbound, n)
	}
	var exp []funcTarget
	mayCall := false
	for _, t := range targets {
		if t.Fn == nil {
			continue
		}
		if !g.P.Expandable(t.Fn) || (g.opts.Stop != nil && g.opts.Stop(t.Fn)) {
			continue
		}
		exp = append(exp, t)
	}
	if len(exp) == 0 {
		// leaf call: closures passed as arguments may run inside it
		cl := g.closureArgs(site, ctx)
		for _, t := range cl {
			if t.Fn != nil && g.P.Expandable(t.Fn) && !(g.opts.Stop != nil && g.opts.Stop(t.Fn)) {
				exp = append(exp, t)
				mayCall = true
			}
		}
		if len(exp) == 0 {
			return
		}
	}
	if ctx.Depth-g.RootCtx.Depth >= g.opts.MaxDepth {
		// a function's own closures (a loop body or a step wrapped in a func literal that is
		// called on the spot) are part of its body: they are expanded beyond the depth bound
		own := ctx.Depth-g.RootCtx.Depth < g.opts.MaxDepth+3
		for _, t := range exp {
			if t.Closure == nil || t.Fn == nil || topParent(t.Fn) != topParent(ctx.Fn) {
				own = false
			}
		}
		if !own {
			g.DepthCut = append(g.DepthCut, n)
			return
		}
	}
	// result correlation only for a single, definite callee
	corr := -1
	if !mayCall && len(exp) == 1 && b != nil {
		corr = corrResult(exp[0].Fn)
		// the caller may branch on another bool/error result of the callee (e.g. a `stop` flag
		// returned next to the error): correlate on the one the block's If actually tests
		if x, isIf := b.Instrs[len(b.Instrs)-1].(*ssa.If); isIf {
			// a single pointer result tested against nil ("non-nil only on failure")
			if call, isCall := site.(*ssa.Call); isCall && corr < 0 && exp[0].Fn.Signature.Results().Len() == 1 {
				if _, isPtr := exp[0].Fn.Signature.Results().At(0).Type().Underlying().(*types.Pointer); isPtr {
					if _, ok := nilTestOf(x.Cond, call); ok {
						corr = 0
					}
				}
			}
			if call, isCall := site.(*ssa.Call); isCall && exp[0].Fn.Signature.Results().Len() > 1 {
				res := exp[0].Fn.Signature.Results()
				for _, r := range *call.Referrers() {
					e, isE := r.(*ssa.Extract)
					if !isE || e.Index >= res.Len() {
						continue
					}
					rt := res.At(e.Index).Type()
					if !isBoolType(rt) && !types.Identical(rt, types.Universe.Lookup("error").Type()) {
						continue
					}
					if _, ok := nilTestOf(x.Cond, e); ok {
						corr = e.Index
					}
				}
			}
		}
	}
	var crA, crB, cr *Node
	split := false
	var tailInstrs []ssa.Instruction
	var ifi *ssa.If
	var polOnTrue bool
	if corr >= 0 {
		// the rest of the block must be free of expandable calls and end in an If on that result
		ok := true
		rest := b.Instrs[idx+1:]
		if len(rest) == 0 {
			ok = false
		} else if x, isIf := rest[len(rest)-1].(*ssa.If); isIf {
			ifi = x
		} else {
			ok = false
		}
		var resV ssa.Value
		if ok {
			call, isCall := site.(*ssa.Call)
			if !isCall {
				ok = false
			} else if exp[0].Fn.Signature.Results().Len() == 1 {
				resV = call
			} else {
				for _, r := range *call.Referrers() {
					if e, isE := r.(*ssa.Extract); isE && e.Index == corr {
						resV = e
					}
				}
			}
		}
		if ok && resV != nil {
			pol, isTest := nilTestOf(ifi.Cond, resV)
			if !isTest {
				ok = false
			}
			polOnTrue = pol
		} else {
			ok = false
		}
		if ok {
			for _, in := range rest[:len(rest)-1] {
				switch in.(type) {
				case *ssa.Call, *ssa.Go, *ssa.Defer, *ssa.RunDefers, *ssa.Select:
					if c, isC := in.(*ssa.Call); isC {
						ts, _ := g.callTargets(c, ctx)
						leaf := true
						for _, t := range ts {
							if t.Fn != nil && g.P.Expandable(t.Fn) {
								leaf = false
							}
						}
						if len(g.closureArgs(c, ctx)) > 0 {
							leaf = false
						}
						if leaf {
							tailInstrs = append(tailInstrs, in)
							continue
						}
					}
					ok = false
				default:
					tailInstrs = append(tailInstrs, in)
				}
			}
		}
		split = ok
	}
	if split {
		crA = g.newNode(NCallRet, site, ctx)
		crA.RetClass = 'A'
		crB = g.newNode(NCallRet, site, ctx)
		crB.RetClass = 'B'
	} else {
		cr = g.newNode(NCallRet, site, ctx)
	}
	for _, t := range exp {
		if ctx.has(t.Fn) {
			g.Recursive = append(g.Recursive, n)
			continue
		}
		cctx := &Ctx{Parent: ctx, Site: site, Fn: t.Fn, Depth: ctx.Depth + 1, Closure: t.Closure, ClosureCtx: t.ClosureCtx}
		if mayCall {
			// called by a library function: parameters are not bound to the library call's arguments
			cctx.Site = nil
		}
		e, xs := g.expand(t.Fn, cctx)
		link(n, e)
		for _, x := range xs {
			if split {
				ret, _ := x.In.(*ssa.Return)
				cls := rcU
				if ret != nil {
					cls = classifyReturn(ret, corr)
				}
				switch cls {
				case rcA:
					link(x, crA)
				case rcB:
					link(x, crB)
				default:
					link(x, crA)
					link(x, crB)
				}
			} else {
				link(x, cr)
			}
		}
	}
	if split {
		// duplicate the straight-line tail of the block for each class and prune the contradicted edge
		mkTail := func(start *Node, wantNonNil bool) {
			cur := start
			for _, in := range tailInstrs {
				nn := g.newNode(NInstr, in, ctx)
				link(cur, nn)
				cur = nn
			}
			in := g.newNode(NInstr, ifi, ctx)
			link(cur, in)
			takeTrue := wantNonNil == polOnTrue
			var en *Node
			if takeTrue {
				en = g.newNode(NTrue, ifi, ctx)
			} else {
				en = g.newNode(NFalse, ifi, ctx)
			}
			link(in, en)
			g.pendingEdges = append(g.pendingEdges, pendingEdge{en, b, takeTrue})
		}
		mkTail(crA, true)
		mkTail(crB, false)
		// The caller's loop continues over the remaining instructions of the block with no
		// tails, so the original copies are unreachable (harmless); the duplicated edges are
		// linked to the successor blocks in finalize().
		*tails = nil
		return
	}
	if mayCall || len(cr.Pred) == 0 {
		link(n, cr)
	}
	*tails = []*Node{cr}
}

type pendingEdge struct {
	from   *Node
	b      *ssa.BasicBlock
	isTrue bool
}

// finalize resolves pending edges: for each (from, block, polarity) find the original edge
// pseudo node of that block's If in the same context and copy its successors.
func (g *Graph) finalize() {
	if len(g.pendingEdges) == 0 {
		return
	}
	type key struct {
		in  ssa.Instruction
		ctx *Ctx
		k   NodeKind
	}
	idx := map[key]*Node{}
	dup := map[*Node]bool{}
	for _, pe := range g.pendingEdges {
		dup[pe.from] = true
	}
	for _, n := range g.Nodes {
		if (n.Kind == NTrue || n.Kind == NFalse) && !dup[n] {
			idx[key{n.In, n.Ctx, n.Kind}] = n
		}
	}
	for _, pe := range g.pendingEdges {
		orig := idx[key{pe.from.In, pe.from.Ctx, pe.from.Kind}]
		if orig == nil {
			g.Undecided = append(g.Undecided, "internal: pending edge without original")
			continue
		}
		for _, s := range orig.Succ {
			link(pe.from, s)
		}
	}
	g.pendingEdges = nil
}

// ---------------------------------------------------------------------------------------------
// Queries

type NodePred func(*Node) bool

// PathAvoiding returns a witness path from any node in from to a node satisfying to, not passing
// through a node satisfying avoid (from-nodes themselves are not tested against avoid; the
// target is tested for `to` before `avoid`). nil if there is none.
func (g *Graph) PathAvoiding(from []*Node, to NodePred, avoid NodePred) []*Node {
	// The search is path-sensitive in one respect: values of a named basic type (an outcome enum:
	// "advanced" / "wait" / "stop") are propagated along the path when they are constants — the
	// constant an expanded callee returns at the return site the path leaves it through, and the
	// constant a phi takes on the edge the path enters its block by. A branch that compares such a
	// value with a different constant is not taken. State = (node, known constants).
	type state struct {
		n   *Node
		env string // canonical rendering of the known constants
	}
	envs := map[string]map[ssa.Value]string{"": {}}
	keyOf := func(m map[ssa.Value]string) string {
		if len(m) == 0 {
			return ""
		}
		var parts []string
		for v, k := range m {
			parts = append(parts, fmt.Sprintf("%p=%s", v, k))
		}
		sort.Strings(parts)
		key := strings.Join(parts, ";")
		if _, ok := envs[key]; !ok {
			envs[key] = m
		}
		return key
	}
	with := func(env string, v ssa.Value, k string, set bool) string {
		old := envs[env]
		if cur, has := old[v]; (set && has && cur == k) || (!set && !has) {
			return env
		}
		m := make(map[ssa.Value]string, len(old)+1)
		for a, b := range old {
			m[a] = b
		}
		if set {
			m[v] = k
		} else {
			delete(m, v)
		}
		return keyOf(m)
	}
	enumLike := func(t types.Type) bool {
		if _, named := t.(*types.Named); !named {
			return false
		}
		b, ok := t.Underlying().(*types.Basic)
		return ok && b.Info()&types.IsBoolean == 0 && b.Info()&(types.IsInteger|types.IsString) != 0
	}
	blockOf := func(n *Node) *ssa.BasicBlock {
		if n.In != nil {
			return n.In.Block()
		}
		return nil
	}
	prev := map[state]state{}
	seen := map[state]bool{}
	var q []state
	// seeds are not marked seen: a seed that is also a target must be found when reached again
	isSeed := map[*Node]bool{}
	for _, f := range from {
		isSeed[f] = true
		q = append(q, state{n: f})
	}
	for len(q) > 0 {
		cur := q[0]
		q = q[1:]
		n := cur.n
		for _, s := range n.Succ {
			env := cur.env
			// leaving an expanded callee through a return of a constant
			if s.Kind == NCallRet && n.In != nil {
				if ret, isRet := n.In.(*ssa.Return); isRet && n.Ctx != nil && n.Ctx.Site != nil && n.Ctx.Site == s.In {
					if sv, isV := n.Ctx.Site.(ssa.Value); isV && len(ret.Results) == 1 && enumLike(sv.Type()) {
						if k, ok := constResult(ret); ok {
							env = with(env, sv, k, true)
						} else {
							env = with(env, sv, "", false)
						}
					}
				}
			}
			// entering a block: the phis take the value of the edge the path comes by
			if sb := g.headBlock(s); sb != nil && n.Ctx == s.Ctx {
				if pb := blockOf(n); pb != nil {
					idx := -1
					for i, p := range sb.Preds {
						if p == pb {
							idx = i
						}
					}
					if idx >= 0 {
						for _, in := range sb.Instrs {
							phi, isPhi := in.(*ssa.Phi)
							if !isPhi {
								break
							}
							if !enumLike(phi.Type()) {
								continue
							}
							e := phi.Edges[idx]
							if c, isC := e.(*ssa.Const); isC && c.Value != nil {
								env = with(env, phi, c.Value.ExactString(), true)
							} else if k, has := envs[env][e]; has {
								env = with(env, phi, k, true)
							} else {
								env = with(env, phi, "", false)
							}
						}
					}
				}
			}
			if (s.Kind == NTrue || s.Kind == NFalse) && env != "" {
				if ifi, isIf := s.In.(*ssa.If); isIf {
					infeasible := false
					for v, k := range envs[env] {
						if feasible, known := branchOnConst(ifi, v, k, s.Kind == NTrue); known && !feasible {
							infeasible = true
						}
					}
					if infeasible {
						continue
					}
				}
			}
			nxt := state{n: s, env: env}
			if seen[nxt] {
				continue
			}
			if isSeed[s] && !(to != nil && to(s)) {
				// already queued as a seed: do not give it a predecessor (that would make the
				// witness chain cyclic)
				seen[nxt] = true
				continue
			}
			if to != nil && to(s) {
				// walk back to the seed the search started from; the target may itself be a
				// seed (a cycle through a loop header), so it is not given a predecessor
				path := []*Node{s}
				x, okx := cur, true
				for okx && len(path) <= 4*len(g.Nodes)+1 {
					path = append(path, x.n)
					if isSeed[x.n] {
						break
					}
					x, okx = prev[x]
				}
				for i, j := 0, len(path)-1; i < j; i, j = i+1, j-1 {
					path[i], path[j] = path[j], path[i]
				}
				return path
			}
			if avoid != nil && avoid(s) {
				continue
			}
			seen[nxt] = true
			prev[nxt] = cur
			q = append(q, nxt)
		}
	}
	return nil
}

// headBlock: the basic block whose (placeholder) head node n is, nil if n is not a block head.
func (g *Graph) headBlock(n *Node) *ssa.BasicBlock {
	if g.headOf == nil {
		g.headOf = map[*Node]*ssa.BasicBlock{}
		for _, m := range g.heads {
			for b, h := range m {
				g.headOf[h] = b
			}
		}
	}
	return g.headOf[n]
}

// constResult: the function returns a single value and this return site hands back a constant of
// a basic, non-boolean type (an outcome code).
func constResult(ret *ssa.Return) (string, bool) {
	if len(ret.Results) != 1 {
		return "", false
	}
	k, ok := ret.Results[0].(*ssa.Const)
	if !ok || k.Value == nil {
		return "", false
	}
	if b, isB := k.Type().Underlying().(*types.Basic); !isB || b.Info()&types.IsBoolean != 0 {
		return "", false
	}
	return k.Value.ExactString(), true
}

// branchOnConst: the If compares the value of the call site with a constant; given that the call
// returned k, is the edge (true / false) feasible? known=false if the If is not such a test.
func branchOnConst(ifi *ssa.If, site ssa.Value, k string, onTrue bool) (feasible, known bool) {
	b, ok := ifi.Cond.(*ssa.BinOp)
	if !ok || (b.Op != token.EQL && b.Op != token.NEQ) {
		return true, false
	}
	var other ssa.Value
	switch {
	case b.X == site:
		other = b.Y
	case b.Y == site:
		other = b.X
	default:
		return true, false
	}
	c, ok := other.(*ssa.Const)
	if !ok || c.Value == nil {
		return true, false
	}
	eq := c.Value.ExactString() == k
	if b.Op == token.NEQ {
		eq = !eq
	}
	return eq == onTrue, true
}

// Reachable returns the set of nodes reachable from from without passing through avoid.
func (g *Graph) Reachable(from []*Node, avoid NodePred) map[*Node]bool {
	seen := map[*Node]bool{}
	var q []*Node
	for _, f := range from {
		if !seen[f] {
			seen[f] = true
			q = append(q, f)
		}
	}
	for len(q) > 0 {
		n := q[0]
		q = q[1:]
		for _, s := range n.Succ {
			if seen[s] || (avoid != nil && avoid(s)) {
				continue
			}
			seen[s] = true
			q = append(q, s)
		}
	}
	return seen
}

// Live returns nodes reachable from the entry (the duplicated-tail refinement leaves dead originals).
func (g *Graph) Live() map[*Node]bool {
	if g.live == nil {
		g.live = g.Reachable([]*Node{g.Entry}, nil)
	}
	return g.live
}

func (g *Graph) Select(pred NodePred) []*Node {
	var out []*Node
	live := g.Live()
	for _, n := range g.Nodes {
		if live[n] && pred(n) {
			out = append(out, n)
		}
	}
	return out
}

// MustPrecede: every path entry -> b passes a. Returns a counterexample path or nil.
func (g *Graph) MustPrecede(a, b NodePred) []*Node {
	if b(g.Entry) {
		return []*Node{g.Entry}
	}
	return g.PathAvoiding([]*Node{g.Entry}, b, a)
}

// NeverAfter: no path from an a-node to a b-node. Returns a counterexample.
func (g *Graph) NeverAfter(a, b NodePred) []*Node {
	as := g.Select(a)
	if len(as) == 0 {
		return nil
	}
	return g.PathAvoiding(as, b, nil)
}

// ExitKind classifies root returns.
func (g *Graph) ExitClass(n *Node) retClass {
	ret, ok := n.In.(*ssa.Return)
	if !ok {
		return rcU
	}
	return classifyReturn(ret, corrResult(g.Root))
}

// SuccessExits: root returns that are not definitely error returns.
func (g *Graph) SuccessExits() NodePred {
	set := map[*Node]bool{}
	live := g.Live()
	// a return that hands on the results of an inlined helper ("return decode(b)") is a success
	// or an error return depending on the helper's return that was taken: the helper's own
	// non-error returns stand for it
	var add func(x *Node, k int, depth int)
	add = func(x *Node, k int, depth int) {
		ret, ok := x.In.(*ssa.Return)
		if !ok {
			return
		}
		if classifyReturn(ret, k) == rcA {
			return
		}
		if k >= 0 && k < len(ret.Results) && depth < 4 {
			v := spilledResult(ret, k)
			var call *ssa.Call
			idx := 0
			switch y := v.(type) {
			case *ssa.Extract:
				call, _ = y.Tuple.(*ssa.Call)
				idx = y.Index
			case *ssa.Call:
				call = y
			}
			if call != nil {
				var rets []*Node
				for _, n := range g.Nodes {
					if _, isRet := n.In.(*ssa.Return); isRet && n.Kind == NInstr && live[n] && n.Ctx != nil && n.Ctx.Parent == x.Ctx && n.Ctx.Site != nil && n.Ctx.Site == ssa.CallInstruction(call) {
						rets = append(rets, n)
					}
				}
				if len(rets) > 0 {
					for _, r := range rets {
						add(r, idx, depth+1)
					}
					return
				}
			}
		}
		set[x] = true
	}
	for _, x := range g.Exits {
		add(x, corrResult(g.Root), 0)
	}
	return func(n *Node) bool { return set[n] }
}

func (g *Graph) AnyExit() NodePred {
	set := map[*Node]bool{}
	for _, x := range g.Exits {
		set[x] = true
	}
	return func(n *Node) bool { return set[n] }
}

// MustFollow: every path from an a-node to a success exit passes b. Returns a counterexample.
func (g *Graph) MustFollow(a, b NodePred, exits NodePred) []*Node {
	as := g.Select(a)
	if len(as) == 0 {
		return nil
	}
	return g.PathAvoiding(as, exits, b)
}

// ---------------------------------------------------------------------------------------------
// Node predicates and helpers

// CallName returns the resolved callee name of a call node: static callee full name, or the
// interface method full name for invoke-mode calls, "" otherwise. Deferred executions count.
func CallName(n *Node) string {
	if n.Kind != NInstr || n.In == nil {
		return ""
	}
	var cc *ssa.CallCommon
	switch x := n.In.(type) {
	case *ssa.Call:
		cc = x.Common()
	case deferredCall:
		cc = x.Defer.Common()
	case *ssa.Go:
		return ""
	default:
		return ""
	}
	return commonName(cc)
}

func commonName(cc *ssa.CallCommon) string {
	if cc.IsInvoke() {
		return cc.Method.FullName()
	}
	if fn := cc.StaticCallee(); fn != nil {
		if fn.Synthetic != "" && fn.Object() != nil {
			if f, ok := fn.Object().(*types.Func); ok {
				if alias, ok := identAlias[f.Origin()]; ok {
					return genericName(replaceIdent(f.FullName(), f.Name(), alias))
				}
				return genericName(f.FullName())
			}
		}
		// instantiations: collapse type arguments so that rules are not sensitive to them
		return genericName(canonFnString(fn))
	}
	if b, ok := cc.Value.(*ssa.Builtin); ok {
		return b.Name()
	}
	return ""
}

// IsCall matches call nodes whose resolved name equals one of names (full names).
func IsCall(names ...string) NodePred {
	set := map[string]bool{}
	for _, n := range names {
		set[n] = true
	}
	return func(n *Node) bool {
		cn := CallName(n)
		return cn != "" && set[cn]
	}
}

func CallCommonOf(n *Node) *ssa.CallCommon {
	if n.Kind != NInstr || n.In == nil {
		return nil
	}
	switch x := n.In.(type) {
	case *ssa.Call:
		return x.Common()
	case deferredCall:
		return x.Defer.Common()
	case *ssa.Go:
		return x.Common()
	}
	return nil
}

// ArgTerm renders argument i (receiver excluded for invoke; included at index 0 for static methods as in SSA).
func ArgTerm(n *Node, i int) *Term {
	cc := CallCommonOf(n)
	if cc == nil || i >= len(cc.Args) {
		return nil
	}
	return TermOf(cc.Args[i], n.Ctx)
}

// RecvTerm renders the receiver of an invoke-mode call or the first argument of a method call.
func RecvTerm(n *Node) *Term {
	cc := CallCommonOf(n)
	if cc == nil {
		return nil
	}
	if cc.IsInvoke() {
		return TermOf(cc.Value, n.Ctx)
	}
	if len(cc.Args) > 0 {
		return TermOf(cc.Args[0], n.Ctx)
	}
	return nil
}

// CondTerm renders the condition of an edge pseudo node, with polarity.
func CondTerm(n *Node) (t *Term, polarity bool) {
	ifi, ok := n.In.(*ssa.If)
	if !ok || (n.Kind != NTrue && n.Kind != NFalse) {
		return nil, false
	}
	return TermOf(ifi.Cond, n.Ctx), n.Kind == NTrue
}

func (g *Graph) Describe(n *Node) string {
	if n == nil {
		return "<nil>"
	}
	switch n.Kind {
	case NEntry:
		return "entry " + shortName(fnName(n.Ctx.Fn))
	case NCallRet:
		return "return-from-call " + g.P.InstrPos(n.In)
	case NTrue, NFalse:
		t, pol := CondTerm(n)
		return fmt.Sprintf("edge[%v] %s @%s", pol, trunc(t.String(), 120), g.P.InstrPos(n.In))
	}
	if n.In == nil {
		return "block-head"
	}
	if dc, ok := n.In.(deferredCall); ok {
		return "deferred " + trunc(dc.Defer.String(), 100) + " @" + g.P.InstrPos(dc.Defer)
	}
	return trunc(n.In.String(), 100) + " @" + g.P.InstrPos(n.In)
}

func trunc(s string, n int) string {
	if len(s) > n {
		return s[:n] + "…"
	}
	return s
}

// DescribePath summarises a witness path: calls, taken edges with conditions, returns.
func (g *Graph) DescribePath(path []*Node) []string {
	var out []string
	for i, n := range path {
		keep := i == 0 || i == len(path)-1
		if n.Ctx != nil && n.Ctx.Depth > 1 && !keep {
			continue // keep witnesses readable: only the entry function and its direct callees
		}
		switch n.Kind {
		case NTrue, NFalse, NEntry:
			keep = true
		case NInstr:
			switch n.In.(type) {
			case *ssa.Call, *ssa.Return, deferredCall, *ssa.Go, *ssa.Send, *ssa.Select:
				keep = true
			}
		}
		if keep {
			out = append(out, g.Describe(n))
		}
	}
	if len(out) > 40 {
		out = append(append(out[:20:20], "…"), out[len(out)-19:]...)
	}
	return out
}

// Edge predicates -----------------------------------------------------------------------------

// EdgeWhere matches edge pseudo nodes whose (condition term, polarity) satisfy f.
func EdgeWhere(f func(t *Term, pol bool, n *Node) bool) NodePred {
	return func(n *Node) bool {
		if n.Kind != NTrue && n.Kind != NFalse {
			return false
		}
		t, pol := CondTerm(n)
		return f(t, pol, n)
	}
}

// ErrNilEdge matches the edge on which the error result of a call matching callPred is nil:
// cond `r != nil` false-edge or `r == nil` true-edge where r is (an extract of) the call.
// For bool results use BoolEdge.
func ErrNilEdge(callPred func(t *Term) bool) NodePred {
	return EdgeWhere(func(t *Term, pol bool, n *Node) bool {
		if t.Op != "bin" || (t.Name != "!=" && t.Name != "==") {
			return false
		}
		var other *Term
		if t.Args[1].Op == "const" && t.Args[1].Name == "nil" {
			other = t.Args[0]
		} else if t.Args[0].Op == "const" && t.Args[0].Name == "nil" {
			other = t.Args[1]
		} else {
			return false
		}
		if other.Op == "extract" {
			other = other.Args[0]
		}
		if !callPred(other) {
			return false
		}
		isNilEdge := (t.Name == "==") == pol
		return isNilEdge
	})
}

// sortedKeys helper
func sortedKeys[V any](m map[string]V) []string {
	var ks []string
	for k := range m {
		ks = append(ks, k)
	}
	sort.Strings(ks)
	return ks
}

// spilledResult undoes go/ssa's result spilling in functions with defers: the Return operand is
// a load of a result slot that was stored in the same block just before RunDefers.
func spilledResult(ret *ssa.Return, k int) ssa.Value {
	v := ret.Results[k]
	u, ok := v.(*ssa.UnOp)
	if !ok || u.Op != token.MUL {
		return v
	}
	a, ok := u.X.(*ssa.Alloc)
	if !ok {
		return v
	}
	instrs := ret.Block().Instrs
	for i := len(instrs) - 1; i >= 0; i-- {
		if st, ok := instrs[i].(*ssa.Store); ok && st.Addr == a {
			return st.Val
		}
	}
	return v
}

// genericName replaces every top-level [...] type-argument list in a function name by [_].
func genericName(s string) string {
	if !strings.Contains(s, "[") {
		return s
	}
	var b strings.Builder
	depth := 0
	for _, r := range s {
		switch r {
		case '[':
			if depth == 0 {
				b.WriteString("[_")
			}
			depth++
		case ']':
			depth--
			if depth == 0 {
				b.WriteByte(']')
			}
		default:
			if depth == 0 {
				b.WriteRune(r)
			}
		}
	}
	return b.String()
}

func topParent(fn *ssa.Function) *ssa.Function {
	for fn != nil && fn.Parent() != nil {
		fn = fn.Parent()
	}
	return fn
}
