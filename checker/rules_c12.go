package main

import (
	"encoding/json"
	"fmt"
	"go/token"
	"go/types"
	"os"
	"path/filepath"
	"reflect"
	"regexp"
	"sort"
	"strings"

	"golang.org/x/tools/go/ssa"
)

func init() {
	register("C12", &propDef{
		run: runC12,
		explanation: "Decides the structural necessary conditions of round-tripping: R1 field agreement between each wire type and its protobuf message: every exported leaf field of the Go type is read by ToProto on every returned message and written by FromProto from the paired message field on every success path, and the pairing is the same in both directions; " +
			"R2 the protobuf schema (message, field name, number, wire kind, repeated) read from the generated struct tags equals the .proto sources and the frozen reference table (changing it changes bytes on the wire and on disk); " +
			"R3 the hash definitions: header hash = sha256 of the header encoding, data hash / commitment = sha256(leaf prefix 0x00 ‖ encoding), the commitment being over a Data with only its transactions; " +
			"R4 decoders do not dereference a possibly-nil message pointer or slice past a checked length, and the batch-cursor list is written and read with the same prefix width and byte order; R5 the types stored through gob caches implement the binary codec and are registered before loading.",
		notDecided:  "Equality of decode(encode(x)) and x for all values; golden bytes and hashes of fixed values; panics inside protobuf/libp2p.",
		assumptions: []string{"google.golang.org/protobuf encodes deterministically for these messages and never panics on arbitrary input", "libp2p key (un)marshalling", "go/types, go/ssa"},
	})
}

const pbPkg = rootPath + "/types/pb/evnode/v1"

var wirePairs = []struct{ goT, pbT string }{
	{"Header", "Header"}, {"SignedHeader", "SignedHeader"}, {"Metadata", "Metadata"}, {"Data", "Data"}, {"SignedData", "SignedData"}, {"State", "State"},
}

type schemaField struct {
	Message  string `json:"message"`
	Name     string `json:"name"`
	Number   int    `json:"number"`
	Kind     string `json:"kind"`
	Repeated bool   `json:"repeated"`
}

func pbSchemaFromTags(p *Prog) []schemaField {
	var out []schemaField
	tp := p.TypesPkg(pbPkg)
	if tp == nil {
		return nil
	}
	for _, name := range tp.Scope().Names() {
		tn, ok := tp.Scope().Lookup(name).(*types.TypeName)
		if !ok {
			continue
		}
		st, ok := tn.Type().Underlying().(*types.Struct)
		if !ok {
			continue
		}
		for i := 0; i < st.NumFields(); i++ {
			tag, ok := reflect.StructTag(st.Tag(i)).Lookup("protobuf")
			if !ok {
				continue
			}
			parts := strings.Split(tag, ",")
			f := schemaField{Message: name, Kind: parts[0]}
			fmt.Sscanf(parts[1], "%d", &f.Number)
			for _, pt := range parts[2:] {
				if pt == "rep" {
					f.Repeated = true
				}
				if strings.HasPrefix(pt, "name=") {
					f.Name = strings.TrimPrefix(pt, "name=")
				}
			}
			out = append(out, f)
		}
	}
	sort.Slice(out, func(i, j int) bool {
		if out[i].Message != out[j].Message {
			return out[i].Message < out[j].Message
		}
		return out[i].Number < out[j].Number
	})
	return out
}

var reMsg = regexp.MustCompile(`(?s)message\s+(\w+)\s*\{(.*?)\n\}`)
var reFld = regexp.MustCompile(`(?m)^\s*(repeated\s+)?([\w\.]+)\s+(\w+)\s*=\s*(\d+)\s*;`)

func pbSchemaFromProto(repo string) ([]schemaField, error) {
	files, _ := filepath.Glob(filepath.Join(repo, "proto/evnode/v1/*.proto"))
	var out []schemaField
	for _, f := range files {
		b, err := os.ReadFile(f)
		if err != nil {
			return nil, err
		}
		// strip comments
		src := regexp.MustCompile(`//[^\n]*`).ReplaceAllString(string(b), "")
		for _, m := range reMsg.FindAllStringSubmatch(src, -1) {
			for _, fm := range reFld.FindAllStringSubmatch(m[2], -1) {
				kind := "bytes"
				switch fm[2] {
				case "uint64", "int64", "uint32", "int32", "bool":
					kind = "varint"
				case "double", "fixed64":
					kind = "fixed64"
				}
				var n int
				fmt.Sscanf(fm[4], "%d", &n)
				out = append(out, schemaField{Message: m[1], Name: fm[3], Number: n, Kind: kind, Repeated: fm[1] != ""})
			}
		}
	}
	sort.Slice(out, func(i, j int) bool {
		if out[i].Message != out[j].Message {
			return out[i].Message < out[j].Message
		}
		return out[i].Number < out[j].Number
	})
	return out, nil
}

var wireMessages = map[string]bool{"Version": true, "Header": true, "SignedHeader": true, "Signer": true, "Metadata": true, "Data": true, "SignedData": true, "State": true, "Batch": true}

func runC12(c *Check) {
	p := c.Mod(ModRoot)
	c.Doc("C12-R1", "FC+VP: field agreement ToProto/FromProto.")
	c.Doc("C12-R2", "ST: schema freeze (tags = .proto = reference).")
	c.Doc("C12-R3", "VP+CT: hash definitions.")
	c.Doc("C12-R4", "NG+GA: nil-guards and length guards in decoders; cursor-list codec agreement.")
	c.Doc("C12-R5", "TM: gob-persisted types implement the binary codec and are registered before loading.")

	// ---- R2
	tags := pbSchemaFromTags(p)
	var tagsW []schemaField
	for _, f := range tags {
		if wireMessages[f.Message] {
			tagsW = append(tagsW, f)
		}
	}
	protoS, err := pbSchemaFromProto(c.W.Repo)
	var protoW []schemaField
	for _, f := range protoS {
		if wireMessages[f.Message] {
			protoW = append(protoW, f)
		}
	}
	refPath := filepath.Join(filepath.Dir(variantsDir), "reference", "proto_schema.json")
	var ref []schemaField
	if b, e := os.ReadFile(refPath); e == nil {
		json.Unmarshal(b, &ref)
	}
	key := func(f schemaField) string {
		return fmt.Sprintf("%s.%s=%d:%s rep=%v", f.Message, f.Name, f.Number, f.Kind, f.Repeated)
	}
	set := func(fs []schemaField) map[string]bool {
		m := map[string]bool{}
		for _, f := range fs {
			m[key(f)] = true
		}
		return m
	}
	diff := func(a, b map[string]bool) []string {
		var out []string
		for k := range a {
			if !b[k] {
				out = append(out, k)
			}
		}
		sort.Strings(out)
		return out
	}
	if err != nil || len(tagsW) < 35 || len(ref) < 35 {
		c.Unk("C12-R2", "schema-sources", "", "", fmt.Sprintf("anchor lost: tags=%d proto=%d reference=%d fields (err=%v)", len(tagsW), len(protoW), len(ref), err))
	} else {
		ts, ps, rs := set(tagsW), set(protoW), set(ref)
		d1, d2 := diff(ts, rs), diff(rs, ts)
		if len(d1)+len(d2) == 0 {
			c.OK("C12-R2", "generated-tags = frozen-reference", "", "", fmt.Sprintf("%d fields of %d messages agree", len(tagsW), len(wireMessages)), true)
		} else {
			c.Bad("C12-R2", "generated-tags = frozen-reference", "", "", fmt.Sprintf("the wire schema changed: only in the code %v; only in the reference %v — values written by earlier versions (block store, DA blobs) no longer decode to the same value and fixed values change their bytes and hashes", d1, d2), nil)
		}
		d3, d4 := diff(ts, ps), diff(ps, ts)
		if len(d3)+len(d4) == 0 {
			c.OK("C12-R2", "generated-tags = .proto", "", "", "the generated code and the .proto sources describe the same schema", true)
		} else {
			c.Bad("C12-R2", "generated-tags = .proto", "", "", fmt.Sprintf("generated code and .proto sources disagree: only in tags %v; only in .proto %v", d3, d4), nil)
		}
	}

	// ---- R1
	tp := p.TypesPkg(rootPath + "/types")
	for _, wp := range wirePairs {
		ruleFieldAgreement(c, p, tp, wp.goT, wp.pbT)
	}
	c.MinInstances("C12-R1", 30)

	ruleHashDefs(c, p)
	ruleDecoderGuards(c, p)
	ruleGobTypes(c, p)
	ruleVerifierBoundBeforeValidation(c, p, "C12-R6")
	ruleSubmessagePresence(c, p)
	ruleDecodersOverwrite(c, p)
	ruleDecodersAcceptEmptyEncoding(c, p)
	ruleCodecsArePure(c, p, "C12-R10")
	ruleDecodersWriteFreshStorage(c, p, "C12-R11")
	ruleDecodersRefuseOnlyTheUnrepresentable(c, p, "C12-R12")
	ruleListConversionsElementwise(c, p, "C12-R13")
	rulePersistedCursorIsTheReturnedOne(c, p, "C12-R14")
}

// ruleCodecsArePure (C12-R10): the bytes of a value are a function of the value. The encoders,
// decoders and hash functions of the wire types (and what they call inside the types package)
// therefore touch no package-level container: a memo table, a pool, a registry filled at run
// time. A cache of encoded parts keyed by less than the part itself (the marshalled public key
// remembered per signer *address*) makes the bytes of one value depend on which values were
// encoded before it in the same process.
func ruleCodecsArePure(c *Check, p *Prog, rule string) {
	c.Doc(rule, "CS: no function of the types package reachable from a wire type's ToProto / FromProto / MarshalBinary / UnmarshalBinary / Hash / DACommitment reads or writes a package-level container or synchronised object (sync.Map, sync.Pool, map, slice of non-bytes, pointer to a struct): encodings and hashes depend on the value alone, not on what the process encoded earlier.")
	typesPkg := rootPath + "/types"
	var roots []*ssa.Function
	for _, fn := range p.Funcs {
		pk := fnPkg(fn)
		if pk == nil || pk.Pkg.Path() != typesPkg || fn.Parent() != nil || fn.Signature.Recv() == nil || fn.Blocks == nil {
			continue
		}
		switch fn.Name() {
		case "ToProto", "FromProto", "MarshalBinary", "UnmarshalBinary", "Hash", "DACommitment":
			roots = append(roots, fn)
		}
	}
	if len(roots) < 10 {
		c.Unk(rule, "codec functions", "", "", fmt.Sprintf("anchor lost: only %d codec / hash methods found in the types package", len(roots)))
		return
	}
	reach := map[*ssa.Function]bool{}
	var walk func(fn *ssa.Function, d int)
	walk = func(fn *ssa.Function, d int) {
		if reach[fn] || d > 4 {
			return
		}
		reach[fn] = true
		for _, cal := range staticCalleesOf(p, fn) {
			if pk := fnPkg(cal); pk != nil && pk.Pkg.Path() == typesPkg {
				walk(cal, d+1)
			}
		}
		for _, af := range fn.AnonFuncs {
			walk(af, d)
		}
	}
	for _, r := range roots {
		walk(r, 0)
	}
	stateful := func(t types.Type) bool {
		s := strings.TrimPrefix(t.String(), "*")
		if strings.HasPrefix(s, "sync.") || strings.HasPrefix(s, "sync/atomic.") {
			return true
		}
		switch u := t.Underlying().(type) {
		case *types.Map, *types.Chan:
			return true
		case *types.Slice:
			b, isB := u.Elem().Underlying().(*types.Basic)
			return !(isB && b.Kind() == types.Uint8)
		case *types.Pointer:
			_, isSt := u.Elem().Underlying().(*types.Struct)
			return isSt
		}
		return false
	}
	var bad []string
	n := 0
	for fn := range reach {
		n++
		for _, b := range fn.Blocks {
			for _, in := range b.Instrs {
				for _, op := range in.Operands(nil) {
					if op == nil || *op == nil {
						continue
					}
					gl, ok := (*op).(*ssa.Global)
					if !ok || gl.Pkg == nil || !strings.HasPrefix(gl.Pkg.Pkg.Path(), rootPath) {
						continue
					}
					if stateful(gl.Type().(*types.Pointer).Elem()) {
						bad = append(bad, gl.Name()+" in "+fnShort(fn)+"@"+p.InstrPos(in))
					}
				}
			}
		}
	}
	sort.Strings(bad)
	inst := "types ⟂ codecs and hashes touch no package-level container"
	if len(bad) == 0 {
		c.OK(rule, inst, "", "", fmt.Sprintf("%d functions reachable from %d codec / hash methods use no package-level container or synchronised object", n, len(roots)), true)
	} else {
		c.Bad(rule, inst, "", "", "a codec or hash function of the wire types uses package-level state ("+strings.Join(bad, ", ")+"): what a value encodes to then depends on what was encoded before it in the process (a memo keyed by less than the value hands back another value's bytes), so encode/decode does not round-trip and fixed values do not keep their bytes", nil)
	}
}

// ruleVerifierBoundBeforeValidation (C12-R6): the payload provider a signed header is verified
// with lives in an unexported field that no codec carries (wire, store, cache file), so a header
// that travelled any of those paths has none. In the block package, every validation of a
// header's signature is therefore preceded, since the header was obtained, by binding the
// manager's provider to that very header. A function that validates one of its own parameters
// hands the obligation to its callers.
func ruleVerifierBoundBeforeValidation(c *Check, p *Prog, rule string) {
	c.Doc(rule, "EO+VP: in the block package every signature validation of a header is preceded, on all paths since the header was obtained, by SetCustomVerifier(manager's provider) on the same header (the provider is carried by no codec).")
	shT := "*" + rootPath + "/types.SignedHeader"
	isHeader := func(v ssa.Value) bool { return v.Type().String() == shT }
	// validating(fn) -> indices of header parameters it validates (directly or through callees)
	validating := map[*ssa.Function]map[int]bool{}
	baseNames := map[string]bool{
		"(*" + rootPath + "/types.SignedHeader).ValidateBasic": true,
		"(*" + rootPath + "/types.SignedHeader).Verify":        true,
		rootPath + "/types.Validate":                           true,
	}
	var blockFns []*ssa.Function
	for _, fn := range p.Funcs {
		if pk := fnPkg(fn); pk != nil && pk.Pkg.Path() == rootPath+"/block" && fn.Blocks != nil {
			blockFns = append(blockFns, fn)
		}
	}
	headerArgs := func(fn *ssa.Function, call *ssa.CallCommon) []ssa.Value {
		callee := call.StaticCallee()
		if callee == nil {
			return nil
		}
		var out []ssa.Value
		if baseNames[callee.String()] {
			for _, a := range call.Args {
				if isHeader(a) {
					out = append(out, a)
				}
			}
			return out
		}
		for i := range validating[callee] {
			if i < len(call.Args) {
				out = append(out, call.Args[i])
			}
		}
		return out
	}
	paramIndex := func(fn *ssa.Function, v ssa.Value) int {
		for i, prm := range fn.Params {
			if ssa.Value(prm) == v {
				return i
			}
		}
		return -1
	}
	graphs := map[*ssa.Function]*Graph{}
	selfBound := func(fn *ssa.Function, hv ssa.Value, use ssa.Instruction) bool {
		g := graphs[fn]
		if g == nil {
			g = BuildECFG(p, fn, ExpandOpts{MaxDepth: 0})
			graphs[fn] = g
		}
		isBind := func(x *Node) bool {
			cc := CallCommonOf(x)
			if cc == nil || !strings.HasSuffix(CallName(x), "types.SignedHeader).SetCustomVerifier") || len(cc.Args) < 2 || cc.Args[0] != hv {
				return false
			}
			pt := TermOf(cc.Args[1], x.Ctx)
			return pt.Op == "field" && strings.HasSuffix(cc.Args[1].Type().String(), "types.SignaturePayloadProvider")
		}
		if len(g.Select(isBind)) == 0 {
			return false
		}
		return g.MustPrecede(isBind, func(x *Node) bool { return x.Kind == NInstr && x.In == use }) == nil
	}
	for changed := true; changed; {
		changed = false
		for _, fn := range blockFns {
			for _, b := range fn.Blocks {
				for _, in := range b.Instrs {
					call, ok := in.(ssa.CallInstruction)
					if !ok {
						continue
					}
					for _, h := range headerArgs(fn, call.Common()) {
						if i := paramIndex(fn, h); i >= 0 {
							// a function that binds the manager's provider to its parameter before
							// every validation of it asks nothing of its callers
							if selfBound(fn, h, in) {
								continue
							}
							if validating[fn] == nil {
								validating[fn] = map[int]bool{}
							}
							if !validating[fn][i] {
								validating[fn][i] = true
								changed = true
							}
						}
					}
				}
			}
		}
	}
	n := 0
	for _, fn := range blockFns {
		var g *Graph
		for _, b := range fn.Blocks {
			for _, in := range b.Instrs {
				call, ok := in.(*ssa.Call)
				if !ok {
					continue
				}
				for _, h := range headerArgs(fn, call.Common()) {
					if paramIndex(fn, h) >= 0 {
						continue // the caller's obligation
					}
					if g == nil {
						g = BuildECFG(p, fn, ExpandOpts{MaxDepth: 0})
						c.NoteGraph(g)
					}
					n++
					hv, callI := h, in
					hterm := TermOf(hv, &Ctx{Fn: fn}).String()
					isBind := func(x *Node) bool {
						cc := CallCommonOf(x)
						if cc == nil || !strings.HasSuffix(CallName(x), "types.SignedHeader).SetCustomVerifier") || len(cc.Args) < 2 {
							return false
						}
						if cc.Args[0] != hv && TermOf(cc.Args[0], x.Ctx).String() != hterm {
							return false
						}
						pt := TermOf(cc.Args[1], x.Ctx)
						return pt.Op == "field" && strings.HasSuffix(cc.Args[1].Type().String(), "types.SignaturePayloadProvider")
					}
					isDef := func(x *Node) bool { return x.Kind == NInstr && x.In == hv.(ssa.Instruction) }
					switch hv.(type) {
					case *ssa.Call, *ssa.Extract, *ssa.Alloc, *ssa.TypeAssert:
					default:
						// a variable read: no single defining point in the graph
						isDef = func(*Node) bool { return false }
					}
					isUse := func(x *Node) bool { return x.Kind == NInstr && x.In == callI }
					inst := fnShort(fn) + " ⟂ " + fnShort(call.Common().StaticCallee()) + "(" + trunc(TermOf(hv, &Ctx{Fn: fn}).String(), 40) + ")"
					c.Decide(rule, inst, fnName(fn), p.InstrPos(in), "the manager's payload provider is bound to the header before its signature is validated",
						"a header can reach signature validation without the manager's payload provider bound to it since it was obtained: a header reloaded from the cache file / store / wire carries no provider, so with a non-default provider a valid signature is rejected (or checked against the wrong payload)", g,
						g.PrecedeSince(isDef, isBind, isUse))
				}
			}
		}
	}
	if n == 0 {
		c.Unk(rule, "validation-sites", "", "", "anchor lost: no signature validation of a non-parameter header in the block package")
	}
	c.MinInstances(rule, 4)
}

// goLeaves: exported leaf field paths of a wire type. Struct-typed fields of package types
// without their own ToProto are containers; others are leaves.
func goLeaves(tp *types.Package, t types.Type, prefix string, out *[]string) {
	st, ok := t.Underlying().(*types.Struct)
	if !ok {
		return
	}
	for i := 0; i < st.NumFields(); i++ {
		f := st.Field(i)
		if !f.Exported() {
			continue
		}
		path := f.Name()
		if prefix != "" {
			path = prefix + "." + f.Name()
		}
		ft := f.Type()
		if nt, ok := ft.(*types.Named); ok && nt.Obj().Pkg() == tp {
			if _, isStruct := nt.Underlying().(*types.Struct); isStruct {
				hasToProto := false
				ms := types.NewMethodSet(types.NewPointer(nt))
				for j := 0; j < ms.Len(); j++ {
					if ms.At(j).Obj().Name() == "ToProto" {
						hasToProto = true
					}
				}
				if !hasToProto {
					goLeaves(tp, nt, path, out)
					continue
				}
			}
		}
		*out = append(*out, path)
	}
}

func ruleFieldAgreement(c *Check, p *Prog, tp *types.Package, goT, pbT string) {
	rule := "C12-R1"
	obj := tp.Scope().Lookup(goT)
	if obj == nil {
		c.Unk(rule, goT, "", "", "anchor lost: type")
		return
	}
	var leaves []string
	goLeaves(tp, obj.Type(), "", &leaves)
	toP := p.Func(typesM(goT, "ToProto"))
	fromP := p.Func(typesM(goT, "FromProto"))
	if toP == nil || fromP == nil {
		c.Unk(rule, goT+" ⟂ codec", "", "", "anchor lost: ToProto/FromProto")
		return
	}
	recv := toP.Params[0].Name()
	ctx := &Ctx{Fn: toP}
	// pairing from ToProto: pb top-level field -> go leaves mentioned
	pairTo := map[string]map[string]bool{}
	nRet := 0
	for _, b := range toP.Blocks {
		ret, ok := b.Instrs[len(b.Instrs)-1].(*ssa.Return)
		if !ok {
			continue
		}
		if len(ret.Results) == 2 && classifyReturn(ret, 1) == rcA {
			continue
		}
		nRet++
		lit, _ := ret.Results[0].(*ssa.Alloc)
		if lit == nil {
			if ph, ok := ret.Results[0].(*ssa.Phi); ok && len(ph.Edges) > 0 {
				lit, _ = ph.Edges[0].(*ssa.Alloc)
			}
		}
		if lit == nil {
			c.Unk(rule, goT+".ToProto ⟂ literal", fnName(toP), p.InstrPos(ret), "the returned message is not a literal")
			continue
		}
		mentioned := map[string]bool{}
		var pairLit func(al *ssa.Alloc, prefix string, depth int)
		pairLit = func(al *ssa.Alloc, prefix string, depth int) {
			for pbField, vs := range litStores(al) {
				top := prefix + strings.Split(pbField, ".")[0]
				for _, v := range vs {
					// a nested message built by a helper of the package (signerToProto(&x.Signer)):
					// the literals the helper returns, read with its parameters bound to this call
					if depth < 3 {
						var cv *ssa.Call
						switch x := v.(type) {
						case *ssa.Call:
							cv = x
						case *ssa.Extract:
							if x.Index == 0 {
								cv, _ = x.Tuple.(*ssa.Call)
							}
						}
						if cv != nil {
							if callee := cv.Common().StaticCallee(); callee != nil && callee.Blocks != nil && callee.Signature.Recv() == nil && fnPkg(callee) != nil && fnPkg(callee).Pkg.Path() == rootPath+"/types" && strings.Contains(callee.Signature.Results().At(0).Type().String(), "pb/evnode/v1.") {
								callee := cv.Common().StaticCallee()
								saved := ctx
								handled := false
								for _, hb := range callee.Blocks {
									hret, ok := hb.Instrs[len(hb.Instrs)-1].(*ssa.Return)
									if !ok || len(hret.Results) == 0 {
										continue
									}
									if len(hret.Results) == 2 && classifyReturn(hret, 1) == rcA {
										continue
									}
									if inner, ok := hret.Results[0].(*ssa.Alloc); ok {
										ctx = &Ctx{Parent: saved, Site: cv, Fn: callee, Depth: saved.Depth + 1}
										pairLit(inner, top+".", depth+1)
										ctx = saved
										handled = true
									}
								}
								if handled {
									continue
								}
							}
						}
					}
					// a nested message literal of this package's pb types: pair its fields individually
					isMsgLit := func(x ssa.Value) (*ssa.Alloc, bool) {
						inner, ok := x.(*ssa.Alloc)
						return inner, ok && strings.Contains(inner.Type().String(), "pb/evnode/v1.") && !strings.HasSuffix(inner.Type().String(), "v1.Version")
					}
					if inner, ok := isMsgLit(v); ok && depth < 3 {
						pairLit(inner, top+".", depth+1)
						continue
					}
					if ph, ok := v.(*ssa.Phi); ok && depth < 3 {
						all := len(ph.Edges) > 0
						for _, e := range ph.Edges {
							if _, ok := isMsgLit(e); !ok {
								all = false
							}
						}
						if all {
							for _, e := range ph.Edges {
								inner, _ := isMsgLit(e)
								pairLit(inner, top+".", depth+1)
							}
							continue
						}
					}
					paths := map[string]bool{}
					accessPaths(p, TermOf(v, ctx), 3, paths)
					for _, l := range leaves {
						if leafMentioned(paths, recv+"."+l) {
							mentioned[l] = true
							if pairTo[top] == nil {
								pairTo[top] = map[string]bool{}
							}
							pairTo[top][l] = true
						}
					}
				}
			}
		}
		pairLit(lit, "", 0)
		// a leaf that is nil/empty on this path (the path is guarded by its nil test) needs no encoding
		gTo := BuildECFG(p, toP, ExpandOpts{MaxDepth: 0})
		for _, x := range gTo.Exits {
			if x.In != ssa.Instruction(ret) {
				continue
			}
			for _, f := range gTo.NecessaryEdges(nodeSet([]*Node{x})) {
				t := f.Cond
				if t.Op == "bin" && t.Args[1].Name == "nil" && ((t.Name == "==" && f.Pol) || (t.Name == "!=" && !f.Pol)) {
					for _, l := range leaves {
						if t.Args[0].String() == recv+"."+l {
							mentioned[l] = true
						}
					}
				}
			}
		}
		for _, l := range leaves {
			inst := fmt.Sprintf("%s.ToProto ⟂ reads %s ⟂ return-%d", goT, l, nRet)
			if mentioned[l] {
				c.OK(rule, inst, fnName(toP), p.InstrPos(ret), "field is encoded on this path", true)
			} else {
				c.Bad(rule, inst, fnName(toP), p.InstrPos(ret), "field "+goT+"."+l+" is not encoded on the path returning here: a value with that field set does not decode to itself", nil)
			}
		}
	}
	// pb message fields all written somewhere
	pbTP := p.TypesPkg(pbPkg)
	pbSt := pbTP.Scope().Lookup(pbT).Type().Underlying().(*types.Struct)
	var pbFields []string
	for i := 0; i < pbSt.NumFields(); i++ {
		if _, ok := reflect.StructTag(pbSt.Tag(i)).Lookup("protobuf"); ok {
			pbFields = append(pbFields, pbSt.Field(i).Name())
		}
	}
	// ---- FromProto
	g := BuildECFG(p, fromP, ExpandOpts{MaxDepth: 0})
	// absentBy(t, pol, hit): the branch condition says that a part of the message is absent or
	// empty — directly (x == nil, len(x) == 0), or as the false result of a predicate of the
	// package every rejecting alternative of which says so; hit tells whether a tested term is
	// the part in question
	var absentBy func(t *Term, pol bool, hit func(x *Term) bool, depth int) bool
	absentBy = func(t *Term, pol bool, hit func(x *Term) bool, depth int) bool {
		t, pol = normFact(t, pol)
		if t.Op == "bin" && len(t.Args) == 2 {
			absentPol := false
			switch {
			case t.Args[1].Name == "nil":
				absentPol = (t.Name == "==" && pol) || (t.Name == "!=" && !pol)
			case t.Args[1].Name == "0" && strings.HasPrefix(t.Args[0].String(), "len("):
				absentPol = (t.Name == "==" && pol) || (t.Name == ">" && !pol) || (t.Name == "!=" && !pol)
			}
			if !absentPol {
				return false
			}
			found := false
			t.Walk(func(x *Term) bool {
				if x.Op == "field" {
					// the tested part itself, not what contains it
					if hit(x) {
						found = true
					}
					return false
				}
				return true
			})
			return found
		}
		if t.Op == "call" && !pol && depth > 0 {
			cv, ok := t.V.(*ssa.Call)
			if !ok {
				return false
			}
			callee := cv.Common().StaticCallee()
			if callee == nil || callee.Blocks == nil || fnPkg(callee) == nil || fnPkg(callee).Pkg.Path() != rootPath+"/types" {
				return false
			}
			d := 0
			if t.Ctx != nil {
				d = t.Ctx.Depth + 1
			}
			alts := p.RejectDNF(callee, &Ctx{Parent: t.Ctx, Site: cv, Fn: callee, Depth: d}, 0, 1)
			if len(alts) == 0 {
				return false
			}
			for _, alt := range alts {
				okAlt := false
				for _, f := range alt {
					if absentBy(f.Cond, f.Pol, hit, depth-1) {
						okAlt = true
					}
				}
				if !okAlt {
					return false
				}
			}
			return true
		}
		return false
	}
	c.NoteGraph(g)
	other := fromP.Params[1].Name()
	frecv := fromP.Params[0].Name()
	succ := g.SuccessExits()
	pairFrom := map[string]map[string]bool{}
	for _, l := range leaves {
		want := frecv + "." + l
		// writes to the leaf (or to a container of it, or delegation X.FromProto(other.Y))
		type wr struct {
			n   *Node
			src *Term
		}
		var writes []wr
		for _, n := range g.Nodes {
			if !g.Live()[n] || n.Kind != NInstr {
				continue
			}
			switch x := n.In.(type) {
			case *ssa.Store:
				// a store through the destination pointer of a row of a local table of
				// (destination, source) pairs walked by a loop: for the row whose destination is
				// this leaf, a write of that row's source
				if tal, pf := tableField(x.Addr, 0); tal != nil {
					lit := ssa.Value(tal)
					// a table variable whose address is taken is initialised by one copy of the literal
					for _, r := range *tal.Referrers() {
						if st2, ok := r.(*ssa.Store); ok && st2.Addr == ssa.Value(tal) {
							if ld, ok := st2.Val.(*ssa.UnOp); ok && ld.Op == token.MUL {
								if inner, ok := ld.X.(*ssa.Alloc); ok {
									lit = inner
								}
							}
						}
					}
					rows := litStores(lit)
					if os.Getenv("VERIF_DEBUG_C12") != "" {
						fmt.Fprintf(os.Stderr, "DBGT want=%s pf=%s rows=%d\n", want, pf, len(rows))
						for k, v := range rows {
							if len(v) > 0 {
								fmt.Fprintf(os.Stderr, "DBGT   %s = %s\n", k, TermOf(v[0], n.Ctx).String())
							}
						}
					}
					for i := 0; ; i++ {
						ps := rows[fmt.Sprintf("[%d].%s", i, pf)]
						if len(ps) != 1 {
							break
						}
						if strings.TrimPrefix(TermOf(ps[0], n.Ctx).String(), "&") != want {
							continue
						}
						src := TermOf(x.Val, n.Ctx)
						// the value read from the row's other field(s)
						var rowSrc *Term
						var find func(v ssa.Value, d int)
						find = func(v ssa.Value, d int) {
							if v == nil || d > 4 || rowSrc != nil {
								return
							}
							if al2, sf := tableField(v, 0); al2 == tal && sf != pf && sf != "" {
								if vs := rows[fmt.Sprintf("[%d].%s", i, sf)]; len(vs) == 1 {
									rowSrc = TermOf(vs[0], n.Ctx)
								}
								return
							}
							if in2, ok := v.(ssa.Instruction); ok {
								for _, op := range in2.Operands(nil) {
									if op != nil && *op != nil {
										find(*op, d+1)
									}
								}
							}
						}
						find(x.Val, 0)
						if rowSrc != nil {
							src = rowSrc
						}
						// the loop walks every row of the constant table: passing the loop is
						// passing this row's write (either branch of it assigns the leaf)
						wn := n
						if hb := loopHeaderOf(x.Block()); hb != nil {
							if hn := g.headNode(n.Ctx, hb); hn != nil {
								wn = hn
							}
						}
						writes = append(writes, wr{wn, src})
					}
				}
				at := TermOf(x.Addr, n.Ctx).String()
				if at == want || strings.HasPrefix(at, want+".") {
					writes = append(writes, wr{n, TermOf(x.Val, n.Ctx)})
				} else if strings.HasPrefix(want, at+".") {
					// a whole-struct store into a container of the leaf: the literal's value for this leaf
					suffix := strings.TrimPrefix(want, at+".")
					src := TermOf(x.Val, n.Ctx)
					if al, ok := rootAlloc(src); ok {
						if vs := litStores(al)[suffix]; len(vs) == 1 {
							src = TermOf(vs[0], n.Ctx)
						} else {
							src = mk("const", "zero", nil, n.Ctx)
						}
					} else if views := p.returnedLits(x.Val, n.Ctx, 2); len(views) > 0 {
						// the struct comes from a helper that builds it: this leaf's value in each
						// literal the helper returns
						for _, lv := range views {
							if vs := lv.Field(suffix); len(vs) == 1 {
								writes = append(writes, wr{n, vs[0]})
							} else {
								writes = append(writes, wr{n, mk("const", "zero", nil, n.Ctx)})
							}
						}
						continue
					}
					writes = append(writes, wr{n, src})
				}
			case *ssa.Call:
				if strings.HasSuffix(commonName(x.Common()), ").FromProto") && len(x.Common().Args) == 2 {
					rt := TermOf(x.Common().Args[0], n.Ctx).String()
					if rt == want || strings.HasPrefix(want, rt+".") {
						writes = append(writes, wr{n, TermOf(x.Common().Args[1], n.Ctx)})
					}
				}
			}
		}
		var fromPB []*Node
		for _, w := range writes {
			src := ""
			p.DeepContains(w.src, func(x *Term) bool {
				if x.Op == "field" && strings.HasPrefix(x.String(), other+".") && !strings.Contains(strings.TrimPrefix(x.String(), other+"."), "(") {
					full := strings.TrimPrefix(x.String(), other+".")
					// the most specific path that ToProto pairs with something
					for cand := full; cand != ""; {
						if pairTo[cand] != nil {
							src = cand
							return true
						}
						i := strings.LastIndex(cand, ".")
						if i < 0 {
							break
						}
						cand = cand[:i]
					}
					if src == "" {
						src = strings.Split(full, ".")[0]
					}
					return true
				}
				if (x.Op == "call") && strings.Contains(x.Name, "pb/evnode/v1."+pbT+").Get") && len(x.Args) > 0 && x.Args[0].String() == other {
					src = strings.TrimPrefix(x.Name[strings.LastIndex(x.Name, ").Get")+2:], "Get")
					return true
				}
				return false
			}, 2)
			if src == "" {
				// a zero/nil assignment is justified only where the paired message field (or a
				// message containing it) is absent: every path to it passes a test of such a field
				isZero := w.src.Op == "const" || w.src.Op == "load" || w.src.Op == "alloc" || strings.Contains(w.src.String(), "nil")
				for pf, ls := range pairTo {
					if !ls[l] || !isZero {
						continue
					}
					guardOn := g.Select(EdgeWhere(func(t *Term, pol bool, n *Node) bool {
						// only the "absent / empty" polarity of a test justifies a zero assignment
						return absentBy(t, pol, func(x *Term) bool {
							if !strings.HasPrefix(x.String(), other+".") {
								return false
							}
							q := strings.TrimPrefix(x.String(), other+".")
							return q == pf || strings.HasPrefix(pf, q+".")
						}, 2)
					}))
					wn := w.n
					if g.PathAvoiding([]*Node{g.Entry}, func(x *Node) bool { return x == wn }, nodeSet(guardOn)) == nil {
						src = pf
					}
				}
			}
			if os.Getenv("VERIF_DEBUG_C12") != "" {
				fmt.Fprintf(os.Stderr, "DBG %s leaf=%s src=%q wsrc=%s\n", goT, l, src, trunc(w.src.String(), 150))
			}
			if src != "" {
				fromPB = append(fromPB, w.n)
				if pairFrom[src] == nil {
					pairFrom[src] = map[string]bool{}
				}
				pairFrom[src][l] = true
			}
		}
		inst := goT + ".FromProto ⟂ writes " + l
		if len(fromPB) == 0 {
			c.Bad(rule, inst, fnName(fromP), p.Pos(fromP.Pos()), "field "+goT+"."+l+" is never assigned from the message: decoding loses it", nil)
			continue
		}
		// the message field paired with this leaf is absent: nothing to assign on that branch
		pairedPart := func(x *Term) bool {
			if x.Op != "field" || !strings.HasPrefix(x.String(), other+".") {
				return false
			}
			q := strings.TrimPrefix(x.String(), other+".")
			for pf, ls := range pairTo {
				if ls[l] && (q == pf || strings.HasPrefix(pf, q+".")) {
					return true
				}
			}
			return false
		}
		absent := g.Select(EdgeWhere(func(t *Term, pol bool, n *Node) bool {
			nt, npol := normFact(t, pol)
			if nt.Op == "bin" {
				if nt.Args[1].Name != "nil" || !((nt.Name == "==" && npol) || (nt.Name == "!=" && !npol)) {
					return false
				}
				return pairedPart(nt.Args[0])
			}
			// the false result of a predicate of the package that rejects only what is absent
			return absentBy(t, pol, pairedPart, 2)
		}))
		path := g.PathAvoiding([]*Node{g.Entry}, succ, orPred(nodeSet(fromPB), nodeSet(absent)))
		if path == nil {
			c.OK(rule, inst, fnName(fromP), p.InstrPos(fromPB[0].In), "assigned from the message on every success path", true)
		} else {
			c.Bad(rule, inst, fnName(fromP), p.InstrPos(fromPB[0].In), "a success path of FromProto leaves "+goT+"."+l+" unassigned from the message (stale or zero): the decoded value differs from the encoded one", g.DescribePath(path))
		}
	}
	// pairing agreement
	flat := func(m map[string]map[string]bool) []string {
		var out []string
		for pf, ls := range m {
			for l := range ls {
				out = append(out, pf+"↔"+l)
			}
		}
		sort.Strings(out)
		return out
	}
	a, b := flat(pairTo), flat(pairFrom)
	inst := goT + " ⟂ same-pairing-both-directions"
	if strings.Join(a, ",") == strings.Join(b, ",") && len(a) > 0 {
		c.OK(rule, inst, "", p.Pos(toP.Pos()), strings.Join(a, ", "), true)
	} else {
		c.Bad(rule, inst, "", p.Pos(toP.Pos()), fmt.Sprintf("ToProto pairs %v but FromProto pairs %v: a field is written to one message field and read back from another", a, b), nil)
	}
	// every message field is used
	hasTop := func(m map[string]map[string]bool, pf string) bool {
		for k := range m {
			if k == pf || strings.HasPrefix(k, pf+".") {
				return true
			}
		}
		return false
	}
	for _, pf := range pbFields {
		if !hasTop(pairTo, pf) || !hasTop(pairFrom, pf) {
			c.Bad(rule, goT+" ⟂ message-field "+pf+" used", "", p.Pos(toP.Pos()), fmt.Sprintf("message field %s.%s is not both written by ToProto (%v) and read by FromProto (%v)", pbT, pf, hasTop(pairTo, pf), hasTop(pairFrom, pf)), nil)
		}
	}
}

// ruleHashDefs (C12-R3).
func ruleHashDefs(c *Check, p *Prog) {
	rule := "C12-R3"
	hh := p.MustFunc(typesM("Header", "Hash"))
	ok := false
	for _, b := range hh.Blocks {
		for _, in := range b.Instrs {
			if call, isC := in.(*ssa.Call); isC && commonName(call.Common()) == "crypto/sha256.Sum256" {
				t := TermOf(call, &Ctx{Fn: hh})
				if strings.Contains(t.Args[0].String(), "types.Header).MarshalBinary("+hh.Params[0].Name()+")#0") {
					ok = true
				}
			}
		}
	}
	if ok {
		c.OK(rule, "Header.Hash = sha256(MarshalBinary(h))", fnName(hh), p.Pos(hh.Pos()), "hash over the header's own encoding", true)
	} else {
		c.Bad(rule, "Header.Hash = sha256(MarshalBinary(h))", fnName(hh), p.Pos(hh.Pos()), "the header hash is not sha256.Sum256 of the header's binary encoding", nil)
	}
	for _, m := range []string{"Hash", "DACommitment"} {
		fn := p.MustFunc(typesM("Data", m))
		ctx := &Ctx{Fn: fn}
		var leaf *Term
		for _, b := range fn.Blocks {
			for _, in := range b.Instrs {
				if call, isC := in.(*ssa.Call); isC && (call.Common().StaticCallee() != nil && len(call.Common().StaticCallee().Params) == 2 && strings.HasSuffix(call.Common().StaticCallee().Params[0].Type().String(), "hash.Hash")) {
					t := TermOf(call, ctx)
					if t.Args[0].IsCall("crypto/sha256.New") {
						leaf = t.Args[1]
					}
				}
			}
		}
		inst := "Data." + m + " = leafHash(sha256, MarshalBinary(·))"
		// the commitment may encode the message directly: proto.Marshal of a pb.Data carrying only
		// Txs, built from the receiver's transactions by the same conversion Data.ToProto uses —
		// the bytes MarshalBinary gives for a Data without metadata
		if m == "DACommitment" && leaf != nil && !strings.Contains(leaf.String(), "types.Data).MarshalBinary(") && strings.Contains(leaf.String(), "proto.Marshal(") {
			txsOf := func(f *ssa.Function) (string, int) {
				for _, b := range f.Blocks {
					for _, in := range b.Instrs {
						if al, isA := in.(*ssa.Alloc); isA && strings.HasSuffix(al.Type().String(), "v1.Data") {
							st := litStores(al)
							if len(st["Txs"]) == 1 {
								t := TermOf(st["Txs"][0], &Ctx{Fn: f}).String()
								return strings.ReplaceAll(t, f.Params[0].Name()+".", "recv."), len(st)
							}
						}
					}
				}
				return "", 0
			}
			want, _ := txsOf(p.MustFunc(typesM("Data", "ToProto")))
			got, nFields := txsOf(fn)
			if want != "" && got == want && nFields == 1 {
				c.OK(rule, inst, fnName(fn), p.Pos(fn.Pos()), "over the protobuf message carrying only the receiver's transactions, converted as Data.ToProto converts them (metadata excluded)", true)
			} else {
				c.Bad(rule, inst, fnName(fn), p.Pos(fn.Pos()), "the commitment encodes a message that is not Data.ToProto's message for the bare transaction list (Txs: "+trunc(got, 60)+", "+fmt.Sprint(nFields)+" fields set)", nil)
			}
			continue
		}
		if leaf == nil || !strings.Contains(leaf.String(), "types.Data).MarshalBinary(") {
			c.Bad(rule, inst, fnName(fn), p.Pos(fn.Pos()), "not the sha256 leaf hash of the data's binary encoding", nil)
			continue
		}
		if m == "Hash" {
			if strings.Contains(leaf.String(), "MarshalBinary("+fn.Params[0].Name()+")") {
				c.OK(rule, inst, fnName(fn), p.Pos(fn.Pos()), "over the whole Data", true)
			} else {
				c.Bad(rule, inst, fnName(fn), p.Pos(fn.Pos()), "Data.Hash is not over the receiver's encoding: "+trunc(leaf.String(), 100), nil)
			}
			continue
		}
		// commitment: a Data literal with only Txs = d.Txs
		okLit := false
		for _, b := range fn.Blocks {
			for _, in := range b.Instrs {
				if al, isA := in.(*ssa.Alloc); isA && strings.HasSuffix(al.Type().String(), "types.Data") {
					st := litStores(al)
					if len(st) == 1 && len(st["Txs"]) == 1 && TermOf(st["Txs"][0], ctx).String() == fn.Params[0].Name()+".Txs" {
						okLit = true
					}
				}
			}
		}
		if okLit {
			c.OK(rule, inst, fnName(fn), p.Pos(fn.Pos()), "over a Data carrying only the receiver's transactions (metadata excluded)", true)
		} else {
			c.Bad(rule, inst, fnName(fn), p.Pos(fn.Pos()), "the commitment is not computed over Data{Txs: d.Txs}: it depends on more than the ordered transaction list", nil)
		}
	}
	// leafHashOpt: Reset; Write(leafPrefix); Write(leaf); Sum(nil) in that order, leafPrefix = {0}
	var lh *ssa.Function
	for _, cal := range staticCalleesOf(p, p.MustFunc(typesM("Data", "Hash"))) {
		if len(cal.Params) == 2 && (strings.HasSuffix(cal.Params[0].Type().String(), "hash.Hash") || strings.HasSuffix(cal.Params[1].Type().String(), "hash.Hash")) {
			lh = cal
		}
	}
	if lh == nil {
		c.Unk(rule, "leaf-hash-helper", "", "", "anchor lost: the leaf hash helper called by Data.Hash")
	} else {
		g := BuildECFG(p, lh, ExpandOpts{MaxDepth: 0})
		var seq []string
		for _, n := range g.Nodes {
			if cc := CallCommonOf(n); cc != nil && cc.IsInvoke() {
				s := cc.Method.Name()
				if s == "Write" {
					s += "(" + ArgTerm(n, 0).String() + ")"
				}
				seq = append(seq, s)
			}
		}
		leafParam := lh.Params[1].Name()
		if strings.HasSuffix(lh.Params[1].Type().String(), "hash.Hash") {
			leafParam = lh.Params[0].Name()
		}
		want := "Reset,Write(types.leafPrefix),Write(" + leafParam + "),Sum"
		if strings.Join(seq, ",") == want || (len(seq) == 4 && seq[0] == "Reset" && strings.HasPrefix(seq[1], "Write(types.") && seq[2] == "Write("+leafParam+")" && seq[3] == "Sum") {
			c.OK(rule, "leafHashOpt = H(prefix ‖ leaf)", fnName(lh), p.Pos(lh.Pos()), strings.Join(seq, " → "), true)
		} else {
			c.Bad(rule, "leafHashOpt = H(prefix ‖ leaf)", fnName(lh), p.Pos(lh.Pos()), "unexpected hashing sequence "+strings.Join(seq, ","), nil)
		}
	}
	// the prefix global (first Write argument of the leaf hash helper) and its value from the package initialiser
	prefixGlobal := ""
	if lh != nil {
		for _, b := range lh.Blocks {
			for _, in := range b.Instrs {
				if call, ok := in.(*ssa.Call); ok && call.Common().IsInvoke() && call.Common().Method.Name() == "Write" && prefixGlobal == "" {
					if t := TermOf(call.Common().Args[0], &Ctx{Fn: lh}); t.Op == "global" {
						prefixGlobal = t.Name
					}
				}
			}
		}
	}
	pk := p.byPkg[rootPath+"/types"]
	pref := ""
	for _, f := range pk.Syntax {
		for _, d := range f.Decls {
			s := p.Fset.Position(d.Pos())
			_ = s
		}
	}
	if initFn := p.Package(rootPath + "/types").Func("init"); initFn != nil {
		for _, b := range initFn.Blocks {
			for _, in := range b.Instrs {
				if st, ok := in.(*ssa.Store); ok {
					if gl, ok := st.Addr.(*ssa.Global); ok && prefixGlobal != "" && "types."+gl.Name() == prefixGlobal {
						if sl, ok := st.Val.(*ssa.Slice); ok {
							if al, ok := sl.X.(*ssa.Alloc); ok {
								var bs []string
								ls := litStores(al)
								for _, k := range sortedKeys(ls) {
									for _, v := range ls[k] {
										bs = append(bs, TermOf(v, &Ctx{Fn: initFn}).Name)
									}
								}
								pref = strings.Join(bs, ",")
								if len(ls) == 0 {
									pref = fmt.Sprintf("zero[%s]", al.Type().String())
								}
							}
						}
					}
				}
			}
		}
	}
	if pref == "0" || pref == "zero[*[1]byte]" {
		c.OK(rule, "leafPrefix = {0x00}", "", "", "RFC-6962 style leaf prefix", true)
	} else {
		c.Bad(rule, "leafPrefix = {0x00}", "", "", "leaf prefix is "+pref+": every data hash and commitment changes", nil)
	}
	c.MinInstances(rule, 5)
}

// ruleDecoderGuards (C12-R4).
func ruleDecoderGuards(c *Check, p *Prog) {
	rule := "C12-R4"
	n := 0
	for _, wp := range wirePairs {
		fn := p.Func(typesM(wp.goT, "FromProto"))
		if fn == nil {
			continue
		}
		g := BuildECFG(p, fn, predicatesOnly(rootPath+"/types"))
		c.NoteGraph(g)
		seen := map[string]bool{}
		for _, nd := range g.Nodes {
			if !g.Live()[nd] || nd.Kind != NInstr {
				continue
			}
			fa, ok := nd.In.(*ssa.FieldAddr)
			if !ok {
				continue
			}
			// dereference of a pointer into the pb package
			pt, ok := fa.X.Type().Underlying().(*types.Pointer)
			if !ok {
				continue
			}
			nt, ok := pt.Elem().(*types.Named)
			if !ok || nt.Obj().Pkg() == nil || !(nt.Obj().Pkg().Path() == pbPkg || strings.HasSuffix(nt.Obj().Pkg().Path(), "timestamppb")) {
				continue
			}
			base := TermOf(fa.X, nd.Ctx)
			if seen[base.String()+"@"+p.InstrPos(fa)] {
				continue
			}
			seen[base.String()+"@"+p.InstrPos(fa)] = true
			n++
			guarded := false
			// the facts on the way, closed through the package's own predicates that accepted
			for _, f := range g.FactsAt(nodeSet([]*Node{nd}), 2) {
				t := f.Cond
				if t.Op == "bin" && t.Args[1].Name == "nil" && t.Args[0].String() == base.String() && ((t.Name == "!=" && f.Pol) || (t.Name == "==" && !f.Pol)) {
					guarded = true
				}
			}
			inst := wp.goT + ".FromProto ⟂ deref " + base.String() + "." + derefStruct(fa.X.Type()).Field(fa.Field).Name()
			if guarded {
				c.OK(rule, inst, fnName(fn), p.InstrPos(fa), "dominated by a nil test of "+base.String(), true)
			} else {
				c.Bad(rule, inst, fnName(fn), p.InstrPos(fa), "message pointer "+base.String()+" is dereferenced without a dominating nil test: bytes that decode to a message without that part make the decoder panic", nil)
			}
		}
	}
	if n < 10 {
		c.Unk(rule, "decoder-derefs", "", "", fmt.Sprintf("anchor lost: %d message dereferences found", n))
	}
	// cursor list codec
	var enc, dec *ssa.Function
	for _, f := range funcsCalling(p, rootPath+"/block", func(n string) bool {
		return strings.HasPrefix(n, "(encoding/binary.") && (strings.Contains(n, ").PutUint32") || strings.Contains(n, ").AppendUint32"))
	}) {
		enc = f
	}
	for _, f := range funcsCalling(p, rootPath+"/block", func(n string) bool {
		return strings.HasPrefix(n, "(encoding/binary.") && strings.HasSuffix(n, ").Uint32")
	}) {
		dec = f
	}
	if enc == nil || dec == nil {
		c.Unk(rule, "cursor-list-codec", "", "", "anchor lost: cursor list encoder/decoder")
		return
	}
	es, ds := callNames(enc), callNames(dec)
	var eOrd, dOrd string
	for k := range es {
		if strings.Contains(k, "encoding/binary.") && strings.Contains(k, "Put") {
			eOrd = k
		}
	}
	for k := range ds {
		if strings.Contains(k, "encoding/binary.") && !strings.Contains(k, "Put") {
			dOrd = k
		}
	}
	for k := range es {
		if strings.Contains(k, "encoding/binary.") && strings.Contains(k, "AppendUint") {
			eOrd = k
		}
	}
	same := strings.Replace(strings.Replace(eOrd, "PutUint", "Uint", 1), "AppendUint", "Uint", 1) == dOrd && eOrd != ""
	// the prefix codec is an on-disk format: nodes in the field have written cursor lists with it
	{
		want := ""
		if b, err := os.ReadFile(filepath.Join(filepath.Dir(variantsDir), "reference", "disk_formats.json")); err == nil {
			var ref map[string]string
			if json.Unmarshal(b, &ref) == nil {
				want = ref["cursor_list_length_prefix"]
			}
		}
		got := strings.TrimPrefix(strings.Replace(dOrd, ").", ".", 1), "(encoding/binary.")
		switch {
		case want == "":
			c.Unk(rule, "cursor-list ⟂ prefix-codec = reference", fnName(dec), "", "anchor lost: reference/disk_formats.json missing")
		case got == want:
			c.OK(rule, "cursor-list ⟂ prefix-codec = reference", fnName(dec), p.Pos(dec.Pos()), "length prefixes are read as "+got+", the format of the lists already on disk", true)
		default:
			c.Bad(rule, "cursor-list ⟂ prefix-codec = reference", fnName(dec), p.Pos(dec.Pos()), "length prefixes are read as "+got+" but the cursor lists already on disk were written as "+want+": a list persisted by an earlier version no longer decodes (a length of 3 reads as 50331648, the decoder reports corrupted data and the node starts without its batch cursor), and fixed values no longer keep their bytes", nil)
		}
	}
	if same {
		c.OK(rule, "cursor-list ⟂ same-prefix-codec", fnName(enc), p.Pos(enc.Pos()), eOrd+" / "+dOrd, true)
	} else {
		c.Bad(rule, "cursor-list ⟂ same-prefix-codec", fnName(enc), p.Pos(enc.Pos()), "length prefixes are written with "+eOrd+" but read with "+dOrd, nil)
	}
	// decoder slices are dominated by length tests
	g := BuildECFG(p, dec, ExpandOpts{MaxDepth: 0})
	c.NoteGraph(g)
	for _, nd := range g.Select(func(x *Node) bool { s, ok := x.In.(*ssa.Slice); return ok && s.High != nil }) {
		sl := nd.In.(*ssa.Slice)
		hi := TermOf(sl.High, nd.Ctx)
		base := TermOf(sl.X, nd.Ctx)
		guarded := false
		for _, f := range g.NecessaryEdges(nodeSet([]*Node{nd})) {
			t := f.Cond
			if t.Op == "bin" && t.Name == ">" && !f.Pol && t.Args[1].String() == "len("+base.String()+")" && sameSum(t.Args[0], hi) {
				guarded = true
			}
		}
		inst := "bytesToBatchData ⟂ slice[:" + trunc(hi.String(), 40) + "]"
		if guarded {
			c.OK(rule, inst, fnName(dec), p.InstrPos(sl), "upper bound checked against len(data)", true)
		} else {
			c.Bad(rule, inst, fnName(dec), p.InstrPos(sl), "the input is sliced up to "+hi.String()+" without a dominating check against its length: truncated bytes panic", nil)
		}
	}
}

// sameSum: a and b denote the same sum expression (string equality, or b = a's operands).
func sameSum(a, b *Term) bool {
	if a.String() == b.String() {
		return true
	}
	norm := func(t *Term) string {
		var parts []string
		var walk func(x *Term)
		walk = func(x *Term) {
			x = x.unconv()
			if x.Op == "bin" && x.Name == "+" {
				walk(x.Args[0])
				walk(x.Args[1])
				return
			}
			parts = append(parts, x.String())
		}
		walk(t)
		sort.Strings(parts)
		return strings.Join(parts, "+")
	}
	return norm(a) == norm(b)
}

// ruleGobTypes (C12-R5).
func ruleGobTypes(c *Check, p *Prog) {
	rule := "C12-R5"
	tp := p.TypesPkg(rootPath + "/types")
	for _, tn := range []string{"SignedHeader", "Data"} {
		ms := types.NewMethodSet(types.NewPointer(tp.Scope().Lookup(tn).Type()))
		has := map[string]bool{}
		for i := 0; i < ms.Len(); i++ {
			has[ms.At(i).Obj().Name()] = true
		}
		if has["MarshalBinary"] && has["UnmarshalBinary"] {
			c.OK(rule, tn+" ⟂ BinaryMarshaler+Unmarshaler", "", "", "gob uses the type's own binary codec", false)
		} else {
			c.Bad(rule, tn+" ⟂ BinaryMarshaler+Unmarshaler", "", "", "type stored through the gob caches lacks MarshalBinary/UnmarshalBinary: gob would encode its exported fields only (unexported state lost, interface-typed keys fail)", nil)
		}
	}
	lc := p.MustFunc(mgrM("LoadCache"))
	g := BuildECFG(p, lc, ExpandOpts{MaxDepth: 0})
	c.NoteGraph(g)
	regs := g.Select(IsCall("encoding/gob.Register"))
	loads := g.Select(func(n *Node) bool {
		if strings.HasSuffix(CallName(n), "Cache[_]).LoadFromDisk") {
			return true
		}
		// the loader taken as a method value (a table of load steps walked by a loop): the value
		// is created before it is called
		mc, ok := n.In.(*ssa.MakeClosure)
		return ok && n.Kind == NInstr && strings.HasSuffix(strings.TrimSuffix(genericName(fnName(mc.Fn.(*ssa.Function))), "$bound"), "Cache[_]).LoadFromDisk")
	})
	if len(regs) < 2 || len(loads) == 0 {
		c.Bad(rule, "LoadCache ⟂ register<load", fnName(lc), p.Pos(lc.Pos()), fmt.Sprintf("%d gob registrations, %d loads", len(regs), len(loads)), nil)
	} else {
		c.Decide(rule, "LoadCache ⟂ register<load", fnName(lc), p.InstrPos(regs[0].In), "types are registered before the caches are decoded", "a cache can be decoded before its types are registered", g, g.MustPrecede(nodeSet(regs), nodeSet(loads)))
	}
	_ = token.ADD
}

// accessPaths collects the maximal field-access chains in a term (and, through DeepContains'
// rules, in the values returned by repo helpers and stored into local literals).
func accessPaths(p *Prog, t *Term, depth int, out map[string]bool) {
	if t == nil {
		return
	}
	if t.Op == "field" {
		out[t.String()] = true
		// index/slice below a field chain belong to it; do not descend into the chain itself
		return
	}
	if depth > 0 && (t.Op == "call" || (t.Op == "extract" && t.Args[0].Op == "call")) {
		for _, r := range p.ReturnTerms(t) {
			accessPaths(p, r, depth-1, out)
		}
	}
	if depth > 0 && t.Op == "alloc" {
		if al, ok := t.V.(*ssa.Alloc); ok {
			for _, r := range *al.Referrers() {
				if st, ok := r.(*ssa.Store); ok && st.Addr == ssa.Value(al) {
					accessPaths(p, TermOf(st.Val, t.Ctx), depth-1, out)
				}
			}
			for _, vs := range litStores(al) {
				for _, v := range vs {
					accessPaths(p, TermOf(v, t.Ctx), depth-1, out)
				}
			}
		}
	}
	for _, a := range t.Args {
		accessPaths(p, a, depth, out)
	}
}

func leafMentioned(paths map[string]bool, want string) bool {
	for s := range paths {
		if s == want || strings.HasPrefix(s, want+".") || strings.HasPrefix(want, s+".") {
			return true
		}
	}
	return false
}

// ---- C12-R7: presence of sub-messages on the wire. In proto3 an absent sub-message and a
// present-but-empty one are different bytes; whether an encoder emits a sub-message always or
// only for some values is therefore part of the wire format. The shape computed from the
// encoders is compared with a committed reference (reference/proto_presence.json): a change
// makes fixed values encode to different bytes, hashes and signature payloads.
type presenceEntry struct {
	Encoder  string `json:"encoder"`
	Field    string `json:"field"`
	Presence string `json:"presence"` // always | conditional
}

func submessagePresence(p *Prog) []presenceEntry {
	var out []presenceEntry
	// value is a non-nil allocation on every alternative, looking through helpers
	var always func(v ssa.Value, fn *ssa.Function, d int) bool
	always = func(v ssa.Value, fn *ssa.Function, d int) bool {
		switch x := v.(type) {
		case *ssa.Alloc:
			return true
		case *ssa.Phi:
			for _, e := range x.Edges {
				if !always(e, fn, d) {
					return false
				}
			}
			return len(x.Edges) > 0
		case *ssa.Extract:
			if call, ok := x.Tuple.(*ssa.Call); ok {
				return alwaysCall(p, call, x.Index, d, always)
			}
		case *ssa.Call:
			return alwaysCall(p, x, 0, d, always)
		case *ssa.MakeInterface:
			return always(x.X, fn, d)
		case *ssa.ChangeType:
			return always(x.X, fn, d)
		}
		return false
	}
	for _, wp := range wirePairs {
		fn := p.Func(typesM(wp.goT, "ToProto"))
		if fn == nil {
			continue
		}
		fields := map[string]bool{} // field -> always on every returned literal
		seenField := map[string]bool{}
		for _, b := range fn.Blocks {
			ret, ok := b.Instrs[len(b.Instrs)-1].(*ssa.Return)
			if !ok || len(ret.Results) == 0 {
				continue
			}
			// the returned message: &pb.X{…} (possibly through a phi of literals)
			var lits []*ssa.Alloc
			var collect func(v ssa.Value, d int)
			collect = func(v ssa.Value, d int) {
				switch x := v.(type) {
				case *ssa.Alloc:
					lits = append(lits, x)
				case *ssa.Phi:
					if d < 4 {
						for _, e := range x.Edges {
							collect(e, d+1)
						}
					}
				}
			}
			collect(spilledResult(ret, 0), 0)
			for _, lit := range lits {
				st := derefStruct(lit.Type())
				if st == nil {
					continue
				}
				stores := litStores(lit)
				for i := 0; i < st.NumFields(); i++ {
					f := st.Field(i)
					pt, isPtr := f.Type().(*types.Pointer)
					if !isPtr || !f.Exported() {
						continue
					}
					if _, isStruct := pt.Elem().Underlying().(*types.Struct); !isStruct {
						continue
					}
					vals := stores[f.Name()]
					al := len(vals) > 0
					for _, v := range vals {
						if !always(v, fn, 0) {
							al = false
						}
					}
					if !seenField[f.Name()] {
						seenField[f.Name()] = true
						fields[f.Name()] = al
					} else if !al {
						fields[f.Name()] = false
					}
				}
			}
		}
		for _, name := range sortedKeys(fields) {
			pr := "conditional"
			if fields[name] {
				pr = "always"
			}
			out = append(out, presenceEntry{Encoder: wp.goT + ".ToProto", Field: name, Presence: pr})
		}
	}
	return out
}

func alwaysCall(p *Prog, call *ssa.Call, k int, d int, always func(ssa.Value, *ssa.Function, int) bool) bool {
	cal := call.Common().StaticCallee()
	if cal == nil || !p.InRepo(cal) || d > 2 {
		return false
	}
	n := 0
	for _, b := range cal.Blocks {
		ret, ok := b.Instrs[len(b.Instrs)-1].(*ssa.Return)
		if !ok || k >= len(ret.Results) {
			continue
		}
		// a return that reports an error hands back no message; the encoder returns that error
		if ec := corrResult(cal); ec >= 0 && ec != k && classifyReturn(ret, ec) == rcA {
			continue
		}
		n++
		if !always(spilledResult(ret, k), cal, d+1) {
			return false
		}
	}
	return n > 0
}

func ruleSubmessagePresence(c *Check, p *Prog) {
	rule := "C12-R7"
	c.Doc(rule, "ST: for every sub-message field of every wire encoder, whether it is emitted always or only for some values equals the committed reference (an absent and an empty sub-message are different bytes in proto3: a change alters the bytes, hashes and signature payloads of fixed values).")
	refPath := filepath.Join(filepath.Dir(variantsDir), "reference", "proto_presence.json")
	var ref []presenceEntry
	if b, e := os.ReadFile(refPath); e == nil {
		json.Unmarshal(b, &ref)
	}
	if len(ref) == 0 {
		c.Unk(rule, "reference", "", "", "anchor lost: reference/proto_presence.json missing or empty")
		return
	}
	got := map[string]string{}
	for _, e := range submessagePresence(p) {
		got[e.Encoder+"."+e.Field] = e.Presence
	}
	for _, r := range ref {
		k := r.Encoder + "." + r.Field
		inst := k + " ⟂ presence=" + r.Presence
		switch g := got[k]; {
		case g == "":
			c.Unk(rule, inst, "", "", "anchor lost: the encoder no longer assigns this sub-message field in a message literal")
		case g == r.Presence:
			c.OK(rule, inst, "", "", "the sub-message is emitted "+g+", as in the reference", true)
		default:
			c.Bad(rule, inst, "", "", "the sub-message is now emitted "+g+" (reference: "+r.Presence+"): values that encode with an empty sub-message today encode without it (or vice versa), so their bytes, hash and signature payload change while round trips inside one binary still pass", nil)
		}
	}
	c.MinInstances(rule, len(ref))
}

// ruleDecodersOverwrite (C12-R8): a decoded value is a function of the bytes alone. A decoder
// fills a receiver that may have held another value before (a variable reused over a sequence of
// blobs, gob decoding into a used element). Every field of the receiver that the decoder writes
// on some accepting path is therefore written on every accepting path — set from the message or
// reset — so nothing of the previous value survives into the decoded one.
func ruleDecodersOverwrite(c *Check, p *Prog) {
	rule := "C12-R8"
	c.Doc(rule, "EO: every wire decoder writes, on every accepting path, every receiver field it writes on some accepting path (a field absent from the message is reset, not left as it was): decoding into a used value yields the encoded value, not a mix with the previous one.")
	n := 0
	presence := submessagePresence(p)
	for _, wp := range wirePairs {
		fn := p.Func(typesM(wp.goT, "FromProto"))
		if fn == nil || fn.Blocks == nil || len(fn.Params) == 0 {
			continue
		}
		g := BuildECFG(p, fn, ExpandOpts{MaxDepth: 0})
		c.NoteGraph(g)
		recv := ssa.Value(fn.Params[0])
		// the top-level receiver field an address or value is rooted at
		var rootField func(v ssa.Value, d int) (int, bool)
		rootField = func(v ssa.Value, d int) (int, bool) {
			if d > 8 {
				return 0, false
			}
			switch x := v.(type) {
			case *ssa.FieldAddr:
				if x.X == recv {
					return x.Field, true
				}
				return rootField(x.X, d+1)
			case *ssa.IndexAddr:
				return rootField(x.X, d+1)
			case *ssa.UnOp:
				if x.Op == token.MUL {
					return rootField(x.X, d+1)
				}
			case *ssa.Slice:
				return rootField(x.X, d+1)
			case *ssa.ChangeType:
				return rootField(x.X, d+1)
			}
			return 0, false
		}
		writes := map[int][]*Node{}
		for _, nd := range g.Nodes {
			if nd.Kind != NInstr || nd.In == nil || !g.Live()[nd] {
				continue
			}
			switch x := nd.In.(type) {
			case *ssa.Store:
				if f, ok := rootField(x.Addr, 0); ok {
					writes[f] = append(writes[f], nd)
				}
			case *ssa.Call:
				// a nested decoder filling the field in place (its own completeness is its own obligation)
				for _, a := range x.Common().Args {
					if f, ok := rootField(a, 0); ok {
						if _, isPtr := a.Type().Underlying().(*types.Pointer); isPtr {
							writes[f] = append(writes[f], nd)
						}
					}
				}
			}
		}
		st := derefStruct(recv.Type())
		if st == nil {
			continue
		}
		// a sub-message the encoder always emits is absent only from foreign bytes: such a value
		// was not encoded from anything, and it still re-encodes and decodes to itself
		always := map[string]bool{}
		for _, pe := range presence {
			if pe.Encoder == wp.goT+".ToProto" && pe.Presence == "always" {
				always[pe.Field] = true
			}
		}
		foreignOnly := g.Select(EdgeWhere(func(t *Term, pol bool, nd *Node) bool {
			t, pol = normFact(t, pol)
			if t.Op != "bin" || len(t.Args) != 2 || t.Args[1].Name != "nil" || (t.Name != "==" && t.Name != "!=") {
				return false
			}
			isNil := (t.Name == "==") == pol
			a := t.Args[0]
			return isNil && a.Op == "field" && always[a.Name] && len(a.Args) == 1 && a.Args[0].Op == "param"
		}))
		var idxs []int
		for f := range writes {
			idxs = append(idxs, f)
		}
		sort.Ints(idxs)
		for _, f := range idxs {
			n++
			inst := wp.goT + ".FromProto ⟂ " + fieldLabel(recv.Type(), f) + " written on every accepting path"
			c.Decide(rule, inst, fnName(fn), p.InstrPos(writes[f][0].In), "the field is set or reset on every accepting path",
				"an accepting path of the decoder leaves this field as the receiver held it before: decoding a message without it into a used value yields a mix of the two values (other hash, other bytes when re-encoded, signature no longer valid)",
				g, g.PathAvoiding([]*Node{g.Entry}, g.SuccessExits(), orPred(nodeSet(writes[f]), nodeSet(foreignOnly))))
		}
	}
	if n < 20 {
		c.Unk(rule, "anchor-count", "", "", fmt.Sprintf("anchor lost: only %d receiver fields written by the wire decoders", n))
	}
}

// ruleDecodersAcceptEmptyEncoding (C12-R9): proto3 omits zero values, so a value all of whose
// fields are zero encodes to no bytes at all — a Data without metadata and without transactions
// (what block building starts from, the content behind the empty-block commitment), a zero
// Metadata, a zero Header's sub-messages. "Encoding then decoding yields an equal value" includes
// those values: a binary decoder of a wire type whose encoder can emit nothing must not refuse
// empty input.
func ruleDecodersAcceptEmptyEncoding(c *Check, p *Prog) {
	rule := "C12-R9"
	c.Doc(rule, "GA: the binary decoder of a wire type whose encoder does not always emit a sub-message (so that some value encodes to zero bytes) has no refusal on empty input: decode(encode(x)) = x also for the value that encodes to nothing.")
	presence := submessagePresence(p)
	n := 0
	for _, wp := range wirePairs {
		fn := p.Func(typesM(wp.goT, "UnmarshalBinary"))
		if fn == nil || fn.Blocks == nil || len(fn.Params) < 2 {
			continue
		}
		alwaysEmits := false
		for _, pe := range presence {
			if pe.Encoder == wp.goT+".ToProto" && pe.Presence == "always" {
				alwaysEmits = true
			}
		}
		n++
		inst := wp.goT + ".UnmarshalBinary ⟂ accepts the empty encoding"
		if alwaysEmits {
			c.OK(rule, inst, fnName(fn), p.Pos(fn.Pos()), "the encoder always emits a sub-message: no value of this type encodes to zero bytes", false)
			continue
		}
		g := BuildECFG(p, fn, ExpandOpts{MaxDepth: 0})
		c.NoteGraph(g)
		in := fn.Params[1].Name()
		empties := g.Select(EdgeWhere(func(t *Term, pol bool, nd *Node) bool {
			a, op, b, ok := canonCmp(t, pol)
			if !ok {
				return false
			}
			isLen := func(x *Term) bool { return x.unconv().String() == "len("+in+")" }
			k := func(x *Term) string { return x.unconv().Name }
			// len(in) == 0, len(in) < 1, len(in) <= 0, or in == nil
			if (isLen(a) && ((op == "==" && k(b) == "0") || (op == "<" && k(b) == "1") || (op == "<=" && k(b) == "0"))) || (isLen(b) && op == "==" && k(a) == "0") {
				return true
			}
			return op == "==" && ((a.String() == in && k(b) == "nil") || (b.String() == in && k(a) == "nil"))
		}))
		refuses := false
		var at *Node
		for _, e := range empties {
			reach := g.Reachable([]*Node{e}, nil)
			onlyErr := true
			any := false
			for _, x := range g.Exits {
				if reach[x] {
					any = true
					if g.ExitClass(x) != rcA {
						onlyErr = false
					}
				}
			}
			if any && onlyErr {
				refuses, at = true, e
			}
		}
		if refuses {
			c.Bad(rule, inst, fnName(fn), p.InstrPos(at.In), "the decoder refuses empty input, but a "+wp.goT+" all of whose fields are zero encodes to zero bytes (proto3 omits zero values): encoding then decoding that value fails — on the block store, the P2P store and the cache file alike", nil)
		} else {
			c.OK(rule, inst, fnName(fn), p.Pos(fn.Pos()), "empty input is handed to the protobuf decoder like any other", true)
		}
	}
	if n < 4 {
		c.Unk(rule, "anchor-count", "", "", fmt.Sprintf("anchor lost: only %d binary decoders of wire types found", n))
	}
}

// ruleDecodersWriteFreshStorage (C12-R11): a decoder fills its receiver with what the message
// says, in storage of its own. A decoder that reuses what the receiver's slice fields point to
// (append(h.X[:0], …), copy(h.X, …)) writes through to every value that shares that storage — an
// earlier decoded header copied by value, a slice the receiver was initialised with: their hash
// changes under them and their signature stops verifying.
func ruleDecodersWriteFreshStorage(c *Check, p *Prog, rule string) {
	c.Doc(rule, "VP: in the FromProto / UnmarshalBinary methods of the wire types no append grows, and no copy targets, a slice read from the receiver's own fields: decoded bytes live in fresh storage (or alias the message), never in storage another value may share.")
	n := 0
	for _, fn := range p.Funcs {
		pk := fnPkg(fn)
		if pk == nil || pk.Pkg.Path() != rootPath+"/types" || fn.Blocks == nil || fn.Signature.Recv() == nil {
			continue
		}
		if nm := fn.Name(); nm != "FromProto" && nm != "UnmarshalBinary" {
			continue
		}
		n++
		recv := fn.Params[0]
		fromRecv := func(v ssa.Value) bool {
			// v is (a slice of) a load of a field reached from the receiver
			for d := 0; d < 6 && v != nil; d++ {
				switch x := v.(type) {
				case *ssa.Slice:
					v = x.X
				case *ssa.UnOp:
					v = x.X
				case *ssa.FieldAddr:
					if x.X == ssa.Value(recv) {
						return true
					}
					v = x.X
				case *ssa.Field:
					v = x.X
				case *ssa.IndexAddr:
					v = x.X
				default:
					return false
				}
			}
			return false
		}
		// the field was given fresh storage just before (x.F = make(…); copy(x.F, …)): the load
		// that yields the destination follows, in its block, a store of a new slice to the same field
		freshlyAssigned := func(v ssa.Value) bool {
			for d := 0; d < 4 && v != nil; d++ {
				if sl, ok := v.(*ssa.Slice); ok {
					v = sl.X
					continue
				}
				ld, ok := v.(*ssa.UnOp)
				if !ok {
					return false
				}
				fa, ok := ld.X.(*ssa.FieldAddr)
				if !ok {
					return false
				}
				fresh := false
				for _, in := range ld.Block().Instrs {
					if in == ssa.Instruction(ld) {
						return fresh
					}
					st, ok := in.(*ssa.Store)
					if !ok {
						continue
					}
					fa2, ok := st.Addr.(*ssa.FieldAddr)
					if !ok || fa2.Field != fa.Field || fa2.X != fa.X {
						continue
					}
					sv := st.Val
					if ct, ok := sv.(*ssa.ChangeType); ok {
						sv = ct.X
					}
					_, fresh = sv.(*ssa.MakeSlice)
				}
				return false
			}
			return false
		}
		bad := ""
		for _, b := range fn.Blocks {
			for _, in := range b.Instrs {
				call, ok := in.(*ssa.Call)
				if !ok {
					continue
				}
				bi, ok := call.Common().Value.(*ssa.Builtin)
				if !ok || len(call.Common().Args) < 2 {
					continue
				}
				if (bi.Name() == "append" || bi.Name() == "copy") && fromRecv(call.Common().Args[0]) && !freshlyAssigned(call.Common().Args[0]) {
					// appending a decoded element to the receiver's own list, emptied first, is the
					// normal way to fill a list; what is refused is the reuse of byte storage
					if et, ok := call.Common().Args[0].Type().Underlying().(*types.Slice); ok {
						if bt, ok := et.Elem().Underlying().(*types.Basic); ok && bt.Kind() == types.Byte {
							bad = p.InstrPos(in)
						}
					}
				}
			}
		}
		inst := fnShort(fn) + " ⟂ decoded bytes in fresh storage"
		if bad == "" {
			c.OK(rule, inst, fnName(fn), p.Pos(fn.Pos()), "no byte slice of the receiver is reused as the destination of decoded bytes", true)
		} else {
			c.Bad(rule, inst, fnName(fn), bad, "the decoder writes decoded bytes into the storage a slice field of its receiver already points to (append(x.F[:0], …) / copy(x.F, …)): a value that shares that storage — an earlier decoded header copied by value, a slice the receiver was initialised with — is rewritten by the next decode; its hash changes and its signature no longer verifies", nil)
		}
	}
	if n == 0 {
		c.Unk(rule, "anchor-count", "", "", "anchor lost: no decoder methods in package types")
	}
	c.MinInstances(rule, 8)
}

// ruleDecodersRefuseOnlyTheUnrepresentable (C12-R12): what ToProto writes, FromProto reads back.
// A decoder fails when a part of the message it needs is absent (a nil test on the message or a
// sub-message) or when a call underneath fails (a key that does not parse); it has no opinion of
// its own on the values — a decoder that refuses, say, an empty transaction makes a block the node
// itself committed unreadable: every later step that loads it fails, on every restart again.
func ruleDecodersRefuseOnlyTheUnrepresentable(c *Check, p *Prog, rule string) {
	c.Doc(rule, "GA: in every FromProto and UnmarshalBinary of the wire types each error return is behind a nil test on (a part of) the message or behind the failure of a call underneath; no error return on a condition over the values or bytes carried — an empty byte string is the encoding of a value (a Data without metadata and transactions; the zero Metadata), and validation belongs to ValidateBasic, which the store's read path does not run.")
	n := 0
	for _, fn := range p.Funcs {
		pk := fnPkg(fn)
		if pk == nil || pk.Pkg.Path() != rootPath+"/types" || fn.Blocks == nil || fn.Signature.Recv() == nil || (fn.Name() != "FromProto" && fn.Name() != "UnmarshalBinary") || len(fn.Params) < 2 {
			continue
		}
		n++
		g := BuildECFG(p, fn, ExpandOpts{MaxDepth: 0})
		c.NoteGraph(g)
		msg := fn.Params[1].Name()
		justified := g.Select(EdgeWhere(func(t *Term, pol bool, nd *Node) bool {
			t, pol = normFact(t, pol)
			if t.Op != "bin" || len(t.Args) != 2 || t.Args[1].Name != "nil" || (t.Name != "!=" && t.Name != "==") {
				return false
			}
			isNil := (t.Name == "==") == pol
			a := t.Args[0]
			as := a.String()
			if isNil && (as == msg || strings.HasPrefix(as, msg+".") || strings.Contains(as, ").Get") && strings.Contains(as, "("+msg)) {
				return true // a part of the message is absent
			}
			if a.Op == "extract" && len(a.Args) > 0 {
				a = a.Args[0]
			}
			return !isNil && (a.Op == "call" || a.Op == "invoke" || a.Op == "dyncall") // a call underneath failed
		}))
		var refusing *Node
		for _, x := range g.Exits {
			ret, isRet := x.In.(*ssa.Return)
			if !isRet || len(ret.Results) == 0 {
				continue
			}
			// a package-level error value returned as it is (a sentinel) is an error return too
			sentinel := false
			if u, ok := spilledResult(ret, len(ret.Results)-1).(*ssa.UnOp); ok {
				if gl, ok := u.X.(*ssa.Global); ok && gl.Pkg != nil && strings.HasPrefix(gl.Pkg.Pkg.Path(), rootPath) {
					sentinel = true
				}
			}
			if g.ExitClass(x) != rcA && !sentinel {
				continue
			}
			rt := TermOf(spilledResult(ret, len(ret.Results)-1), x.Ctx)
			if (rt.Op == "call" || rt.Op == "invoke" || rt.Op == "extract") && !rt.IsCall("fmt.Errorf") && !rt.IsCall("errors.New") && !rt.IsCall("errors.Join") {
				continue
			}
			xx := x
			if g.PathAvoiding([]*Node{g.Entry}, func(y *Node) bool { return y == xx }, nodeSet(justified)) != nil {
				refusing = x
			}
		}
		inst := fnShort(fn) + " ⟂ refuses only what is absent or unparsable"
		if refusing == nil {
			c.OK(rule, inst, fnName(fn), p.Pos(fn.Pos()), "every error return is behind an absent message part or a failed call", true)
		} else {
			c.Bad(rule, inst, fnName(fn), p.InstrPos(refusing.In), "the decoder can return an error although no part of the message is absent and nothing underneath failed: it refuses a value on a condition of its own, which the encoder does not share — a value the node itself wrote (a block with such data, committed and saved) can no longer be read back, and every step that loads it fails from then on", nil)
		}
	}
	if n == 0 {
		c.Unk(rule, "anchor-count", "", "", "anchor lost: no FromProto in package types")
	}
	c.MinInstances(rule, 6)
}

// predicatesOnly: expansion options that look into the package's own boolean predicates (a guard
// moved into a named function) and nothing else.
func predicatesOnly(pkgPath string) ExpandOpts {
	return ExpandOpts{MaxDepth: 1, Stop: func(f *ssa.Function) bool {
		pk := fnPkg(f)
		if pk == nil || pk.Pkg.Path() != pkgPath || f.Signature.Recv() != nil {
			return true
		}
		res := f.Signature.Results()
		if res.Len() != 1 {
			return true
		}
		bt, ok := res.At(0).Type().Underlying().(*types.Basic)
		return !ok || bt.Kind() != types.Bool
	}}
}

// ruleListConversionsElementwise (C12-R13 = C03-R9): the helpers that convert a transaction list
// between its Go and its wire form map element for element. The wire bytes of a Data are what the
// proposer signs and what the commitment is taken of; a converter that filters on one side only
// (drops empty transactions when encoding while the decoder keeps them) makes two different lists
// share one signature payload and one commitment — a third party can alter a signed list.
func ruleListConversionsElementwise(c *Check, p *Prog, rule string) {
	c.Doc(rule, "EO: in every function of package types that converts between [][]byte and Txs, each iteration over the input writes the element into the output (an indexed store or an append): no path leads from the loop body's entry to the next iteration without it — no filtering on one side of the codec.")
	n := 0
	for _, fn := range p.Funcs {
		pk := fnPkg(fn)
		if pk == nil || pk.Pkg.Path() != rootPath+"/types" || fn.Blocks == nil || fn.Signature.Recv() != nil || fn.Parent() != nil {
			continue
		}
		sig := fn.Signature
		if sig.Params().Len() != 1 || sig.Results().Len() != 1 {
			continue
		}
		a, b := sig.Params().At(0).Type().String(), sig.Results().At(0).Type().String()
		isTxs := func(s string) bool { return strings.HasSuffix(s, "types.Txs") }
		if !((a == "[][]byte" && isTxs(b)) || (isTxs(a) && b == "[][]byte")) {
			continue
		}
		n++
		g := BuildECFG(p, fn, ExpandOpts{MaxDepth: 0})
		c.NoteGraph(g)
		writes := g.Select(func(x *Node) bool {
			if x.Kind != NInstr {
				return false
			}
			if st, ok := x.In.(*ssa.Store); ok {
				_, isIdx := st.Addr.(*ssa.IndexAddr)
				return isIdx
			}
			return CallName(x) == "append"
		})
		inst := fnShort(fn) + " ⟂ element for element"
		if len(writes) == 0 {
			c.Unk(rule, inst, fnName(fn), "", "anchor lost: the conversion writes no element")
			continue
		}
		hdr := loopHeaderOf(writes[0].In.Block())
		if hdr == nil {
			c.Unk(rule, inst, fnName(fn), "", "anchor lost: the conversion loop")
			continue
		}
		head := g.headNode(writes[0].Ctx, hdr)
		if head == nil {
			c.Unk(rule, inst, fnName(fn), "", "anchor lost: the conversion loop's head")
			continue
		}
		outside := func(x *Node) bool {
			if x.In == nil || x == head {
				return false
			}
			bb := x.In.Block()
			return !(bb == hdr || loopHeaderOf(bb) == hdr)
		}
		c.Decide(rule, inst, fnName(fn), p.InstrPos(writes[0].In), "every iteration writes its element into the output",
			"the conversion can pass an element over (a filter in the loop): the list on the wire is not the list in memory. The decoder keeps what this side drops, so two different transaction lists encode to the same bytes — the same signature payload, the same commitment: a list with injected entries verifies under the proposer's signature", g,
			g.PathAvoiding(head.Succ, func(x *Node) bool { return x == head }, orPred(nodeSet(writes), outside)))
	}
	if n == 0 {
		c.Unk(rule, "anchor-count", "", "", "anchor lost: no [][]byte <-> Txs conversion in package types")
	}
	c.MinInstances(rule, 2)
}

// rulePersistedCursorIsTheReturnedOne (C12-R14): the batch-cursor list the manager persists is the
// one the sequencing layer just returned — the value a restarted node hands back to the sequencer
// to continue from. Persisting the manager's own field is the same thing only after the field has
// been given the returned list; written before the assignment, the store lags one batch behind
// the memory and a restart replays a batch (or, with the based sequencer, rescans released heights).
func rulePersistedCursorIsTheReturnedOne(c *Check, p *Prog, rule string) {
	c.Doc(rule, "VP+EO: the value written under the last-batch-data key in the batch retrieval step derives from the BatchData of the GetNextBatch response; if it is read from the manager's own field instead, the store of the response's BatchData into that field precedes the write on every path.")
	fn := p.Func(mgrM("retrieveBatch"))
	if fn == nil {
		for _, f := range funcsCalling(p, rootPath+"/block", func(n string) bool { return strings.HasSuffix(n, "sequencer.Sequencer).GetNextBatch") }) {
			fn = f
		}
	}
	if fn == nil {
		c.Unk(rule, "batch retrieval", "", "", "anchor lost: the function that calls GetNextBatch")
		return
	}
	g := BuildECFG(p, fn, ownPkgOpts(rootPath+"/block", 1))
	c.NoteGraph(g)
	fromResp := func(t *Term) bool {
		return p.DeepContains(t, func(x *Term) bool {
			return x.Op == "field" && x.Name == "BatchData" && strings.Contains(x.String(), "GetNextBatch(")
		}, 3)
	}
	var puts []*Node
	for _, sn := range g.Select(func(x *Node) bool { return CallName(x) == storeM("SetMetadata") }) {
		keyConst, _ := constString(p, rootPath+"/pkg/store", "LastBatchDataKey")
		if k := ArgTerm(sn, 1); k != nil && (strings.Contains(k.String(), "LastBatchDataKey") || (keyConst != "" && strings.Trim(k.unconv().Name, "\"") == keyConst)) {
			puts = append(puts, sn)
		}
	}
	if len(puts) == 0 {
		c.Unk(rule, fnShort(fn)+" ⟂ persisted cursor", fnName(fn), "", "anchor lost: no write of the last-batch-data key in the retrieval step")
		return
	}
	for i, sn := range puts {
		sn := sn
		v := ArgTerm(sn, 2)
		inst := fnShort(fn) + " ⟂ persisted cursor is the returned one"
		if i > 0 {
			inst += fmt.Sprintf("#%d", i+1)
		}
		if v != nil && fromResp(v) {
			c.OK(rule, inst, fnName(fn), p.InstrPos(sn.In), "the persisted value is computed from the response's BatchData", true)
			continue
		}
		// read from a field of the manager: the field must hold the response's list by then
		assigns := g.Select(func(x *Node) bool {
			st, ok := x.In.(*ssa.Store)
			if !ok || x.Kind != NInstr {
				return false
			}
			if _, isField := st.Addr.(*ssa.FieldAddr); !isField {
				return false
			}
			return fromResp(TermOf(st.Val, x.Ctx))
		})
		if len(assigns) == 0 {
			c.Bad(rule, inst, fnName(fn), p.InstrPos(sn.In), "the value persisted as the batch cursor ("+trunc(v.String(), 80)+") does not derive from the response of GetNextBatch", nil)
			continue
		}
		c.Decide(rule, inst, fnName(fn), p.InstrPos(sn.In), "the field that is persisted has been given the response's BatchData before",
			"the batch cursor is persisted from the manager's field before that field is given the list the sequencer just returned: the store holds the previous cursor, one batch behind the memory — a restarted node hands the sequencer a stale cursor and the sequence does not continue where it stopped", g,
			g.MustPrecede(nodeSet(assigns), func(x *Node) bool { return x == sn }))
	}
}
