package main

import (
	"fmt"
	"go/constant"
	"go/token"
	"go/types"
	"os"
	"sort"
	"strconv"
	"strings"

	"golang.org/x/tools/go/ssa"
)

func init() {
	register("C14", &propDef{
		run: runC14,
		explanation: "Decides for the block store: R1 a block save writes its four records (header, data, signature, hash index) into one datastore batch, nothing goes to the datastore directly, and the single Commit follows all four Puts and precedes the only success return; " +
			"R2 the key prefixes are pairwise distinct constants, each key constructor uses its own prefix with a decimal/hex suffix, and every SetMetadata call site in the repository passes a key that is a non-empty constant / constant-initialised field / Sprintf of a constant format over a constant prefix and %d, with no '..' and no leading '/' (keys are path-cleaned, so such a key would escape the metadata prefix); " +
			"R3 the only Put on the height key is in SetHeight behind height > current with current read from the store; R4 every key kind has a writer and a reader and both sides use the matching codec.",
		notDecided:  "Read-your-writes, durability and crash atomicity of a batch (the datastore's); behaviour after Close/reopen.",
		assumptions: []string{"go-datastore (badger) implements Batch atomically and durably", "path.Clean semantics", "go/ssa"},
	})
}

const storePkg = rootPath + "/pkg/store"

type dsOp struct {
	fn     *ssa.Function
	node   *Node
	g      *Graph
	method string // Put Get Delete Has
	direct bool   // on the datastore itself (not a batch)
	ctor   string // key constructor name (getHeaderKey ...), "" if unknown
	key    *Term
	val    *Term // the value written, when it is not simply argument 2 (a row of a table of entries)
}

// putValue: the value a Put writes.
func (o dsOp) putValue() *Term {
	if o.val != nil {
		return o.val
	}
	return ArgTerm(o.node, 2)
}

// tableField: v reads field f of an element of a local array literal (a table of entries walked
// by a loop): the table and the field's label.
func tableField(v ssa.Value, depth int) (*ssa.Alloc, string) {
	if depth > 5 || v == nil {
		return nil, ""
	}
	elemOf := func(x ssa.Value) *ssa.Alloc {
		switch e := x.(type) {
		case *ssa.Index:
			if ld, ok := e.X.(*ssa.UnOp); ok && ld.Op == token.MUL {
				if al, ok := ld.X.(*ssa.Alloc); ok {
					return al
				}
			}
		case *ssa.IndexAddr:
			if al, ok := e.X.(*ssa.Alloc); ok {
				return al
			}
			// a slice literal: the slice of a local array
			if sl, ok := e.X.(*ssa.Slice); ok {
				if al, ok := sl.X.(*ssa.Alloc); ok {
					return al
				}
			}
		case *ssa.Alloc:
			// the loop variable: a local holding a copy of the ranged element
			var vals []ssa.Value
			for _, r := range *e.Referrers() {
				if st, ok := r.(*ssa.Store); ok && st.Addr == ssa.Value(e) {
					vals = append(vals, st.Val)
				}
			}
			if len(vals) == 1 {
				if ld, ok := vals[0].(*ssa.UnOp); ok && ld.Op == token.MUL {
					if ia, ok := ld.X.(*ssa.IndexAddr); ok {
						if al, ok := ia.X.(*ssa.Alloc); ok {
							return al
						}
						if sl, ok := ia.X.(*ssa.Slice); ok {
							if al, ok := sl.X.(*ssa.Alloc); ok {
								return al
							}
						}
					}
				}
				if ix, ok := vals[0].(*ssa.Index); ok {
					if ld, ok := ix.X.(*ssa.UnOp); ok && ld.Op == token.MUL {
						if al, ok := ld.X.(*ssa.Alloc); ok {
							return al
						}
					}
				}
			}
		}
		return nil
	}
	switch x := v.(type) {
	case *ssa.Field:
		if al := elemOf(x.X); al != nil {
			return al, fieldLabel(x.X.Type(), x.Field)
		}
	case *ssa.UnOp:
		if fa, ok := x.X.(*ssa.FieldAddr); ok && x.Op == token.MUL {
			if al := elemOf(fa.X); al != nil {
				return al, fieldLabel(fa.X.Type(), fa.Field)
			}
		}
	case *ssa.Call:
		for _, a := range x.Common().Args {
			if al, f := tableField(a, depth+1); al != nil {
				return al, f
			}
		}
	case *ssa.Convert:
		return tableField(x.X, depth+1)
	case *ssa.ChangeType:
		return tableField(x.X, depth+1)
	case *ssa.MakeInterface:
		return tableField(x.X, depth+1)
	case *ssa.Slice:
		return tableField(x.X, depth+1)
	}
	return nil, ""
}

var isCurrentHeight func(t *Term) bool

func runC14(c *Check) {
	p := c.Mod(ModRoot)
	c.Doc("C14-R1", "EO+VP: atomic block save.")
	c.Doc("C14-R2", "CT+CS: disjoint key kinds and safe metadata keys.")
	c.Doc("C14-R3", "GA+CS: monotone height.")
	c.Doc("C14-R4", "CS+VP: reader/writer codec agreement per key kind.")
	ruleNoBatchUseAfterCommit(c, p, "C14-R10", storePkg)
	ruleStoreNotBuffered(c, p, "C14-R11", storePkg)
	ruleOnDiskStoreOptionsDefault(c, p, "C14-R13")
	c.MinInstances("C14-R10", 1)

	ctors, ctorByLabel, kindLabel, ctorOf := storeKeyCtors(p, func(l string, ci, first *ctorInfo, fn *ssa.Function) {
		c.Bad("C14-R2", "ctor ⟂ "+l+" ⟂ unique", fnName(fn), p.Pos(fn.Pos()), "two key constructors build keys of the same kind "+ci.first+": "+fnShort(first.fn)+" and "+fnShort(fn), nil)
	})
	_, _ = ctors, kindLabel
	// ---- collect datastore operations of the store package
	var ops []dsOp
	for _, fn := range p.Funcs {
		pk := fnPkg(fn)
		if pk == nil || pk.Pkg.Path() != storePkg || fn.Parent() != nil {
			continue
		}
		if !strings.Contains(fn.String(), "DefaultStore") {
			continue
		}
		g := BuildECFG(p, fn, ExpandOpts{MaxDepth: 0})
		c.NoteGraph(g)
		for _, n := range g.Select(func(n *Node) bool {
			return dsCall(n, "Put") || dsCall(n, "Get") || dsCall(n, "Delete") || dsCall(n, "Has")
		}) {
			cn := CallName(n)
			op := dsOp{fn: fn, node: n, g: g, method: cn[strings.LastIndex(cn, ".")+1:]}
			recv := RecvTerm(n)
			op.direct = recv != nil && recv.Op == "field" && recv.Name == "db"
			op.key = ArgTerm(n, 1)
			op.key.Walk(func(t *Term) bool {
				if l := ctorOf(t); l != "" {
					op.ctor = l
				}
				return true
			})
			// a table of entries written by one loop: one operation per row
			if call, isCall := n.In.(*ssa.Call); isCall && op.ctor == "" && op.method == "Put" && len(call.Common().Args) >= 3 {
				kal, kf := tableField(call.Common().Args[1], 0)
				val, vf := tableField(call.Common().Args[2], 0)
				if os.Getenv("VERIF_DEBUG_C14") != "" {
					fmt.Fprintf(os.Stderr, "DBG table kal=%v kf=%q val=%v vf=%q\n", kal != nil, kf, val != nil, vf)
					if kal != nil {
						for k := range litStores(kal) {
							fmt.Fprintf(os.Stderr, "DBG   row %s\n", k)
						}
					}
				}
				if kal != nil && kal == val {
					// a table variable whose address is taken is initialised by one copy of the literal
					lit := kal
					for _, r := range *kal.Referrers() {
						if st, ok := r.(*ssa.Store); ok && st.Addr == ssa.Value(kal) {
							if ld, ok := st.Val.(*ssa.UnOp); ok && ld.Op == token.MUL {
								if inner, ok := ld.X.(*ssa.Alloc); ok {
									lit = inner
								}
							}
						}
					}
					rows := litStores(lit)
					expanded := false
					for i := 0; ; i++ {
						ks, vs := rows[fmt.Sprintf("[%d].%s", i, kf)], rows[fmt.Sprintf("[%d].%s", i, vf)]
						if len(ks) != 1 || len(vs) != 1 {
							break
						}
						row := op
						row.key, row.val = TermOf(ks[0], n.Ctx), TermOf(vs[0], n.Ctx)
						row.key.Walk(func(t *Term) bool {
							if l := ctorOf(t); l != "" {
								row.ctor = l
							}
							return true
						})
						ops = append(ops, row)
						expanded = true
					}
					if expanded {
						continue
					}
				}
			}
			ops = append(ops, op)
		}
	}
	if len(ops) < 10 {
		c.Unk("C14-R4", "store ⟂ datastore-operations", "", "", fmt.Sprintf("anchor lost: only %d datastore operations found in pkg/store", len(ops)))
		return
	}

	// ---- R12: the record read is the record of the height asked for. In a method that takes
	// a height, the height that goes into a key is the parameter as given: a height rewritten on
	// the way (0 taken for "latest", clamped, defaulted) makes a read of one height answer with
	// another height's record — and height 0 is a key like any other.
	c.Doc("C14-R12", "VP: in every store method that takes a height, each datastore key built from that height is built from the parameter itself (not from a value the method substituted for it on some path).")
	{
		n := 0
		for _, op := range ops {
			if op.fn.Signature.Recv() == nil {
				continue
			}
			var hp []*ssa.Parameter
			for _, prm := range op.fn.Params[1:] {
				if bt, ok := prm.Type().Underlying().(*types.Basic); ok && bt.Kind() == types.Uint64 {
					hp = append(hp, prm)
				}
			}
			if len(hp) == 0 || op.key == nil {
				continue
			}
			subst := ""
			mentions := false
			op.key.Walk(func(t *Term) bool {
				if t.Op != "call" {
					return true
				}
				for _, a := range t.Args {
					au := a.unconv()
					for _, prm := range hp {
						if au.V == ssa.Value(prm) {
							mentions = true
							continue
						}
						if au.Op == "phi" && au.Contains(func(x *Term) bool { return x.V == ssa.Value(prm) }) {
							mentions = true
							subst = trunc(au.String(), 80)
						}
					}
				}
				return true
			})
			if !mentions {
				continue
			}
			n++
			inst := fnShort(op.fn) + " ⟂ " + op.method + " keyed by the height asked for"
			if subst == "" {
				c.OK("C14-R12", inst, fnName(op.fn), p.InstrPos(op.node.In), "the key is built from the height parameter itself", true)
			} else {
				c.Bad("C14-R12", inst, fnName(op.fn), p.InstrPos(op.node.In), "the key is built from "+subst+": on some path the method substitutes another height for the one it was asked for (for example the latest height for 0), so a read of that height returns another height's record, and succeeds where nothing was stored", nil)
			}
		}
		if n == 0 {
			c.Unk("C14-R12", "anchor-count", "", "", "anchor lost: no datastore operation keyed by a height parameter")
		}
		c.MinInstances("C14-R12", 4)
	}
	// ---- R1
	save := p.MustFunc("(*" + storePkg + ".DefaultStore).SaveBlockData")
	{
		g := BuildECFG(p, save, ExpandOpts{MaxDepth: 0})
		c.NoteGraph(g)
		fn := fnName(save)
		var puts, direct []*Node
		for _, o := range ops {
			if o.fn != save {
				continue
			}
		}
		isPut := func(n *Node) bool { return dsCall(n, "Put") || dsCall(n, "Delete") }
		for _, n := range g.Select(isPut) {
			r := RecvTerm(n)
			if r != nil && r.Op == "extract" && r.Args[0].Op == "invoke" && strings.HasSuffix(r.Args[0].Name, ".Batch") {
				puts = append(puts, n)
			} else {
				direct = append(direct, n)
			}
		}
		commits := g.Select(func(n *Node) bool { return dsCall(n, "Commit") })
		if len(direct) == 0 {
			c.OK("C14-R1", "SaveBlockData ⟂ no-direct-write", fn, p.Pos(save.Pos()), "every write goes to the batch obtained from db.Batch", true)
		} else {
			c.Bad("C14-R1", "SaveBlockData ⟂ no-direct-write", fn, p.InstrPos(direct[0].In), "a record of a block is written to the datastore directly, outside the batch: a crash can leave a partial block", nil)
		}
		// the records written: one per Put, or one per row when a loop writes a table of entries
		var rows []dsOp
		for _, o := range ops {
			if o.fn != save || o.method != "Put" {
				continue
			}
			for _, pn := range puts {
				if pn.In == o.node.In {
					rows = append(rows, o)
				}
			}
		}
		kinds := map[string]bool{}
		for _, o := range rows {
			if o.ctor != "" {
				kinds[o.ctor] = true
			}
		}
		want := []string{"getDataKey", "getHeaderKey", "getIndexKey", "getSignatureKey"}
		got := sortedKeys(kinds)
		if strings.Join(got, ",") == strings.Join(want, ",") && len(rows) == 4 {
			c.OK("C14-R1", "SaveBlockData ⟂ four-records", fn, p.Pos(save.Pos()), "header, data, signature and hash index are put into the batch", true)
		} else {
			c.Bad("C14-R1", "SaveBlockData ⟂ four-records", fn, p.Pos(save.Pos()), fmt.Sprintf("expected one Put each for header, data, signature, index; found %d puts of kinds %v", len(rows), got), nil)
		}
		// a Delete in the same batch: the later operation on a key wins, so deleting a key of a
		// kind the batch has put needs a test showing that the two keys differ
		for _, dn := range puts {
			if !dsCall(dn, "Delete") {
				continue
			}
			dk := ArgTerm(dn, 1)
			var dctor string
			var darg *Term
			dk.Walk(func(t *Term) bool {
				if l := ctorOf(t); l != "" && len(t.Args) == 1 {
					dctor, darg = l, t.Args[0]
				}
				return true
			})
			inst := "SaveBlockData ⟂ delete-in-batch ⟂ " + dctor
			clash := false
			okDiff := false
			for _, o := range rows {
				if o.ctor == "" || o.ctor != dctor {
					continue
				}
				clash = true
				var parg *Term
				o.key.Walk(func(t *Term) bool {
					if ctorOf(t) == dctor && len(t.Args) == 1 {
						parg = t.Args[0]
					}
					return true
				})
				dd := dn
				for _, f := range g.NecessaryEdges(func(n *Node) bool { return n == dd }) {
					t, pol := normFact(f.Cond, f.Pol)
					if darg == nil || parg == nil || len(t.Args) != 2 {
						continue
					}
					a, b := t.Args[0].String(), t.Args[1].String()
					same := (a == darg.String() && b == parg.String()) || (b == darg.String() && a == parg.String())
					if same && ((t.IsCall("bytes.Equal") && !pol) || (t.Op == "bin" && ((t.Name == "!=" && pol) || (t.Name == "==" && !pol)))) {
						okDiff = true
					}
				}
			}
			switch {
			case dctor == "":
				c.Bad("C14-R1", inst, fn, p.InstrPos(dn.In), "the block save deletes a key that is not built by a key constructor: "+trunc(dk.String(), 80), nil)
			case clash && !okDiff:
				c.Bad("C14-R1", inst, fn, p.InstrPos(dn.In), "the batch deletes a "+dctor+" record after putting one, without a test that the two keys differ: when they are equal (the same block saved again, e.g. a recovery replay) the delete wins and the record just written is gone — the block is no longer retrievable by that key", nil)
			default:
				c.OK("C14-R1", inst, fn, p.InstrPos(dn.In), "the deleted key is of a kind the batch does not put, or is shown to differ from the key put", true)
			}
		}
		if len(commits) != 1 {
			c.Bad("C14-R1", "SaveBlockData ⟂ single-commit", fn, p.Pos(save.Pos()), fmt.Sprintf("%d Commit calls", len(commits)), nil)
		} else {
			for i, o := range rows {
				var pp *Node
				for _, pn := range puts {
					if pn.In == o.node.In {
						pp = pn
					}
				}
				inst := fmt.Sprintf("SaveBlockData ⟂ put-%d<commit", i+1)
				if o.val == nil {
					path := g.PathAvoiding([]*Node{g.Entry}, nodeSet(commits), func(n *Node) bool { return n == pp })
					c.Decide("C14-R1", inst, fn, p.InstrPos(pp.In), "the record is in the batch before Commit", "Commit is reachable without this record having been put", g, path)
					continue
				}
				// a row of a table written by a loop: Commit is reached only through the edge that
				// leaves the loop after its last row, the loop counts to the number of rows, and
				// every iteration passes the Put (the only other ways out are error returns)
				hb := loopHeaderOf(pp.In.Block())
				var exhausted, body []*Node
				okCount := false
				if hb != nil {
					if ifi, ok := hb.Instrs[len(hb.Instrs)-1].(*ssa.If); ok {
						if cmp, ok := ifi.Cond.(*ssa.BinOp); ok && cmp.Op == token.LSS {
							if k, ok := cmp.Y.(*ssa.Const); ok && k.Value != nil && int(k.Int64()) == len(rows) {
								okCount = true
							}
						}
						exhausted = g.Select(func(n *Node) bool { return n.Kind == NFalse && n.In == ssa.Instruction(ifi) })
						body = g.Select(func(n *Node) bool { return n.Kind == NTrue && n.In == ssa.Instruction(ifi) })
					}
				}
				head := g.headNode(pp.Ctx, hb)
				switch {
				case hb == nil || !okCount || len(exhausted) == 0 || len(body) == 0 || head == nil:
					c.Bad("C14-R1", inst, fn, p.InstrPos(pp.In), "the record is written by a loop over a table of entries that is not a plain count over all its rows: Commit may be reached without it", nil)
				default:
					path := g.PathAvoiding([]*Node{g.Entry}, nodeSet(commits), nodeSet(exhausted))
					if path == nil {
						path = g.PathAvoiding(body, func(n *Node) bool { return n == head }, func(n *Node) bool { return n == pp })
					}
					c.Decide("C14-R1", inst, fn, p.InstrPos(pp.In), "the record is in the batch before Commit (a row of a table the loop walks completely)", "Commit is reachable without this record having been put", g, path)
				}
			}
			commitOK := g.Select(ErrNilEdge(func(t *Term) bool { return t.Op == "invoke" && strings.HasSuffix(t.Name, ".Commit") }))
			c.Decide("C14-R1", "SaveBlockData ⟂ success-only-after-commit", fn, p.InstrPos(commits[0].In), "success is returned only after Commit succeeded",
				"SaveBlockData can return success without a successful Commit", g, g.PathAvoiding([]*Node{g.Entry}, g.SuccessExits(), nodeSet(commitOK)))
			// all keys for the same height; index maps the header's hash to that height
			hts := map[string]bool{}
			for _, o := range rows {
				o.key.Walk(func(t *Term) bool {
					if ctorOf(t) != "" && len(t.Args) == 1 {
						hts[t.Args[0].String()] = true
					}
					return true
				})
			}
			hdr := save.Params[2].Name()
			okArgs := len(hts) == 2 && hts["(*types.Header).Height("+hdr+".Header)"] && hts["(*types.Header).Hash("+hdr+".Header)"]
			if okArgs {
				c.OK("C14-R1", "SaveBlockData ⟂ keys-of-this-block", fn, p.Pos(save.Pos()), "records are keyed by the header's height, the index by the header's hash", true)
			} else {
				c.Bad("C14-R1", "SaveBlockData ⟂ keys-of-this-block", fn, p.Pos(save.Pos()), fmt.Sprintf("unexpected key arguments: %v", sortedKeys(hts)), nil)
			}
		}
	}
	c.MinInstances("C14-R1", 8)

	// ---- R2: the prefixes the key constructors use are pairwise distinct
	prefixes := map[string]string{}
	for fn, ci := range ctors {
		prefixes[fnShort(fn)] = strings.Trim(ci.first, "\"")
	}
	if len(prefixes) < 7 {
		c.Unk("C14-R2", "prefix-constants", "", "", fmt.Sprintf("anchor lost: %d key constructors with a constant prefix", len(prefixes)))
	}
	seen := map[string]string{}
	dup := false
	for _, n := range sortedKeys(prefixes) {
		v := prefixes[n]
		if o, ok := seen[v]; ok || v == "" || strings.Contains(v, "/") {
			dup = true
			c.Bad("C14-R2", "prefix ⟂ "+v, "", "", fmt.Sprintf("prefix %q of %s is empty, contains '/', or equals that of %s: records of different kinds would overwrite one another", v, n, o), nil)
		}
		seen[v] = n
	}
	if !dup {
		c.OK("C14-R2", "prefixes-pairwise-distinct", "", "", fmt.Sprintf("%d prefixes, all distinct, non-empty, without '/': %v", len(prefixes), sortedKeys(seen)), true)
	}
	// each record kind has its constructor, with a decimal/hex suffix
	for _, ctor := range sortedKeys(kindLabel) {
		label := kindLabel[ctor]
		ci := ctorByLabel[label]
		if ci == nil {
			c.Unk("C14-R2", "ctor ⟂ "+label, "", "", "anchor lost: no key constructor builds keys of kind "+ctor)
			continue
		}
		suffix := ci.suffix
		okSuffix := suffix == nil || suffix.IsCall("strconv.FormatUint") || suffix.IsCall("go-header.Hash).String") || suffix.Op == "param"
		if okSuffix {
			c.OK("C14-R2", "ctor ⟂ "+label, fnName(ci.fn), p.Pos(ci.fn.Pos()), "prefix "+ci.first, true)
		} else {
			c.Bad("C14-R2", "ctor ⟂ "+label, fnName(ci.fn), p.Pos(ci.fn.Pos()), "key constructor of kind "+ci.first+" has an unexpected suffix "+trunc(suffix.String(), 60), nil)
		}
	}
	for fn, ci := range ctors {
		if _, ok := kindLabel[ci.first]; !ok {
			c.OK("C14-R2", "ctor ⟂ key-kind "+ci.first, fnName(fn), p.Pos(fn.Pos()), "a key constructor of a kind added after the pinned tree; prefix "+ci.first, true)
		}
	}
	// SetMetadata call sites in all modules
	mods := []string{ModRoot}
	if c.Thorough() {
		mods = append(mods, ModSingle, ModBased, ModTestapp, ModDA)
	}
	nMeta := 0
	for _, mn := range mods {
		mp := c.Mod(mn)
		for _, fn := range mp.Funcs {
			if gn := genericName(fnName(fn)); gn != fnName(fn) && len(mp.GenericReps(gn)) > 0 && mp.GenericReps(gn)[0] != fn {
				continue
			}
			ctx := &Ctx{Fn: fn}
			for _, b := range fn.Blocks {
				for _, in := range b.Instrs {
					call, ok := in.(*ssa.Call)
					if !ok || commonName(call.Common()) != storeM("SetMetadata") {
						continue
					}
					nMeta++
					key := TermOf(call.Common().Args[1], ctx)
					ok2, why := safeMetaKey(mp, key)
					inst := "SetMetadata in " + genericName(fnShort(fn)) + " ⟂ " + trunc(key.String(), 50)
					if ok2 {
						c.OK("C14-R2", inst, fnName(fn), mp.InstrPos(in), why, true)
					} else {
						c.Bad("C14-R2", inst, fnName(fn), mp.InstrPos(in), "metadata key is not a safe constant-derived key ("+why+"): keys are path-cleaned, so an empty key, '..' or a leading '/' leaves the metadata prefix and can overwrite a record of another kind", nil)
					}
				}
			}
		}
	}
	if nMeta < 3 { // a floor against a vacuous pass, not the exact count: call sites may be merged into a helper
		c.Unk("C14-R2", "SetMetadata-call-sites", "", "", fmt.Sprintf("anchor lost: %d call sites (5 on the pinned tree, at least 3 expected)", nMeta))
	}

	// functions of the store that (transitively) read the height record: a value they return is
	// "the current height of the store"
	heightReaders := map[*ssa.Function]bool{}
	{
		direct := map[*ssa.Function]bool{}
		for _, o := range ops {
			if o.method == "Get" && o.ctor == "getHeightKey" {
				direct[o.fn] = true
			}
		}
		var reads func(fn *ssa.Function, d int, seen map[*ssa.Function]bool) bool
		reads = func(fn *ssa.Function, d int, seen map[*ssa.Function]bool) bool {
			if direct[fn] {
				return true
			}
			if seen[fn] || d > 4 {
				return false
			}
			seen[fn] = true
			for _, cal := range staticCalleesOf(p, fn) {
				if pk := fnPkg(cal); pk != nil && pk.Pkg.Path() == storePkg && reads(cal, d+1, seen) {
					return true
				}
			}
			return false
		}
		for _, fn := range p.Funcs {
			if pk := fnPkg(fn); pk != nil && pk.Pkg.Path() == storePkg && fn.Parent() == nil && strings.HasPrefix(resultTypes(fn), "uint64") {
				if reads(fn, 0, map[*ssa.Function]bool{}) {
					heightReaders[fn] = true
				}
			}
		}
	}
	isCurrentHeight = func(t *Term) bool {
		t = t.unconv()
		if t.Op == "extract" {
			t = t.Args[0]
		}
		cv, ok := t.V.(*ssa.Call)
		return ok && t.Op == "call" && heightReaders[cv.Common().StaticCallee()]
	}
	// ---- R3
	nHeightPut := 0
	for _, o := range ops {
		if o.ctor != "getHeightKey" || (o.method != "Put" && o.method != "Delete") {
			continue
		}
		nHeightPut++
		fn := fnName(o.fn)
		if o.fn.Name() != "SetHeight" {
			c.Bad("C14-R3", "height-write in "+fnShort(o.fn), fn, p.InstrPos(o.node.In), "the height record is written outside SetHeight: the monotonicity guard is bypassed", nil)
			continue
		}
		facts := o.g.NecessaryEdges(nodeSet([]*Node{o.node}))
		h := o.fn.Params[2].Name()
		guard := false
		for _, f := range facts {
			t := f.Cond
			if t.Op == "bin" && len(t.Args) == 2 && t.Args[0].String() == h && isCurrentHeight(t.Args[1]) && ((t.Name == "<=" && !f.Pol) || (t.Name == ">" && f.Pol)) {
				guard = true
			}
		}
		val := ArgTerm(o.node, 2)
		okVal := val.Op == "call" && encFnOf(p) != nil && callsStatic(val, encFnOf(p)) && len(val.Args) == 1 && val.Args[0].String() == h
		if guard && okVal {
			c.OK("C14-R3", "SetHeight ⟂ only-grows", fn, p.InstrPos(o.node.In), "the height is written only behind height > current (read from the store), with the given height", true)
		} else {
			c.Bad("C14-R3", "SetHeight ⟂ only-grows", fn, p.InstrPos(o.node.In), fmt.Sprintf("the height write is not guarded by height > current height of the store (guard=%v) or does not write the given height (%v): the recorded height could decrease", guard, okVal), nil)
		}
	}
	if nHeightPut == 0 {
		c.Unk("C14-R3", "height-write", "", "", "anchor lost: no write of the height record")
	}
	ruleHeightNotAheadOfDisk(c, p)
	ruleWriteMethodsWrite(c, p)
	ruleSinglePurposeWriters(c, p, "C14-R7")
	rulePersistentStoreIsOnDisk(c, p, "C14-R8")
	ruleWritersRefuseNothing(c, p, "C14-R9")
	// ---- R6: a getter returns the record of its own kind
	c.Doc("C14-R6", "CS: every store method that returns a header, data, signature or state reads (itself or through the store methods it calls) the record kind that holds that value; a value reconstructed from another record is not 'what the latest write stored'.")
	{
		kindOfType := map[string]string{
			"*" + rootPath + "/types.SignedHeader": "getHeaderKey",
			"*" + rootPath + "/types.Data":         "getDataKey",
			"*" + rootPath + "/types.Signature":    "getSignatureKey",
			rootPath + "/types.State":              "getStateKey",
		}
		readsOf := map[*ssa.Function]map[string]bool{}
		for _, o := range ops {
			if o.method != "Get" || o.ctor == "" {
				continue
			}
			if readsOf[o.fn] == nil {
				readsOf[o.fn] = map[string]bool{}
			}
			readsOf[o.fn][o.ctor] = true
		}
		var trans func(fn *ssa.Function, d int, seen map[*ssa.Function]bool) map[string]bool
		trans = func(fn *ssa.Function, d int, seen map[*ssa.Function]bool) map[string]bool {
			out := map[string]bool{}
			if seen[fn] || d > 4 {
				return out
			}
			seen[fn] = true
			for k := range readsOf[fn] {
				out[k] = true
			}
			for _, cal := range staticCalleesOf(p, fn) {
				if pk := fnPkg(cal); pk != nil && pk.Pkg.Path() == storePkg {
					for k := range trans(cal, d+1, seen) {
						out[k] = true
					}
				}
			}
			return out
		}
		n6 := 0
		for _, fn := range p.Funcs {
			pk := fnPkg(fn)
			if pk == nil || pk.Pkg.Path() != storePkg || fn.Parent() != nil || fn.Signature.Recv() == nil || !strings.HasSuffix(fn.Signature.Recv().Type().String(), "DefaultStore") {
				continue
			}
			res := fn.Signature.Results()
			var want []string
			for i := 0; i < res.Len(); i++ {
				if k, ok := kindOfType[res.At(i).Type().String()]; ok {
					want = append(want, k)
				}
			}
			if len(want) == 0 {
				continue
			}
			got := trans(fn, 0, map[*ssa.Function]bool{})
			for _, k := range want {
				n6++
				inst := fnShort(fn) + " ⟂ reads " + k
				if got[k] {
					c.OK("C14-R6", inst, fnName(fn), p.Pos(fn.Pos()), "the value returned comes from the record kind that stores it", true)
				} else {
					c.Bad("C14-R6", inst, fnName(fn), p.Pos(fn.Pos()), fmt.Sprintf("the method returns a value of this kind without reading its record (records read: %v): it returns something other than what the latest write stored for that height/hash", sortedKeys(got)), nil)
				}
			}
		}
		if n6 < 6 {
			c.Unk("C14-R6", "getters", "", "", fmt.Sprintf("anchor lost: %d getter results checked", n6))
		}
		// what a getter hands out is the caller's own copy: a pointer result is never an object
		// the store keeps (a field of the store): a caller that edits its copy in memory (the
		// producer signs the pending header it loaded) would change what later reads return
		// although nothing was written
		for _, fn := range p.Funcs {
			pk := fnPkg(fn)
			if pk == nil || pk.Pkg.Path() != storePkg || fn.Parent() != nil || fn.Signature.Recv() == nil || !strings.HasSuffix(fn.Signature.Recv().Type().String(), "DefaultStore") {
				continue
			}
			res := fn.Signature.Results()
			for i := 0; i < res.Len(); i++ {
				if _, isPtr := res.At(i).Type().Underlying().(*types.Pointer); !isPtr {
					continue
				}
				shared := ""
				for _, b := range fn.Blocks {
					ret, ok := b.Instrs[len(b.Instrs)-1].(*ssa.Return)
					if !ok || i >= len(ret.Results) {
						continue
					}
					for _, alt := range p.Alternatives(TermOf(spilledResult(ret, i), &Ctx{Fn: fn}), 2) {
						a := alt.unconv()
						if a.Op == "field" && len(a.Args) == 1 && a.Args[0].Op == "param" {
							shared = a.String()
						}
						// … or kept behind an atomic holder / a map of the store
						if (a.Op == "call" || a.Op == "invoke") && (strings.HasPrefix(a.Name, "(*sync/atomic.") || strings.HasPrefix(a.Name, "(*sync.Map)")) && len(a.Args) > 0 {
							h := a.Args[0].unconv()
							if h.Op == "field" && len(h.Args) == 1 && h.Args[0].Op == "param" {
								shared = a.String()
							}
						}
						if a.Op == "lookup" && len(a.Args) > 0 && a.Args[0].unconv().Op == "field" {
							shared = a.String()
						}
					}
				}
				inst := fnShort(fn) + " ⟂ result " + fmt.Sprint(i) + " is the caller's own copy"
				if shared == "" {
					c.OK("C14-R6", inst, fnName(fn), p.Pos(fn.Pos()), "the pointer handed out is not an object the store keeps", true)
				} else {
					c.Bad("C14-R6", inst, fnName(fn), p.Pos(fn.Pos()), "the getter can hand out "+shared+", an object the store itself keeps: an in-memory edit by one caller changes what every later read of that record returns although nothing was written", nil)
				}
			}
		}
	}

	// ---- R4
	// the height codec: the store package's func(uint64) []byte / func([]byte) (uint64, error) pair
	var enc, dec *ssa.Function
	for _, fn := range p.Funcs {
		pk := fnPkg(fn)
		if pk == nil || pk.Pkg.Path() != storePkg || fn.Parent() != nil || fn.Signature.Recv() != nil || fn.Blocks == nil {
			continue
		}
		sig := fn.Signature
		if sig.Params().Len() != 1 {
			continue
		}
		pt := sig.Params().At(0).Type().String()
		switch {
		case pt == "uint64" && sig.Results().Len() == 1 && sig.Results().At(0).Type().String() == "[]byte":
			for n := range callNames(fn) {
				if strings.HasPrefix(n, "(encoding/binary.") && strings.HasSuffix(n, ").PutUint64") {
					enc = fn
				}
			}
		case pt == "[]byte" && sig.Results().Len() >= 1 && sig.Results().At(0).Type().String() == "uint64":
			for n := range callNames(fn) {
				if strings.HasPrefix(n, "(encoding/binary.") && strings.HasSuffix(n, ").Uint64") {
					dec = fn
				}
			}
		}
	}
	callsFn := func(t *Term, fn *ssa.Function) bool {
		return fn != nil && t.Contains(func(x *Term) bool {
			cv, ok := x.V.(*ssa.Call)
			return ok && x.Op == "call" && cv.Common().StaticCallee() == fn
		})
	}
	codecW := func(v *Term) string {
		s := v.String()
		switch {
		case strings.Contains(s, "types.SignedHeader).MarshalBinary("):
			return "SignedHeader.binary"
		case strings.Contains(s, "types.Data).MarshalBinary("):
			return "Data.binary"
		case callsFn(v, enc):
			return "height.le64"
		case strings.Contains(s, "proto.Marshal(") && strings.Contains(s, "types.State).ToProto("):
			return "State.proto"
		case v.Op == "slice" || v.Op == "param" || v.Op == "load" || v.Op == "field":
			return "raw"
		}
		return "?" + trunc(s, 60)
	}
	codecR := func(o dsOp) string {
		call, ok := o.node.In.(*ssa.Call)
		if !ok {
			return "?"
		}
		var uses []string
		for _, r := range *call.Referrers() {
			ex, ok := r.(*ssa.Extract)
			if !ok || ex.Index != 0 {
				continue
			}
			for _, u := range *ex.Referrers() {
				switch x := u.(type) {
				case *ssa.Call:
					if dec != nil && x.Common().StaticCallee() == dec {
						uses = append(uses, "@height-decoder")
					} else {
						uses = append(uses, commonName(x.Common()))
					}
				case *ssa.ChangeType, *ssa.Convert, *ssa.Return, *ssa.MakeInterface, *ssa.Alloc, *ssa.Store:
					uses = append(uses, "raw")
				}
			}
		}
		for _, u := range uses {
			switch {
			case strings.HasSuffix(u, "types.SignedHeader).UnmarshalBinary"):
				return "SignedHeader.binary"
			case strings.HasSuffix(u, "types.Data).UnmarshalBinary"):
				return "Data.binary"
			case u == "@height-decoder":
				return "height.le64"
			case strings.HasSuffix(u, "proto.Unmarshal"):
				// decoded into pb.State and converted with FromProto
				for _, b := range o.fn.Blocks {
					for _, in := range b.Instrs {
						if cl, ok := in.(*ssa.Call); ok && strings.HasSuffix(commonName(cl.Common()), "types.State).FromProto") {
							return "State.proto"
						}
					}
				}
				return "?proto"
			}
		}
		for _, u := range uses {
			if u == "raw" {
				return "raw"
			}
		}
		return "?" + strings.Join(uses, ",")
	}
	type rw struct{ w, r map[string]bool }
	table := map[string]*rw{}
	for _, o := range ops {
		if o.ctor == "" {
			c.Bad("C14-R4", "unkeyed-datastore-op in "+fnShort(o.fn), fnName(o.fn), p.InstrPos(o.node.In), "a datastore operation of the store does not build its key with one of the key constructors: "+trunc(o.key.String(), 100), nil)
			continue
		}
		e := table[o.ctor]
		if e == nil {
			e = &rw{map[string]bool{}, map[string]bool{}}
			table[o.ctor] = e
		}
		switch o.method {
		case "Put":
			e.w[codecW(o.putValue())] = true
		case "Get":
			e.r[codecR(o)] = true
		}
	}
	tkinds := sortedKeys(table)
	for _, k := range tkinds {
		e := table[k]
		w, r := sortedKeys(e.w), sortedKeys(e.r)
		inst := "codec ⟂ " + k
		switch {
		case len(w) == 0 || len(r) == 0:
			c.Bad("C14-R4", inst, "", "", fmt.Sprintf("key kind has writers %v and readers %v: one side is missing", w, r), nil)
		case len(w) == 1 && len(r) == 1 && w[0] == r[0] && !strings.HasPrefix(w[0], "?"):
			c.OK("C14-R4", inst, "", "", "written and read as "+w[0], true)
		default:
			c.Bad("C14-R4", inst, "", "", fmt.Sprintf("records of this kind are written as %v but read as %v: reads do not return what was written", w, r), nil)
		}
	}
	if len(tkinds) < 7 {
		missing := []string{}
		for _, k := range kindLabel {
			if table[k] == nil {
				missing = append(missing, k)
			}
		}
		sort.Strings(missing)
		c.Unk("C14-R4", "codec-table", "", "", fmt.Sprintf("anchor lost: key kinds without any datastore operation: %v", missing))
	}
	// the height codec itself: encode/decode use the same byte order and width
	if enc != nil && dec != nil {
		es, dsx := callNames(enc), callNames(dec)
		okE := es["(encoding/binary.littleEndian).PutUint64"] && dsx["(encoding/binary.littleEndian).Uint64"]
		okB := es["(encoding/binary.bigEndian).PutUint64"] && dsx["(encoding/binary.bigEndian).Uint64"]
		if okE || okB {
			c.OK("C14-R4", "height-codec ⟂ same-byte-order", fnName(enc), p.Pos(enc.Pos()), "encodeHeight/decodeHeight use the same 64-bit byte order", true)
		} else {
			c.Bad("C14-R4", "height-codec ⟂ same-byte-order", fnName(enc), p.Pos(enc.Pos()), fmt.Sprintf("encodeHeight uses %v, decodeHeight uses %v", sortedKeys(es), sortedKeys(dsx)), nil)
		}
	}
}

func callNames(fn *ssa.Function) map[string]bool {
	out := map[string]bool{}
	for _, b := range fn.Blocks {
		for _, in := range b.Instrs {
			if c, ok := in.(*ssa.Call); ok {
				out[commonName(c.Common())] = true
			}
		}
	}
	return out
}

// safeMetaKey: the key is a non-empty string constant, a field initialised only from such
// constants, or fmt.Sprintf of a constant format made of a constant prefix and %d verbs.
func safeMetaKey(p *Prog, key *Term) (bool, string) {
	bad := func(s string) bool {
		return s == "" || strings.Contains(s, "..") || strings.HasPrefix(s, "/")
	}
	k := key.unconv()
	// a key built by a helper of the repository: every value the helper can return, with its
	// parameters bound to this call's arguments
	if k.Op == "call" && !k.IsCall("fmt.Sprintf") {
		if rs := p.ReturnTerms(k); len(rs) > 0 {
			why := ""
			for _, r := range rs {
				ok, w := safeMetaKey(p, r)
				if !ok {
					return false, w
				}
				why = w
			}
			return true, why
		}
	}
	switch {
	case k.Op == "const":
		var s string
		if _, err := fmt.Sscanf(k.Name, "%q", &s); err != nil {
			return false, "not a string constant: " + k.Name
		}
		if bad(s) {
			return false, fmt.Sprintf("constant key %q", s)
		}
		return true, fmt.Sprintf("constant key %q", s)
	case k.Op == "bin" && k.Name == "+":
		// a concatenation of constant pieces and formatted integers, starting with a safe constant
		var parts []*Term
		var flat func(t *Term)
		flat = func(t *Term) {
			t = t.unconv()
			if t.Op == "bin" && t.Name == "+" {
				flat(t.Args[0])
				flat(t.Args[1])
				return
			}
			parts = append(parts, t)
		}
		flat(k)
		shape := ""
		for i, pt := range parts {
			switch {
			case pt.Op == "const":
				var s string
				if _, err := fmt.Sscanf(pt.Name, "%q", &s); err != nil {
					return false, "concatenation with a non-string constant"
				}
				if strings.Contains(s, "..") || (i == 0 && bad(s)) {
					return false, fmt.Sprintf("concatenation with the piece %q", s)
				}
				shape += s
			case pt.IsCall("strconv.FormatUint") || pt.IsCall("strconv.FormatInt") || pt.IsCall("strconv.Itoa"):
				shape += "<int>"
			default:
				return false, "concatenation with a piece of unknown origin: " + trunc(pt.String(), 40)
			}
		}
		if len(parts) == 0 || parts[0].unconv().Op != "const" {
			return false, "concatenation that does not start with a constant prefix"
		}
		return true, "constant prefix and formatted integers: " + shape
	case k.IsCall("fmt.Sprintf"):
		f := k.Args[0].unconv()
		var format string
		if f.Op != "const" {
			return false, "non-constant format"
		}
		fmt.Sscanf(f.Name, "%q", &format)
		// the variadic arguments: first must be a constant prefix, the rest integers
		rest := strings.ReplaceAll(strings.ReplaceAll(format, "%s", ""), "%d", "")
		if strings.Contains(rest, "%") || bad(strings.ReplaceAll(format, "%s", "x")) {
			return false, fmt.Sprintf("format %q", format)
		}
		ok := true
		if al, isAl := rootAlloc(rootOf(k.Args[1])); isAl {
			for _, vs := range litStores(al) {
				for _, v := range vs {
					t := TermOf(v, key.Ctx).unconv()
					switch {
					case t.Op == "const":
						var s string
						if _, err := fmt.Sscanf(t.Name, "%q", &s); err == nil && bad(s) {
							ok = false
						}
					default:
						if b, isB := v.Type().Underlying().(*types.Basic); isB && b.Info()&types.IsInteger != 0 {
							continue
						}
						if mi, isMI := v.(*ssa.MakeInterface); isMI {
							if b, isB := mi.X.Type().Underlying().(*types.Basic); isB && (b.Info()&types.IsInteger != 0) {
								continue
							}
							if cst, isC := mi.X.(*ssa.Const); isC && cst.Value != nil && cst.Value.Kind() == constant.String && !bad(constant.StringVal(cst.Value)) {
								continue
							}
						}
						ok = false
					}
				}
			}
		}
		if !ok {
			return false, fmt.Sprintf("Sprintf(%q) with a non-constant string argument", format)
		}
		return true, fmt.Sprintf("Sprintf(%q, constant prefix, integers)", format)
	case k.Op == "field":
		// every store into that field in the program is a safe constant
		fieldName := k.Name
		n, okAll := 0, true
		for _, fn := range p.Funcs {
			for _, b := range fn.Blocks {
				for _, in := range b.Instrs {
					st, ok := in.(*ssa.Store)
					if !ok {
						continue
					}
					fa, ok := st.Addr.(*ssa.FieldAddr)
					if !ok {
						continue
					}
					sst := derefStruct(fa.X.Type())
					if sst == nil || fieldLabel(fa.X.Type(), fa.Field) != fieldName || !strings.Contains(fa.X.Type().String(), "pendingBase") {
						continue
					}
					n++
					v := TermOf(st.Val, &Ctx{Fn: fn})
					if v.Op == "param" {
						// constructor parameter: all call sites must pass constants
						for _, caller := range callersOfGeneric(p, fn) {
							for _, cb := range caller.Blocks {
								for _, cin := range cb.Instrs {
									call, ok := cin.(*ssa.Call)
									if !ok || call.Common().StaticCallee() == nil || genericName(fnName(call.Common().StaticCallee())) != genericName(fnName(fn)) {
										continue
									}
									for i, prm := range fn.Params {
										if prm.Name() == v.Name && i < len(call.Common().Args) {
											a := TermOf(call.Common().Args[i], &Ctx{Fn: caller}).unconv()
											var s string
											if a.Op != "const" {
												okAll = false
											} else if _, err := fmt.Sscanf(a.Name, "%q", &s); err != nil || bad(s) {
												okAll = false
											}
										}
									}
								}
							}
						}
					} else if v.unconv().Op != "const" {
						okAll = false
					}
				}
			}
		}
		if n > 0 && okAll {
			return true, "field " + fieldName + " initialised only from safe string constants"
		}
		return false, "field " + fieldName + " is not initialised only from safe constants"
	}
	return false, "key of unknown origin: " + trunc(key.String(), 80)
}

func callersOfGeneric(p *Prog, fn *ssa.Function) []*ssa.Function {
	gn := genericName(fnName(fn))
	var out []*ssa.Function
	for _, f := range p.Funcs {
		for _, b := range f.Blocks {
			for _, in := range b.Instrs {
				if call, ok := in.(*ssa.Call); ok && call.Common().StaticCallee() != nil && genericName(call.Common().StaticCallee().String()) == gn {
					out = append(out, f)
				}
			}
		}
	}
	return out
}

// ruleHeightNotAheadOfDisk (C14-R3): the reported height is what the database holds. Every
// piece of receiver memory that Height reads (a cache) may be written only with a value read
// from the database or after the database write of the height succeeded; otherwise a failed
// write leaves memory ahead of the disk, the guard of SetHeight turns every retry into a no-op
// and the height goes backwards on reopen.
func ruleHeightNotAheadOfDisk(c *Check, p *Prog) {
	rule := "C14-R3"
	hfn := p.MustFunc("(*" + storePkg + ".DefaultStore).Height")
	isDB := func(t types.Type) bool { return strings.Contains(t.String(), "go-datastore.") }
	read := map[int]string{}
	var scan func(fn *ssa.Function, d int)
	seen := map[*ssa.Function]bool{}
	scan = func(fn *ssa.Function, d int) {
		if seen[fn] || fn.Blocks == nil {
			return
		}
		seen[fn] = true
		for _, b := range fn.Blocks {
			for _, in := range b.Instrs {
				if fa, ok := in.(*ssa.FieldAddr); ok {
					if st := derefStruct(fa.X.Type()); st != nil && strings.HasSuffix(fa.X.Type().String(), storePkg+".DefaultStore") && !isDB(st.Field(fa.Field).Type()) {
						// only state that can carry a height (flags and locks cannot run ahead of the disk)
						if ts := st.Field(fa.Field).Type().String(); strings.Contains(ts, "int") || strings.Contains(ts, "Int") {
							read[fa.Field] = st.Field(fa.Field).Name()
						}
					}
				}
				if call, ok := in.(*ssa.Call); ok && d < 2 {
					if cal := call.Common().StaticCallee(); cal != nil && fnPkg(cal) != nil && fnPkg(cal).Pkg.Path() == storePkg {
						scan(cal, d+1)
					}
				}
			}
		}
	}
	scan(hfn, 0)
	if len(read) == 0 {
		c.OK(rule, "Height ⟂ reads-only-the-database", fnName(hfn), p.Pos(hfn.Pos()), "Height reads no receiver state other than the database handle", true)
		return
	}
	n := 0
	for _, fn := range p.Funcs {
		pk := fnPkg(fn)
		if pk == nil || pk.Pkg.Path() != storePkg || fn.Blocks == nil {
			continue
		}
		var g *Graph
		for _, b := range fn.Blocks {
			for _, in := range b.Instrs {
				var fa *ssa.FieldAddr
				var val ssa.Value
				switch x := in.(type) {
				case *ssa.Store:
					fa, _ = x.Addr.(*ssa.FieldAddr)
					val = x.Val
				case *ssa.Call:
					cn := commonName(x.Common())
					if strings.HasPrefix(cn, "(*sync/atomic.") && atomicMutators[cn[strings.LastIndex(cn, ".")+1:]] && len(x.Common().Args) > 0 {
						fa, _ = x.Common().Args[0].(*ssa.FieldAddr)
						val = x.Common().Args[len(x.Common().Args)-1]
					}
				}
				if fa == nil {
					continue
				}
				name, isRead := read[fa.Field]
				if !isRead || !strings.HasSuffix(fa.X.Type().String(), storePkg+".DefaultStore") {
					continue
				}
				if g == nil {
					g = BuildECFG(p, fn, ExpandOpts{MaxDepth: 0})
					c.NoteGraph(g)
				}
				n++
				inst := fnShort(fn) + " ⟂ writes " + name + " only from / after the database"
				fromDB := p.DeepContains(TermOf(val, &Ctx{Fn: fn}), func(t *Term) bool {
					return t.Op == "invoke" && strings.HasPrefix(t.Name, "(github.com/ipfs/go-datastore.") && strings.HasSuffix(t.Name, ").Get")
				}, 2)
				afterPut := false
				inn := in
				for _, f := range g.NecessaryEdges(func(x *Node) bool { return x.Kind == NInstr && x.In == inn }) {
					t, pol := normFact(f.Cond, f.Pol)
					if t.Op == "bin" && ((t.Name == "!=" && !pol) || (t.Name == "==" && pol)) {
						for i := 0; i < 2; i++ {
							o := t.Args[1-i]
							if t.Args[i].Op == "const" && t.Args[i].Name == "nil" && o.Op == "invoke" && strings.HasPrefix(o.Name, "(github.com/ipfs/go-datastore.") && (strings.HasSuffix(o.Name, ").Put") || strings.HasSuffix(o.Name, ").Commit")) {
								afterPut = true
							}
						}
					}
				}
				invalidates := false
				if k, ok := val.(*ssa.Const); ok && k.Value == nil {
					invalidates = true // forgetting the remembered value: the next reader asks the database
				}
				switch {
				case invalidates:
					c.OK(rule, inst+" (invalidation)", fnName(fn), p.InstrPos(in), "the remembered value is dropped", true)
				case fromDB:
					c.OK(rule, inst, fnName(fn), p.InstrPos(in), "the value written was read from the database", true)
				case afterPut:
					c.OK(rule, inst, fnName(fn), p.InstrPos(in), "written only after the database write succeeded", true)
				default:
					c.Bad(rule, inst, fnName(fn), p.InstrPos(in), "Height reads "+name+", which is written here before (or without) a successful database write: after a failed write the reported height is ahead of the disk, retries of SetHeight become no-ops, and the height goes backwards on reopen", nil)
				}
			}
		}
	}
	if n == 0 {
		c.Bad(rule, "Height ⟂ reads-only-the-database", fnName(hfn), p.Pos(hfn.Pos()), fmt.Sprintf("Height reads receiver state %v that nothing in the store package writes", read), nil)
	}
}

// encFnOf: the store package's height encoder, func(uint64) []byte over encoding/binary.
func encFnOf(p *Prog) *ssa.Function {
	for _, fn := range p.Funcs {
		pk := fnPkg(fn)
		if pk == nil || pk.Pkg.Path() != storePkg || fn.Parent() != nil || fn.Signature.Recv() != nil || fn.Blocks == nil {
			continue
		}
		sig := fn.Signature
		if sig.Params().Len() == 1 && sig.Params().At(0).Type().String() == "uint64" && sig.Results().Len() == 1 && sig.Results().At(0).Type().String() == "[]byte" {
			for n := range callNames(fn) {
				if strings.HasPrefix(n, "(encoding/binary.") && strings.HasSuffix(n, ").PutUint64") {
					return fn
				}
			}
		}
	}
	return nil
}

func callsStatic(t *Term, fn *ssa.Function) bool {
	cv, ok := t.V.(*ssa.Call)
	return ok && cv.Common().StaticCallee() == fn
}

// ruleWriteMethodsWrite (C14-R5): a store method that writes reports success only after the
// datastore write succeeded: every return that may be a success either returns the write's own
// error or lies behind the success edge of a Put / Commit. The one exception is the monotone
// height record, whose writer is a no-op (and says so by returning nil) when the height does
// not grow; that guard is C14-R3's subject.
func ruleWriteMethodsWrite(c *Check, p *Prog) {
	rule := "C14-R5"
	c.Doc(rule, "EO: every store method that writes returns success only behind the success of its datastore write (reads return the last value written: no write is silently skipped).")
	n := 0
	for _, fn := range p.Funcs {
		pk := fnPkg(fn)
		if pk == nil || pk.Pkg.Path() != storePkg || fn.Parent() != nil || fn.Signature.Recv() == nil || !strings.HasSuffix(fn.Signature.Recv().Type().String(), "DefaultStore") {
			continue
		}
		if corrResult(fn) < 0 || resultTypes(fn) != "error" {
			continue
		}
		g := BuildECFG(p, fn, ExpandOpts{MaxDepth: 0})
		isWrite := func(t *Term) bool {
			return t.Op == "invoke" && strings.HasPrefix(t.Name, "(github.com/ipfs/go-datastore.") && (strings.HasSuffix(t.Name, ").Put") || strings.HasSuffix(t.Name, ").Commit") || strings.HasSuffix(t.Name, ").Delete"))
		}
		writes := g.Select(func(x *Node) bool { return dsCall(x, "Put") || dsCall(x, "Commit") || dsCall(x, "Delete") })
		if len(writes) == 0 {
			continue
		}
		c.NoteGraph(g)
		n++
		writeOK := g.Select(ErrNilEdge(isWrite))
		var bad *Node
		for _, x := range g.Exits {
			if g.ExitClass(x) == rcA {
				continue
			}
			ret := x.In.(*ssa.Return)
			rt := TermOf(spilledResult(ret, 0), x.Ctx)
			if isWrite(rt) {
				continue // returns the write's own error
			}
			xx := x
			if g.PathAvoiding([]*Node{g.Entry}, func(y *Node) bool { return y == xx }, nodeSet(writeOK)) == nil {
				continue
			}
			// the monotone height record: a no-op when the height does not grow
			noGrow := false
			for _, f := range g.NecessaryEdges(func(y *Node) bool { return y == xx }) {
				t, pol := normFact(f.Cond, f.Pol)
				if t.Op == "bin" && len(t.Args) == 2 && t.Args[0].Op == "param" && isCurrentHeight(t.Args[1]) &&
					((t.Name == "<=" && pol) || (t.Name == ">" && !pol)) {
					noGrow = true
				}
			}
			if !noGrow {
				bad = x
			}
		}
		inst := fnShort(fn) + " ⟂ success-only-after-write"
		if bad == nil {
			c.OK(rule, inst, fnName(fn), p.Pos(fn.Pos()), "every success return follows a successful datastore write (or returns the write's own error)", true)
		} else {
			c.Bad(rule, inst, fnName(fn), p.InstrPos(bad.In), "the method can report success without having written: a later read returns the previous value although the write was acknowledged", nil)
		}
	}
	if n == 0 {
		c.Unk(rule, "write-methods", "", "", "anchor lost: no writing method of DefaultStore found")
	}
	c.MinInstances(rule, 4)
}

type ctorInfo struct {
	fn     *ssa.Function
	first  string
	suffix *Term
}

// storeKeyCtors discovers the key constructors of the store package (see the comment inside) and
// returns them with the resolver from a key term to the constructor's label.
func storeKeyCtors(p *Prog, dup func(label string, ci, first *ctorInfo, fn *ssa.Function)) (map[*ssa.Function]*ctorInfo, map[string]*ctorInfo, map[string]string, func(t *Term) string) {
	// ---- key constructors: package-level functions of the store package returning a key string
	// whose first path element is a string constant. A constructor is identified by that
	// constant's value (the on-disk record kind); the labels are the names on the pinned tree.
	kindLabel := map[string]string{"\"h\"": "getHeaderKey", "\"d\"": "getDataKey", "\"c\"": "getSignatureKey", "\"s\"": "getStateKey", "\"m\"": "getMetaKey", "\"i\"": "getIndexKey", "\"t\"": "getHeightKey"}
	ctors := map[*ssa.Function]*ctorInfo{}
	ctorByLabel := map[string]*ctorInfo{}
	for _, fn := range p.Funcs {
		pk := fnPkg(fn)
		if pk == nil || pk.Pkg.Path() != storePkg || fn.Parent() != nil || fn.Signature.Recv() != nil || fn.Blocks == nil {
			continue
		}
		if res := fn.Signature.Results(); res.Len() != 1 || res.At(0).Type().String() != "string" {
			continue
		}
		ci := &ctorInfo{fn: fn}
		ctx := &Ctx{Fn: fn}
		for _, b := range fn.Blocks {
			for _, in := range b.Instrs {
				switch x := in.(type) {
				case *ssa.Alloc:
					st := litStores(x)
					if v := st["[0]"]; len(v) == 1 {
						if k, ok := v[0].(*ssa.Const); ok && k.Value != nil && k.Value.Kind() == constant.String {
							ci.first = fmt.Sprintf("%q", constant.StringVal(k.Value))
						}
					}
					if v := st["[1]"]; len(v) == 1 {
						ci.suffix = TermOf(v[0], ctx)
					}
				case *ssa.Return:
					if len(x.Results) == 1 {
						if k, ok := x.Results[0].(*ssa.Const); ok && k.Value != nil && k.Value.Kind() == constant.String {
							ci.first = fmt.Sprintf("%q", constant.StringVal(k.Value))
						}
					}
				}
			}
		}
		if ci.first == "" {
			// the elements are built by a shared helper of the package that takes the kind as a
			// parameter (perHeightKey(prefix, height)), or the key is a package value computed once
			for _, b := range fn.Blocks {
				ret, ok := b.Instrs[len(b.Instrs)-1].(*ssa.Return)
				if !ok || len(ret.Results) != 1 {
					continue
				}
				switch rv := ret.Results[0].(type) {
				case *ssa.Call:
					cal := rv.Common().StaticCallee()
					if cal == nil || fnPkg(cal) == nil || fnPkg(cal).Pkg.Path() != storePkg || cal.Blocks == nil {
						continue
					}
					for _, cb := range cal.Blocks {
						for _, cin := range cb.Instrs {
							al, ok := cin.(*ssa.Alloc)
							if !ok {
								continue
							}
							st := litStores(al)
							if v := st["[0]"]; len(v) == 1 {
								if prm, ok := v[0].(*ssa.Parameter); ok {
									for i, q := range cal.Params {
										if q == prm && i < len(rv.Common().Args) {
											if k, ok := rv.Common().Args[i].(*ssa.Const); ok && k.Value != nil && k.Value.Kind() == constant.String {
												ci.first = fmt.Sprintf("%q", constant.StringVal(k.Value))
											}
										}
									}
								}
							}
							if v := st["[1]"]; len(v) == 1 && ci.first != "" {
								ci.suffix = TermOf(v[0], &Ctx{Fn: cal, Site: rv, Parent: ctx, Depth: 1})
							}
						}
					}
				case *ssa.UnOp:
					gl, ok := rv.X.(*ssa.Global)
					if !ok || rv.Op != token.MUL || gl.Pkg == nil || gl.Pkg.Pkg.Path() != storePkg {
						continue
					}
					if initFn := gl.Pkg.Func("init"); initFn != nil {
						for _, ib := range initFn.Blocks {
							for _, iin := range ib.Instrs {
								st, ok := iin.(*ssa.Store)
								if !ok || st.Addr != ssa.Value(gl) {
									continue
								}
								if call, ok := st.Val.(*ssa.Call); ok {
									for _, a := range call.Common().Args {
										if sl, ok := a.(*ssa.Slice); ok {
											if al, ok := sl.X.(*ssa.Alloc); ok {
												if v := litStores(al)["[0]"]; len(v) == 1 {
													if k, ok := v[0].(*ssa.Const); ok && k.Value != nil && k.Value.Kind() == constant.String {
														ci.first = fmt.Sprintf("%q", constant.StringVal(k.Value))
													}
												}
											}
										}
									}
								}
							}
						}
					}
				}
			}
		}
		if ci.first == "" {
			// the key is spelt out by concatenation, here or in a shared helper that takes the kind
			// as a parameter: "/" + kind + "/" + suffix with a constant kind
			for _, b := range fn.Blocks {
				ret, ok := b.Instrs[len(b.Instrs)-1].(*ssa.Return)
				if !ok || len(ret.Results) != 1 {
					continue
				}
				rt := TermOf(ret.Results[0], ctx)
				if rv, isCall := ret.Results[0].(*ssa.Call); isCall {
					if cal := rv.Common().StaticCallee(); cal != nil && fnPkg(cal) != nil && fnPkg(cal).Pkg.Path() == storePkg && cal.Blocks != nil {
						cctx := &Ctx{Fn: cal, Site: rv, Parent: ctx, Depth: 1}
						var rts []*Term
						for _, cb := range cal.Blocks {
							if cr, ok := cb.Instrs[len(cb.Instrs)-1].(*ssa.Return); ok && len(cr.Results) == 1 {
								rts = append(rts, TermOf(cr.Results[0], cctx))
							}
						}
						if len(rts) == 1 {
							rt = rts[0]
						}
					}
				}
				var parts []*Term
				var flat func(t *Term)
				flat = func(t *Term) {
					if t.Op == "bin" && t.Name == "+" && len(t.Args) == 2 {
						flat(t.Args[0])
						flat(t.Args[1])
						return
					}
					parts = append(parts, t)
				}
				flat(rt)
				lead, i := "", 0
				for ; i < len(parts); i++ {
					u := parts[i].unconv()
					if u.Op != "const" || !strings.HasPrefix(u.Name, "\"") {
						break
					}
					if sv, err := strconv.Unquote(strings.SplitN(u.Name, ":", 2)[0]); err == nil {
						lead += sv
					} else {
						break
					}
				}
				if len(lead) >= 3 && lead[0] == '/' && lead[len(lead)-1] == '/' && !strings.Contains(lead[1:len(lead)-1], "/") && i == len(parts)-1 {
					ci.first = fmt.Sprintf("%q", lead[1:len(lead)-1])
					ci.suffix = parts[i]
				}
			}
		}
		if ci.first == "" {
			continue
		}
		ctors[fn] = ci
		if l, ok := kindLabel[ci.first]; ok {
			if ctorByLabel[l] == nil {
				ctorByLabel[l] = ci
			} else {
				dup(l, ci, ctorByLabel[l], fn)
			}
		}
	}
	// ctorOf: the label of the key constructor a term is a call of ("" if none)
	var ctorOf func(t *Term) string
	ctorOf = func(t *Term) string {
		// a key kept in a package value computed once: what the initialiser builds it from
		var gl *ssa.Global
		if t.Op == "global" {
			switch x := t.V.(type) {
			case *ssa.Global:
				gl = x
			case *ssa.UnOp:
				gl, _ = x.X.(*ssa.Global)
			}
		}
		if gl != nil && gl.Pkg != nil && gl.Pkg.Pkg.Path() == storePkg {
			if initFn := gl.Pkg.Func("init"); initFn != nil {
				for _, b := range initFn.Blocks {
					for _, in := range b.Instrs {
						if st, ok := in.(*ssa.Store); ok && st.Addr == ssa.Value(gl) {
							found := ""
							TermOf(st.Val, &Ctx{Fn: initFn}).Walk(func(x *Term) bool {
								if x.Op == "call" {
									if l := ctorOf(x); l != "" {
										found = l
									}
								}
								return true
							})
							return found
						}
					}
				}
			}
			return ""
		}
		if t.Op != "call" {
			return ""
		}
		cv, ok := t.V.(*ssa.Call)
		if !ok || cv.Common().StaticCallee() == nil {
			return ""
		}
		ci := ctors[cv.Common().StaticCallee()]
		if ci == nil {
			return ""
		}
		if l, ok := kindLabel[ci.first]; ok {
			return l
		}
		return "key-kind " + ci.first
	}

	return ctors, ctorByLabel, kindLabel, ctorOf
}

// ruleSinglePurposeWriters (C04-R10 / C05-R7 / C14-R7): the production and the apply step order
// the store's writes (block records, then state, then height) so that a crash between any two of
// them can be reconciled at restart. That order means something only if each of the ordered write
// methods writes records of its own kind and nothing else: a state write that also moves the
// height puts the height ahead of the state, the one disagreement the restart cannot repair.
func ruleSinglePurposeWriters(c *Check, p *Prog, rule string) {
	c.Doc(rule, "CS: each store write method the steps put in order writes records of its own kind only (SaveBlockData: header, data, signature, hash index; UpdateState: state; SetHeight: height; SetMetadata: metadata) — looking through calls between store methods.")
	_, _, _, ctorOf := storeKeyCtors(p, func(string, *ctorInfo, *ctorInfo, *ssa.Function) {})
	want := map[string][]string{
		"SaveBlockData": {"getDataKey", "getHeaderKey", "getIndexKey", "getSignatureKey"},
		"UpdateState":   {"getStateKey"},
		"SetHeight":     {"getHeightKey"},
		"SetMetadata":   {"getMetaKey"},
	}
	n := 0
	for _, m := range sortedKeys(want) {
		fn := p.Func("(*" + storePkg + ".DefaultStore)." + m)
		if fn == nil {
			c.Unk(rule, m+" ⟂ writes its own kind only", "", "", "anchor lost: store method "+m)
			continue
		}
		g := BuildECFG(p, fn, ownPkgOpts(storePkg, 3))
		c.NoteGraph(g)
		kinds := map[string]bool{}
		unknown := ""
		for _, nd := range g.Select(func(x *Node) bool { return dsCall(x, "Put") || dsCall(x, "Delete") }) {
			k := ArgTerm(nd, 1)
			found := ""
			if k != nil {
				k.Walk(func(t *Term) bool {
					if l := ctorOf(t); l != "" {
						found = l
					}
					return true
				})
				if found == "" {
					// a table of entries (C14-R1): the kinds of all rows
					if call, ok := nd.In.(*ssa.Call); ok && len(call.Common().Args) >= 2 {
						if al, f := tableField(call.Common().Args[1], 0); al != nil {
							lit := al
							for _, r := range *al.Referrers() {
								if st, ok := r.(*ssa.Store); ok && st.Addr == ssa.Value(al) {
									if ld, ok := st.Val.(*ssa.UnOp); ok && ld.Op == token.MUL {
										if inner, ok := ld.X.(*ssa.Alloc); ok {
											lit = inner
										}
									}
								}
							}
							for key, vs := range litStores(lit) {
								if strings.HasSuffix(key, "]."+f) {
									for _, v := range vs {
										TermOf(v, nd.Ctx).Walk(func(t *Term) bool {
											if l := ctorOf(t); l != "" {
												kinds[l] = true
												found = l
											}
											return true
										})
									}
								}
							}
						}
					}
				}
			}
			if found == "" {
				unknown = trunc(k.String(), 60) + " @" + p.InstrPos(nd.In)
			} else {
				kinds[found] = true
			}
		}
		n++
		got := sortedKeys(kinds)
		inst := m + " ⟂ writes its own kind only"
		switch {
		case unknown != "":
			c.Bad(rule, inst, fnName(fn), p.Pos(fn.Pos()), "the method writes a key that is not built by a key constructor: "+unknown, nil)
		case strings.Join(got, ",") == strings.Join(want[m], ","):
			c.OK(rule, inst, fnName(fn), p.Pos(fn.Pos()), "writes "+strings.Join(got, ", "), true)
		default:
			c.Bad(rule, inst, fnName(fn), p.Pos(fn.Pos()), fmt.Sprintf("the method writes records of kinds %v (directly or through another store method), expected %v: the order in which the production and apply steps call the store's writers no longer is the order of the durable writes — e.g. a state write that also moves the height leaves, after a crash in between, a height ahead of the state, which no restart reconciles", got, want[m]), nil)
		}
	}
	if n < 4 {
		c.Unk(rule, "anchor-count", "", "", fmt.Sprintf("anchor lost: %d of the 4 ordered store writers found", n))
	}
}

// rulePersistentStoreIsOnDisk (C14-R8): "everything written survives closing and reopening the
// database" starts with the constructor the node opens its database with: on every accepting
// path it hands out a datastore opened on a directory derived from its path arguments — never an
// in-memory one (whatever the arguments: an empty db path means "directly under the root
// directory"), which would accept every write and lose all of them at the next start.
func rulePersistentStoreIsOnDisk(c *Check, p *Prog, rule string) {
	c.Doc(rule, "VP: the node's datastore constructor returns, on every accepting path, a datastore opened on a directory built from its path arguments and without an in-memory option.")
	fn := p.Func(storePkg + ".NewDefaultKVStore")
	if fn == nil {
		c.Unk(rule, "NewDefaultKVStore", "", "", "anchor lost: the datastore constructor of the store package")
		return
	}
	ctx := &Ctx{Fn: fn}
	n := 0
	for _, b := range fn.Blocks {
		ret, ok := b.Instrs[len(b.Instrs)-1].(*ssa.Return)
		if !ok || len(ret.Results) < 1 {
			continue
		}
		if len(ret.Results) > 1 && classifyReturn(ret, len(ret.Results)-1) == rcA {
			continue
		}
		n++
		inst := fmt.Sprintf("NewDefaultKVStore ⟂ return-%d is a disk store at the given path", n)
		t := TermOf(spilledResult(ret, 0), ctx)
		leaves := p.Alternatives(t, 2)
		if len(leaves) == 0 {
			leaves = []*Term{t}
		}
		bad := ""
		for _, l := range leaves {
			call := l
			if call.Op == "extract" && len(call.Args) > 0 {
				call = call.Args[0]
			}
			switch {
			case call.Op == "const" && call.Name == "nil":
				// the value of an error return of a helper
			case call.Op != "call" || !strings.Contains(call.Name, "go-ds-badger") || !strings.HasSuffix(call.Name, ".NewDatastore") || len(call.Args) < 2:
				bad = "it returns " + trunc(l.String(), 80) + ", which is not a datastore opened on disk"
			default:
				pathT, optT := call.Args[0], call.Args[1]
				usesParams := 0
				for _, prm := range fn.Params {
					if strings.Contains(prm.Type().String(), "string") && pathT.Contains(func(x *Term) bool { return x.Op == "param" && x.Name == prm.Name() }) {
						usesParams++
					}
				}
				inMem := p.DeepContains(optT, func(x *Term) bool { return strings.HasSuffix(x.Name, ".WithInMemory") }, 1)
				if usesParams < 2 {
					bad = "the directory it opens (" + trunc(pathT.String(), 60) + ") is not built from the path arguments"
				}
				if inMem {
					bad = "it opens the datastore with an in-memory option"
				}
			}
		}
		if bad == "" {
			c.OK(rule, inst, fnName(fn), p.InstrPos(ret), "a badger datastore opened on a directory built from the path arguments", true)
		} else {
			c.Bad(rule, inst, fnName(fn), p.InstrPos(ret), "for some arguments the constructor does not hand out a persistent datastore: "+bad+" — every write succeeds and reads in the same process return it, but blocks, index, height, state and metadata are gone after the next start", nil)
		}
	}
	if n == 0 {
		c.Unk(rule, "NewDefaultKVStore ⟂ returns", fnName(fn), "", "anchor lost: no accepting return")
	}
}

// ruleWritersRefuseNothing (C14-R9 / C05-R8): the store is a map: a write of a well-formed value
// succeeds unless an operation underneath fails. The restart path relies on it — it re-saves the
// genesis placeholder at the initial height whenever no state is stored, and the production step
// re-saves the block it found pending. A writer that refuses on the ground of what it already
// holds ("a signed block is stored there") turns one crash into a node that cannot be started.
// Every error return of a write method therefore lies behind the error edge of some call.
func ruleWritersRefuseNothing(c *Check, p *Prog, rule string) {
	c.Doc(rule, "GA: every error return of the store's write methods (SaveBlockData, UpdateState, SetHeight, SetMetadata) follows the failure of a call underneath (encoding, datastore): the store never refuses a write because of what is stored already.")
	n := 0
	for _, m := range []string{"SaveBlockData", "SetHeight", "SetMetadata", "UpdateState"} {
		fn := p.Func("(*" + storePkg + ".DefaultStore)." + m)
		if fn == nil {
			c.Unk(rule, m+" ⟂ refuses nothing", "", "", "anchor lost: store method "+m)
			continue
		}
		n++
		refusing := refusesOnOwnCondition(c, p, fn)
		inst := m + " ⟂ refuses nothing"
		if refusing == nil {
			c.OK(rule, inst, fnName(fn), p.Pos(fn.Pos()), "every error return follows the failure of a call underneath", true)
		} else {
			c.Bad(rule, inst, fnName(fn), p.InstrPos(refusing.In), "the method can return an error without any operation underneath having failed: it refuses the write on a condition of its own (e.g. what is already stored at that key). The restart path re-saves the genesis placeholder and the pending block: after a crash at the wrong moment such a refusal repeats on every start", nil)
		}
	}
	if n < 4 {
		c.Unk(rule, "anchor-count", "", "", fmt.Sprintf("anchor lost: %d of the 4 store writers found", n))
	}
}

// refusesOnOwnCondition: an error return of fn that is reachable without any call underneath
// having failed (nil if there is none). A returned error that is a callee's own result counts as
// that callee's failure.
func refusesOnOwnCondition(c *Check, p *Prog, fn *ssa.Function) *Node {
	{
		g := BuildECFG(p, fn, ExpandOpts{MaxDepth: 0})
		c.NoteGraph(g)
		failed := g.Select(EdgeWhere(func(t *Term, pol bool, nd *Node) bool {
			t, pol = normFact(t, pol)
			if t.Op != "bin" || len(t.Args) != 2 || t.Args[1].Name != "nil" || (t.Name != "!=" && t.Name != "==") {
				return false
			}
			notNil := (t.Name == "!=") == pol
			a := t.Args[0]
			if a.Op == "extract" && len(a.Args) > 0 {
				a = a.Args[0]
			}
			return notNil && (a.Op == "call" || a.Op == "invoke" || a.Op == "dyncall")
		}))
		var refusing *Node
		for _, x := range g.Exits {
			if g.ExitClass(x) != rcA {
				continue
			}
			// the error returned is a callee's own result (tail call)?
			ret := x.In.(*ssa.Return)
			rt := TermOf(spilledResult(ret, len(ret.Results)-1), x.Ctx)
			if (rt.Op == "call" || rt.Op == "invoke" || rt.Op == "extract") && !rt.IsCall("fmt.Errorf") && !rt.IsCall("errors.New") && !rt.IsCall("errors.Join") {
				continue
			}
			xx := x
			if g.PathAvoiding([]*Node{g.Entry}, func(y *Node) bool { return y == xx }, nodeSet(failed)) != nil {
				refusing = x
			}
		}
		return refusing
	}
}

// ruleBlockSaveAtomic (C04-R14 / C05-R11 / C11-R9; C14-R1 decides the same inside the store's own
// check): the production and the apply step treat "the block at height h is stored" as one fact —
// the restart looks for a pending block with GetBlockData and takes "not found" to mean that no
// batch was taken for that height. That holds only if the block's records reach the disk together:
// every write of SaveBlockData goes to one datastore batch, committed once, after all of them. A
// record written beside the batch opens a crash point with half a block on disk: the restart does
// not find the block, takes the next batch, and the transactions of the first are in no block.
func ruleBlockSaveAtomic(c *Check, p *Prog, rule string) {
	c.Doc(rule, "EO: every datastore write of Store.SaveBlockData goes to one batch (none to the datastore directly) and the single Commit follows all of them: a block is on disk whole or not at all, which the restart's pending-block look-up relies on.")
	save := p.MustFunc("(*" + storePkg + ".DefaultStore).SaveBlockData")
	g := BuildECFG(p, save, ownPkgOpts(storePkg, 1))
	c.NoteGraph(g)
	isW := func(n *Node) bool { return dsCall(n, "Put") || dsCall(n, "Delete") }
	var inBatch, direct []*Node
	for _, n := range g.Select(isW) {
		r := RecvTerm(n)
		if r != nil && r.Op == "extract" && r.Args[0].Op == "invoke" && strings.HasSuffix(r.Args[0].Name, ".Batch") {
			inBatch = append(inBatch, n)
		} else {
			direct = append(direct, n)
		}
	}
	commits := g.Select(func(n *Node) bool { return dsCall(n, "Commit") })
	inst := "SaveBlockData ⟂ one batch, committed after every write"
	switch {
	case len(inBatch) == 0 || len(commits) == 0:
		c.Unk(rule, inst, fnName(save), "", fmt.Sprintf("anchor lost: %d batched writes, %d commits in SaveBlockData", len(inBatch), len(commits)))
	case len(direct) > 0:
		c.Bad(rule, inst, fnName(save), p.InstrPos(direct[0].In), "a record of the block is written to the datastore directly, beside the batch: a crash between the commit and that write leaves half a block on disk — the restart's look-up of the pending block fails, the next batch is taken and the first batch's transactions are lost", nil)
	default:
		c.Decide(rule, inst, fnName(save), p.InstrPos(commits[0].In), "all writes are staged in the batch and the commit follows them",
			"a write can be staged after the batch was committed: it is never applied, or applied by a second commit — the block is not saved atomically", g,
			g.PathAvoiding(commits, nodeSet(inBatch), nil))
	}
	c.MinInstances(rule, 1)
}
