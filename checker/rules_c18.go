package main

import (
	"fmt"
	"go/constant"
	"go/token"
	"go/types"
	"reflect"
	"sort"
	"strings"

	"golang.org/x/tools/go/ssa"
)

func init() {
	register("C18", &propDef{
		run: runC18,
		explanation: "Decides the table agreements behind the configuration property: R1 every flag registered by AddFlags/AddGlobalFlags has a constant name that, with the rollkit. prefix stripped and split at dots, resolves through mapstructure keys (tag, else field name case-insensitively) to a leaf of Config whose kind accepts the flag's type (two reasoned exemptions); " +
			"R2 every leaf of Config except RootDir has a yaml key equal to its mapstructure key along the whole path and no leaf is a raw time.Duration; R3 every flag's default argument is the DefaultConfig value of exactly the leaf it resolves to and the decode target is initialised from DefaultConfig; " +
			"R4 every genesis field has a distinct json tag and LoadGenesis returns the error of Validate.",
		notDecided:  "viper's precedence implementation and yaml/mapstructure behaviour for arbitrary values (trusted base); equality of a saved and re-loaded configuration for all values.",
		assumptions: []string{"viper, pflag, mapstructure and goccy/go-yaml behave as documented", "go/types, go/ssa"},
	})
}

const configPkg = rootPath + "/pkg/config"

type cfgLeaf struct {
	goPath   string // Node.BlockTime
	msPath   string // node.block_time
	yamlPath string
	typ      types.Type
}

func tagKey(tag, key string) (string, bool) {
	v, ok := reflect.StructTag(tag).Lookup(key)
	if !ok {
		return "", false
	}
	return strings.Split(v, ",")[0], true
}

func configLeaves(t types.Type, goPre, msPre, yPre string, out *[]cfgLeaf) {
	if p, ok := t.Underlying().(*types.Pointer); ok {
		t = p.Elem()
	}
	st, ok := t.Underlying().(*types.Struct)
	if !ok || strings.HasSuffix(t.String(), "DurationWrapper") {
		*out = append(*out, cfgLeaf{goPre, msPre, yPre, t})
		return
	}
	for i := 0; i < st.NumFields(); i++ {
		f := st.Field(i)
		if !f.Exported() {
			continue
		}
		ms, okM := tagKey(st.Tag(i), "mapstructure")
		if !okM || ms == "" {
			ms = strings.ToLower(f.Name())
		}
		y, okY := tagKey(st.Tag(i), "yaml")
		if !okY || y == "" {
			y = strings.ToLower(f.Name())
		}
		join := func(a, b string) string {
			if a == "" {
				return b
			}
			return a + "." + b
		}
		configLeaves(f.Type(), join(goPre, f.Name()), join(msPre, ms), join(yPre, y), out)
	}
}

func runC18(c *Check) {
	p := c.Mod(ModRoot)
	c.Doc("C18-R1", "ST+CS: every registered flag names an option of compatible kind.")
	c.Doc("C18-R2", "ST: yaml key = mapstructure key along the whole path; no raw time.Duration leaf.")
	c.Doc("C18-R3", "VP: flag default = DefaultConfig value of the resolved leaf; decode target starts from DefaultConfig.")
	c.Doc("C18-R4", "ST+GA: genesis json tags; LoadGenesis returns Validate's error.")
	tp := p.TypesPkg(configPkg)
	cfgT := tp.Scope().Lookup("Config").Type()
	var leaves []cfgLeaf
	configLeaves(cfgT, "", "", "", &leaves)
	byMS := map[string]cfgLeaf{}
	for _, l := range leaves {
		byMS[l.msPath] = l
	}
	if len(leaves) < 30 {
		c.Unk("C18-R2", "Config ⟂ leaves", "", "", fmt.Sprintf("anchor lost: only %d leaves in Config", len(leaves)))
	}
	// ---- R2
	for _, l := range leaves {
		inst := "leaf " + l.goPath
		if l.goPath == "RootDir" {
			if l.msPath == "-" && l.yamlPath == "-" {
				c.OK("C18-R2", inst, "", "", "excluded from file and decoding on purpose (set from the home flag)", false)
			} else {
				c.Bad("C18-R2", inst, "", "", "RootDir must be excluded from both the file and the decoder", nil)
			}
			continue
		}
		switch {
		case strings.Contains(l.msPath, "-") && strings.HasSuffix(l.msPath, "-"):
			c.Bad("C18-R2", inst, "", "", "option cannot be set from the file (mapstructure:\"-\")", nil)
		case l.msPath != l.yamlPath:
			c.Bad("C18-R2", inst, "", "", fmt.Sprintf("the file is written with key %q but decoded with key %q: a configuration written to disk does not load back equal", l.yamlPath, l.msPath), nil)
		case l.typ.String() == "time.Duration":
			c.Bad("C18-R2", inst, "", "", "raw time.Duration leaf: it is written as an integer of nanoseconds and has no text codec; durations must be DurationWrapper", nil)
		default:
			c.OK("C18-R2", inst, "", "", "key "+l.msPath+" ("+types.TypeString(l.typ, shortQual)+")", true)
		}
	}

	// ---- R1/R3: flag registrations
	kindOK := func(method string, t types.Type) bool {
		s := t.String()
		switch method {
		case "String":
			return s == "string"
		case "Bool":
			return s == "bool"
		case "Duration":
			return strings.HasSuffix(s, "DurationWrapper")
		case "Uint64":
			return s == "uint64"
		case "Float64":
			return s == "float64"
		case "Int":
			return s == "int"
		case "Uint":
			return s == "uint"
		case "Int64":
			return s == "int64"
		case "StringSlice":
			return s == "[]string" || s == "string"
		}
		return false
	}
	exempt := map[string]string{
		"home":                      "consumed by Load to locate the file; stored in RootDir",
		"rollkit.signer.passphrase": "deliberately not stored in the configuration",
	}
	nFlags := 0
	for _, fname := range []string{"AddFlags", "AddGlobalFlags"} {
		fn := p.MustFunc(configPkg + "." + fname)
		ctx := &Ctx{Fn: fn}
		type flagReg struct {
			method    string
			name, def ssa.Value
			in        ssa.Instruction
		}
		var regs []flagReg
		for _, b := range fn.Blocks {
			for _, in := range b.Instrs {
				call, ok := in.(*ssa.Call)
				if !ok {
					continue
				}
				cn := commonName(call.Common())
				if !strings.HasPrefix(cn, "(*github.com/spf13/pflag.FlagSet).") {
					continue
				}
				method := cn[strings.LastIndex(cn, ".")+1:]
				if len(call.Common().Args) < 4 {
					continue
				}
				// a table of (name, default, usage) rows registered by one loop: one registration per row
				if al, nf := tableField(call.Common().Args[1], 0); al != nil {
					if al2, df := tableField(call.Common().Args[2], 0); al2 == al && df != nf {
						lit := ssa.Value(al)
						for _, r := range *al.Referrers() {
							if st, ok := r.(*ssa.Store); ok && st.Addr == ssa.Value(al) {
								if ld, ok := st.Val.(*ssa.UnOp); ok && ld.Op == token.MUL {
									if inner, ok := ld.X.(*ssa.Alloc); ok {
										lit = inner
									}
								}
							}
						}
						rows := litStores(lit)
						expanded := false
						for i := 0; ; i++ {
							ns, ds := rows[fmt.Sprintf("[%d].%s", i, nf)], rows[fmt.Sprintf("[%d].%s", i, df)]
							if len(ns) != 1 || len(ds) != 1 {
								break
							}
							expanded = true
							regs = append(regs, flagReg{method, ns[0], ds[0], in})
						}
						if expanded {
							continue
						}
					}
				}
				regs = append(regs, flagReg{method, call.Common().Args[1], call.Common().Args[2], in})
			}
		}
		for _, rg := range regs {
			{
				method, in := rg.method, rg.in
				nFlags++
				nameT := TermOf(rg.name, ctx).unconv()
				var name string
				if nameT.Op != "const" {
					c.Bad("C18-R1", fname+" ⟂ non-constant-flag-name", fnName(fn), p.InstrPos(in), "flag registered under a non-constant name", nil)
					continue
				}
				fmt.Sscanf(nameT.Name, "%q", &name)
				inst := "flag --" + name
				if why, ok := exempt[name]; ok {
					c.OK("C18-R1", inst, fnName(fn), p.InstrPos(in), "exempt: "+why, false)
					continue
				}
				key := strings.TrimPrefix(name, "rollkit.")
				leaf, ok := byMS[key]
				if !ok {
					// nearest option for the message
					var near []string
					for k := range byMS {
						if strings.HasPrefix(k, strings.Split(key, ".")[0]+".") {
							near = append(near, k)
						}
					}
					sort.Strings(near)
					c.Bad("C18-R1", inst, fnName(fn), p.InstrPos(in), fmt.Sprintf("the flag's key %q resolves to no configuration option (options under that section: %v): the flag is accepted on the command line and silently ignored", key, near), nil)
					continue
				}
				if !kindOK(method, leaf.typ) {
					c.Bad("C18-R1", inst, fnName(fn), p.InstrPos(in), fmt.Sprintf("flag of type %s names option %s of type %s", method, leaf.goPath, leaf.typ), nil)
					continue
				}
				c.OK("C18-R1", inst, fnName(fn), p.InstrPos(in), "resolves to "+leaf.goPath+" ("+types.TypeString(leaf.typ, shortQual)+")", true)
				// R3 default
				def := TermOf(rg.def, ctx)
				want := leaf.goPath
				if method == "Duration" {
					want += ".Duration"
				}
				got, root := fieldPath(def)
				okDef := false
				switch {
				case got == want && (root == "config.DefaultConfig" || strings.HasSuffix(root, "DefaultConfig")):
					okDef = true
				case strings.HasPrefix(want, "Instrumentation.") && got == strings.TrimPrefix(want, "Instrumentation.") && strings.Contains(root, "DefaultInstrumentationConfig"):
					okDef = true
				}
				if okDef {
					c.OK("C18-R3", inst+" ⟂ default", fnName(fn), p.InstrPos(in), "default ← "+root+"."+got, true)
				} else {
					c.Bad("C18-R3", inst+" ⟂ default", fnName(fn), p.InstrPos(in), fmt.Sprintf("the flag's default is %s.%s, not the default of %s: an unset flag overrides the file/default with another option's value", root, got, want), nil)
				}
			}
		}
	}
	if nFlags < 35 {
		c.Unk("C18-R1", "flags", "", "", fmt.Sprintf("anchor lost: %d flag registrations (39 confirmed by hand)", nFlags))
	}
	// decode target initialised from DefaultConfig
	var lv *ssa.Function
	for _, f := range funcsCalling(p, configPkg, func(n string) bool { return n == "github.com/mitchellh/mapstructure.NewDecoder" }) {
		lv = f
	}
	if lv == nil {
		c.Unk("C18-R3", "decode-target", "", "", "anchor lost: loadFromViper")
	} else {
		ok := false
		for _, b := range lv.Blocks {
			for _, in := range b.Instrs {
				if st, isS := in.(*ssa.Store); isS {
					if al, isA := st.Addr.(*ssa.Alloc); isA && strings.HasSuffix(al.Type().String(), "config.Config") {
						if t := TermOf(st.Val, &Ctx{Fn: lv}); t.Op == "global" && strings.HasSuffix(t.Name, "DefaultConfig") {
							ok = true
						}
					}
				}
			}
		}
		// … and no part of it is replaced by something that does not carry the defaults
		var fromDefaults func(v ssa.Value, depth int) (bool, string)
		fromDefaults = func(v ssa.Value, depth int) (bool, string) {
			t := TermOf(v, &Ctx{Fn: lv})
			if p.DeepContains(t, func(x *Term) bool {
				return (x.Op == "global" && strings.HasSuffix(x.Name, "DefaultConfig")) || x.Op == "param"
			}, 1) {
				return true, "derives from DefaultConfig or a parameter"
			}
			if call, isC := v.(*ssa.Call); isC {
				if cal := call.Common().StaticCallee(); cal != nil && p.InRepo(cal) && fnPkg(cal).Pkg.Path() == configPkg && len(cal.Params) == 0 {
					return true, "built by the parameterless constructor " + fnShort(cal) + " (a constant value of the package, like DefaultConfig's own)"
				}
			}
			if al, isA := v.(*ssa.Alloc); isA && depth < 2 {
				n := 0
				for _, r := range *al.Referrers() {
					if st, isS := r.(*ssa.Store); isS && st.Addr == ssa.Value(al) {
						n++
						if okv, _ := fromDefaults(st.Val, depth+1); !okv {
							return false, "a new value filled with " + trunc(TermOf(st.Val, &Ctx{Fn: lv}).String(), 60)
						}
					}
				}
				if n > 0 {
					return true, "a copy of a default value"
				}
				return false, "a new zero value"
			}
			return false, trunc(t.String(), 80)
		}
		// R11: the decode target shares no memory with the package-level defaults. The target is a
		// shallow copy of DefaultConfig, so every option kept behind a pointer (or in a map) still
		// *is* the default's: decoding a file value into it rewrites the default for every later
		// Load of the process. Each such field is given a value of its own before the decoder runs.
		if ok {
			c.Doc("C18-R11", "VP+EO: before the decoder runs, every pointer- or map-typed field of the configuration reachable in the decode target (a shallow copy of DefaultConfig) is replaced, on every path, by a freshly allocated value: decoding otherwise writes file and flag values into the package-level defaults, and an option left out of a later Load's file and flags comes out as the earlier Load's value, not as its default.")
			cfgT := p.TypesPkg(configPkg).Scope().Lookup("Config").Type()
			var shared []string
			var walkT func(t types.Type, path string, depth int)
			walkT = func(t types.Type, path string, depth int) {
				st, isSt := t.Underlying().(*types.Struct)
				if !isSt || depth > 4 {
					return
				}
				for i := 0; i < st.NumFields(); i++ {
					ft := st.Field(i).Type()
					pp := path + "." + fieldLabel(t, i)
					switch ft.Underlying().(type) {
					case *types.Pointer, *types.Map:
						shared = append(shared, pp)
					case *types.Struct:
						walkT(ft, pp, depth+1)
					}
				}
			}
			walkT(cfgT, "", 0)
			gl := BuildECFG(p, lv, ExpandOpts{MaxDepth: 0})
			decs := gl.Select(func(x *Node) bool { return strings.HasSuffix(CallName(x), "mapstructure.Decoder).Decode") })
			for _, sp := range shared {
				sp := sp
				fresh := gl.Select(func(x *Node) bool {
					st, isS := x.In.(*ssa.Store)
					if !isS || x.Kind != NInstr {
						return false
					}
					root := st.Addr
					path := ""
					for {
						fa, isFA := root.(*ssa.FieldAddr)
						if !isFA {
							break
						}
						path = "." + fieldLabel(fa.X.Type(), fa.Field) + path
						root = fa.X
					}
					al, isA := root.(*ssa.Alloc)
					if !isA || !strings.HasSuffix(al.Type().String(), "config.Config") || path != sp {
						return false
					}
					// the stored value does not come out of the package-level defaults
					vt := TermOf(st.Val, x.Ctx)
					if vt.Contains(func(t *Term) bool { return t.Op == "global" && strings.HasSuffix(t.Name, "DefaultConfig") }) {
						_, isAlloc := st.Val.(*ssa.Alloc)
						return isAlloc // &copy where copy := *DefaultConfig.X is a value of its own
					}
					return true
				})
				inst := "decode-target ⟂ cfg" + sp + " not shared with the defaults"
				switch {
				case len(decs) == 0:
					c.Unk("C18-R11", inst, fnName(lv), "", "anchor lost: the decoder call in the loader")
				default:
					c.Decide("C18-R11", inst, fnName(lv), p.InstrPos(decs[0].In), "the field is given a freshly allocated value on every path to the decoder",
						"the decoder writes through cfg"+sp+", which still points into the package-level DefaultConfig: a value given by one Load's file or flags becomes the default of every later Load in the process (an option absent from file and flags then does not come out as its default)", gl,
						gl.PathAvoiding([]*Node{gl.Entry}, nodeSet(decs), orPred(nodeSet(fresh), nodeSet(gl.Select(EdgeWhere(func(t *Term, pol bool, n *Node) bool {
							// the default's field is nil: nothing is shared on this path
							a, op, b, okc := canonCmp(t, pol)
							if !okc || op != "==" {
								return false
							}
							for _, pr := range [][2]*Term{{a, b}, {b, a}} {
								if pr[1].unconv().Name == "nil" && strings.HasSuffix(pr[0].unconv().String(), sp) {
									return true
								}
							}
							return false
						}))))))
				}
			}
			if len(shared) == 0 {
				c.OK("C18-R11", "decode-target ⟂ no pointer- or map-typed options", fnName(lv), p.Pos(lv.Pos()), "the configuration holds every option by value", true)
			}
		}
		afterDecode := map[ssa.Instruction]bool{}
		{
			gl := BuildECFG(p, lv, ExpandOpts{MaxDepth: 0})
			decs := gl.Select(func(x *Node) bool { return strings.HasSuffix(CallName(x), "mapstructure.Decoder).Decode") })
			for nd, r := range gl.Reachable(decs, nil) {
				if r && nd.Kind == NInstr && nd.In != nil {
					afterDecode[nd.In] = true
				}
			}
		}
		for _, b := range lv.Blocks {
			for _, in := range b.Instrs {
				st, isS := in.(*ssa.Store)
				if !isS {
					continue
				}
				fa, isF := st.Addr.(*ssa.FieldAddr)
				if !isF {
					continue
				}
				root := ssa.Value(fa)
				path := ""
				for {
					f, isFA := root.(*ssa.FieldAddr)
					if !isFA {
						break
					}
					path = "." + fieldLabel(f.X.Type(), f.Field) + path
					root = f.X
				}
				al, isA := root.(*ssa.Alloc)
				if !isA || !strings.HasSuffix(al.Type().String(), "config.Config") {
					continue
				}
				// what was decoded is what is returned: an option is not rewritten after the decode
				// (normalising a path turns tcp://host into tcp:/host and "" into "."; a value given by
				// flag or file no longer reaches the option unchanged, a saved file does not load back equal)
				if afterDecode[in] {
					c.Bad("C18-R3", "decode-target ⟂ cfg"+path+" unchanged-after-decode", fnName(lv), p.InstrPos(in), "the loader overwrites the option after decoding it ("+trunc(TermOf(st.Val, &Ctx{Fn: lv}).String(), 70)+"): the value from the flag or the file does not reach the option unchanged, and a configuration that was saved does not load back equal", nil)
					continue
				}
				inst := "decode-target ⟂ cfg" + path + " keeps-defaults"
				if okv, why := fromDefaults(st.Val, 0); okv {
					c.OK("C18-R3", inst, fnName(lv), p.InstrPos(in), "the value written "+why, true)
				} else {
					c.Bad("C18-R3", inst, fnName(lv), p.InstrPos(in), "a part of the decode target is replaced by "+why+", which does not carry the defaults: options of that part that neither the file nor a flag sets get the zero value instead of their default", nil)
				}
			}
		}
		if ok {
			c.OK("C18-R3", "decode-target ⟂ starts-from-DefaultConfig", fnName(lv), p.Pos(lv.Pos()), "options absent from file and flags keep their defaults", true)
		} else {
			c.Bad("C18-R3", "decode-target ⟂ starts-from-DefaultConfig", fnName(lv), p.Pos(lv.Pos()), "the decode target is not initialised from DefaultConfig: options absent from the file lose their defaults", nil)
		}
	}

	// ---- R4 genesis
	gp := p.TypesPkg(rootPath + "/pkg/genesis")
	gst := gp.Scope().Lookup("Genesis").Type().Underlying().(*types.Struct)
	tags := map[string]string{}
	for i := 0; i < gst.NumFields(); i++ {
		f := gst.Field(i)
		j, ok := tagKey(gst.Tag(i), "json")
		inst := "Genesis." + f.Name()
		switch {
		case !ok || j == "" || j == "-":
			c.Bad("C18-R4", inst, "", p.Pos(f.Pos()), "genesis field without a json key: it is not written to / read from the genesis file", nil)
		case tags[j] != "":
			c.Bad("C18-R4", inst, "", p.Pos(f.Pos()), "json key "+j+" is also used by "+tags[j], nil)
		default:
			tags[j] = f.Name()
			c.OK("C18-R4", inst, "", p.Pos(f.Pos()), "json key "+j, false)
		}
	}
	lg := p.MustFunc(rootPath + "/pkg/genesis.LoadGenesis")
	{
		g := BuildECFG(p, lg, ExpandOpts{MaxDepth: 2, Stop: func(f *ssa.Function) bool {
			pk := fnPkg(f)
			return pk == nil || pk.Pkg.Path() != rootPath+"/pkg/genesis" || strings.HasSuffix(fnName(f), "genesis.Genesis).Validate")
		}})
		c.NoteGraph(g)
		validOK := g.Select(ErrNilEdge(func(t *Term) bool { return t.IsCall("genesis.Genesis).Validate") }))
		// the file is decoded as a whole: a streaming decoder stops after the first JSON value and
		// accepts whatever follows it (a second object from a botched merge, the tail of an older
		// file), so an invalid file would be accepted
		{
			streams := g.Select(func(x *Node) bool { return strings.HasSuffix(CallName(x), "encoding/json.Decoder).Decode") })
			checksRest := g.Select(func(x *Node) bool {
				cn := CallName(x)
				return strings.HasSuffix(cn, "encoding/json.Decoder).More") || strings.HasSuffix(cn, "encoding/json.Decoder).Token") || strings.HasSuffix(cn, "encoding/json.Decoder).InputOffset")
			})
			whole := g.Select(func(x *Node) bool { return CallName(x) == "encoding/json.Unmarshal" })
			switch {
			case len(streams) == 0 && len(whole) > 0:
				c.OK("C18-R4", "LoadGenesis ⟂ decodes-the-whole-file", fnName(lg), p.InstrPos(whole[0].In), "json.Unmarshal rejects anything after the value", true)
			case len(streams) >= 2 || len(checksRest) > 0:
				c.OK("C18-R4", "LoadGenesis ⟂ decodes-the-whole-file", fnName(lg), p.InstrPos(streams[0].In), "the stream is decoded and then checked for remaining input", true)
			case len(streams) == 1:
				c.Bad("C18-R4", "LoadGenesis ⟂ decodes-the-whole-file", fnName(lg), p.InstrPos(streams[0].In), "the genesis is read with a streaming decoder that stops after the first JSON value and nothing checks what follows: a malformed file (a second object, a stray brace, the tail of an older file) is accepted and loaded instead of refused", nil)
			default:
				c.Unk("C18-R4", "LoadGenesis ⟂ decodes-the-whole-file", fnName(lg), "", "anchor lost: the loader decodes no JSON")
			}
		}
		succ := g.Select(g.SuccessExits())
		if len(validOK) == 0 {
			c.Bad("C18-R4", "LoadGenesis ⟂ validates", fnName(lg), p.Pos(lg.Pos()), "LoadGenesis does not branch on Genesis.Validate: an invalid genesis is accepted", nil)
		} else {
			c.Decide("C18-R4", "LoadGenesis ⟂ validates", fnName(lg), p.InstrPos(validOK[0].In), "a genesis is returned only after Validate accepted it",
				"LoadGenesis can return a genesis without a successful Validate", g, g.PathAvoiding([]*Node{g.Entry}, nodeSet(succ), nodeSet(validOK)))
		}
		// what is validated and returned is what the file says: the decoded value is not patched
		// up (defaults filled in) before validation — a file that is invalid as written would
		// be accepted, and the genesis loaded would differ from the one on disk
		{
			var patched []string
			for _, b := range lg.Blocks {
				for _, in := range b.Instrs {
					st, ok := in.(*ssa.Store)
					if !ok {
						continue
					}
					fa, ok := st.Addr.(*ssa.FieldAddr)
					if !ok {
						continue
					}
					if strings.HasSuffix(fa.X.Type().String(), "genesis.Genesis") {
						patched = append(patched, fieldLabel(fa.X.Type(), fa.Field)+" @"+p.InstrPos(in))
					}
				}
			}
			sort.Strings(patched)
			if len(patched) == 0 {
				c.OK("C18-R4", "LoadGenesis ⟂ validates-the-decoded-value-unmodified", fnName(lg), p.Pos(lg.Pos()), "no field of the decoded genesis is overwritten in the loader", true)
			} else {
				c.Bad("C18-R4", "LoadGenesis ⟂ validates-the-decoded-value-unmodified", fnName(lg), p.Pos(lg.Pos()), "the loader overwrites "+strings.Join(patched, ", ")+" of the decoded genesis: a file whose value for that field is invalid is accepted instead of refused, and the genesis loaded differs from the file", nil)
			}
		}
	}
	c.Doc("C18-R5", "CT: configuration and genesis files are written by replacing the whole file.")
	ruleConfigWritersTruncate(c, p)
	c.Doc("C18-R6", "EO+VP: the flag visitor binds every visited flag itself to the configuration key (BindPFlag on every normal path, with the visited flag), so that a flag given on the command line always outranks the file.")
	ruleEveryFlagBound(c, p)
	c.Doc("C18-R8", "EO+CS: every loader pins the file it reads (SetConfigFile before ReadInConfig) to the path the writer uses: the same constant path elements under the home directory as Config.ConfigPath (no search over names, extensions or expanded directories).")
	ruleLoaderReadsWrittenFile(c, p)
	c.Doc("C18-R9", "VP+CS: wherever a flag name is turned into an option key (viper Set / BindPFlag / BindEnv / SetDefault), the key is the name itself or the name with exactly the registered flag prefix removed (TrimPrefix / CutPrefix with the one prefix constant) — no character-set trimming or other rewriting, which mangles some option paths so that their flags are silently ignored.")
	ruleFlagKeyMapping(c, p)
	ruleWriterWritesEveryValue(c, p)
	c.Doc("C18-R7", "CS: the text encoder and decoder of every configuration leaf type with its own text codec are an inverse pair of the standard library applied to the whole value, with no transformation in between (what is written is what is read).")
	ruleTextCodecsInverse(c, p)
	ruleDecodeHooksPassValuesOn(c, p, "C18-R12")
	ruleFlagsBoundBeforeFileRead(c, p, "C18-R13")
	ruleFlagsHaveTheLastWord(c, p, "C18-R14")
	ruleGenesisZeroTimeByInstant(c, p, "C18-R15")
	ruleNoNumberThroughFloat(c, p, "C18-R16")
}

// ruleFlagsBoundBeforeFileRead (C18-R13): while the flags are bound, the loader copies every value
// viper already has for an unset flag into the flag itself (pflag Set, which also marks the flag
// as given on the command line). Before the file is read viper has such values only from the
// environment; after it, for every option the file mentions: the file's values would be frozen
// into the command's flags as if they had been passed, and outrank the file on every later Load
// of the same command (a configuration saved and loaded again comes back with the old values).
func ruleFlagsBoundBeforeFileRead(c *Check, p *Prog, rule string) {
	c.Doc(rule, "EO: in the loader the flags are bound to viper (the visitor that calls BindPFlag, and may copy viper's value into an unset flag) before the configuration file is read, on every path: a file value is never written into a flag, where it would count as a command-line value and outrank the file.")
	ld := p.Func(configPkg + ".Load")
	if ld == nil {
		c.Unk(rule, "Load", "", "", "anchor lost: the loader")
		return
	}
	g := BuildECFG(p, ld, ownPkgOpts(configPkg, 2))
	c.NoteGraph(g)
	binds := g.Select(func(n *Node) bool {
		return strings.HasSuffix(CallName(n), "viper.Viper).BindPFlag") || strings.HasSuffix(CallName(n), "viper.Viper).BindPFlags")
	})
	// the visitor runs inside VisitAll: the call of VisitAll stands for the bindings made in it
	visits := g.Select(func(n *Node) bool { return strings.HasSuffix(CallName(n), "pflag.FlagSet).VisitAll") })
	reads := g.Select(func(n *Node) bool {
		return strings.HasSuffix(CallName(n), "viper.Viper).ReadInConfig") || strings.HasSuffix(CallName(n), "viper.Viper).MergeInConfig") || strings.HasSuffix(CallName(n), "viper.Viper).ReadConfig")
	})
	// the writes into flags: pflag's Set (on the set or on a flag's value)
	sets := g.Select(func(n *Node) bool {
		cn := CallName(n)
		return strings.HasSuffix(cn, "pflag.FlagSet).Set") || strings.HasSuffix(cn, "pflag.Value).Set")
	})
	if len(sets) > 0 && len(reads) > 0 {
		c.Decide(rule, "Load ⟂ no flag is written after the file was read", fnName(ld), p.InstrPos(sets[0].In), "no write into a flag is reachable from the file read",
			"a flag can be written (pflag Set, which marks it as given on the command line) after the configuration file was read: viper then holds the file's values, they are copied into the unset flags, and on a later Load of the same command these stale values outrank the file — a configuration saved and loaded again comes back with the old values", g,
			g.PathAvoiding(reads, nodeSet(sets), nil))
	}
	if len(reads) == 0 || len(binds)+len(visits) == 0 {
		c.Unk(rule, "Load ⟂ bind<read", fnName(ld), "", fmt.Sprintf("anchor lost: %d flag bindings, %d file reads in reach of the loader", len(binds)+len(visits), len(reads)))
		return
	}
	c.Decide(rule, "Load ⟂ flags bound before the file is read", fnName(ld), p.InstrPos(reads[0].In), "every path to the file read has bound the flags",
		"the configuration file can be read before the flags are bound: the binding step then copies the file's values into the unset flags (marking them as given), and on a later Load of the same command those stale flag values outrank the file", g,
		g.MustPrecede(orPred(nodeSet(binds), nodeSet(visits)), nodeSet(reads)))
	c.MinInstances(rule, 1)
}

// ruleDecodeHooksPassValuesOn (C18-R12): between viper and the configuration structure sits a
// chain of decode hooks. A hook of the repository converts what its own leaf types need (a string
// into a DurationWrapper) and hands everything else on untouched: a hook that rewrites values of a
// general kind — every string expanded against the environment, trimmed, lower-cased — makes the
// option differ from what the flag or the file said, and a saved configuration load back changed.
func ruleDecodeHooksPassValuesOn(c *Check, p *Prog, rule string) {
	c.Doc(rule, "VP+GA: every decode hook written in the configuration package returns its input value itself on every path that is not behind a test that the target type is one of the package's own leaf types (reflect.TypeOf(T{}) equality): values of general kinds (strings, numbers) reach the option exactly as given.")
	var lv *ssa.Function
	for _, f := range funcsCalling(p, configPkg, func(n string) bool { return n == "github.com/mitchellh/mapstructure.NewDecoder" }) {
		lv = f
	}
	if lv == nil {
		c.Unk(rule, "decode hooks", "", "", "anchor lost: the function that builds the decoder")
		return
	}
	// the hooks: function values of the package with the (reflect.Type, reflect.Type, any) (any, error) shape
	var hooks []*ssa.Function
	consider := func(fn *ssa.Function) {
		sig := fn.Signature
		if sig.Params().Len() == 3 && sig.Results().Len() == 2 && sig.Params().At(0).Type().String() == "reflect.Type" && sig.Params().At(1).Type().String() == "reflect.Type" && sig.Results().At(1).Type().String() == "error" {
			hooks = append(hooks, fn)
		}
	}
	for _, fn := range p.Funcs {
		pk := fnPkg(fn)
		if pk == nil || pk.Pkg.Path() != configPkg || fn.Blocks == nil {
			continue
		}
		consider(fn)
	}
	if len(hooks) == 0 {
		c.Unk(rule, "decode hooks", fnName(lv), "", "anchor lost: no decode hook of the configuration package found")
		return
	}
	for _, h := range hooks {
		g := BuildECFG(p, h, ExpandOpts{MaxDepth: 0})
		c.NoteGraph(g)
		data := h.Params[len(h.Params)-1]
		if len(h.FreeVars) == 0 && h.Signature.Recv() == nil && len(h.Params) == 3 {
			data = h.Params[2]
		}
		bad := ""
		for _, x := range g.Exits {
			if g.ExitClass(x) == rcA {
				continue
			}
			ret := x.In.(*ssa.Return)
			v := spilledResult(ret, 0)
			if v == ssa.Value(data) {
				continue
			}
			if mi, ok := v.(*ssa.MakeInterface); ok && mi.X == ssa.Value(data) {
				continue
			}
			// behind "target type is one of our own leaf types"
			own := false
			xx := x
			for _, f := range g.NecessaryEdges(func(n *Node) bool { return n == xx }) {
				a, op, b, okc := canonCmp(f.Cond, f.Pol)
				if !okc || op != "==" {
					continue
				}
				for _, t := range []*Term{a, b} {
					// the own type kept in a package-level value computed once
					if u := t.unconv(); u.Op == "global" {
						var gl *ssa.Global
						switch x := u.V.(type) {
						case *ssa.Global:
							gl = x
						case *ssa.UnOp:
							gl, _ = x.X.(*ssa.Global)
						}
						if gl != nil && gl.Pkg != nil && gl.Pkg.Pkg.Path() == configPkg {
							if initFn := gl.Pkg.Func("init"); initFn != nil {
								for _, ib := range initFn.Blocks {
									for _, iin := range ib.Instrs {
										if st, isSt := iin.(*ssa.Store); isSt && st.Addr == ssa.Value(gl) {
											if cv, isCall := st.Val.(*ssa.Call); isCall && commonName(cv.Common()) == "reflect.TypeOf" && len(cv.Common().Args) == 1 {
												arg := cv.Common().Args[0]
												if mi, isMI := arg.(*ssa.MakeInterface); isMI {
													arg = mi.X
												}
												if nt, isN := derefType(arg.Type()).(*types.Named); isN && nt.Obj().Pkg() != nil && nt.Obj().Pkg().Path() == configPkg {
													own = true
												}
											}
										}
									}
								}
							}
						}
					}
					t.Walk(func(y *Term) bool {
						if y.Op != "call" || y.Name != "reflect.TypeOf" {
							return true
						}
						cv, isCall := y.V.(*ssa.Call)
						if !isCall || len(cv.Common().Args) != 1 {
							return true
						}
						arg := cv.Common().Args[0]
						if mi, isMI := arg.(*ssa.MakeInterface); isMI {
							arg = mi.X
						}
						if nt, isN := derefType(arg.Type()).(*types.Named); isN && nt.Obj().Pkg() != nil && nt.Obj().Pkg().Path() == configPkg {
							own = true
						}
						return true
					})
				}
			}
			if !own {
				bad = p.InstrPos(ret) + ": " + trunc(TermOf(v, x.Ctx).String(), 80)
			}
		}
		inst := "hook " + fnShort(h) + " ⟂ passes other values on unchanged"
		if bad == "" {
			c.OK(rule, inst, fnName(h), p.Pos(h.Pos()), "every return outside a test for one of the package's own leaf types hands the input value back", true)
		} else {
			c.Bad(rule, inst, fnName(h), p.Pos(h.Pos()), "the decode hook returns a rewritten value for targets of a general kind ("+bad+"): what a flag or the file says no longer reaches the option unchanged (a '$' in a token or a JSON blob is expanded against the environment), and a configuration that was saved loads back different", nil)
		}
	}
	c.MinInstances(rule, 1)
}

// ruleTextCodecsInverse (C18-R7).
func ruleTextCodecsInverse(c *Check, p *Prog) {
	rule := "C18-R7"
	inverse := map[string]string{
		"(time.Duration).String": "time.ParseDuration",
		"strconv.Itoa":           "strconv.Atoi",
		"strconv.FormatInt":      "strconv.ParseInt",
		"strconv.FormatUint":     "strconv.ParseUint",
		"strconv.FormatBool":     "strconv.ParseBool",
	}
	n := 0
	for _, fn := range p.Funcs {
		pk := fnPkg(fn)
		if pk == nil || pk.Pkg.Path() != configPkg || fn.Parent() != nil || fn.Name() != "MarshalText" || fn.Signature.Recv() == nil || fn.Synthetic != "" {
			continue
		}
		recvT := fn.Signature.Recv().Type()
		tn := recvT.String()
		tn = tn[strings.LastIndex(tn, ".")+1:]
		var dec *ssa.Function
		for _, f2 := range p.Funcs {
			if f2.Name() == "UnmarshalText" && f2.Parent() == nil && f2.Synthetic == "" && f2.Signature.Recv() != nil && strings.HasSuffix(f2.Signature.Recv().Type().String(), "."+tn) {
				dec = f2
			}
		}
		n++
		inst := "config." + tn + " ⟂ MarshalText/UnmarshalText inverse"
		if dec == nil {
			c.Bad(rule, inst, fnName(fn), p.Pos(fn.Pos()), "the type has a text encoder but no text decoder: a saved configuration cannot be loaded back", nil)
			continue
		}
		// encoder: every returned text is conv(F(receiver value)) for a known F
		var encF string
		okEnc := true
		var why string
		var rets []*Term
		for _, b := range fn.Blocks {
			if r, ok := b.Instrs[len(b.Instrs)-1].(*ssa.Return); ok && len(r.Results) > 0 {
				rets = append(rets, TermOf(r.Results[0], &Ctx{Fn: fn}))
			}
		}
		for _, rt := range rets {
			t := rt.unconv()
			if !(t.Op == "call" || t.Op == "invoke") || len(t.Args) == 0 {
				okEnc, why = false, "the encoder does not return the output of a formatting function: "+trunc(t.String(), 80)
				continue
			}
			name := t.Name
			full := ""
			for k := range inverse {
				if strings.HasSuffix(k, name) || strings.HasSuffix(name, strings.TrimPrefix(k, "(")) || k == name {
					full = k
				}
			}
			if full == "" {
				okEnc, why = false, "unknown formatting function "+name
				continue
			}
			encF = full
			// the argument is the receiver's value itself (a field of it), not a function of it
			a := t.Args[0].unconv()
			for a.Op == "field" {
				a = a.Args[0]
			}
			if a.Op != "param" && !(a.Op == "load" && len(a.Args) == 1) && a.Op != "addrof" {
				okEnc, why = false, "the value formatted is not the stored value itself but "+trunc(t.Args[0].String(), 80)+": what is written differs from what was configured"
			}
		}
		// decoder: calls the inverse on the text and stores the result
		okDec := encF != "" && callsNamed(dec, func(nm string) bool { return nm == inverse[encF] })
		if okDec {
			for _, b := range dec.Blocks {
				for _, in := range b.Instrs {
					if call, ok := in.(*ssa.Call); ok && commonName(call.Common()) == inverse[encF] {
						a := TermOf(call.Common().Args[0], &Ctx{Fn: dec}).unconv()
						if a.Op != "param" {
							okDec, why = false, "the decoder parses "+trunc(a.String(), 60)+", not the text it was given"
						}
					}
				}
			}
		} else if okEnc {
			why = "the decoder does not apply " + inverse[encF] + ", the inverse of the encoder's " + encF
		}
		if okEnc && okDec {
			c.OK(rule, inst, fnName(fn), p.Pos(fn.Pos()), "written with "+encF+" of the value, read with "+inverse[encF]+" of the text", true)
		} else {
			c.Bad(rule, inst, fnName(fn), p.Pos(fn.Pos()), why+": a configuration written to disk does not load back equal", nil)
		}
	}
	if n == 0 {
		c.Unk(rule, "text-codecs", "", "", "anchor lost: no type of the configuration package implements MarshalText")
	}
	c.MinInstances(rule, 1)
}

// ruleEveryFlagBound (C18-R6): viper ranks a bound, changed flag above the configuration file and
// everything else (SetDefault, Set from another source) below or beside it; the visitor that the
// loader runs over all flags must therefore bind each visited flag on every path that returns
// normally, and bind that flag, not another value.
func ruleEveryFlagBound(c *Check, p *Prog) {
	rule := "C18-R6"
	n := 0
	for _, fn := range p.Funcs {
		pk := fnPkg(fn)
		if pk == nil || pk.Pkg.Path() != configPkg || fn.Parent() == nil {
			continue
		}
		// a closure handed to (*pflag.FlagSet).VisitAll by a function of the loader
		isVisitor := false
		for _, b := range fn.Parent().Blocks {
			for _, in := range b.Instrs {
				call, ok := in.(*ssa.Call)
				if !ok || !strings.HasSuffix(commonName(call.Common()), "pflag.FlagSet).VisitAll") {
					continue
				}
				for _, a := range call.Common().Args {
					if mc, ok := a.(*ssa.MakeClosure); ok && mc.Fn == fn {
						isVisitor = true
					}
				}
			}
		}
		if !isVisitor {
			continue
		}
		g := BuildECFG(p, fn, ownPkgOpts(configPkg, 2))
		binds := g.Select(func(x *Node) bool { return strings.HasSuffix(CallName(x), "viper.Viper).BindPFlag") })
		if len(binds) == 0 {
			continue // a visitor that is not the binding visitor
		}
		c.NoteGraph(g)
		n++
		inst := fnShort(fn.Parent()) + " visitor ⟂ binds-every-flag"
		c.Decide(rule, inst, fnName(fn), p.InstrPos(binds[0].In), "every normal return of the flag visitor passes BindPFlag",
			"the visitor can return without binding the visited flag (it only contributes a default or nothing): a value given for that flag on the command line does not outrank the configuration file", g,
			g.PathAvoiding([]*Node{g.Entry}, g.AnyExit(), nodeSet(binds)))
		okFlag := true
		for _, bn := range binds {
			ft := ArgTerm(bn, 2)
			if ft == nil || ft.Op != "param" {
				okFlag = false
			}
		}
		if okFlag {
			c.OK(rule, fnShort(fn.Parent())+" visitor ⟂ binds-the-visited-flag", fnName(fn), p.InstrPos(binds[0].In), "the bound flag is the visitor's parameter", true)
		} else {
			c.Bad(rule, fnShort(fn.Parent())+" visitor ⟂ binds-the-visited-flag", fnName(fn), p.InstrPos(binds[0].In), "the flag handed to BindPFlag is not the visited flag", nil)
		}
	}
	if n == 0 {
		c.Unk(rule, "flag-visitor", "", "", "anchor lost: no VisitAll closure that calls BindPFlag in the configuration package")
	}
	c.MinInstances(rule, 2)
}

// fieldPath: for a term X.A.B.C rooted at a global/call, returns "A.B.C" and the root's name.
func fieldPath(t *Term) (string, string) {
	var parts []string
	for t != nil && t.Op == "field" {
		parts = append([]string{t.Name}, parts...)
		t = t.Args[0]
	}
	root := ""
	if t != nil {
		switch t.Op {
		case "global":
			root = t.Name
		case "call":
			root = t.Name
		case "load":
			if len(t.Args) > 0 {
				root = t.Args[0].String()
			}
		default:
			root = t.String()
		}
		if init := allocInit(t); init != nil {
			_, r2 := fieldPath(init)
			root = r2
		}
	}
	return strings.Join(parts, "."), root
}

// ruleConfigWritersTruncate (C18-R5): a configuration / genesis file is written with
// os.WriteFile / os.Create, or with os.OpenFile whose constant flags truncate (O_TRUNC) or refuse
// an existing file (O_EXCL); otherwise saving a shorter configuration over a longer one leaves the
// old tail behind and the file no longer loads back equal.
func ruleConfigWritersTruncate(c *Check, p *Prog) {
	ruleWritersReplaceWholeFile(c, p, "C18-R5", []string{configPkg, rootPath + "/pkg/genesis"}, 2,
		"saving a configuration that serialises shorter than the file already on disk leaves the old tail behind; the file becomes malformed, Load ignores the read error and silently returns the defaults")
}

// ruleWritersReplaceWholeFile: every file opened for writing in the given packages replaces the
// whole file (os.WriteFile, os.Create, or os.OpenFile with O_TRUNC or O_EXCL).
func ruleWritersReplaceWholeFile(c *Check, p *Prog, rule string, pkgs []string, min int, consequence string) {
	osPkg := p.byPkg[pkgs[0]].Imports["os"]
	flag := func(name string) int64 {
		if osPkg == nil {
			return -1
		}
		k, ok := osPkg.Types.Scope().Lookup(name).(*types.Const)
		if !ok {
			return -1
		}
		v, _ := constant.Int64Val(k.Val())
		return v
	}
	oW, oRW, oT, oX := flag("O_WRONLY"), flag("O_RDWR"), flag("O_TRUNC"), flag("O_EXCL")
	n := 0
	for _, pkgPath := range pkgs {
		for _, fn := range p.Funcs {
			pk := fnPkg(fn)
			if pk == nil || pk.Pkg.Path() != pkgPath {
				continue
			}
			for _, b := range fn.Blocks {
				for _, in := range b.Instrs {
					call, ok := in.(*ssa.Call)
					if !ok {
						continue
					}
					switch commonName(call.Common()) {
					case "os.WriteFile", "os.Create":
						n++
						c.OK(rule, fnShort(fn)+" ⟂ "+commonName(call.Common()), fnName(fn), p.InstrPos(in), "replaces the whole file", false)
					case "os.OpenFile":
						k, isK := call.Common().Args[1].(*ssa.Const)
						if !isK {
							c.Unk(rule, fnShort(fn)+" ⟂ os.OpenFile", fnName(fn), p.InstrPos(in), "non-constant open flags")
							continue
						}
						fl := k.Int64()
						if fl&(oW|oRW) == 0 {
							continue // read-only
						}
						n++
						if fl&oT != 0 || fl&oX != 0 {
							c.OK(rule, fnShort(fn)+" ⟂ os.OpenFile", fnName(fn), p.InstrPos(in), "opened for writing with O_TRUNC or O_EXCL", true)
						} else {
							c.Bad(rule, fnShort(fn)+" ⟂ os.OpenFile", fnName(fn), p.InstrPos(in), fmt.Sprintf("the file is opened for writing without O_TRUNC/O_EXCL (flags %#x): %s", fl, consequence), nil)
						}
					}
				}
			}
		}
	}
	if n < min {
		c.Unk(rule, "file-writers", "", "", fmt.Sprintf("anchor lost: %d file writers in %v", n, pkgs))
	}
}

// ruleLoaderReadsWrittenFile (C18-R8).
func ruleLoaderReadsWrittenFile(c *Check, p *Prog) {
	rule := "C18-R8"
	// the constant elements handed directly to the outermost filepath.Join of the path
	constElems := func(t *Term) []string {
		var out []string
		var join *Term
		t.Walk(func(x *Term) bool {
			if join == nil && x.IsCall("path/filepath.Join") {
				join = x
			}
			return join == nil
		})
		if join == nil {
			return nil
		}
		var flat func(j *Term)
		flat = func(j *Term) {
			for _, a := range j.Args {
				elems := []*Term{a}
				if a.Op == "list" {
					elems = a.Args
				}
				for _, e := range elems {
					switch {
					case e.Op == "const" && strings.HasPrefix(e.Name, "\""):
						out = append(out, e.Name)
					case e.IsCall("path/filepath.Join"):
						flat(e) // a path joined in two steps
					}
				}
			}
		}
		flat(join)
		return out
	}
	// the viper instance a receiver term stands for: the call that created it, looking through
	// a constructor helper of the package
	instOf := func(t *Term) map[ssa.Value]bool {
		out := map[ssa.Value]bool{}
		for _, l := range append(p.Alternatives(t, 2), t) {
			if l.V != nil {
				out[l.V] = true
			}
		}
		return out
	}
	// the writer's path: the constant elements of ConfigPath
	var want []string
	for _, fn := range p.Funcs {
		pk := fnPkg(fn)
		if pk == nil || pk.Pkg.Path() != configPkg || fn.Name() != "ConfigPath" || fn.Parent() != nil {
			continue
		}
		for _, b := range fn.Blocks {
			if r, ok := b.Instrs[len(b.Instrs)-1].(*ssa.Return); ok && len(r.Results) == 1 {
				want = constElems(TermOf(r.Results[0], &Ctx{Fn: fn}))
			}
		}
	}
	if len(want) == 0 {
		c.Unk(rule, "writer-path", "", "", "anchor lost: Config.ConfigPath does not join constant path elements")
		return
	}
	n := 0
	for _, fn := range p.Funcs {
		pk := fnPkg(fn)
		if pk == nil || pk.Pkg.Path() != configPkg || fn.Parent() != nil || !callsNamed(fn, func(nm string) bool { return strings.HasSuffix(nm, "viper.Viper).ReadInConfig") }) {
			continue
		}
		g := BuildECFG(p, fn, ownPkgOpts(configPkg, 2))
		c.NoteGraph(g)
		for _, rd := range g.Select(func(x *Node) bool {
			return strings.HasSuffix(CallName(x), "viper.Viper).ReadInConfig") && x.Ctx.Depth == 0
		}) {
			rd := rd
			n++
			recv := RecvTerm(rd).String()
			recvInst := instOf(RecvTerm(rd))
			pins := g.Select(func(x *Node) bool {
				if !strings.HasSuffix(CallName(x), "viper.Viper).SetConfigFile") {
					return false
				}
				same := RecvTerm(x).String() == recv
				for v := range instOf(RecvTerm(x)) {
					if recvInst[v] {
						same = true
					}
				}
				if !same {
					return false
				}
				got := constElems(ArgTerm(x, 1))
				return strings.Join(got, "/") == strings.Join(want, "/")
			})
			inst := fnShort(fn) + " ⟂ reads-the-file-the-writer-writes"
			if len(pins) == 0 {
				c.Bad(rule, inst, fnName(fn), p.InstrPos(rd.In), "the loader does not pin the configuration file to <home>/"+strings.ReplaceAll(strings.Join(want, "/"), "\"", "")+" (SetConfigFile): it searches by name, so another file (evnode.json, evnode.toml, an expanded directory) can shadow the one SaveAsYaml wrote, silently", nil)
				continue
			}
			c.Decide(rule, inst, fnName(fn), p.InstrPos(rd.In), "the file is pinned to the writer's path before it is read",
				"the configuration can be read before the file is pinned to the writer's path", g, g.PathAvoiding([]*Node{g.Entry}, func(x *Node) bool { return x == rd }, nodeSet(pins)))
		}
	}
	if n == 0 {
		c.Unk(rule, "loaders", "", "", "anchor lost: no function of the configuration package reads a configuration file")
	}
	c.MinInstances(rule, 2)
}

// ruleFlagKeyMapping (C18-R9).
func ruleFlagKeyMapping(c *Check, p *Prog) {
	rule := "C18-R9"
	prefixes := map[string]bool{}
	n := 0
	type site struct {
		fn  *ssa.Function
		in  ssa.Instruction
		key *Term
	}
	var sites []site
	for _, fn := range p.Funcs {
		pk := fnPkg(fn)
		if pk == nil || pk.Pkg.Path() != configPkg {
			continue
		}
		for _, b := range fn.Blocks {
			for _, in := range b.Instrs {
				call, ok := in.(*ssa.Call)
				if !ok {
					continue
				}
				cn := commonName(call.Common())
				if !strings.HasSuffix(cn, "viper.Viper).Set") && !strings.HasSuffix(cn, "viper.Viper).BindPFlag") && !strings.HasSuffix(cn, "viper.Viper).BindEnv") && !strings.HasSuffix(cn, "viper.Viper).SetDefault") {
					continue
				}
				if len(call.Common().Args) < 2 {
					continue
				}
				sites = append(sites, site{fn, in, TermOf(call.Common().Args[1], &Ctx{Fn: fn})})
			}
		}
	}
	for _, st := range sites {
		n++
		bad := ""
		for _, alt := range p.Alternatives(st.key, 1) {
			a := alt.unconv()
			// BindEnv's variadic names arrive as a list
			elems := []*Term{a}
			if a.Op == "list" {
				elems = a.Args
			}
			for _, e := range elems {
				e = e.unconv()
				switch {
				case e.Op == "const":
				case e.IsCall("strings.TrimPrefix") && len(e.Args) == 2 && e.Args[1].unconv().Op == "const":
					prefixes[e.Args[1].unconv().Name] = true
				case e.Op == "extract" && e.Args[0].IsCall("strings.CutPrefix") && len(e.Args[0].Args) == 2 && e.Args[0].Args[1].unconv().Op == "const":
					prefixes[e.Args[0].Args[1].unconv().Name] = true
				case e.Op == "call" || e.Op == "invoke":
					if strings.HasPrefix(e.Name, "strings.") {
						bad = e.Name + "(…)"
					}
				}
			}
		}
		inst := fnShort(st.fn) + " ⟂ option key ← " + trunc(st.key.String(), 50)
		if bad == "" {
			c.OK(rule, inst, fnName(st.fn), p.InstrPos(st.in), "the key is a constant, the name itself, or the name with the flag prefix removed", true)
		} else {
			c.Bad(rule, inst, fnName(st.fn), p.InstrPos(st.in), "the option key is derived with "+bad+", which is not an exact prefix removal: option paths that begin with characters of the cut set are mangled and their flags silently ignored (the file then outranks the flag)", nil)
		}
	}
	if len(prefixes) > 1 {
		c.Bad(rule, "flag-prefix ⟂ one-constant", "", "", fmt.Sprintf("different prefixes are stripped at different sites: %v", sortedKeys(prefixes)), nil)
	} else if len(prefixes) == 1 {
		c.OK(rule, "flag-prefix ⟂ one-constant", "", "", "every site strips the same prefix "+sortedKeys(prefixes)[0], true)
	}
	if n == 0 {
		c.Unk(rule, "key-sites", "", "", "anchor lost: no viper Set / Bind call in the configuration package")
	}
	c.MinInstances(rule, 3)
}

// ruleWriterWritesEveryValue (C18-R10): the loader starts from the defaults and overrides what the
// file names. A value the writer leaves out comes back as its default — which differs from the
// value saved whenever an option was set to the zero value of its type and its default is not zero
// (gas price 0 vs -1, max connections 0 = unlimited vs 3, an emptied address). So the writer must
// write every option whatever its value: no omit-empty / omit-zero marshal option, and no
// ",omitempty" / ",omitzero" in the yaml tag of a configuration leaf.
func ruleWriterWritesEveryValue(c *Check, p *Prog) {
	rule := "C18-R10"
	c.Doc(rule, "CT+CS: the configuration writer writes every option whatever its value: its YAML marshal call carries no omit-empty / omit-zero option and no leaf's yaml tag says omitempty / omitzero (an omitted zero value reloads as the default, not as what was saved).")
	n := 0
	for _, fn := range p.Funcs {
		pk := fnPkg(fn)
		if pk == nil || pk.Pkg.Path() != configPkg || fn.Blocks == nil {
			continue
		}
		for _, b := range fn.Blocks {
			for _, in := range b.Instrs {
				call, ok := in.(*ssa.Call)
				if !ok {
					continue
				}
				cn := commonName(call.Common())
				if !strings.Contains(cn, "go-yaml.Marshal") && !strings.Contains(cn, "yaml.v3.Marshal") && !strings.Contains(cn, "yaml.v2.Marshal") {
					continue
				}
				n++
				var omits []string
				for _, a := range call.Common().Args {
					TermOf(a, &Ctx{Fn: fn}).Walk(func(t *Term) bool {
						if t.Op == "call" && (strings.HasSuffix(t.Name, ".OmitEmpty") || strings.HasSuffix(t.Name, ".OmitZero")) {
							omits = append(omits, t.Name[strings.LastIndex(t.Name, "/")+1:])
						}
						return true
					})
				}
				inst := fnShort(fn) + " ⟂ marshal writes every value"
				if len(omits) == 0 {
					c.OK(rule, inst, fnName(fn), p.InstrPos(in), "the marshal call carries no option that leaves values out", true)
				} else {
					c.Bad(rule, inst, fnName(fn), p.InstrPos(in), "the writer marshals with "+strings.Join(omits, ", ")+": an option set to the zero value of its type is left out of the file and reloads as its default (gas price 0 → -1, max connections 0 = unlimited → 3, an emptied address → the default address): the saved configuration does not load back equal", nil)
				}
			}
		}
	}
	if n == 0 {
		c.Unk(rule, "writer ⟂ marshal", "", "", "anchor lost: no YAML marshal call in the configuration package")
	}
	// tags
	if tp := p.TypesPkg(configPkg); tp != nil {
		var bad []string
		seen := map[types.Type]bool{}
		var walk func(t types.Type, path string)
		walk = func(t types.Type, path string) {
			if pt, ok := t.Underlying().(*types.Pointer); ok {
				t = pt.Elem()
			}
			st, ok := t.Underlying().(*types.Struct)
			if !ok || seen[t] {
				return
			}
			seen[t] = true
			for i := 0; i < st.NumFields(); i++ {
				f := st.Field(i)
				if v, ok := reflect.StructTag(st.Tag(i)).Lookup("yaml"); ok {
					for _, opt := range strings.Split(v, ",")[1:] {
						if opt == "omitempty" || opt == "omitzero" {
							bad = append(bad, path+f.Name()+" ("+opt+")")
						}
					}
				}
				if nt, ok := f.Type().(*types.Named); ok && nt.Obj().Pkg() == tp {
					walk(nt, path+f.Name()+".")
				} else if pt, ok := f.Type().(*types.Pointer); ok {
					if nt, ok := pt.Elem().(*types.Named); ok && nt.Obj().Pkg() == tp {
						walk(nt, path+f.Name()+".")
					}
				}
			}
		}
		if o := tp.Scope().Lookup("Config"); o != nil {
			walk(o.Type(), "")
			sort.Strings(bad)
			if len(bad) == 0 {
				c.OK(rule, "Config ⟂ no leaf is omitted when zero", "", "", "no yaml tag of a configuration leaf says omitempty / omitzero", true)
			} else {
				c.Bad(rule, "Config ⟂ no leaf is omitted when zero", "", "", "configuration leaves are left out of the file when they hold the zero value: "+strings.Join(bad, ", ")+" — such a value reloads as the default, not as what was saved", nil)
			}
		}
	}
}

// ruleFlagsHaveTheLastWord (C18-R14): the loader that merges a caller's (flag-bound) viper with
// the configuration file builds the merged settings by writing both into one viper. What is
// written last wins: no value taken from the file is written after a value taken from the
// caller's viper (unless behind a test that the merged viper does not have the key yet), and the
// copy of the caller's values is not made conditional on what another viper holds.
func ruleFlagsHaveTheLastWord(c *Check, p *Prog, rule string) {
	c.Doc(rule, "EO+GA: in the loader that merges the caller's viper with the file, no Set of a value read from the file viper is reachable after a Set of a value read from the caller's viper (except behind a test that the merged viper itself lacks the key), and the copy of the caller's values is conditional on nothing but the key's text: the command line always outranks the file.")
	fn := p.Func(configPkg + ".LoadFromViper")
	if fn == nil {
		c.OK(rule, "LoadFromViper", "", "", "no loader merges a caller's viper with the file", false)
		return
	}
	g := BuildECFG(p, fn, ownPkgOpts(configPkg, 1))
	c.NoteGraph(g)
	reads := g.Select(func(n *Node) bool {
		return strings.HasSuffix(CallName(n), "viper.Viper).ReadInConfig") || strings.HasSuffix(CallName(n), "viper.Viper).MergeInConfig")
	})
	if len(reads) == 0 || len(fn.Params) == 0 {
		c.Unk(rule, "LoadFromViper", fnName(fn), "", "anchor lost: the file read in the merging loader")
		return
	}
	fileV := RecvTerm(reads[0])
	isGetOn := func(t *Term, which func(*Term) bool) bool {
		return p.DeepContains(t, func(x *Term) bool {
			if x.Op != "call" || !strings.Contains(x.Name, "viper.Viper).Get") || len(x.Args) == 0 {
				return false
			}
			return which(x.Args[0])
		}, 3)
	}
	isFile := func(r *Term) bool { return r != nil && fileV != nil && r.String() == fileV.String() }
	isInput := func(r *Term) bool {
		if r == nil {
			return false
		}
		pr, ok := r.V.(*ssa.Parameter)
		return ok && pr.Parent() == fn
	}
	var fileSets, inputSets []*Node
	for _, n := range g.Select(func(n *Node) bool { return strings.HasSuffix(CallName(n), "viper.Viper).Set") }) {
		v := ArgTerm(n, 2)
		if v == nil {
			continue
		}
		switch {
		case isGetOn(v, isInput):
			inputSets = append(inputSets, n)
		case isGetOn(v, isFile):
			fileSets = append(fileSets, n)
		}
	}
	if len(inputSets) == 0 {
		c.Bad(rule, "LoadFromViper ⟂ the caller's values are copied", fnName(fn), p.Pos(fn.Pos()), "no value of the caller's viper is written into the merged settings: flags given on the command line are ignored", nil)
		return
	}
	// (a) nothing from the file is written after a caller's value
	bad := false
	for _, fs := range fileSets {
		fs := fs
		guarded := false
		merged := RecvTerm(fs)
		for _, f := range g.NecessaryEdges(func(n *Node) bool { return n == fs }) {
			t, pol := normFact(f.Cond, f.Pol)
			if !pol && t.Op == "call" && strings.HasSuffix(t.Name, "viper.Viper).IsSet") && len(t.Args) >= 2 && merged != nil && t.Args[0].String() == merged.String() && t.Args[1].String() == ArgTerm(fs, 1).String() {
				guarded = true
			}
		}
		if guarded {
			continue
		}
		if path := g.PathAvoiding(inputSets, func(n *Node) bool { return n == fs }, nil); path != nil {
			bad = true
			c.Decide(rule, "LoadFromViper ⟂ no file value is written after a caller's value", fnName(fn), p.InstrPos(fs.In), "",
				"a value read from the configuration file is written into the merged settings after the caller's (command-line) values, without a test that the merged settings lack that key: for every option the file mentions, the file outranks the flag", g, path)
		}
	}
	if !bad {
		c.OK(rule, "LoadFromViper ⟂ no file value is written after a caller's value", fnName(fn), p.InstrPos(inputSets[0].In), fmt.Sprintf("%d file copies, %d copies of the caller's values: the caller's values are written last", len(fileSets), len(inputSets)), true)
	}
	// (b) the copy of the caller's values depends on the key's text only
	for i, is := range inputSets {
		is := is
		why := ""
		for _, f := range g.NecessaryEdges(func(n *Node) bool { return n == is }) {
			if p.DeepContains(f.Cond, func(x *Term) bool {
				return x.Op == "call" && strings.Contains(x.Name, "viper.Viper).") && !strings.HasSuffix(x.Name, ").AllKeys")
			}, 4) {
				why = trunc(f.Cond.String(), 100)
			}
		}
		inst := fmt.Sprintf("LoadFromViper ⟂ caller's value copied unconditionally#%d", i+1)
		if why == "" {
			c.OK(rule, inst, fnName(fn), p.InstrPos(is.In), "the copy is conditional on nothing but the key's text", true)
		} else {
			c.Bad(rule, inst, fnName(fn), p.InstrPos(is.In), "the caller's value is copied into the merged settings only under a test on what a viper holds ("+why+"): an option given on the command line can be left to the file's value", nil)
		}
	}
	// (c) every key of the caller's viper is copied: no way round the loop without a Set
	{
		hdr := loopHeaderOf(inputSets[0].In.Block())
		var head *Node
		if hdr != nil {
			head = g.headNode(inputSets[0].Ctx, hdr)
		}
		if head == nil {
			c.Unk(rule, "LoadFromViper ⟂ every key of the caller is copied", fnName(fn), p.InstrPos(inputSets[0].In), "anchor lost: the loop over the caller's keys")
		} else {
			var body []*Node
			for _, s := range head.Succ {
				body = append(body, s)
			}
			// the body: what leads back to the head; the exit edge does not
			path := g.PathAvoiding(body, func(x *Node) bool { return x == head }, nodeSet(inputSets))
			c.Decide(rule, "LoadFromViper ⟂ every key of the caller is copied", fnName(fn), p.InstrPos(inputSets[0].In), "no iteration over the caller's keys ends without a Set of that key's value",
				"the loop over the caller's keys can pass a key over without copying it into the merged settings (for example every key that lacks the flag prefix): a flag registered under such a name — the chain id — is silently dropped, and the file's value or the default wins over the command line", g, path)
		}
	}
	c.MinInstances(rule, 3)
}

// ruleGenesisZeroTimeByInstant (C18-R15): the genesis validator refuses a start time that is the
// zero instant. Whether a time is the zero instant is asked of the instant (Time.IsZero), not of
// the representation: `t == time.Time{}` compares wall, ext and the location pointer, and a zero
// instant written with an offset ("0001-01-01T00:00:00+00:00") or read in a named location is a
// different struct — an invalid genesis that the loader then accepts.
func ruleGenesisZeroTimeByInstant(c *Check, p *Prog, rule string) {
	c.Doc(rule, "GA: every accepting return of Genesis.Validate is behind the false edge of Time.IsZero on the genesis start time (the instant is tested, not the struct representation, which differs for the same instant written with another offset or location).")
	fn := p.Func("(" + rootPath + "/pkg/genesis.Genesis).Validate")
	if fn == nil {
		c.Unk(rule, "Genesis.Validate", "", "", "anchor lost: the genesis validator")
		return
	}
	g := BuildECFG(p, fn, ownPkgOpts(rootPath+"/pkg/genesis", 1))
	c.NoteGraph(g)
	notZero := g.Select(EdgeWhere(func(t *Term, pol bool, _ *Node) bool {
		t, pol = normFact(t, pol)
		return !pol && t.Op == "call" && strings.HasSuffix(t.Name, "time.Time).IsZero") && strings.Contains(t.String(), "GenesisDAStartTime")
	}))
	var okExits []*Node
	for _, x := range g.Exits {
		if g.ExitClass(x) != rcA {
			okExits = append(okExits, x)
		}
	}
	if len(notZero) == 0 {
		c.Bad(rule, "Genesis.Validate ⟂ zero start time refused by instant", fnName(fn), p.Pos(fn.Pos()), "the validator does not ask Time.IsZero of the genesis start time: a comparison of the time struct (t == time.Time{}) misses the zero instant written with an offset or held in a named location, and such a genesis is accepted", nil)
		return
	}
	c.Decide(rule, "Genesis.Validate ⟂ zero start time refused by instant", fnName(fn), p.InstrPos(notZero[0].In), "a genesis is accepted only with a start time that is not the zero instant",
		"the validator can accept a genesis without having found its start time different from the zero instant", g,
		g.PathAvoiding([]*Node{g.Entry}, nodeSet(okExits), nodeSet(notZero)))
}

// ruleNoNumberThroughFloat (C18-R16): the genesis and configuration loaders read integers as
// integers. A custom decoder that takes a JSON number through `any` gets a float64: every height
// above 2^53 that the node itself wrote comes back rounded, silently — "a file written by the
// node loads back equal" fails at the top of the range.
func ruleNoNumberThroughFloat(c *Check, p *Prog, rule string) {
	c.Doc(rule, "VP: no function of the genesis and configuration packages converts a float64 to an integer type (a number decoded through `any` / interface{} and narrowed afterwards): integer options and heights are decoded into integer types directly.")
	n, bad := 0, ""
	for _, fn := range p.Funcs {
		pk := fnPkg(fn)
		if pk == nil || fn.Blocks == nil || !(pk.Pkg.Path() == rootPath+"/pkg/genesis" || pk.Pkg.Path() == configPkg) {
			continue
		}
		n++
		for _, b := range fn.Blocks {
			for _, in := range b.Instrs {
				cv, ok := in.(*ssa.Convert)
				if !ok {
					continue
				}
				from, ok1 := cv.X.Type().Underlying().(*types.Basic)
				to, ok2 := cv.Type().Underlying().(*types.Basic)
				if ok1 && ok2 && (from.Kind() == types.Float64 || from.Kind() == types.Float32) && to.Info()&types.IsInteger != 0 {
					bad = fnShort(fn) + " @" + p.InstrPos(in)
				}
			}
		}
	}
	switch {
	case n == 0:
		c.Unk(rule, "loaders ⟂ integers stay integers", "", "", "anchor lost: no functions in the genesis / configuration packages")
	case bad == "":
		c.OK(rule, "loaders ⟂ integers stay integers", "", "", fmt.Sprintf("%d functions, none narrows a float to an integer", n), true)
	default:
		c.Bad(rule, "loaders ⟂ integers stay integers", "", strings.TrimSpace(bad[strings.LastIndex(bad, "@")+1:]), "a float64 is narrowed to an integer in "+bad+": a number read through interface{} is a float64 with a 53-bit mantissa — an initial height (or any 64-bit option) above 2^53 that the node itself wrote loads back as a different number, with no error", nil)
	}
}
