package main

import (
	"go/types"
	"strings"

	"golang.org/x/tools/go/ssa"
)

// Function roles. Like fieldroles.go for fields: the rules name a few unexported functions of
// the repository (the pending-range helpers, the production step bound to the manager's test
// seam, the DA submission helper …). Renaming one is behaviour-preserving. After loading, each
// role is looked up by what the function does; if the pinned identifier no longer exists in its
// scope and exactly one function of that scope plays the role, that function is reported and
// matched under the pinned identifier everywhere (fnName, commonName, Prog.Func).
var identAlias = map[types.Object]string{}

type fnRole struct {
	pkg    string // package path
	recv   string // receiver type name, "" for package-level functions
	pinned string
	pred   func(p *Prog, fn *ssa.Function) bool
}

func fnObj(fn *ssa.Function) types.Object {
	for fn.Parent() != nil {
		fn = fn.Parent()
	}
	if o := fn.Origin(); o != nil {
		fn = o
	}
	if fn.Object() == nil {
		return nil
	}
	if f, ok := fn.Object().(*types.Func); ok {
		return f.Origin()
	}
	return fn.Object()
}

func recvNameOf(obj types.Object) string {
	f, ok := obj.(*types.Func)
	if !ok {
		return ""
	}
	sig := f.Type().(*types.Signature)
	if sig.Recv() == nil {
		return ""
	}
	t := types.Unalias(sig.Recv().Type())
	if p, ok := t.(*types.Pointer); ok {
		t = types.Unalias(p.Elem())
	}
	if n, ok := t.(*types.Named); ok {
		return n.Obj().Name()
	}
	return "?"
}

// canonFnString: fn.String() with the identifier of an aliased function replaced by its pinned one.
func canonFnString(fn *ssa.Function) string {
	s := fn.String()
	if len(identAlias) == 0 {
		return s
	}
	obj := fnObj(fn)
	if obj == nil {
		return s
	}
	alias, ok := identAlias[obj]
	if !ok {
		return s
	}
	return replaceIdent(s, obj.Name(), alias)
}

func replaceIdent(s, old, alias string) string {
	head, tail := s, ""
	if i := strings.Index(s, "$"); i >= 0 {
		head, tail = s[:i], s[i:]
	}
	if strings.HasSuffix(head, "."+old) {
		return head[:len(head)-len(old)] + alias + tail
	}
	if strings.HasSuffix(head, "]") {
		depth := 0
		for i := len(head) - 1; i >= 0; i-- {
			if head[i] == ']' {
				depth++
			}
			if head[i] == '[' {
				depth--
				if depth == 0 {
					if strings.HasSuffix(head[:i], "."+old) {
						return head[:i-len(old)] + alias + head[i:] + tail
					}
					break
				}
			}
		}
	}
	return s
}

func anyInstr(fn *ssa.Function, pred func(in ssa.Instruction) bool) bool {
	for _, b := range fn.Blocks {
		for _, in := range b.Instrs {
			if pred(in) {
				return true
			}
		}
	}
	return false
}

func callsNamed(fn *ssa.Function, pred func(name string) bool) bool {
	return anyInstr(fn, func(in ssa.Instruction) bool {
		c, ok := in.(ssa.CallInstruction)
		return ok && pred(commonName(c.Common()))
	})
}

func touchesField(fn *ssa.Function, label string) bool {
	return anyInstr(fn, func(in ssa.Instruction) bool {
		fa, ok := in.(*ssa.FieldAddr)
		return ok && fieldLabel(fa.X.Type(), fa.Field) == label
	})
}

func mutatesAtomicField(fn *ssa.Function, label string) bool {
	return anyInstr(fn, func(in ssa.Instruction) bool {
		c, ok := in.(*ssa.Call)
		if !ok {
			return false
		}
		cn := commonName(c.Common())
		if !strings.HasPrefix(cn, "(*sync/atomic.") || !atomicMutators[cn[strings.LastIndex(cn, ".")+1:]] || len(c.Common().Args) == 0 {
			return false
		}
		fa, ok := c.Common().Args[0].(*ssa.FieldAddr)
		return ok && fieldLabel(fa.X.Type(), fa.Field) == label
	})
}

func callsFieldFunc(fn *ssa.Function, label string) bool {
	return anyInstr(fn, func(in ssa.Instruction) bool {
		c, ok := in.(*ssa.Call)
		if !ok || c.Common().IsInvoke() || c.Common().StaticCallee() != nil {
			return false
		}
		u, ok := c.Common().Value.(*ssa.UnOp)
		if !ok {
			return false
		}
		fa, ok := u.X.(*ssa.FieldAddr)
		return ok && fieldLabel(fa.X.Type(), fa.Field) == label
	})
}

func nParams(fn *ssa.Function) int { return fn.Signature.Params().Len() }

func hasParamOfType(fn *ssa.Function, t string) bool {
	for i := 0; i < fn.Signature.Params().Len(); i++ {
		if fn.Signature.Params().At(i).Type().String() == t {
			return true
		}
	}
	return false
}

func resultTypes(fn *ssa.Function) string {
	var out []string
	for i := 0; i < fn.Signature.Results().Len(); i++ {
		out = append(out, fn.Signature.Results().At(i).Type().String())
	}
	return strings.Join(out, ",")
}

var fnRoles = []fnRole{
	{rootPath + "/block", "pendingBase", "setLastSubmittedHeight", func(p *Prog, fn *ssa.Function) bool {
		return hasParamOfType(fn, "uint64") && mutatesAtomicField(fn, "lastHeight")
	}},
	{rootPath + "/block", "pendingBase", "init", func(p *Prog, fn *ssa.Function) bool {
		return nParams(fn) == 0 && resultTypes(fn) == "error" && mutatesAtomicField(fn, "lastHeight")
	}},
	{rootPath + "/block", "pendingBase", "getPending", func(p *Prog, fn *ssa.Function) bool {
		return callsFieldFunc(fn, "fetch")
	}},
	{rootPath + "/block", "pendingBase", "numPending", func(p *Prog, fn *ssa.Function) bool {
		return nParams(fn) == 0 && resultTypes(fn) == "uint64" && touchesField(fn, "lastHeight")
	}},
	{rootPath + "/block", "pendingBase", "isEmpty", func(p *Prog, fn *ssa.Function) bool {
		return nParams(fn) == 0 && resultTypes(fn) == "bool" && touchesField(fn, "lastHeight")
	}},
	{rootPath + "/block", "PendingData", "getPendingData", func(p *Prog, fn *ssa.Function) bool {
		return callsNamed(fn, func(n string) bool { return strings.HasSuffix(n, "pendingBase[_]).getPending") })
	}},
	{rootPath + "/block", "PendingHeaders", "getPendingHeaders", func(p *Prog, fn *ssa.Function) bool {
		return callsNamed(fn, func(n string) bool { return strings.HasSuffix(n, "pendingBase[_]).getPending") })
	}},
	{rootPath + "/block", "PendingData", "numPendingData", func(p *Prog, fn *ssa.Function) bool {
		return callsNamed(fn, func(n string) bool { return strings.HasSuffix(n, "pendingBase[_]).numPending") })
	}},
	{rootPath + "/block", "PendingHeaders", "numPendingHeaders", func(p *Prog, fn *ssa.Function) bool {
		return callsNamed(fn, func(n string) bool { return strings.HasSuffix(n, "pendingBase[_]).numPending") })
	}},
	{rootPath + "/block", "PendingData", "setLastSubmittedDataHeight", func(p *Prog, fn *ssa.Function) bool {
		return callsNamed(fn, func(n string) bool { return strings.HasSuffix(n, "pendingBase[_]).setLastSubmittedHeight") })
	}},
	{rootPath + "/block", "PendingHeaders", "setLastSubmittedHeaderHeight", func(p *Prog, fn *ssa.Function) bool {
		return callsNamed(fn, func(n string) bool { return strings.HasSuffix(n, "pendingBase[_]).setLastSubmittedHeight") })
	}},
	{rootPath + "/block", "", "submitToDA", func(p *Prog, fn *ssa.Function) bool {
		return callsNamed(fn, func(n string) bool { return n == typesF("SubmitWithHelpers") })
	}},
	{rootPath + "/block", "Manager", "publishBlockInternal", func(p *Prog, fn *ssa.Function) bool {
		// the method bound to the manager's production seam
		bound := false
		for _, f := range p.Funcs {
			for _, b := range f.Blocks {
				for _, in := range b.Instrs {
					st, ok := in.(*ssa.Store)
					if !ok {
						continue
					}
					fa, ok := st.Addr.(*ssa.FieldAddr)
					if !ok || fieldLabel(fa.X.Type(), fa.Field) != "publishBlock" || !strings.HasSuffix(fa.X.Type().String(), "block.Manager") {
						continue
					}
					v := st.Val
					for {
						if ct, ok := v.(*ssa.ChangeType); ok {
							v = ct.X
							continue
						}
						break
					}
					if mc, ok := v.(*ssa.MakeClosure); ok {
						if w, ok := mc.Fn.(*ssa.Function); ok && w.Object() != nil && fnObj(fn) != nil && w.Object() == fn.Object() {
							bound = true
						}
					}
				}
			}
		}
		return bound
	}},
	{rootPath + "/block", "", "getInitialState", func(p *Prog, fn *ssa.Function) bool {
		return resultTypes(fn) == rootPath+"/types.State,error" && callsNamed(fn, func(n string) bool { return strings.HasSuffix(n, "pkg/store.Store).GetState") })
	}},
	{rootPath + "/block", "Manager", "getDataFromDataStore", func(p *Prog, fn *ssa.Function) bool {
		return hasParamOfType(fn, "uint64") && callsNamed(fn, func(n string) bool {
			return strings.Contains(n, "go-header.Store[") && strings.HasSuffix(n, ".GetByHeight")
		}) && strings.Contains(resultTypes(fn), "types.Data")
	}},
	{rootPath + "/block", "Manager", "getHeadersFromHeaderStore", func(p *Prog, fn *ssa.Function) bool {
		return hasParamOfType(fn, "uint64") && callsNamed(fn, func(n string) bool {
			return strings.Contains(n, "go-header.Store[") && strings.HasSuffix(n, ".GetByHeight")
		}) && strings.Contains(resultTypes(fn), "types.SignedHeader")
	}},
}

// discoverFnRoles fills identAlias for the functions of p.
func discoverFnRoles(p *Prog) {
	type scope struct{ pkg, recv string }
	byScope := map[scope]map[types.Object][]*ssa.Function{}
	names := map[scope]map[string]bool{}
	for _, fn := range p.Funcs {
		if fn.Parent() != nil || fn.Synthetic != "" && fn.Origin() == nil {
			continue
		}
		obj := fnObj(fn)
		pk := fnPkg(fn)
		if obj == nil || pk == nil {
			continue
		}
		sc := scope{pk.Pkg.Path(), recvNameOf(obj)}
		if byScope[sc] == nil {
			byScope[sc] = map[types.Object][]*ssa.Function{}
			names[sc] = map[string]bool{}
		}
		byScope[sc][obj] = append(byScope[sc][obj], fn)
		names[sc][obj.Name()] = true
	}
	// several passes: roles defined through other roles (wrappers) settle after their base
	for pass := 0; pass < 3; pass++ {
		for _, r := range fnRoles {
			sc := scope{r.pkg, r.recv}
			if byScope[sc] == nil || names[sc][r.pinned] {
				continue
			}
			taken := false
			for _, a := range identAlias {
				_ = a
			}
			var hit types.Object
			n := 0
			for obj, fns := range byScope[sc] {
				if _, aliased := identAlias[obj]; aliased {
					if identAlias[obj] == r.pinned {
						taken = true
					}
					continue
				}
				for _, fn := range fns {
					if r.pred(p, fn) {
						hit = obj
						n++
						break
					}
				}
			}
			if !taken && n == 1 {
				identAlias[hit] = r.pinned
			}
		}
	}
}
