package main

import (
	"encoding/json"
	"os"
	"testing"
)

// TestGenReference writes /verif/reference/proto_schema.json from the current tree's generated
// struct tags (run once, on the pinned schema; the file is a frozen behavioural table).
func TestGenReference(t *testing.T) {
	if os.Getenv("VERIF_GENREF") == "" {
		t.Skip("set VERIF_GENREF=1 to regenerate the reference")
	}
	os.Setenv("PATH", goBin+":"+os.Getenv("PATH"))
	w := NewWorld("/repo")
	p := w.Mod(ModRoot)
	var out []schemaField
	for _, f := range pbSchemaFromTags(p) {
		if wireMessages[f.Message] {
			out = append(out, f)
		}
	}
	b, _ := json.MarshalIndent(out, "", " ")
	os.WriteFile("/verif/reference/proto_schema.json", append(b, '\n'), 0o644)
	pb, _ := json.MarshalIndent(submessagePresence(p), "", " ")
	os.WriteFile("/verif/reference/proto_presence.json", append(pb, '\n'), 0o644)
}
