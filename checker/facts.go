package main

import (
	"sort"
	"strings"

	"golang.org/x/tools/go/ssa"
)

// ---------------------------------------------------------------------------------------------
// FS primitive: facts that hold on every path to a target (accepting return, sink).
//
// A fact is an If edge (condition term + polarity) through which every path from the entry to
// the target passes. Nested helper calls are expanded in the ECFG, so a guard inside a helper
// counts at its call sites.

type Fact struct {
	Cond *Term
	Pol  bool
	Node *Node
}

func (f Fact) String() string {
	if f.Pol {
		return f.Cond.String()
	}
	return "¬" + f.Cond.String()
}

// normalise strips negations and comparisons with boolean constants.
func normFact(t *Term, pol bool) (*Term, bool) {
	for {
		if t.Op == "un" && t.Name == "!" {
			t, pol = t.Args[0], !pol
			continue
		}
		if t.Op == "bin" && (t.Name == "==" || t.Name == "!=") {
			for i := 0; i < 2; i++ {
				k := t.Args[i]
				if k.Op == "const" && (k.Name == "true" || k.Name == "false") {
					o := t.Args[1-i]
					same := (k.Name == "true") == (t.Name == "==")
					if !same {
						pol = !pol
					}
					t = o
					goto again
				}
			}
		}
		return t, pol
	again:
	}
}

// NecessaryEdges: all If edges every path entry -> target passes.
func (g *Graph) NecessaryEdges(target NodePred) []Fact {
	return g.NecessaryEdgesFrom([]*Node{g.Entry}, target)
}

// NecessaryEdgesFrom: all If edges every path from one of the sources to a target passes.
func (g *Graph) NecessaryEdgesFrom(sources []*Node, target NodePred) []Fact {
	targets := g.Select(target)
	if len(targets) == 0 {
		return nil
	}
	// candidate edges: those from which a target is reachable and that are reachable from entry
	fwd := g.Reachable(sources, nil)
	for _, s := range sources {
		fwd[s] = true
	}
	// backward reachability from targets
	back := map[*Node]bool{}
	var q []*Node
	for _, t := range targets {
		back[t] = true
		q = append(q, t)
	}
	for len(q) > 0 {
		n := q[0]
		q = q[1:]
		for _, p := range n.Pred {
			if !back[p] {
				back[p] = true
				q = append(q, p)
			}
		}
	}
	var out []Fact
	for _, n := range g.Nodes {
		if (n.Kind != NTrue && n.Kind != NFalse) || !fwd[n] || !back[n] {
			continue
		}
		e := n
		// an edge that is itself a target is necessary iff no other target is reachable without it
		to := target
		if target(e) {
			to = func(x *Node) bool { return x != e && target(x) }
		}
		if g.PathAvoiding(sources, to, func(x *Node) bool { return x == e }) == nil {
			t, pol := CondTerm(n)
			t, pol = normFact(t, pol)
			out = append(out, Fact{Cond: t, Pol: pol, Node: n})
		}
	}
	return out
}

// NecessaryEdgeSets: like NecessaryEdges but also finds pairs {e1,e2} of sibling alternatives
// (a || b): sets of edges of which at least one is on every path. Only pairs are searched, among
// candidate edges selected by cand.
func (g *Graph) NecessaryPair(target NodePred, cand NodePred) [][2]*Node {
	cs := g.Select(cand)
	var out [][2]*Node
	for i := 0; i < len(cs); i++ {
		for j := i + 1; j < len(cs); j++ {
			a, b := cs[i], cs[j]
			if g.PathAvoiding([]*Node{g.Entry}, target, func(x *Node) bool { return x == a || x == b }) == nil {
				out = append(out, [2]*Node{a, b})
			}
		}
	}
	return out
}

// EqClasses: union-find over term strings from equality facts (bytes.Equal(a,b), a == b,
// ¬(a != b), Equals(a,b)).
type EqClasses struct {
	parent map[string]string
	terms  map[string]*Term
}

func NewEqClasses(facts []Fact) *EqClasses {
	e := &EqClasses{parent: map[string]string{}, terms: map[string]*Term{}}
	for _, f := range facts {
		t := f.Cond
		switch {
		case f.Pol && t.Op == "call" && (t.Name == "bytes.Equal" || strings.HasSuffix(t.Name, ".Equal")) && len(t.Args) == 2:
			e.union(t.Args[0], t.Args[1])
		case t.Op == "bin" && ((t.Name == "==" && f.Pol) || (t.Name == "!=" && !f.Pol)):
			e.union(t.Args[0], t.Args[1])
		}
	}
	return e
}

func canonEq(t *Term) string {
	// x[:] and conversions are the same bytes
	for {
		if t.Op == "conv" {
			t = t.Args[0]
			continue
		}
		if t.Op == "slice" && t.Args[1].Name == "_" && t.Args[2].Name == "_" {
			t = t.Args[0]
			continue
		}
		break
	}
	return t.String()
}

func (e *EqClasses) find(s string) string {
	if _, ok := e.parent[s]; !ok {
		e.parent[s] = s
	}
	for e.parent[s] != s {
		e.parent[s] = e.parent[e.parent[s]]
		s = e.parent[s]
	}
	return s
}

func (e *EqClasses) union(a, b *Term) {
	sa, sb := canonEq(a), canonEq(b)
	e.terms[sa], e.terms[sb] = a, b
	ra, rb := e.find(sa), e.find(sb)
	if ra != rb {
		e.parent[ra] = rb
	}
}

func (e *EqClasses) Same(a, b string) bool { return e.find(a) == e.find(b) }

// Class returns the members of the class of s.
func (e *EqClasses) Class(s string) []string {
	r := e.find(s)
	var out []string
	for k := range e.parent {
		if e.find(k) == r {
			out = append(out, k)
		}
	}
	sort.Strings(out)
	return out
}

func factStrings(fs []Fact) []string {
	var out []string
	for _, f := range fs {
		out = append(out, trunc(f.String(), 160))
	}
	sort.Strings(out)
	return out
}

// structLitField: for a struct literal built in a local Alloc, the value stored into the named field.
func structLitField(v ssa.Value, field string) ssa.Value {
	// v may be the load of the alloc
	if u, ok := v.(*ssa.UnOp); ok {
		v = u.X
	}
	al, ok := v.(*ssa.Alloc)
	if !ok {
		return nil
	}
	st := derefStruct(al.Type())
	if st == nil {
		return nil
	}
	for _, r := range *al.Referrers() {
		fa, ok := r.(*ssa.FieldAddr)
		if !ok || fa.Field >= st.NumFields() || fieldLabel(fa.X.Type(), fa.Field) != field {
			continue
		}
		for _, rr := range *fa.Referrers() {
			if s, ok := rr.(*ssa.Store); ok && s.Addr == fa {
				return s.Val
			}
		}
	}
	return nil
}

// verifyFacts finds facts "Verify(key, msg, sig) returned (true, nil)": the true edge on result
// #0 of a crypto.PubKey.Verify invoke. Returns the call terms.
func verifyFacts(fs []Fact) []*Term {
	var out []*Term
	for _, f := range fs {
		t := f.Cond
		if !f.Pol {
			continue
		}
		if t.Op == "extract" && t.Name == "0" && t.Args[0].Op == "invoke" && strings.HasSuffix(t.Args[0].Name, "crypto.PubKey).Verify") {
			out = append(out, t.Args[0])
		}
	}
	return out
}

func isKeyAddressOf(member string, key string) bool {
	return member == "types.KeyAddress("+key+")"
}

// ---------------------------------------------------------------------------------------------
// Accept summaries (DNF): the alternatives under which result k of fn is "accepting"
// (true for a bool, nil for an error), each a conjunction of facts. Nested helper calls that
// appear as "call accepted" facts are expanded recursively with parameter binding.

type FactSet []Fact

func (fs FactSet) Strings() []string { return factStrings(fs) }

func (fs FactSet) has(f Fact) bool {
	k := f.String()
	for _, x := range fs {
		if x.String() == k {
			return true
		}
	}
	return false
}

func intersectFacts(sets []FactSet) FactSet {
	if len(sets) == 0 {
		return nil
	}
	var out FactSet
	for _, f := range sets[0] {
		all := true
		for _, s := range sets[1:] {
			if !s.has(f) {
				all = false
				break
			}
		}
		if all {
			out = append(out, f)
		}
	}
	return out
}

type acceptKey struct {
	fn  *ssa.Function
	ctx *Ctx
	k   int
}

// AcceptDNF computes the alternatives for result k of fn (rendered in ctx, which may bind the
// parameters to a call site). depth bounds the nesting of helper expansion.
func (p *Prog) AcceptDNF(fn *ssa.Function, ctx *Ctx, k int, depth int) []FactSet {
	return p.resultDNF(fn, ctx, k, depth, false)
}

// RejectDNF: the alternatives under which result k is rejecting (non-nil error / false).
func (p *Prog) RejectDNF(fn *ssa.Function, ctx *Ctx, k int, depth int) []FactSet {
	return p.resultDNF(fn, ctx, k, depth, true)
}

func (p *Prog) resultDNF(fn *ssa.Function, ctx *Ctx, k int, depth int, reject bool) []FactSet {
	if fn == nil || fn.Blocks == nil || k < 0 {
		return nil
	}
	if ctx == nil {
		ctx = &Ctx{Fn: fn}
	}
	g := BuildECFG(p, fn, ExpandOpts{MaxDepth: 0, RootCtx: ctx})
	res := fn.Signature.Results()
	if k >= res.Len() {
		return nil
	}
	isErr := !isBoolType(res.At(k).Type())
	heads := g.heads[ctx]
	var alts []FactSet
	addAlt := func(target NodePred, v ssa.Value, at *ssa.BasicBlock) {
		var extra *Fact
		if isErr {
			cls := classifyValueAt(v, at)
			switch {
			case (cls == rcA) != reject && cls != rcU:
				return
			case cls == rcU:
				t := TermOf(v, ctx)
				if t.Op == "call" || t.Op == "invoke" || (t.Op == "extract" && (t.Args[0].Op == "call" || t.Args[0].Op == "invoke")) {
					nilT := mk("const", "nil", nil, ctx)
					extra = &Fact{Cond: mk("bin", "!=", nil, ctx, t, nilT), Pol: reject}
				}
			}
		} else {
			if c, ok := v.(*ssa.Const); ok {
				isTrue := c.Value != nil && c.Value.String() == "true"
				if isTrue == reject {
					return
				}
			} else {
				t, pol := normFact(TermOf(v, ctx), !reject)
				extra = &Fact{Cond: t, Pol: pol}
			}
		}
		fs := FactSet(g.NecessaryEdges(target))
		if extra != nil {
			fs = append(fs, *extra)
		}
		if !reject {
			fs = p.closeFacts(fs, depth)
		}
		key := strings.Join(fs.Strings(), " ; ")
		for _, a := range alts {
			if strings.Join(a.Strings(), " ; ") == key {
				return // duplicate alternative (same facts through another return site)
			}
		}
		alts = append(alts, fs)
	}
	for _, x := range g.Exits {
		ret := x.In.(*ssa.Return)
		if k >= len(ret.Results) {
			continue
		}
		v := spilledResult(ret, k)
		S := ret.Block()
		if phi, ok := v.(*ssa.Phi); ok && phi.Block() == S && heads != nil && heads[S] != nil {
			var perEdge func(phi *ssa.Phi, S *ssa.BasicBlock, depth int)
			perEdge = func(phi *ssa.Phi, S *ssa.BasicBlock, depth int) {
				head := heads[S]
				for i, e := range phi.Edges {
					pb := S.Preds[i]
					var preds []*Node
					for _, pn := range head.Pred {
						if pn.In != nil && pn.In.Block() == pb {
							preds = append(preds, pn)
						}
					}
					if len(preds) == 0 {
						continue
					}
					// a nested boolean phi (a && (b || c)) computed in a block that only jumps here
					if inner, ok := e.(*ssa.Phi); ok && inner.Block() == pb && depth < 4 && heads[pb] != nil && straightToJump(pb) {
						perEdge(inner, pb, depth+1)
						continue
					}
					addAlt(nodeSet(preds), e, pb)
				}
			}
			perEdge(phi, S, 0)
			continue
		}
		xx := x
		addAlt(func(n *Node) bool { return n == xx }, v, S)
	}
	return alts
}

// closeFacts expands "helper accepted" facts by the helper's own accept summary.
func (p *Prog) closeFacts(fs FactSet, depth int) FactSet {
	if depth <= 0 {
		return fs
	}
	out := append(FactSet{}, fs...)
	for _, f := range fs {
		call, k, ok := acceptedCall(f)
		if !ok {
			continue
		}
		cv, isCall := call.V.(*ssa.Call)
		if !isCall {
			continue
		}
		callee := cv.Common().StaticCallee()
		if callee == nil || !p.Expandable(callee) {
			continue
		}
		if k < 0 {
			k = corrResult(callee)
		}
		parent := call.Ctx
		if parent != nil && parent.has(callee) {
			continue // recursion
		}
		d := 0
		if parent != nil {
			d = parent.Depth + 1
		}
		cctx := &Ctx{Parent: parent, Site: cv, Fn: callee, Depth: d}
		nested := p.AcceptDNF(callee, cctx, k, depth-1)
		if len(nested) == 0 {
			continue
		}
		for _, nf := range intersectFacts(nested) {
			if !out.has(nf) {
				out = append(out, nf)
			}
		}
	}
	return out
}

// acceptedCall: the fact says that a call returned true / nil. Returns the call term and the
// result index (-1: the callee's correlated result).
func acceptedCall(f Fact) (*Term, int, bool) {
	t := f.Cond
	if f.Pol && t.Op == "call" {
		return t, -1, true
	}
	if f.Pol && t.Op == "extract" && t.Args[0].Op == "call" {
		var k int
		fmtSscan(t.Name, &k)
		return t.Args[0], k, true
	}
	if t.Op == "bin" && ((t.Name == "!=" && !f.Pol) || (t.Name == "==" && f.Pol)) {
		for i := 0; i < 2; i++ {
			if t.Args[i].Op == "const" && t.Args[i].Name == "nil" {
				o := t.Args[1-i]
				if o.Op == "call" {
					return o, -1, true
				}
				if o.Op == "extract" && o.Args[0].Op == "call" {
					var k int
					fmtSscan(o.Name, &k)
					return o.Args[0], k, true
				}
			}
		}
	}
	return nil, 0, false
}

func fmtSscan(s string, k *int) {
	n := 0
	for _, c := range s {
		if c < '0' || c > '9' {
			break
		}
		n = n*10 + int(c-'0')
	}
	*k = n
}

// FactsAt: facts on every path from the graph's entry to target, closed under helper expansion.
func (g *Graph) FactsAt(target NodePred, depth int) FactSet {
	return g.P.closeFacts(FactSet(g.NecessaryEdges(target)), depth)
}

// straightToJump: the block consists of phis / debug refs and an unconditional jump.
func straightToJump(b *ssa.BasicBlock) bool {
	for _, in := range b.Instrs {
		switch in.(type) {
		case *ssa.Phi, *ssa.DebugRef, *ssa.Jump:
		default:
			return false
		}
	}
	return true
}

// closeRejected expands "predicate helper returned false" facts by what all the helper's
// rejecting alternatives share (a guard moved into a predicate, a switch over reserved values).
func (p *Prog) closeRejected(fs FactSet, depth int) FactSet {
	out := append(FactSet{}, fs...)
	if depth <= 0 {
		return out
	}
	for _, f := range fs {
		t, pol := normFact(f.Cond, f.Pol)
		if pol || t.Op != "call" {
			continue
		}
		cv, ok := t.V.(*ssa.Call)
		if !ok {
			continue
		}
		callee := cv.Common().StaticCallee()
		if callee == nil || !p.InRepo(callee) || callee.Blocks == nil {
			continue
		}
		if t.Ctx != nil && t.Ctx.has(callee) {
			continue
		}
		d := 0
		if t.Ctx != nil {
			d = t.Ctx.Depth + 1
		}
		alts := p.RejectDNF(callee, &Ctx{Parent: t.Ctx, Site: cv, Fn: callee, Depth: d}, 0, 1)
		if len(alts) == 0 {
			continue
		}
		for _, nf := range p.closeRejected(intersectFacts(alts), depth-1) {
			if !out.has(nf) {
				out = append(out, nf)
			}
		}
	}
	return out
}

// BoolPhiDNF: the alternatives under which a boolean phi (a short-circuit `a || b`, `a && b`,
// possibly nested) has the value want, each as the facts necessary to arrive over one incoming
// edge plus the fact on the incoming value. nil if the phi is not of that shape.
func (g *Graph) BoolPhiDNF(phi *ssa.Phi, ctx *Ctx, want bool) []FactSet {
	heads := g.heads[ctx]
	if heads == nil {
		return nil
	}
	var alts []FactSet
	var perEdge func(phi *ssa.Phi, depth int) bool
	perEdge = func(phi *ssa.Phi, depth int) bool {
		S := phi.Block()
		head := heads[S]
		if head == nil {
			return false
		}
		for i, e := range phi.Edges {
			pb := S.Preds[i]
			var preds []*Node
			for _, pn := range head.Pred {
				if pn.In != nil && pn.In.Block() == pb {
					preds = append(preds, pn)
				}
			}
			if len(preds) == 0 {
				continue
			}
			if inner, ok := e.(*ssa.Phi); ok && inner.Block() == pb && depth < 4 && straightToJump(pb) {
				if !perEdge(inner, depth+1) {
					return false
				}
				continue
			}
			fs := FactSet(g.NecessaryEdges(nodeSet(preds)))
			if k, ok := e.(*ssa.Const); ok {
				isTrue := k.Value != nil && k.Value.String() == "true"
				if isTrue != want {
					continue
				}
			} else {
				t, pol := normFact(TermOf(e, ctx), want)
				fs = append(fs, Fact{Cond: t, Pol: pol})
			}
			alts = append(alts, fs)
		}
		return true
	}
	if !perEdge(phi, 0) {
		return nil
	}
	return alts
}

// GuardEdges: the If edges that establish match — directly, or because the condition is the
// outcome of a predicate helper of the repository every alternative of which (for that outcome)
// contains a matching fact ("if q.full() { return }": the false edge establishes, per alternative
// of full() == false, "limit off" or "below the limit"), or the outcome of a short-circuit
// boolean (a || b, a && b held in a variable) every alternative of which does.
func (g *Graph) GuardEdges(match func(t *Term, pol bool) bool) []*Node {
	// a loop-carried boolean ("done := false; for … { if cond { done = true } }; if done") reaches
	// itself again through the loop: by induction on the path such an alternative adds nothing
	// (the value was already established earlier), so a phi met again while it is being examined
	// counts as established; the constant alternatives are the base cases
	visiting := map[*ssa.Phi]bool{}
	var entails func(t *Term, pol bool, ctx *Ctx, depth int) bool
	entails = func(t *Term, pol bool, ctx *Ctx, depth int) bool {
		if match(t, pol) {
			return true
		}
		if depth <= 0 {
			return false
		}
		nt, npol := normFact(t, pol)
		if nt == nil {
			return false
		}
		allAlts := func(alts []FactSet) bool {
			if len(alts) == 0 {
				return false
			}
			for _, alt := range alts {
				found := false
				for _, f := range alt {
					if entails(f.Cond, f.Pol, f.Cond.Ctx, depth-1) {
						found = true
						break
					}
				}
				if !found {
					return false
				}
			}
			return true
		}
		if phi, ok := nt.V.(*ssa.Phi); ok && nt.Op == "phi" {
			if visiting[phi] {
				return true
			}
			visiting[phi] = true
			defer delete(visiting, phi)
			return allAlts(g.BoolPhiDNF(phi, nt.Ctx, npol))
		}
		if nt.Op != "call" {
			return false
		}
		cv, ok := nt.V.(*ssa.Call)
		if !ok {
			return false
		}
		callee := cv.Common().StaticCallee()
		if callee == nil || !g.P.InRepo(callee) || (nt.Ctx != nil && nt.Ctx.has(callee)) {
			return false
		}
		d := 0
		if nt.Ctx != nil {
			d = nt.Ctx.Depth + 1
		}
		cctx := &Ctx{Parent: nt.Ctx, Site: cv, Fn: callee, Depth: d}
		if npol {
			return allAlts(g.P.AcceptDNF(callee, cctx, 0, 2))
		}
		return allAlts(g.P.RejectDNF(callee, cctx, 0, 2))
	}
	return g.Select(EdgeWhere(func(t *Term, pol bool, n *Node) bool {
		return entails(t, pol, n.Ctx, 5)
	}))
}
