package main

import (
	"fmt"
	"go/token"
	"go/types"
	"os"
	"path/filepath"
	"sort"
	"strings"

	"golang.org/x/tools/go/packages"
	"golang.org/x/tools/go/ssa"
	"golang.org/x/tools/go/ssa/ssautil"
)

// Module names used by the rules. Each is loaded as its own program (its own type universe).
const (
	ModRoot    = "root"
	ModCore    = "core"
	ModDA      = "da"
	ModSingle  = "single"
	ModBased   = "based"
	ModTestapp = "testapp"
)

const rootPath = "github.com/evstack/ev-node"

// goBin: the only toolchain in this sandbox that can load the repository offline (see DESIGN 2.1).
const goBin = "/opt/veriftools/go1.26.8/bin"

type modSpec struct {
	dir      string   // relative to repo
	patterns []string // go list patterns
	minPkgs  int      // loader fails when fewer packages are found (confirmed by hand on the pinned tree)
}

var modSpecs = map[string]modSpec{
	// core is in the root module's build list through a replace directive, so its packages are
	// loaded from source in the same program: census rules see both sides of the interfaces.
	ModRoot:    {".", []string{"./...", rootPath + "/core/..."}, 28},
	ModCore:    {"core", []string{"./..."}, 4},
	ModDA:      {"da", []string{"./...", rootPath + "/core/..."}, 6},
	ModSingle:  {"sequencers/single", []string{"./...", rootPath + "/core/..."}, 3},
	ModBased:   {"sequencers/based", []string{"./...", rootPath + "/core/..."}, 3},
	ModTestapp: {"apps/testapp", []string{"./...", rootPath + "/core/..."}, 5},
}

// Prog is one loaded module: packages, SSA and indexes.
type Prog struct {
	Name  string
	Dir   string
	Pkgs  []*packages.Package
	SSA   *ssa.Program
	Fset  *token.FileSet
	Funcs []*ssa.Function // every function with a body in the loaded (source) packages, incl. anonymous
	byPkg map[string]*packages.Package
	spkg  map[string]*ssa.Package
	repo  string

	fieldBind  map[string][]*ssa.Function // lazily built marker
	fieldBindT map[string][]funcTarget    // struct field of func type -> function values stored into it
}

type World struct {
	Repo  string
	progs map[string]*Prog
}

func NewWorld(repo string) *World { return &World{Repo: repo, progs: map[string]*Prog{}} }

func (w *World) Mod(name string) *Prog {
	if p, ok := w.progs[name]; ok {
		return p
	}
	p, err := loadModule(w.Repo, name)
	if err != nil {
		fatalBroken("load %s: %v", name, err)
	}
	w.progs[name] = p
	return p
}

// fatalBroken: the check itself is broken (loader error, type error, panic): exit 2, no VIOLATION line.
func fatalBroken(format string, args ...any) {
	fmt.Fprintf(os.Stderr, "CHECK-BROKEN: "+format+"\n", args...)
	os.Exit(2)
}

func loadModule(repo, name string) (*Prog, error) {
	spec, ok := modSpecs[name]
	if !ok {
		return nil, fmt.Errorf("unknown module %q", name)
	}
	dir := filepath.Join(repo, spec.dir)
	cfg := &packages.Config{
		Mode:  packages.LoadSyntax,
		Dir:   dir,
		Tests: false,
		Env:   append(os.Environ(), "GOWORK=off", "GOFLAGS=-mod=mod", "GOPROXY=off", "GOSUMDB=off", "GOTOOLCHAIN=local", "PATH="+goBin+":"+os.Getenv("PATH")),
	}
	pkgs, err := packages.Load(cfg, spec.patterns...)
	if err != nil {
		return nil, err
	}
	if len(pkgs) < spec.minPkgs {
		return nil, fmt.Errorf("only %d packages loaded (expected >= %d)", len(pkgs), spec.minPkgs)
	}
	var errs []string
	packages.Visit(pkgs, nil, func(p *packages.Package) {
		for _, e := range p.Errors {
			errs = append(errs, e.Error())
		}
	})
	if len(errs) > 0 {
		return nil, fmt.Errorf("%d package errors, first: %s", len(errs), errs[0])
	}
	sort.Slice(pkgs, func(i, j int) bool { return pkgs[i].PkgPath < pkgs[j].PkgPath })
	prog, spkgs := ssautil.Packages(pkgs, ssa.InstantiateGenerics|ssa.GlobalDebug)
	prog.Build()
	p := &Prog{Name: name, Dir: dir, Pkgs: pkgs, SSA: prog, byPkg: map[string]*packages.Package{}, spkg: map[string]*ssa.Package{}, repo: repo}
	if len(pkgs) > 0 {
		p.Fset = pkgs[0].Fset
	}
	for i, pk := range pkgs {
		p.byPkg[pk.PkgPath] = pk
		if spkgs[i] == nil {
			return nil, fmt.Errorf("no SSA for %s", pk.PkgPath)
		}
		p.spkg[pk.PkgPath] = spkgs[i]
	}
	// all functions (incl. methods, closures, generic instantiations) of source packages
	all := ssautil.AllFunctions(prog)
	for fn := range all {
		if fn.Blocks == nil {
			continue
		}
		if pk := fnPkg(fn); pk != nil && p.spkg[pk.Pkg.Path()] != nil {
			p.Funcs = append(p.Funcs, fn)
		}
	}
	sort.Slice(p.Funcs, func(i, j int) bool {
		a, b := p.Funcs[i], p.Funcs[j]
		if a.String() != b.String() {
			return a.String() < b.String()
		}
		return a.Pos() < b.Pos()
	})
	discoverFnRoles(p)
	return p, nil
}

// fnPkg returns the SSA package of fn, following closures and instantiations to their origin.
func fnPkg(fn *ssa.Function) *ssa.Package {
	for fn != nil {
		if fn.Pkg != nil {
			return fn.Pkg
		}
		if fn.Parent() != nil {
			fn = fn.Parent()
			continue
		}
		if o := fn.Origin(); o != nil && o != fn {
			fn = o
			continue
		}
		return nil
	}
	return nil
}

// InRepo reports whether fn has a body in a loaded source package.
func (p *Prog) InRepo(fn *ssa.Function) bool {
	if fn == nil || fn.Blocks == nil {
		return false
	}
	pk := fnPkg(fn)
	return pk != nil && p.spkg[pk.Pkg.Path()] != nil
}

func (p *Prog) Package(path string) *ssa.Package { return p.spkg[path] }

func (p *Prog) TypesPkg(path string) *types.Package {
	if pk := p.byPkg[path]; pk != nil {
		return pk.Types
	}
	return nil
}

// Func finds a package-level function "pkgpath.Name" or method "(*pkgpath.T).M" / "(pkgpath.T).M".
func (p *Prog) Func(full string) *ssa.Function {
	for _, fn := range p.Funcs {
		if fn.Parent() == nil && fnName(fn) == full {
			return fn
		}
	}
	return nil
}

// MustFunc fails the check (anchor lost) if the function is not found.
func (p *Prog) MustFunc(full string) *ssa.Function {
	fn := p.Func(full)
	if fn == nil {
		fatalBroken("anchor lost: function %s not found in module %s", full, p.Name)
	}
	return fn
}

// fnName is the canonical name used everywhere: types.Func.FullName for declared functions,
// parent$k for closures; instantiations are named after their origin with type arguments.
func fnName(fn *ssa.Function) string {
	if fn == nil {
		return "<nil>"
	}
	return canonFnString(fn)
}

// shortName strips the module path prefix for readable reports.
func shortName(s string) string {
	return strings.ReplaceAll(s, rootPath+"/", "")
}

func (p *Prog) Pos(pos token.Pos) string {
	if !pos.IsValid() {
		return "-"
	}
	ps := p.Fset.Position(pos)
	rel, err := filepath.Rel(p.repo, ps.Filename)
	if err != nil {
		rel = ps.Filename
	}
	return fmt.Sprintf("%s:%d", rel, ps.Line)
}

// instrPos gives the best position for an instruction (falls back to enclosing function).
func (p *Prog) InstrPos(in ssa.Instruction) string {
	if in == nil {
		return "-"
	}
	if in.Pos().IsValid() {
		return p.Pos(in.Pos())
	}
	if v, ok := in.(ssa.Value); ok {
		for _, r := range *v.Referrers() {
			if r.Pos().IsValid() {
				return p.Pos(r.Pos())
			}
		}
	}
	// search neighbours in the block
	b := in.Block()
	if b != nil {
		for _, x := range b.Instrs {
			if x.Pos().IsValid() {
				return p.Pos(x.Pos()) + "~"
			}
		}
		return p.Pos(b.Parent().Pos()) + "~"
	}
	return "-"
}

// MethodsOf returns the declared (not promoted, not synthetic) methods with bodies whose receiver type is recv.
func (p *Prog) MethodsOf(recv types.Type) []*ssa.Function {
	var out []*ssa.Function
	for _, fn := range p.Funcs {
		if fn.Parent() != nil || fn.Signature.Recv() == nil || fn.Blocks == nil || fn.Synthetic != "" {
			continue
		}
		if types.Identical(fn.Signature.Recv().Type(), recv) {
			out = append(out, fn)
		}
	}
	sort.Slice(out, func(i, j int) bool { return fnName(out[i]) < fnName(out[j]) })
	return out
}
