package main

import (
	"fmt"
	"sort"
	"strings"

	"golang.org/x/tools/go/ssa"
)

// Resolved names of the effect leaves (interfaces of the trusted base / other layers).
func storeM(m string) string  { return "(" + rootPath + "/pkg/store.Store)." + m }
func execM(m string) string   { return "(" + rootPath + "/core/execution.Executor)." + m }
func seqM(m string) string    { return "(" + rootPath + "/core/sequencer.Sequencer)." + m }
func daM(m string) string     { return "(" + rootPath + "/core/da.DA)." + m }
func signerM(m string) string { return "(" + rootPath + "/pkg/signer.Signer)." + m }
func mgrM(m string) string    { return "(*" + rootPath + "/block.Manager)." + m }
func blockF(f string) string  { return rootPath + "/block." + f }
func typesF(f string) string  { return rootPath + "/types." + f }
func typesM(t, m string) string {
	return "(*" + rootPath + "/types." + t + ")." + m
}

// stepFuncs: the functions reachable from an exported loop (through resolved calls, bound
// function fields and closures) that directly contain a call to one of the effects. This is how
// internal functions are anchored: by what they do, not by their names.
func stepFuncs(c *Check, p *Prog, loop string, depth int, effects ...string) []*ssa.Function {
	root := p.MustFunc(loop)
	g := BuildECFG(p, root, ExpandOpts{MaxDepth: depth})
	c.NoteGraph(g)
	is := IsCall(effects...)
	seen := map[*ssa.Function]bool{}
	var out []*ssa.Function
	for _, n := range g.Select(is) {
		fn := n.Ctx.Fn
		if !seen[fn] {
			seen[fn] = true
			out = append(out, fn)
		}
	}
	sort.Slice(out, func(i, j int) bool { return out[i].String() < out[j].String() })
	return out
}

// FreshPrecede: every y is preceded by an x that happened after the previous y (or after entry).
// In a function without loops this is MustPrecede; in a loop it is the per-iteration order.
// Returns a counterexample path or nil.
func (g *Graph) FreshPrecede(x, y NodePred) []*Node {
	src := []*Node{g.Entry}
	for _, n := range g.Select(y) {
		src = append(src, n)
	}
	return g.PathAvoiding(src, y, x)
}

func orPred(ps ...NodePred) NodePred {
	return func(n *Node) bool {
		for _, p := range ps {
			if p(n) {
				return true
			}
		}
		return false
	}
}

func nodeSet(ns []*Node) NodePred {
	m := map[*Node]bool{}
	for _, n := range ns {
		m[n] = true
	}
	return func(n *Node) bool { return m[n] }
}

// posOf gives the position of the first node matching pred (for reports).
func posOf(g *Graph, pred NodePred) string {
	ns := g.Select(pred)
	if len(ns) == 0 {
		return "-"
	}
	var ps []string
	seen := map[string]bool{}
	for _, n := range ns {
		p := g.P.InstrPos(n.In)
		if !seen[p] {
			seen[p] = true
			ps = append(ps, p)
		}
	}
	sort.Strings(ps)
	if len(ps) > 4 {
		ps = append(ps[:4], "…")
	}
	return strings.Join(ps, ",")
}

func fnShort(fn *ssa.Function) string { return shortName(fnName(fn)) }

// undecidedGraph reports structural reasons why a graph cannot be trusted for a Must-query.
func undecidedGraph(c *Check, rule string, g *Graph, relevant NodePred) {
	for _, u := range g.Undecided {
		c.Unk(rule, "graph:"+fnShort(g.Root), fnName(g.Root), "", u)
	}
	_ = relevant
}

func fmtN(format string, a ...any) string { return fmt.Sprintf(format, a...) }

// callArgContains: the call node has an argument whose term contains substring s.
func callArgContains(n *Node, s string) bool {
	cc := CallCommonOf(n)
	if cc == nil {
		return false
	}
	for i := range cc.Args {
		if strings.Contains(ArgTerm(n, i).String(), s) {
			return true
		}
	}
	return false
}

// PrecedeSince: every y is preceded by an x that happened after the last reset node (or after
// entry). reset marks the start of a step inside a loop (e.g. the call that picks the item of
// this iteration). Returns a counterexample path or nil.
func (g *Graph) PrecedeSince(reset, x, y NodePred) []*Node {
	src := []*Node{g.Entry}
	src = append(src, g.Select(reset)...)
	return g.PathAvoiding(src, y, x)
}
