package main

import (
	"fmt"
	"go/constant"
	"go/token"
	"go/types"
	"sort"
	"strings"

	"golang.org/x/tools/go/ssa"
)

// Resolved names of the effect leaves (interfaces of the trusted base / other layers).
func storeM(m string) string  { return "(" + rootPath + "/pkg/store.Store)." + m }
func execM(m string) string   { return "(" + rootPath + "/core/execution.Executor)." + m }
func seqM(m string) string    { return "(" + rootPath + "/core/sequencer.Sequencer)." + m }
func daM(m string) string     { return "(" + rootPath + "/core/da.DA)." + m }
func signerM(m string) string { return "(" + rootPath + "/pkg/signer.Signer)." + m }
func mgrM(m string) string    { return "(*" + rootPath + "/block.Manager)." + m }
func blockF(f string) string  { return rootPath + "/block." + f }
func typesF(f string) string  { return rootPath + "/types." + f }
func typesM(t, m string) string {
	return "(*" + rootPath + "/types." + t + ")." + m
}

// stepFuncs: the functions reachable from an exported loop (through resolved calls, bound
// function fields and closures) that directly contain a call to one of the effects. This is how
// internal functions are anchored: by what they do, not by their names.
func stepFuncs(c *Check, p *Prog, loop string, depth int, effects ...string) []*ssa.Function {
	root := p.MustFunc(loop)
	g := BuildECFG(p, root, ExpandOpts{MaxDepth: depth})
	c.NoteGraph(g)
	is := IsCall(effects...)
	seen := map[*ssa.Function]bool{}
	var out []*ssa.Function
	for _, n := range g.Select(is) {
		fn := n.Ctx.Fn
		if !seen[fn] {
			seen[fn] = true
			out = append(out, fn)
		}
	}
	sort.Slice(out, func(i, j int) bool { return out[i].String() < out[j].String() })
	return out
}

// stepFuncsAnchored: like stepFuncs, but the step is the nearest enclosing function (going up the
// call chain from the effect towards the loop) that itself contains a call of anchor — the
// function that picks what the step works on. The durable writes may sit in helpers below it.
func stepFuncsAnchored(c *Check, p *Prog, loop string, depth int, anchor NodePred, effects ...string) []*ssa.Function {
	root := p.MustFunc(loop)
	g := BuildECFG(p, root, ExpandOpts{MaxDepth: depth})
	c.NoteGraph(g)
	hasAnchor := map[*Ctx]bool{}
	for _, n := range g.Select(anchor) {
		hasAnchor[n.Ctx] = true
	}
	seen := map[*ssa.Function]bool{}
	var out []*ssa.Function
	for _, n := range g.Select(IsCall(effects...)) {
		fn := n.Ctx.Fn
		for cx := n.Ctx; cx != nil && cx.Parent != nil; cx = cx.Parent {
			if hasAnchor[cx] {
				fn = cx.Fn
				break
			}
		}
		if !seen[fn] {
			seen[fn] = true
			out = append(out, fn)
		}
	}
	sort.Slice(out, func(i, j int) bool { return out[i].String() < out[j].String() })
	return out
}

// FreshPrecede: every y is preceded by an x that happened after the previous y (or after entry).
// In a function without loops this is MustPrecede; in a loop it is the per-iteration order.
// Returns a counterexample path or nil.
func (g *Graph) FreshPrecede(x, y NodePred) []*Node {
	src := []*Node{g.Entry}
	for _, n := range g.Select(y) {
		src = append(src, n)
	}
	return g.PathAvoiding(src, y, x)
}

func orPred(ps ...NodePred) NodePred {
	return func(n *Node) bool {
		for _, p := range ps {
			if p(n) {
				return true
			}
		}
		return false
	}
}

func nodeSet(ns []*Node) NodePred {
	m := map[*Node]bool{}
	for _, n := range ns {
		m[n] = true
	}
	return func(n *Node) bool { return m[n] }
}

// posOf gives the position of the first node matching pred (for reports).
func posOf(g *Graph, pred NodePred) string {
	ns := g.Select(pred)
	if len(ns) == 0 {
		return "-"
	}
	var ps []string
	seen := map[string]bool{}
	for _, n := range ns {
		p := g.P.InstrPos(n.In)
		if !seen[p] {
			seen[p] = true
			ps = append(ps, p)
		}
	}
	sort.Strings(ps)
	if len(ps) > 4 {
		ps = append(ps[:4], "…")
	}
	return strings.Join(ps, ",")
}

func fnShort(fn *ssa.Function) string { return shortName(fnName(fn)) }

// undecidedGraph reports structural reasons why a graph cannot be trusted for a Must-query.
func undecidedGraph(c *Check, rule string, g *Graph, relevant NodePred) {
	for _, u := range g.Undecided {
		c.Unk(rule, "graph:"+fnShort(g.Root), fnName(g.Root), "", u)
	}
	_ = relevant
}

func fmtN(format string, a ...any) string { return fmt.Sprintf(format, a...) }

// callArgContains: the call node has an argument whose term contains substring s.
func callArgContains(n *Node, s string) bool {
	cc := CallCommonOf(n)
	if cc == nil {
		return false
	}
	for i := range cc.Args {
		if strings.Contains(ArgTerm(n, i).String(), s) {
			return true
		}
	}
	return false
}

// PrecedeSince: every y is preceded by an x that happened after the last reset node (or after
// entry). reset marks the start of a step inside a loop (e.g. the call that picks the item of
// this iteration). Returns a counterexample path or nil.
func (g *Graph) PrecedeSince(reset, x, y NodePred) []*Node {
	src := []*Node{g.Entry}
	src = append(src, g.Select(reset)...)
	return g.PathAvoiding(src, y, x)
}

// ---------------------------------------------------------------------------------------------
// ER primitive: enum-conditioned reachability.

// enumConsts lists the constants of a named integer type in a package: name -> value.
func enumConsts(p *Prog, pkgPath, typeName string) map[string]int64 {
	out := map[string]int64{}
	tp := p.TypesPkg(pkgPath)
	if tp == nil {
		return out
	}
	for _, name := range tp.Scope().Names() {
		c, ok := tp.Scope().Lookup(name).(*types.Const)
		if !ok {
			continue
		}
		nt, ok := c.Type().(*types.Named)
		if !ok || nt.Obj().Name() != typeName {
			continue
		}
		if v, ok := constant.Int64Val(c.Val()); ok {
			out[name] = v
		}
	}
	return out
}

// EnumReach: for each constant c of the enum, is a target reachable from `from` when the edges
// contradicted by V == c are pruned (V = any term satisfying isV)? Conditions on other values
// stay unknown. Returns the set of constant names for which a target is reachable.
func (g *Graph) EnumReach(from []*Node, target NodePred, isV func(*Term) bool, consts map[string]int64, alsoAvoid NodePred) map[string][]*Node {
	out := map[string][]*Node{}
	// precompute the comparison edges
	type cmp struct {
		n   *Node
		k   int64
		eq  bool // cond is V == k (true) or V != k (false)
		pol bool
	}
	var cmps []cmp
	for _, n := range g.Nodes {
		if n.Kind != NTrue && n.Kind != NFalse {
			continue
		}
		t, pol := CondTerm(n)
		t, pol = normFact(t, pol)
		if t.Op != "bin" || (t.Name != "==" && t.Name != "!=") {
			continue
		}
		var v, k *Term
		if isV(t.Args[0].unconv()) {
			v, k = t.Args[0], t.Args[1]
		} else if isV(t.Args[1].unconv()) {
			v, k = t.Args[1], t.Args[0]
		}
		if v == nil || k.unconv().Op != "const" {
			continue
		}
		var kv int64
		if _, err := fmt.Sscanf(k.unconv().Name, "%d", &kv); err != nil {
			continue
		}
		cmps = append(cmps, cmp{n, kv, t.Name == "==", pol})
	}
	for name, c := range consts {
		dead := map[*Node]bool{}
		for _, x := range cmps {
			truth := (c == x.k) == x.eq
			if truth != x.pol {
				dead[x.n] = true
			}
		}
		avoid := func(n *Node) bool { return dead[n] || (alsoAvoid != nil && alsoAvoid(n)) }
		liveTarget := func(n *Node) bool { return !dead[n] && target(n) }
		if path := g.PathAvoiding(from, liveTarget, avoid); path != nil {
			out[name] = path
		}
	}
	return out
}

// loopHeaderOf: the innermost natural-loop header block containing b (nil if none).
func loopHeaderOf(b *ssa.BasicBlock) *ssa.BasicBlock {
	for h := b; h != nil; h = h.Idom() {
		for _, p := range h.Preds {
			if h.Dominates(p) && blockReaches(b, p, h) {
				return h
			}
		}
	}
	return nil
}

// blockReaches: from reaches to through blocks dominated by header.
func blockReaches(from, to, header *ssa.BasicBlock) bool {
	seen := map[*ssa.BasicBlock]bool{from: true}
	q := []*ssa.BasicBlock{from}
	for len(q) > 0 {
		x := q[0]
		q = q[1:]
		if x == to {
			return true
		}
		for _, s := range x.Succs {
			if !seen[s] && header.Dominates(s) && s != header {
				seen[s] = true
				q = append(q, s)
			}
		}
	}
	return false
}

// headNodes: the ECFG head nodes of a block in the root context.
func (g *Graph) headNode(ctx *Ctx, b *ssa.BasicBlock) *Node {
	if m := g.heads[ctx]; m != nil {
		return m[b]
	}
	return nil
}

// atomicWriters: call nodes of sync/atomic mutators whose receiver is the named field.
var atomicMutators = map[string]bool{"Store": true, "CompareAndSwap": true, "Swap": true, "Add": true, "And": true, "Or": true}

func isAtomicMutatorOn(n *Node, field string) (method string, ok bool) {
	cn := CallName(n)
	if !strings.HasPrefix(cn, "(*sync/atomic.") {
		return "", false
	}
	m := cn[strings.LastIndex(cn, ".")+1:]
	if !atomicMutators[m] {
		return "", false
	}
	r := RecvTerm(n)
	if r == nil || r.Op != "field" || r.Name != field {
		return "", false
	}
	return m, true
}

// ctxDoneCase: true edges of select cases receiving from a context's Done() channel.
func ctxDoneEdges(g *Graph) []*Node {
	return selectCaseEdges(g, func(t *Term) bool {
		return t.Op == "invoke" && t.Name == "(context.Context).Done"
	})
}

// flattenPhi returns the non-cyclic leaves of nested phi terms.
func flattenPhi(t *Term) []*Term {
	if t.Op != "phi" {
		return []*Term{t}
	}
	var out []*Term
	for _, a := range t.Args {
		out = append(out, flattenPhi(a)...)
	}
	return out
}

// constString returns the value of a package-level string constant.
func constString(p *Prog, pkgPath, name string) (string, bool) {
	tp := p.TypesPkg(pkgPath)
	if tp == nil {
		return "", false
	}
	c, ok := tp.Scope().Lookup(name).(*types.Const)
	if !ok || c.Val().Kind() != constant.String {
		return "", false
	}
	return constant.StringVal(c.Val()), true
}

// termIsConstString: the term is the string constant with the given value.
func termIsConstString(t *Term, val string) bool {
	t = t.unconv()
	return t.Op == "const" && t.Name == fmt.Sprintf("%q", val)
}

// allocInit: for a term rooted at a local allocation initialised by one whole store, the term of
// the stored value (nil otherwise).
func allocInit(root *Term) *Term {
	if root == nil || root.Op != "alloc" {
		return nil
	}
	al, ok := root.V.(*ssa.Alloc)
	if !ok {
		return nil
	}
	var whole []ssa.Value
	for _, r := range *al.Referrers() {
		if st, ok := r.(*ssa.Store); ok && st.Addr == al {
			whole = append(whole, st.Val)
		}
	}
	if len(whole) != 1 {
		return nil
	}
	return TermOf(whole[0], root.Ctx)
}

// rootOf strips field/index selectors.
func rootOf(t *Term) *Term {
	for t != nil && (t.Op == "field" || t.Op == "index") && len(t.Args) > 0 {
		t = t.Args[0]
	}
	return t
}

// GenericReps: one representative body per generic function name (instantiations share their
// shape): the functions of the package whose genericName equals name, deduplicated.
func (p *Prog) GenericReps(name string) []*ssa.Function {
	var out []*ssa.Function
	for _, fn := range p.Funcs {
		if fn.Parent() == nil && genericName(fnName(fn)) == name {
			out = append(out, fn)
			break
		}
	}
	return out
}

// funcsCalling: functions of a package (top-level, one representative per generic) that directly
// call a callee whose resolved name satisfies pred. Anchors internal functions by what they do.
func funcsCalling(p *Prog, pkgPath string, pred func(name string) bool) []*ssa.Function {
	var out []*ssa.Function
	seen := map[string]bool{}
	for _, fn := range p.Funcs {
		pk := fnPkg(fn)
		if pk == nil || pk.Pkg.Path() != pkgPath || fn.Parent() != nil {
			continue
		}
		gn := genericName(fnName(fn))
		if seen[gn] {
			continue
		}
		hit := false
		for _, b := range fn.Blocks {
			for _, in := range b.Instrs {
				var cc *ssa.CallCommon
				switch x := in.(type) {
				case *ssa.Call:
					cc = x.Common()
				case *ssa.Defer:
					cc = x.Common()
				}
				if cc != nil && pred(commonName(cc)) {
					hit = true
				}
			}
		}
		if hit {
			seen[gn] = true
			out = append(out, fn)
		}
	}
	return out
}

// staticCalleesOf: repo functions called directly by fn.
func staticCalleesOf(p *Prog, fn *ssa.Function) []*ssa.Function {
	var out []*ssa.Function
	seen := map[*ssa.Function]bool{}
	for _, b := range fn.Blocks {
		for _, in := range b.Instrs {
			if call, ok := in.(*ssa.Call); ok {
				if cal := call.Common().StaticCallee(); cal != nil && p.InRepo(cal) && !seen[cal] {
					seen[cal] = true
					out = append(out, cal)
				}
			}
		}
	}
	return out
}

// isSubmitterFn: fn (or its generic origin) is the generic DA submitter: the function of package
// block that directly calls types.SubmitWithHelpers.
func isSubmitterFn(fn *ssa.Function) bool {
	for _, b := range fn.Blocks {
		for _, in := range b.Instrs {
			if call, ok := in.(*ssa.Call); ok && commonName(call.Common()) == typesF("SubmitWithHelpers") {
				pk := fnPkg(fn)
				return pk != nil && pk.Pkg.Path() == rootPath+"/block"
			}
		}
	}
	return false
}

// bodyCtxs: the contexts in which the body of fn is found: fn itself and each of its closures
// bound at the place it is created (so that captured variables resolve to fn's values).
func bodyCtxs(fn *ssa.Function) []*Ctx {
	root := &Ctx{Fn: fn}
	out := []*Ctx{root}
	var walk func(f *ssa.Function, cx *Ctx, d int)
	walk = func(f *ssa.Function, cx *Ctx, d int) {
		if d > 3 {
			return
		}
		for _, b := range f.Blocks {
			for _, in := range b.Instrs {
				mc, ok := in.(*ssa.MakeClosure)
				if !ok {
					continue
				}
				cf, _ := mc.Fn.(*ssa.Function)
				if cf == nil {
					continue
				}
				ccx := &Ctx{Parent: cx, Fn: cf, Closure: mc, ClosureCtx: cx, Depth: cx.Depth + 1}
				out = append(out, ccx)
				walk(cf, ccx, d+1)
			}
		}
	}
	walk(fn, root, 0)
	return out
}

// derefType strips one pointer.
func derefType(t types.Type) types.Type {
	if p, ok := t.Underlying().(*types.Pointer); ok {
		return p.Elem()
	}
	return t
}

// canonCmp brings a comparison fact into canonical form "a OP b holds" with OP in <, <=, ==, !=
// (polarity folded into the operator, > and >= turned around), so that a guard written as
// "x > 0" on its false edge and one written as "x <= 0" on its true edge match the same pattern.
func canonCmp(t *Term, pol bool) (a *Term, op string, b *Term, ok bool) {
	t, pol = normFact(t, pol)
	if t == nil || t.Op != "bin" || len(t.Args) != 2 {
		return nil, "", nil, false
	}
	op = t.Name
	switch op {
	case "<", "<=", ">", ">=", "==", "!=":
	default:
		return nil, "", nil, false
	}
	if !pol {
		op = map[string]string{"<": ">=", "<=": ">", ">": "<=", ">=": "<", "==": "!=", "!=": "=="}[op]
	}
	a, b = t.Args[0], t.Args[1]
	if op == ">" || op == ">=" {
		a, b = b, a
		op = map[string]string{">": "<", ">=": "<="}[op]
	}
	return a, op, b, true
}

// callerHolds: the unexported functions of pkg all of whose static call sites (at least one) are
// reached with the mutex field mu held — in the caller itself or, transitively, because the caller
// is such a function. Their bodies run under the lock although they do not take it.
func callerHolds(p *Prog, pkg, mu string) map[*ssa.Function]bool {
	type site struct {
		caller *ssa.Function
		call   ssa.Instruction
	}
	sites := map[*ssa.Function][]site{}
	var fns []*ssa.Function
	for _, fn := range p.Funcs {
		pk := fnPkg(fn)
		if pk == nil || pk.Pkg.Path() != pkg || fn.Blocks == nil {
			continue
		}
		fns = append(fns, fn)
		for _, b := range fn.Blocks {
			for _, in := range b.Instrs {
				if ci, ok := in.(ssa.CallInstruction); ok {
					if cal := ci.Common().StaticCallee(); cal != nil && fnPkg(cal) != nil && fnPkg(cal).Pkg.Path() == pkg {
						if _, isGo := in.(*ssa.Go); isGo {
							sites[cal] = append(sites[cal], site{nil, in}) // a goroutine does not inherit the lock
						} else {
							sites[cal] = append(sites[cal], site{fn, in})
						}
					}
				}
			}
		}
	}
	held := map[*ssa.Function]bool{}
	graphs := map[*ssa.Function]*Graph{}
	for changed := true; changed; {
		changed = false
		for _, fn := range fns {
			if held[fn] || fn.Parent() != nil || (fn.Object() != nil && fn.Object().Exported()) || len(sites[fn]) == 0 {
				continue
			}
			all := true
			for _, s := range sites[fn] {
				if s.caller == nil {
					all = false
					break
				}
				if held[topParent(s.caller)] {
					continue
				}
				g := graphs[s.caller]
				if g == nil {
					g = BuildECFG(p, s.caller, ExpandOpts{MaxDepth: 0})
					graphs[s.caller] = g
				}
				ok := false
				for _, nd := range g.Nodes {
					if nd.Kind == NInstr && nd.In == s.call {
						ok = heldAt(g, nd, mu)
					}
					if dc, isD := nd.In.(deferredCall); isD && ssa.Instruction(dc.Defer) == s.call {
						ok = heldAt(g, nd, mu)
					}
				}
				if !ok {
					all = false
					break
				}
			}
			if all {
				held[fn] = true
				changed = true
			}
		}
	}
	return held
}

// ownPkgOpts: look through the helpers of the package itself, keep everything else a leaf.
func ownPkgOpts(pkg string, depth int) ExpandOpts {
	return ExpandOpts{MaxDepth: depth, Stop: func(f *ssa.Function) bool {
		pk := fnPkg(f)
		return pk == nil || pk.Pkg.Path() != pkg
	}}
}

// litView is a struct literal a function may return, with the context its stored values are to
// be rendered in (the literal of a constructor helper is seen with the helper's parameters bound
// to the call that returned it).
type litView struct {
	Al  *ssa.Alloc
	Ctx *Ctx
}

// returnedLits: the struct literals a returned value may be — built in place, chosen by a phi, or
// built by a constructor helper of the repository (looked through up to depth). nil if some
// alternative is not a literal.
func (p *Prog) returnedLits(v ssa.Value, ctx *Ctx, depth int) []litView {
	switch x := v.(type) {
	case *ssa.UnOp:
		if al, ok := x.X.(*ssa.Alloc); ok && x.Op == token.MUL {
			return []litView{{al, ctx}}
		}
	case *ssa.Alloc:
		return []litView{{x, ctx}}
	case *ssa.Const:
		if _, isStruct := x.Type().Underlying().(*types.Struct); isStruct && x.Value == nil {
			return []litView{{nil, ctx}} // T{}: the zero literal
		}
	case *ssa.Phi:
		var out []litView
		for _, e := range x.Edges {
			vs := p.returnedLits(e, ctx, depth)
			if vs == nil {
				return nil
			}
			out = append(out, vs...)
		}
		return out
	case *ssa.Extract:
		// one result of a helper with several: the literals of its non-error returns
		call, ok := x.Tuple.(*ssa.Call)
		if !ok {
			return nil
		}
		callee := call.Common().StaticCallee()
		if depth <= 0 || callee == nil || !p.InRepo(callee) || (ctx != nil && ctx.has(callee)) {
			return nil
		}
		d := 0
		if ctx != nil {
			d = ctx.Depth + 1
		}
		cctx := &Ctx{Parent: ctx, Site: call, Fn: callee, Depth: d}
		var out []litView
		for _, b := range callee.Blocks {
			ret, ok := b.Instrs[len(b.Instrs)-1].(*ssa.Return)
			if !ok || x.Index >= len(ret.Results) {
				continue
			}
			if n := len(ret.Results); n > 1 && classifyReturn(ret, n-1) == rcA {
				continue
			}
			vs := p.returnedLits(spilledResult(ret, x.Index), cctx, depth-1)
			if vs == nil {
				return nil
			}
			out = append(out, vs...)
		}
		return out
	case *ssa.Call:
		callee := x.Common().StaticCallee()
		if depth <= 0 || callee == nil || !p.InRepo(callee) || (ctx != nil && ctx.has(callee)) || callee.Signature.Results().Len() != 1 {
			return nil
		}
		d := 0
		if ctx != nil {
			d = ctx.Depth + 1
		}
		cctx := &Ctx{Parent: ctx, Site: x, Fn: callee, Depth: d}
		var out []litView
		for _, b := range callee.Blocks {
			if ret, ok := b.Instrs[len(b.Instrs)-1].(*ssa.Return); ok {
				vs := p.returnedLits(spilledResult(ret, 0), cctx, depth-1)
				if vs == nil {
					return nil
				}
				out = append(out, vs...)
			}
		}
		return out
	}
	return nil
}

// Field: the values stored into the field path of the literal, as terms in the view's context.
func (lv litView) Field(path string) []*Term {
	var out []*Term
	if lv.Al == nil {
		return nil
	}
	for _, v := range litStores(lv.Al)[path] {
		out = append(out, TermOf(v, lv.Ctx))
	}
	return out
}

// nilImpliesOK: t is a call of a repository function whose error result being nil implies that
// the target call inside it returned nil: every value the function can return is definitely a
// non-nil error, or the target call's own result, or (recursively) such a function's result — and
// at least one is the target's. ("return m.store.SetHeight(…)" as the last statement of a helper.)
func (p *Prog) nilImpliesOK(t *Term, isTarget func(*Term) bool, depth int) bool {
	if t == nil || t.Op != "call" || depth <= 0 {
		return false
	}
	rs := p.ReturnTerms(t)
	if len(rs) == 0 {
		return false
	}
	found := false
	for _, r := range rs {
		r = r.unconv()
		for _, leaf := range flattenPhi(r) {
			leaf = leaf.unconv()
			switch {
			case isTarget(leaf):
				found = true
			case leaf.IsCall("fmt.Errorf") || leaf.IsCall("errors.New") || leaf.IsCall("errors.Join"):
			case leaf.Op == "global" && strings.Contains(leaf.Name, ".Err"):
			case leaf.Op == "call" && p.nilImpliesOK(leaf, isTarget, depth-1):
				found = true
			default:
				return false
			}
		}
	}
	return found
}

// calleesAndMethodValues: the repository functions fn calls statically, plus those it takes as a
// method value or function value ("loop := m.normalLoop" … "loop(ctx)"), which it may call.
func calleesAndMethodValues(p *Prog, fn *ssa.Function) []*ssa.Function {
	out := staticCalleesOf(p, fn)
	seen := map[*ssa.Function]bool{}
	for _, f := range out {
		seen[f] = true
	}
	add := func(f *ssa.Function) {
		if f == nil {
			return
		}
		// a bound-method wrapper stands for the method it forwards to
		if f.Synthetic != "" && f.Blocks != nil {
			for _, b := range f.Blocks {
				for _, in := range b.Instrs {
					if call, ok := in.(*ssa.Call); ok && call.Common().StaticCallee() != nil {
						f = call.Common().StaticCallee()
					}
				}
			}
		}
		if p.InRepo(f) && !seen[f] {
			seen[f] = true
			out = append(out, f)
		}
	}
	for _, b := range fn.Blocks {
		for _, in := range b.Instrs {
			if mc, ok := in.(*ssa.MakeClosure); ok {
				if f, ok := mc.Fn.(*ssa.Function); ok && f.Parent() != fn {
					add(f)
				}
			}
			for _, op := range in.Operands(nil) {
				if f, ok := (*op).(*ssa.Function); ok {
					if _, isCall := in.(ssa.CallInstruction); !isCall {
						add(f)
					}
				}
			}
		}
	}
	return out
}
