package main

import (
	"fmt"
	"go/constant"
	"go/token"
	"go/types"
	"sort"
	"strings"

	"golang.org/x/tools/go/ssa"
)

// Term is a symbolic rendering of an SSA value as an access path / expression tree rooted at
// the parameters of the entry function of an analysis (VP primitive). Loads are rendered as
// the path they read (flow-insensitive for memory, exact for SSA registers).
type Term struct {
	Op   string // param field call invoke const global phi bin un extract alloc index slice closure fn make lookup assert freevar range next select unknown
	Name string
	Args []*Term
	V    ssa.Value
	Ctx  *Ctx
}

// Ctx is an inlining context: the chain of call sites from the analysis entry to a function.
type Ctx struct {
	Parent *Ctx
	Site   ssa.CallInstruction // call site in the parent (nil for the root)
	Fn     *ssa.Function
	Depth  int
	// Closure whose body this context is (binds free variables), if known.
	Closure *ssa.MakeClosure
	// ClosureCtx is the context in which Closure was created.
	ClosureCtx *Ctx
	// DeferredArgs is set when the function is entered through a defer.
	id int
}

func (c *Ctx) String() string {
	if c == nil {
		return "<root>"
	}
	var parts []string
	for x := c; x != nil; x = x.Parent {
		parts = append(parts, shortName(fnName(x.Fn)))
	}
	for i, j := 0, len(parts)-1; i < j; i, j = i+1, j-1 {
		parts[i], parts[j] = parts[j], parts[i]
	}
	return strings.Join(parts, " > ")
}

func (c *Ctx) has(fn *ssa.Function) bool {
	for x := c; x != nil; x = x.Parent {
		if x.Fn == fn {
			return true
		}
	}
	return false
}

type termer struct {
	visiting map[ssa.Value]bool
	depth    int
	nodes    int
}

const maxTermDepth = 48
const maxTermNodes = 4000

var truncSeq int

// TermOf renders v in context ctx.
func TermOf(v ssa.Value, ctx *Ctx) *Term {
	t := &termer{visiting: map[ssa.Value]bool{}}
	return t.term(v, ctx)
}

func mk(op, name string, v ssa.Value, ctx *Ctx, args ...*Term) *Term {
	return &Term{Op: op, Name: name, Args: args, V: v, Ctx: ctx}
}

func (t *termer) term(v ssa.Value, ctx *Ctx) *Term {
	if v == nil {
		return mk("unknown", "nil-value", nil, ctx)
	}
	t.depth++
	defer func() { t.depth-- }()
	t.nodes++
	if t.depth > maxTermDepth || t.nodes > maxTermNodes {
		// truncated sub-terms get unique names: two truncated terms never compare equal
		truncSeq++
		return mk("unknown", fmt.Sprintf("…%d", truncSeq), v, ctx)
	}
	switch x := v.(type) {
	case *ssa.Parameter:
		if ctx != nil && ctx.Site != nil && ctx.Fn == x.Parent() {
			// bind to the actual argument at the call site
			idx := -1
			for i, p := range x.Parent().Params {
				if p == x {
					idx = i
				}
			}
			args := siteArgs(ctx.Site, ctx.Fn)
			if idx >= 0 && idx < len(args) && args[idx] != nil {
				return t.term(args[idx], ctx.Parent)
			}
		}
		return mk("param", x.Name(), v, ctx)
	case *ssa.FreeVar:
		if ctx != nil && ctx.Closure != nil && ctx.Fn == x.Parent() {
			for i, fv := range x.Parent().FreeVars {
				if fv == x && i < len(ctx.Closure.Bindings) {
					b := t.term(ctx.Closure.Bindings[i], ctx.ClosureCtx)
					// a free variable is the address of the captured variable unless captured by value
					return b
				}
			}
		}
		return mk("freevar", x.Name(), v, ctx)
	case *ssa.Const:
		if x.Value == nil {
			return mk("const", "nil", v, ctx)
		}
		if x.Value.Kind() == constant.String {
			return mk("const", x.Value.ExactString(), v, ctx)
		}
		return mk("const", x.Value.String(), v, ctx)
	case *ssa.Global:
		return mk("global", globalName(x), v, ctx)
	case *ssa.Function:
		return mk("fn", shortName(fnName(x)), v, ctx)
	case *ssa.Builtin:
		return mk("fn", x.Name(), v, ctx)
	case *ssa.FieldAddr:
		st := derefStruct(x.X.Type())
		name := fmt.Sprintf("#%d", x.Field)
		if st != nil && x.Field < st.NumFields() {
			name = fieldLabel(x.X.Type(), x.Field)
		}
		if al, ok := x.X.(*ssa.Alloc); ok {
			// a local struct variable initialised by one whole-struct store and never written
			// in this field: the field of the stored value
			if whole := structInit(al, x.Field); whole != nil {
				return mk("field", name, v, ctx, t.term(whole, ctx))
			}
		}
		base := t.term(x.X, ctx)
		if base.Op == "addrof" {
			base = base.Args[0]
		}
		return mk("field", name, v, ctx, base)
	case *ssa.Field:
		if r := t.recordField(x.X, x.Field, x.Type(), x, ctx); r != nil {
			return r
		}
		st := derefStruct(x.X.Type())
		name := fmt.Sprintf("#%d", x.Field)
		if st != nil && x.Field < st.NumFields() {
			name = fieldLabel(x.X.Type(), x.Field)
		}
		return mk("field", name, v, ctx, t.term(x.X, ctx))
	case *ssa.UnOp:
		if x.Op == token.MUL {
			return t.load(x.X, v, ctx)
		}
		if x.Op == token.ARROW {
			return mk("recv", "<-", v, ctx, t.term(x.X, ctx))
		}
		return mk("un", x.Op.String(), v, ctx, t.term(x.X, ctx))
	case *ssa.BinOp:
		return mk("bin", x.Op.String(), v, ctx, t.term(x.X, ctx), t.term(x.Y, ctx))
	case *ssa.Call:
		return t.call(x, ctx)
	case *ssa.Extract:
		return mk("extract", fmt.Sprintf("%d", x.Index), v, ctx, t.term(x.Tuple, ctx))
	case *ssa.Phi:
		if t.visiting[v] {
			return mk("phi", "↺", v, ctx)
		}
		t.visiting[v] = true
		defer delete(t.visiting, v)
		var args []*Term
		seen := map[string]bool{}
		for _, e := range x.Edges {
			a := t.term(e, ctx)
			s := a.String()
			if !seen[s] {
				seen[s] = true
				args = append(args, a)
			}
		}
		sort.Slice(args, func(i, j int) bool { return args[i].String() < args[j].String() })
		if len(args) == 1 {
			return args[0]
		}
		return mk("phi", "φ", v, ctx, args...)
	case *ssa.Alloc:
		return t.alloc(x, ctx)
	case *ssa.MakeInterface:
		return t.term(x.X, ctx)
	case *ssa.ChangeInterface:
		return t.term(x.X, ctx)
	case *ssa.ChangeType:
		return t.term(x.X, ctx)
	case *ssa.Convert:
		return mk("conv", types.TypeString(x.Type(), shortQual), v, ctx, t.term(x.X, ctx))
	case *ssa.MultiConvert:
		return t.term(x.X, ctx)
	case *ssa.SliceToArrayPointer:
		return t.term(x.X, ctx)
	case *ssa.TypeAssert:
		return mk("assert", types.TypeString(x.AssertedType, shortQual), v, ctx, t.term(x.X, ctx))
	case *ssa.IndexAddr:
		return mk("index", "", v, ctx, t.term(x.X, ctx), t.term(x.Index, ctx))
	case *ssa.Index:
		return mk("index", "", v, ctx, t.term(x.X, ctx), t.term(x.Index, ctx))
	case *ssa.Lookup:
		return mk("lookup", "", v, ctx, t.term(x.X, ctx), t.term(x.Index, ctx))
	case *ssa.Slice:
		// the slice built for a variadic call: render its elements
		if al, ok := x.X.(*ssa.Alloc); ok && al.Comment == "varargs" && x.Low == nil && x.High == nil {
			elems := map[int]ssa.Value{}
			max := -1
			okAll := true
			for _, r := range *al.Referrers() {
				ia, isIA := r.(*ssa.IndexAddr)
				if !isIA {
					continue
				}
				k, isK := ia.Index.(*ssa.Const)
				if !isK {
					okAll = false
					continue
				}
				for _, rr := range *ia.Referrers() {
					if st, isS := rr.(*ssa.Store); isS && st.Addr == ssa.Value(ia) {
						elems[int(k.Int64())] = st.Val
						if int(k.Int64()) > max {
							max = int(k.Int64())
						}
					}
				}
			}
			if okAll && max >= 0 && len(elems) == max+1 {
				var as []*Term
				for i := 0; i <= max; i++ {
					as = append(as, t.term(elems[i], ctx))
				}
				return mk("list", "", v, ctx, as...)
			}
		}
		args := []*Term{t.term(x.X, ctx)}
		for _, b := range []ssa.Value{x.Low, x.High, x.Max} {
			if b == nil {
				args = append(args, mk("const", "_", nil, ctx))
			} else {
				args = append(args, t.term(b, ctx))
			}
		}
		return mk("slice", "", v, ctx, args...)
	case *ssa.MakeClosure:
		fn, _ := x.Fn.(*ssa.Function)
		return mk("closure", shortName(fnName(fn)), v, ctx)
	case *ssa.MakeSlice:
		return mk("make", "slice:"+types.TypeString(x.Type(), shortQual), v, ctx, t.term(x.Len, ctx))
	case *ssa.MakeMap:
		return mk("make", "map:"+types.TypeString(x.Type(), shortQual), v, ctx)
	case *ssa.MakeChan:
		return mk("make", "chan:"+types.TypeString(x.Type(), shortQual), v, ctx, t.term(x.Size, ctx))
	case *ssa.Range:
		return mk("range", "", v, ctx, t.term(x.X, ctx))
	case *ssa.Next:
		return mk("next", "", v, ctx, t.term(x.Iter, ctx))
	case *ssa.Select:
		return mk("select", "", v, ctx)
	}
	return mk("unknown", fmt.Sprintf("%T", v), v, ctx)
}

func shortQual(p *types.Package) string { return p.Name() }

func globalName(g *ssa.Global) string {
	if g.Pkg != nil {
		return g.Pkg.Pkg.Name() + "." + g.Name()
	}
	return g.Name()
}

func derefStruct(t types.Type) *types.Struct {
	t = t.Underlying()
	if p, ok := t.(*types.Pointer); ok {
		t = p.Elem().Underlying()
	}
	st, _ := t.(*types.Struct)
	return st
}

// load renders *addr.
func (t *termer) load(addr ssa.Value, v ssa.Value, ctx *Ctx) *Term {
	switch a := addr.(type) {
	case *ssa.Alloc:
		// a local variable kept in memory: if it has exactly one store, it is that value
		var stores []*ssa.Store
		other := false
		for _, r := range *a.Referrers() {
			switch r := r.(type) {
			case *ssa.Store:
				if r.Addr == a {
					stores = append(stores, r)
				} else {
					other = true // address escapes by being stored
				}
			case *ssa.UnOp, *ssa.DebugRef:
			case *ssa.FieldAddr, *ssa.IndexAddr:
				// partial writes possible
			default:
				other = true
			}
		}
		_ = other
		partial := false
		for _, r := range *a.Referrers() {
			switch fa := r.(type) {
			case *ssa.FieldAddr:
				for _, rr := range *fa.Referrers() {
					if s, ok := rr.(*ssa.Store); ok && s.Addr == fa {
						partial = true
					}
				}
			case *ssa.IndexAddr:
				for _, rr := range *fa.Referrers() {
					if s, ok := rr.(*ssa.Store); ok && s.Addr == fa {
						partial = true
					}
				}
			}
		}
		if partial {
			// the variable is also written field-wise: its value is not that of the whole store
			return mk("load", "", v, ctx, t.alloc(a, ctx))
		}
		// a variable captured by closures is also written through their free variables
		type cstore struct {
			val ssa.Value
			ctx *Ctx
		}
		var captured []cstore
		for _, r := range *a.Referrers() {
			mc, ok := r.(*ssa.MakeClosure)
			if !ok {
				continue
			}
			fn, _ := mc.Fn.(*ssa.Function)
			if fn == nil {
				continue
			}
			for i, bnd := range mc.Bindings {
				if bnd != ssa.Value(a) || i >= len(fn.FreeVars) {
					continue
				}
				fv := fn.FreeVars[i]
				for _, rr := range *fv.Referrers() {
					if st, ok := rr.(*ssa.Store); ok && st.Addr == ssa.Value(fv) {
						d := 0
						if ctx != nil {
							d = ctx.Depth + 1
						}
						captured = append(captured, cstore{st.Val, &Ctx{Parent: ctx, Fn: fn, Closure: mc, ClosureCtx: ctx, Depth: d}})
					}
				}
			}
		}
		if len(stores) == 1 && len(captured) == 0 {
			return t.term(stores[0].Val, ctx)
		}
		if len(stores)+len(captured) > 1 || len(captured) > 0 {
			if t.visiting[v] || t.visiting[a] {
				return mk("phi", "↺", v, ctx)
			}
			t.visiting[v] = true
			t.visiting[a] = true
			defer delete(t.visiting, v)
			defer delete(t.visiting, a)
			var args []*Term
			seen := map[string]bool{}
			for _, cs := range captured {
				x := t.term(cs.val, cs.ctx)
				if !seen[x.String()] {
					seen[x.String()] = true
					args = append(args, x)
				}
			}
			for _, s := range stores {
				x := t.term(s.Val, ctx)
				if !seen[x.String()] {
					seen[x.String()] = true
					args = append(args, x)
				}
			}
			sort.Slice(args, func(i, j int) bool { return args[i].String() < args[j].String() })
			if len(args) == 1 {
				return args[0]
			}
			return mk("phi", "φ", v, ctx, args...)
		}
		return mk("load", "", v, ctx, t.alloc(a, ctx))
	case *ssa.FreeVar:
		// captured variable: the binding is the address of the outer variable
		if ctx != nil && ctx.Closure != nil && ctx.Fn == a.Parent() {
			for i, fv := range a.Parent().FreeVars {
				if fv == a && i < len(ctx.Closure.Bindings) {
					return t.load(ctx.Closure.Bindings[i], v, ctx.ClosureCtx)
				}
			}
		}
		return mk("freevar", a.Name(), v, ctx)
	case *ssa.Global:
		return mk("global", globalName(a), v, ctx)
	}
	if fa, ok := addr.(*ssa.FieldAddr); ok {
		// a field of a row of a package-level table (a slice / array literal initialised once and
		// walked by a loop): the alternatives the rows put into that field
		if r := t.globalTableField(fa, v, ctx); r != nil {
			return r
		}
		if al, ok := fa.X.(*ssa.Alloc); ok {
			if whole := structInit(al, fa.Field); whole != nil {
				if r := t.recordField(whole, fa.Field, v.Type(), v, ctx); r != nil {
					return r
				}
			}
		}
	}
	at := t.term(addr, ctx)
	switch at.Op {
	case "field", "index", "global":
		// a field of a struct literal handed over by value (a parameter bundle): the value the
		// caller's literal puts into that field
		if at.Op == "field" && len(at.Args) == 1 {
			if r := t.litFieldOfLoadedLiteral(at.Args[0], at.Name); r != nil {
				return r
			}
		}
		// the value at that path
		return &Term{Op: at.Op, Name: at.Name, Args: at.Args, V: v, Ctx: ctx}
	}
	return mk("load", "", v, ctx, at)
}

// litFieldOfLoadedLiteral: base renders "*new(T:complit)" (possibly behind &…: a spilled by-value
// parameter bound to the caller's literal); the literal's field of that label is written exactly
// once, before the literal is loaded whole: the stored value, in the literal's own context.
func (t *termer) litFieldOfLoadedLiteral(base *Term, label string) *Term {
	b := base
	for b != nil && (b.Op == "addrof" || b.Op == "conv") && len(b.Args) == 1 {
		b = b.Args[0]
	}
	if b == nil || b.Op != "load" || len(b.Args) != 1 || b.Args[0].Op != "alloc" {
		return nil
	}
	al, ok := b.Args[0].V.(*ssa.Alloc)
	if !ok || al.Comment != "complit" || al.Referrers() == nil {
		return nil
	}
	var vals []ssa.Value
	for _, r := range *al.Referrers() {
		switch x := r.(type) {
		case *ssa.FieldAddr:
			if fieldLabel(x.X.Type(), x.Field) != label || x.Referrers() == nil {
				continue
			}
			for _, rr := range *x.Referrers() {
				if st, ok := rr.(*ssa.Store); ok && st.Addr == ssa.Value(x) {
					vals = append(vals, st.Val)
				} else if _, isLd := rr.(*ssa.UnOp); !isLd {
					if _, isDbg := rr.(*ssa.DebugRef); !isDbg {
						return nil // the field's address is used otherwise
					}
				}
			}
		case *ssa.UnOp, *ssa.DebugRef:
		default:
			return nil // the literal's address escapes
		}
	}
	if len(vals) != 1 {
		return nil
	}
	return t.term(vals[0], b.Args[0].Ctx)
}

func (t *termer) alloc(a *ssa.Alloc, ctx *Ctx) *Term {
	// a spilled parameter / local copy: exactly one whole store and no field stores => &value
	if !a.Heap || a.Comment != "complit" {
		var whole []ssa.Value
		partial := false
		for _, r := range *a.Referrers() {
			switch r := r.(type) {
			case *ssa.Store:
				if r.Addr == a {
					whole = append(whole, r.Val)
				}
			case *ssa.FieldAddr:
				for _, rr := range *r.Referrers() {
					if s, ok := rr.(*ssa.Store); ok && s.Addr == r {
						partial = true
					}
				}
			}
		}
		if len(whole) == 1 && !partial {
			if _, isParam := whole[0].(*ssa.Parameter); isParam {
				return mk("addrof", "", a, ctx, t.term(whole[0], ctx))
			}
		}
	}
	name := types.TypeString(a.Type().(*types.Pointer).Elem(), shortQual)
	if a.Comment != "" {
		name += ":" + a.Comment
	}
	return mk("alloc", name, a, ctx)
}

func (t *termer) call(c *ssa.Call, ctx *Ctx) *Term {
	cc := c.Common()
	var args []*Term
	name := ""
	op := "call"
	if cc.IsInvoke() {
		op = "invoke"
		name = ifaceMethodName(cc)
		args = append(args, t.term(cc.Value, ctx))
	} else if fn := cc.StaticCallee(); fn != nil {
		// a trivial getter (returns a field of its receiver/argument, possibly under a lock)
		// stands for that field: x.GetLastState() and x.lastState are the same value
		if v := trivialGetterValue(fn); v != nil && (ctx == nil || !ctx.has(fn)) {
			d := 0
			if ctx != nil {
				d = ctx.Depth + 1
			}
			if d < 6 {
				return t.term(v, &Ctx{Parent: ctx, Site: c, Fn: fn, Depth: d})
			}
		}
		name = genericName(shortName(fnName(fn)))
	} else if b, ok := cc.Value.(*ssa.Builtin); ok {
		name = b.Name()
	} else {
		op = "dyncall"
		args = append(args, t.term(cc.Value, ctx))
	}
	for _, a := range cc.Args {
		args = append(args, t.term(a, ctx))
	}
	return mk(op, name, c, ctx, args...)
}

// ifaceMethodName: "(pkg/path.Iface).Method" shortened.
func ifaceMethodName(cc *ssa.CallCommon) string {
	if cc.Method == nil {
		return "?"
	}
	return shortName(cc.Method.FullName())
}

// siteArgs returns the actual arguments of a call site aligned with callee.Params
// (receiver first for methods, also for invoke-mode calls resolved to a concrete method).
func siteArgs(site ssa.CallInstruction, callee *ssa.Function) []ssa.Value {
	cc := site.Common()
	var out []ssa.Value
	if cc.IsInvoke() {
		out = append(out, cc.Value)
		out = append(out, cc.Args...)
		return out
	}
	// closure call / bound method: Args align with Params directly
	if len(cc.Args) == len(callee.Params) {
		return cc.Args
	}
	// bound method closure (receiver is a free variable) or mismatch
	out = append(out, cc.Args...)
	return out
}

func (t *Term) String() string {
	if t == nil {
		return "<nil>"
	}
	switch t.Op {
	case "param", "freevar":
		return t.Name
	case "const", "global", "fn":
		return t.Name
	case "field":
		return t.Args[0].String() + "." + t.Name
	case "call", "invoke", "dyncall":
		var a []string
		for _, x := range t.Args {
			a = append(a, x.String())
		}
		n := t.Name
		if t.Op == "dyncall" {
			n = "dyn"
		}
		return n + "(" + strings.Join(a, ", ") + ")"
	case "extract":
		return t.Args[0].String() + "#" + t.Name
	case "bin":
		return "(" + t.Args[0].String() + " " + t.Name + " " + t.Args[1].String() + ")"
	case "un":
		return t.Name + t.Args[0].String()
	case "recv":
		return "<-" + t.Args[0].String()
	case "phi":
		var a []string
		for _, x := range t.Args {
			a = append(a, x.String())
		}
		return "φ(" + strings.Join(a, " | ") + ")"
	case "alloc":
		return "new(" + t.Name + ")"
	case "load":
		return "*" + t.Args[0].String()
	case "addrof":
		return "&" + t.Args[0].String()
	case "conv":
		return t.Name + "(" + t.Args[0].String() + ")"
	case "assert":
		return t.Args[0].String() + ".(" + t.Name + ")"
	case "index", "lookup":
		return t.Args[0].String() + "[" + t.Args[1].String() + "]"
	case "slice":
		return t.Args[0].String() + "[" + t.Args[1].String() + ":" + t.Args[2].String() + "]"
	case "list":
		var a []string
		for _, x := range t.Args {
			a = append(a, x.String())
		}
		return "[" + strings.Join(a, ", ") + "]"
	case "closure":
		return "closure(" + t.Name + ")"
	case "make":
		var a []string
		for _, x := range t.Args {
			a = append(a, x.String())
		}
		return "make(" + t.Name + strings.Join(append([]string{""}, a...), ", ") + ")"
	case "range":
		return "range(" + t.Args[0].String() + ")"
	case "next":
		return "next(" + t.Args[0].String() + ")"
	}
	return t.Op + ":" + t.Name
}

// Walk visits t and all sub-terms.
func (t *Term) Walk(f func(*Term) bool) {
	if t == nil || !f(t) {
		return
	}
	for _, a := range t.Args {
		a.Walk(f)
	}
}

// Contains reports whether some sub-term satisfies pred.
func (t *Term) Contains(pred func(*Term) bool) bool {
	found := false
	t.Walk(func(x *Term) bool {
		if found {
			return false
		}
		if pred(x) {
			found = true
			return false
		}
		return true
	})
	return found
}

// Leaves returns the origin leaves (params, globals, consts, leaf calls, allocs ...) of t.
func (t *Term) Leaves() []*Term {
	var out []*Term
	t.Walk(func(x *Term) bool {
		if len(x.Args) == 0 {
			out = append(out, x)
		}
		return true
	})
	return out
}

// IsCall reports whether t is a (static or interface) call whose name ends with suffix.
func (t *Term) IsCall(suffix string) bool {
	return t != nil && (t.Op == "call" || t.Op == "invoke") && strings.HasSuffix(t.Name, suffix)
}

// unwrapConv strips conversions.
func (t *Term) unconv() *Term {
	for t != nil && t.Op == "conv" {
		t = t.Args[0]
	}
	return t
}

// structInit: if the local struct al is initialised by exactly one whole-struct store and the
// given field is never stored separately, return the stored struct value.
func structInit(al *ssa.Alloc, field int) ssa.Value {
	var whole []ssa.Value
	for _, r := range *al.Referrers() {
		switch r := r.(type) {
		case *ssa.Store:
			if r.Addr == al {
				whole = append(whole, r.Val)
			}
		case *ssa.FieldAddr:
			if r.Field != field {
				continue
			}
			for _, rr := range *r.Referrers() {
				if s, ok := rr.(*ssa.Store); ok && s.Addr == r {
					return nil
				}
				if _, ok := rr.(*ssa.UnOp); ok {
					continue
				}
				if _, ok := rr.(*ssa.DebugRef); ok {
					continue
				}
				if _, ok := rr.(*ssa.FieldAddr); ok {
					continue
				}
				return nil // address of the field escapes
			}
		}
	}
	if len(whole) == 1 {
		return whole[0]
	}
	return nil
}

// ReturnTerms: for a call term (or an extract of one) to a repo function, the terms of the
// values returned at each return site, rendered with the parameters bound to this call.
func (p *Prog) ReturnTerms(t *Term) []*Term {
	idx := 0
	call := t
	if t.Op == "extract" {
		fmtSscan(t.Name, &idx)
		call = t.Args[0]
	}
	if call.Op != "call" {
		return nil
	}
	cv, ok := call.V.(*ssa.Call)
	if !ok {
		return nil
	}
	callee := cv.Common().StaticCallee()
	if callee == nil || !p.Expandable(callee) {
		return nil
	}
	if call.Ctx != nil && call.Ctx.has(callee) {
		return nil
	}
	d := 0
	if call.Ctx != nil {
		d = call.Ctx.Depth + 1
	}
	cctx := &Ctx{Parent: call.Ctx, Site: cv, Fn: callee, Depth: d}
	var out []*Term
	for _, b := range callee.Blocks {
		if ret, ok := b.Instrs[len(b.Instrs)-1].(*ssa.Return); ok && idx < len(ret.Results) {
			out = append(out, TermOf(spilledResult(ret, idx), cctx))
		}
	}
	return out
}

// DeepContains: like Contains, but looks through calls to repo functions into the values they
// return (depth-bounded), and through struct literals built in local allocations.
func (p *Prog) DeepContains(t *Term, pred func(*Term) bool, depth int) bool {
	if t == nil {
		return false
	}
	found := false
	t.Walk(func(x *Term) bool {
		if found {
			return false
		}
		if pred(x) {
			found = true
			return false
		}
		if depth > 0 && (x.Op == "call" || (x.Op == "extract" && x.Args[0].Op == "call")) {
			for _, r := range p.ReturnTerms(x) {
				if p.DeepContains(r, pred, depth-1) {
					found = true
					return false
				}
			}
		}
		if depth > 0 && x.Op == "alloc" {
			if al, ok := x.V.(*ssa.Alloc); ok {
				for _, r := range *al.Referrers() {
					if st, ok := r.(*ssa.Store); ok && st.Addr == ssa.Value(al) {
						if p.DeepContains(TermOf(st.Val, x.Ctx), pred, depth-1) {
							found = true
							return false
						}
					}
				}
				for _, vs := range litStoresOf(al) {
					for _, v := range vs {
						if p.DeepContains(TermOf(v, x.Ctx), pred, depth-1) {
							found = true
							return false
						}
					}
				}
			}
		}
		return true
	})
	return found
}

// Alternatives: the non-phi leaves a value term may stand for, looking through phis and through
// the values returned by repository helpers (bounded depth). Used for "every alternative is …"
// checks, where DeepContains answers "some alternative contains …".
func (p *Prog) Alternatives(t *Term, depth int) []*Term {
	var out []*Term
	seen := map[string]bool{}
	var walk func(t *Term, d int)
	walk = func(t *Term, d int) {
		t = t.unconv()
		if t.Op == "phi" {
			for _, a := range t.Args {
				walk(a, d)
			}
			return
		}
		if d > 0 {
			if rs := p.ReturnTerms(t); len(rs) > 0 {
				for _, r := range rs {
					walk(r, d-1)
				}
				return
			}
		}
		if k := t.String(); !seen[k] {
			seen[k] = true
			out = append(out, t)
		}
	}
	walk(t, depth)
	return out
}

var getterCache = map[*ssa.Function]ssa.Value{}
var getterSeen = map[*ssa.Function]bool{}

// trivialGetterValue: fn is a repository function with one result whose every return hands back
// the same field path of one of its parameters, and which calls nothing but mutex operations.
// Returns the returned value (to be rendered with the parameters bound to the call), else nil.
func trivialGetterValue(fn *ssa.Function) ssa.Value {
	if getterSeen[fn] {
		return getterCache[fn]
	}
	getterSeen[fn] = true
	if fn.Blocks == nil || fn.Signature.Results().Len() != 1 || len(fn.Params) == 0 || len(fn.Params) > 1 {
		return nil
	}
	// only the node's own package: the accessors of the wire types (Header.Height, …) are API
	// names that the rules refer to as such
	pk := fnPkg(fn)
	if pk == nil || pk.Pkg.Path() != rootPath+"/block" {
		return nil
	}
	var ret ssa.Value
	for _, b := range fn.Blocks {
		if b.Comment == "recover" {
			continue // the landing pad of a function with defers: reached only after a panic
		}
		for _, in := range b.Instrs {
			switch x := in.(type) {
			case *ssa.Call:
				if !strings.HasPrefix(commonName(x.Common()), "(*sync.") {
					return nil
				}
			case *ssa.Defer:
				if !strings.HasPrefix(commonName(x.Common()), "(*sync.") {
					return nil
				}
			case *ssa.Store:
				if _, local := x.Addr.(*ssa.Alloc); !local {
					return nil // (a store into the spilled result slot of a function with defers is fine)
				}
			case *ssa.Go, *ssa.Send, *ssa.Select, *ssa.MapUpdate, *ssa.Panic:
				return nil
			case *ssa.Return:
				v := spilledResult(x, 0)
				if ret != nil && ret != v {
					return nil
				}
				ret = v
			}
		}
	}
	if ret == nil {
		return nil
	}
	// the value is a field path of the parameter: *(&p.f) or (p.f) or *(&(*(&p.f)).g)
	v := ret
	depth := 0
	for depth < 6 {
		switch x := v.(type) {
		case *ssa.UnOp:
			if x.Op != token.MUL {
				return nil
			}
			v = x.X
		case *ssa.FieldAddr:
			v = x.X
			depth++
		case *ssa.Field:
			v = x.X
			depth++
		case *ssa.Parameter:
			if depth == 0 {
				return nil
			}
			getterCache[fn] = ret
			return ret
		default:
			return nil
		}
	}
	return nil
}

// recordField: a field of the struct a repository helper returns, where the struct type is an
// unexported result bundle of the helper's package and every accepting return of the helper hands
// back a literal: the field stands for what the literals put into it (a phi over the returns),
// rendered with the helper's parameters bound to this call. "last.headerHash" after
// "last, err := m.loadLastBlockInfo(ctx, h)" is then the same term as the local it replaced.
func (t *termer) recordField(sv ssa.Value, field int, ftype types.Type, origin ssa.Value, ctx *Ctx) *Term {
	tuple, idx := sv, 0
	if ex, ok := sv.(*ssa.Extract); ok {
		tuple, idx = ex.Tuple, ex.Index
	}
	call, ok := tuple.(*ssa.Call)
	if !ok {
		return nil
	}
	callee := call.Common().StaticCallee()
	if callee == nil || callee.Blocks == nil || (ctx != nil && ctx.has(callee)) {
		return nil
	}
	pk := fnPkg(callee)
	nt, isNamed := sv.Type().(*types.Named)
	if pk == nil || !isNamed || nt.Obj().Exported() || nt.Obj().Pkg() != pk.Pkg || !strings.HasPrefix(pk.Pkg.Path(), rootPath) {
		return nil
	}
	d := 0
	if ctx != nil {
		d = ctx.Depth + 1
	}
	if d >= 6 {
		return nil
	}
	cctx := &Ctx{Parent: ctx, Site: call, Fn: callee, Depth: d}
	var alts []*Term
	seen := map[string]bool{}
	for _, b := range callee.Blocks {
		ret, ok := b.Instrs[len(b.Instrs)-1].(*ssa.Return)
		if !ok || idx >= len(ret.Results) {
			continue
		}
		if n := len(ret.Results); n > 1 && classifyReturn(ret, n-1) == rcA {
			continue // an error return: the caller does not use the bundle
		}
		ld, ok := spilledResult(ret, idx).(*ssa.UnOp)
		if !ok || ld.Op != token.MUL {
			return nil
		}
		al, ok := ld.X.(*ssa.Alloc)
		if !ok {
			return nil
		}
		var val ssa.Value
		for _, r := range *al.Referrers() {
			fa, isFA := r.(*ssa.FieldAddr)
			if !isFA || fa.Field != field {
				continue
			}
			for _, rr := range *fa.Referrers() {
				if st, isS := rr.(*ssa.Store); isS && st.Addr == ssa.Value(fa) {
					if val != nil {
						return nil
					}
					val = st.Val
				}
			}
		}
		var a *Term
		if val == nil {
			a = mk("const", zeroName(ftype), nil, cctx)
		} else {
			a = t.term(val, cctx)
		}
		if k := a.String(); !seen[k] {
			seen[k] = true
			alts = append(alts, a)
		}
	}
	if len(alts) == 0 {
		return nil
	}
	sort.Slice(alts, func(i, j int) bool { return alts[i].String() < alts[j].String() })
	if len(alts) == 1 {
		return alts[0]
	}
	return mk("phi", "φ", origin, ctx, alts...)
}

func zeroName(tp types.Type) string {
	switch u := tp.Underlying().(type) {
	case *types.Basic:
		switch {
		case u.Info()&types.IsString != 0:
			return `""`
		case u.Info()&types.IsBoolean != 0:
			return "false"
		case u.Info()&types.IsNumeric != 0:
			return "0"
		}
	case *types.Struct, *types.Array:
		return "zero:" + types.TypeString(tp, shortQual)
	}
	return "nil"
}

// globalTableField: fa addresses field f of an element (or of the loop variable holding a copy of
// an element) of a package-level slice / array of structs that the package initialiser builds from
// a literal and nothing else writes: a phi over what the rows store into f.
func (t *termer) globalTableField(fa *ssa.FieldAddr, v ssa.Value, ctx *Ctx) *Term {
	globalOf := func(x ssa.Value) *ssa.Global {
		ia, ok := x.(*ssa.IndexAddr)
		if !ok {
			return nil
		}
		if _, isConst := ia.Index.(*ssa.Const); isConst {
			return nil
		}
		switch b := ia.X.(type) {
		case *ssa.UnOp:
			if g, ok := b.X.(*ssa.Global); ok && b.Op == token.MUL {
				return g
			}
		case *ssa.Global:
			return b
		}
		return nil
	}
	var gl *ssa.Global
	switch x := fa.X.(type) {
	case *ssa.IndexAddr:
		gl = globalOf(x)
	case *ssa.Alloc:
		var vals []ssa.Value
		for _, r := range *x.Referrers() {
			switch r := r.(type) {
			case *ssa.Store:
				if r.Addr == ssa.Value(x) {
					vals = append(vals, r.Val)
				}
			case *ssa.FieldAddr:
				for _, rr := range *r.Referrers() {
					if st, ok := rr.(*ssa.Store); ok && st.Addr == ssa.Value(r) {
						return nil // the copy is modified
					}
				}
			}
		}
		if len(vals) == 1 {
			if ld, ok := vals[0].(*ssa.UnOp); ok && ld.Op == token.MUL {
				gl = globalOf(ld.X)
			}
		}
	}
	if gl == nil || gl.Pkg == nil || !strings.HasPrefix(gl.Pkg.Pkg.Path(), rootPath) {
		return nil
	}
	initFn := gl.Pkg.Func("init")
	if initFn == nil {
		return nil
	}
	// the global is stored to exactly once, in the initialiser, with a slice of a literal array
	var lit *ssa.Alloc
	nStores := 0
	for _, fn := range gl.Pkg.Members {
		f, ok := fn.(*ssa.Function)
		if !ok {
			continue
		}
		fns := append([]*ssa.Function{f}, f.AnonFuncs...)
		for _, ff := range fns {
			for _, b := range ff.Blocks {
				for _, in := range b.Instrs {
					if st, ok := in.(*ssa.Store); ok && st.Addr == ssa.Value(gl) {
						nStores++
						if ff != initFn {
							return nil
						}
						if sl, ok := st.Val.(*ssa.Slice); ok {
							lit, _ = sl.X.(*ssa.Alloc)
						}
					}
				}
			}
		}
	}
	if lit == nil || nStores != 1 {
		return nil
	}
	label := fieldLabel(fa.X.Type(), fa.Field)
	rows := litStores(lit)
	ictx := &Ctx{Fn: initFn}
	var args []*Term
	seen := map[string]bool{}
	nRows := int64(0)
	if at, ok := lit.Type().(*types.Pointer).Elem().Underlying().(*types.Array); ok {
		nRows = at.Len()
	}
	for i := int64(0); i < nRows; i++ {
		vs := rows[fmt.Sprintf("[%d].%s", i, label)]
		if len(vs) > 1 {
			return nil
		}
		var x *Term
		if len(vs) == 1 {
			x = t.term(vs[0], ictx)
		} else {
			x = mk("const", zeroName(v.Type()), nil, ictx) // the row leaves the field at its zero value
		}
		if !seen[x.String()] {
			seen[x.String()] = true
			args = append(args, x)
		}
	}
	if len(args) == 0 {
		return nil
	}
	if len(args) == 1 {
		return args[0]
	}
	return mk("phi", "φ", v, ctx, args...)
}
