package main

import (
	"go/types"
	"strings"
	"sync"
)

// Field roles. The rules name a handful of unexported fields of the repository's central
// structs (the manager's caches, channels, heights, the queue of the sequencer …). Renaming
// such a field is behaviour-preserving, so the rules must not depend on the identifier. Every
// field term and every direct field test therefore goes through fieldLabel, which replaces the
// identifier by a role label when the role's *type* identifies exactly one field of the owner
// struct. The label is the identifier the field had on the pinned tree, so reports stay
// readable; a field whose role cannot be identified by type keeps its identifier.
type roleSpec struct {
	owner string // package path + "." + type name
	label string
	match func(s string, t types.Type) bool
}

func typeIs(s string) func(string, types.Type) bool {
	return func(ts string, _ types.Type) bool { return ts == s }
}

func typeSuffix(s string) func(string, types.Type) bool {
	return func(ts string, _ types.Type) bool { return strings.HasSuffix(ts, s) }
}

var roleSpecs = []roleSpec{
	{rootPath + "/block.Manager", "headerCache", typeIs("*" + rootPath + "/pkg/cache.Cache[" + rootPath + "/types.SignedHeader]")},
	{rootPath + "/block.Manager", "dataCache", typeIs("*" + rootPath + "/pkg/cache.Cache[" + rootPath + "/types.Data]")},
	{rootPath + "/block.Manager", "headerInCh", typeIs("chan " + rootPath + "/block.NewHeaderEvent")},
	{rootPath + "/block.Manager", "dataInCh", typeIs("chan " + rootPath + "/block.NewDataEvent")},
	{rootPath + "/block.Manager", "lastState", typeIs(rootPath + "/types.State")},
	{rootPath + "/block.Manager", "lastStateMtx", typeIs("*sync.RWMutex")},
	{rootPath + "/block.Manager", "daIncludedHeight", typeIs("sync/atomic.Uint64")},
	{rootPath + "/block.Manager", "daHeight", typeIs("*sync/atomic.Uint64")},
	{rootPath + "/block.Manager", "txsAvailable", typeIs("bool")},
	{rootPath + "/block.Manager", "genesis", typeIs(rootPath + "/pkg/genesis.Genesis")},
	{rootPath + "/block.Manager", "config", typeIs(rootPath + "/pkg/config.Config")},
	{rootPath + "/block.Manager", "pendingHeaders", typeIs("*" + rootPath + "/block.PendingHeaders")},
	{rootPath + "/block.Manager", "pendingData", typeIs("*" + rootPath + "/block.PendingData")},
	{rootPath + "/block.Manager", "signer", typeIs(rootPath + "/pkg/signer.Signer")},
	{rootPath + "/block.Manager", "store", typeIs(rootPath + "/pkg/store.Store")},
	{rootPath + "/block.Manager", "exec", typeIs(rootPath + "/core/execution.Executor")},
	{rootPath + "/block.Manager", "sequencer", typeIs(rootPath + "/core/sequencer.Sequencer")},
	{rootPath + "/block.Manager", "da", typeIs(rootPath + "/core/da.DA")},
	{rootPath + "/block.Manager", "headerStore", typeIs("github.com/celestiaorg/go-header.Store[*" + rootPath + "/types.SignedHeader]")},
	{rootPath + "/block.Manager", "dataStore", typeIs("github.com/celestiaorg/go-header.Store[*" + rootPath + "/types.Data]")},
	{rootPath + "/block.Manager", "signaturePayloadProvider", typeIs(rootPath + "/types.SignaturePayloadProvider")},
	{rootPath + "/block.Manager", "lastBatchData", typeIs("[][]byte")},
	{rootPath + "/block.Manager", "publishBlock", func(_ string, t types.Type) bool {
		sig, ok := t.Underlying().(*types.Signature)
		return ok && sig.Params().Len() == 1 && sig.Results().Len() == 1 && sig.Params().At(0).Type().String() == "context.Context" && sig.Results().At(0).Type().String() == "error"
	}},
	{rootPath + "/block.pendingBase", "lastHeight", typeIs("sync/atomic.Uint64")},
	{rootPath + "/block.pendingBase", "metaKey", typeIs("string")},
	{rootPath + "/block.pendingBase", "store", typeIs(rootPath + "/pkg/store.Store")},
	{rootPath + "/block.pendingBase", "fetch", func(_ string, t types.Type) bool { _, ok := t.Underlying().(*types.Signature); return ok }},
	{rootPath + "/block.Reaper", "seenStore", typeIs("github.com/ipfs/go-datastore.Batching")},
	{rootPath + "/block.Reaper", "manager", typeIs("*" + rootPath + "/block.Manager")},
	{rootPath + "/block.Reaper", "ctx", typeIs("context.Context")},
	{rootPath + "/block.Reaper", "sequencer", typeIs(rootPath + "/core/sequencer.Sequencer")},
	{rootPath + "/block.Reaper", "exec", typeIs(rootPath + "/core/execution.Executor")},
	{rootPath + "/sequencers/single.BatchQueue", "queue", typeIs("[]" + rootPath + "/core/sequencer.Batch")},
	{rootPath + "/sequencers/single.BatchQueue", "maxQueueSize", typeIs("int")},
	{rootPath + "/sequencers/single.BatchQueue", "nextSeq", typeIs("uint64")},
	{rootPath + "/sequencers/single.BatchQueue", "keys", typeIs("[]string")},
	{rootPath + "/sequencers/single.BatchQueue", "mu", typeIs("sync.Mutex")},
	{rootPath + "/sequencers/single.BatchQueue", "db", typeIs("github.com/ipfs/go-datastore.Batching")},
	{rootPath + "/sequencers/based.PersistentPendingTxs", "list", typeIs("[]" + rootPath + "/sequencers/based.TxsWithTimestamp")},
	{rootPath + "/sequencers/based.PersistentPendingTxs", "store", typeIs("github.com/ipfs/go-datastore.Batching")},
	{rootPath + "/pkg/signer/file.FileSystemSigner", "privateKey", typeIs("github.com/libp2p/go-libp2p/core/crypto.PrivKey")},
	{rootPath + "/pkg/signer/file.FileSystemSigner", "publicKey", typeIs("github.com/libp2p/go-libp2p/core/crypto.PubKey")},
	{rootPath + "/pkg/store.DefaultStore", "db", typeIs("github.com/ipfs/go-datastore.Batching")},
	{rootPath + "/apps/testapp/kv.KVExecutor", "db", typeIs("github.com/ipfs/go-datastore.Batching")},
}

var (
	roleMu    sync.Mutex
	roleCache = map[*types.TypeName][]string{}
)

// fieldLabel: the label of field idx of the struct behind t (a struct, a named struct or a
// pointer to one).
func fieldLabel(t types.Type, idx int) string {
	t = types.Unalias(t)
	if p, ok := t.Underlying().(*types.Pointer); ok {
		t = types.Unalias(p.Elem())
	}
	st, ok := t.Underlying().(*types.Struct)
	if !ok || idx < 0 || idx >= st.NumFields() {
		return "?"
	}
	named, ok := t.(*types.Named)
	if !ok || named.Obj() == nil || named.Obj().Pkg() == nil {
		return st.Field(idx).Name()
	}
	obj := named.Origin().Obj()
	roleMu.Lock()
	defer roleMu.Unlock()
	labels, ok := roleCache[obj]
	if !ok {
		labels = computeLabels(obj.Pkg().Path()+"."+obj.Name(), named.Origin().Underlying().(*types.Struct))
		roleCache[obj] = labels
	}
	if idx < len(labels) {
		return labels[idx]
	}
	return st.Field(idx).Name()
}

func computeLabels(owner string, st *types.Struct) []string {
	labels := make([]string, st.NumFields())
	for i := range labels {
		labels[i] = st.Field(i).Name()
	}
	for _, rs := range roleSpecs {
		if rs.owner != owner {
			continue
		}
		hit := -1
		n := 0
		for i := 0; i < st.NumFields(); i++ {
			ft := st.Field(i).Type()
			if rs.match(types.TypeString(ft, nil), ft) {
				hit = i
				n++
			}
		}
		if n != 1 {
			continue
		}
		// the label must not collide with the identifier of another field
		clash := false
		for i := 0; i < st.NumFields(); i++ {
			if i != hit && st.Field(i).Name() == rs.label {
				clash = true
			}
		}
		if !clash {
			labels[hit] = rs.label
		}
	}
	return labels
}
