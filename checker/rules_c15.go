package main

import (
	"fmt"
	"go/token"
	"go/types"
	"sort"
	"strings"

	"golang.org/x/tools/go/ssa"
)

func init() {
	register("C15", &propDef{
		run: runC15,
		explanation: "Decides for the reference key-value executor: R1 every constant key written outside the transaction batch (chain initialisation, finalisation marker) is excluded from the state-root computation and rejected as a transaction key — the three key sets are read from the code and compared; " +
			"R2 in ExecuteTxs every write goes to one datastore batch whose keys and values derive only from the transactions, nothing is written directly, and the batch is committed once after the loop; " +
			"R3 the state root reads only the datastore and sorts the keys before concatenating; R4 the genesis keys are written only on the not-initialised edge.",
		notDecided:  "Equality of roots across instances for all histories (follows from R1–R3 plus datastore semantics; not claimed); mempool behaviour.",
		assumptions: []string{"go-datastore is an effect leaf; batch commit is atomic", "go/ssa"},
	})
}

const kvPkg = rootPath + "/apps/testapp/kv"

func runC15(c *Check) {
	p := c.Mod(ModTestapp)
	c.Doc("C15-R1", "CS+CT: written-outside-batch keys ⊆ keys excluded from the root = keys rejected in transactions.")
	c.Doc("C15-R2", "EO+VP: batch-only, tx-derived writes, single commit after the loop.")
	c.Doc("C15-R3", "VP: root purity and key sorting.")
	c.Doc("C15-R4", "GA: idempotent InitChain.")
	m := func(n string) *ssa.Function { return p.MustFunc("(*" + kvPkg + ".KVExecutor)." + n) }
	exec, initc, final := m("ExecuteTxs"), m("InitChain"), m("SetFinal")
	var root *ssa.Function
	for _, cal := range staticCalleesOf(p, exec) {
		for _, b := range cal.Blocks {
			for _, in := range b.Instrs {
				if call, ok := in.(*ssa.Call); ok && strings.HasPrefix(commonName(call.Common()), "(github.com/ipfs/go-datastore.") && strings.HasSuffix(commonName(call.Common()), ").Query") {
					root = cal
				}
			}
		}
	}
	if root == nil {
		c.Unk("C15-R3", "state-root-function", "", "", "anchor lost: the function ExecuteTxs calls to compute the state root")
		return
	}

	// global key variables -> string (from the package initialiser)
	globals := map[string]string{}
	if pk := p.Package(kvPkg); pk != nil {
		if initFn := pk.Func("init"); initFn != nil {
			for _, b := range initFn.Blocks {
				for _, in := range b.Instrs {
					st, ok := in.(*ssa.Store)
					if !ok {
						continue
					}
					gl, ok := st.Addr.(*ssa.Global)
					if !ok {
						continue
					}
					t := TermOf(st.Val, &Ctx{Fn: initFn})
					if t.IsCall("go-datastore.NewKey") && t.Args[0].Op == "const" {
						globals[globalName(gl)] = t.Args[0].Name
					}
				}
			}
		}
	}
	keyName := func(t *Term) string {
		t = t.unconv()
		if t.Op == "global" {
			if s, ok := globals[t.Name]; ok {
				return s
			}
			return "global:" + t.Name
		}
		if t.IsCall("go-datastore.NewKey") && t.Args[0].Op == "const" {
			return t.Args[0].Name
		}
		return ""
	}
	// putKeys: the key(s) a Put writes — the one named by its argument, or, for a table of
	// entries written by one loop, the key of every row
	putKeys := func(n *Node) []string {
		if k := keyName(ArgTerm(n, 1)); k != "" {
			return []string{k}
		}
		call, ok := n.In.(ssa.CallInstruction)
		if !ok {
			return nil
		}
		for _, a := range call.Common().Args {
			if !strings.HasSuffix(a.Type().String(), "go-datastore.Key") {
				continue
			}
			kal, kf := tableField(a, 0)
			if kal == nil {
				return nil
			}
			lit := kal
			for _, r := range *kal.Referrers() {
				if st, ok := r.(*ssa.Store); ok && st.Addr == ssa.Value(kal) {
					if ld, ok := st.Val.(*ssa.UnOp); ok && ld.Op == token.MUL {
						if inner, ok := ld.X.(*ssa.Alloc); ok {
							lit = inner
						}
					}
				}
			}
			rows := litStores(lit)
			var out []string
			for i := 0; ; i++ {
				ks := rows[fmt.Sprintf("[%d].%s", i, kf)]
				if len(ks) != 1 {
					break
				}
				k := keyName(TermOf(ks[0], n.Ctx))
				if k == "" {
					return nil
				}
				out = append(out, k)
			}
			return out
		}
		return nil
	}
	// W: constant keys written outside ExecuteTxs
	W := map[string]string{}
	for _, fn := range []*ssa.Function{initc, final} {
		g := BuildECFG(p, fn, ExpandOpts{MaxDepth: 3})
		c.NoteGraph(g)
		for _, n := range g.Select(func(n *Node) bool { return dsCall(n, "Put") }) {
			ks := putKeys(n)
			k := ""
			if len(ks) > 0 {
				k = ks[0]
			}
			if k == "" {
				c.Bad("C15-R1", fnShort(fn)+" ⟂ non-constant-key", fnName(fn), p.InstrPos(n.In), "a key written outside the transaction batch is not a constant: it cannot be excluded from the state root: "+trunc(ArgTerm(n, 1).String(), 80), nil)
				continue
			}
			for _, k := range ks {
				W[k] = fnShort(fn) + " @" + p.InstrPos(n.In)
			}
		}
	}
	// other functions of the executor that write; a helper that only the three writers call
	// (transitively) is part of them: its writes are seen in their graphs
	owned := map[*ssa.Function]bool{exec: true, initc: true, final: true}
	for changed := true; changed; {
		changed = false
		for _, fn := range p.Funcs {
			pk := fnPkg(fn)
			if pk == nil || pk.Pkg.Path() != kvPkg || owned[fn] || fn.Parent() != nil || (fn.Object() != nil && fn.Object().Exported()) {
				continue
			}
			callers := callersOf(p, fn)
			all := len(callers) > 0
			for _, cl := range callers {
				if !owned[topParent(cl)] {
					all = false
				}
			}
			if all {
				owned[fn] = true
				changed = true
			}
		}
	}
	for _, fn := range p.Funcs {
		pk := fnPkg(fn)
		if pk == nil || pk.Pkg.Path() != kvPkg || owned[fn] || fn.Parent() != nil {
			continue
		}
		for _, b := range fn.Blocks {
			for _, in := range b.Instrs {
				if call, ok := in.(*ssa.Call); ok {
					n := &Node{Kind: NInstr, In: call, Ctx: &Ctx{Fn: fn}}
					if dsCall(n, "Put") || dsCall(n, "Delete") {
						c.Bad("C15-R1", fnShort(fn)+" ⟂ unexpected-writer", fnName(fn), p.InstrPos(in), "the datastore is written outside InitChain / ExecuteTxs / SetFinal: the state root can depend on something other than executed transactions", nil)
					}
				}
			}
		}
	}
	// A reserved-key test is an equality (Key.Equal, ==, a switch case) between a reserved key
	// constant and a subject; the facts on the way to a write / to the hashed list say which
	// subjects were found different from which reserved keys.
	stripString := func(t *Term) *Term {
		t = t.unconv()
		for t.IsCall("go-datastore.Key).String") && len(t.Args) == 1 {
			t = t.Args[0].unconv()
		}
		return t
	}
	reservedOf := func(t *Term) string {
		t = stripString(t)
		if k := keyName(t); k != "" {
			return k
		}
		if t.Op == "const" {
			for _, v := range globals {
				if v == t.Name {
					return t.Name
				}
			}
		}
		return ""
	}
	type keyTest struct {
		key     string
		subject *Term
	}
	// distinctFrom: the tests that the facts establish as "subject differs from the reserved key"
	distinctFrom := func(facts FactSet) []keyTest {
		var out []keyTest
		seen := map[string]bool{}
		for _, f := range facts {
			t, pol := normFact(f.Cond, f.Pol)
			var a, b *Term
			switch {
			case t.IsCall("go-datastore.Key).Equal") && len(t.Args) == 2:
				a, b = t.Args[0], t.Args[1]
			case t.Op == "bin" && (t.Name == "==" || t.Name == "!="):
				a, b = t.Args[0], t.Args[1]
				if t.Name == "!=" {
					pol = !pol
				}
			default:
				continue
			}
			if pol {
				continue
			}
			for i, side := range []*Term{a, b} {
				other := []*Term{a, b}[1-i]
				if k := reservedOf(side); k != "" && reservedOf(other) == "" {
					id := k + "|" + stripString(other).String()
					if !seen[id] {
						seen[id] = true
						out = append(out, keyTest{k, stripString(other)})
					}
				}
			}
		}
		return out
	}
	guardFacts := func(g *Graph, target *Node) FactSet {
		facts := p.closeRejected(FactSet(g.NecessaryEdges(func(n *Node) bool { return n == target })), 2)
		return p.closeFacts(facts, 2)
	}
	// canonical form of a datastore key built from a string: NewKey(x) and x name the same
	// key only when x is already canonical (keys handed back by the datastore are)
	newKeyArg := func(t *Term) *Term {
		t = stripString(t)
		if t.IsCall("go-datastore.NewKey") && len(t.Args) == 1 {
			return t.Args[0].unconv()
		}
		return nil
	}

	// X: keys excluded from the root, with the subject being the key that enters the hashed list
	X := map[string]bool{}
	{
		g := BuildECFG(p, root, ExpandOpts{MaxDepth: 0})
		c.NoteGraph(g)
		apps := g.Select(func(n *Node) bool { return CallName(n) == "append" })
		if len(apps) == 1 {
			elem := ArgTerm(apps[0], 1)
			if elem != nil && elem.Op == "list" && len(elem.Args) == 1 {
				elem = elem.Args[0]
			}
			for _, kt := range distinctFrom(guardFacts(g, apps[0])) {
				s := kt.subject.String()
				if elem != nil && (s == elem.unconv().String() || (newKeyArg(kt.subject) != nil && newKeyArg(kt.subject).String() == elem.unconv().String())) {
					X[kt.key] = true
				} else {
					c.Bad("C15-R1", "computeStateRoot ⟂ test-examines-the-hashed-key ⟂ "+kt.key, fnName(root), p.InstrPos(apps[0].In), "the reserved-key test for "+kt.key+" examines "+trunc(s, 80)+" but the key entering the hashed list is "+trunc(elem.String(), 80), nil)
				}
			}
			if len(X) > 0 {
				c.OK("C15-R1", "computeStateRoot ⟂ excluded-keys-are-skipped", fnName(root), p.InstrPos(apps[0].In), fmt.Sprintf("a key enters the hashed list only after being found different from %v", sortedKeys(X)), true)
			} else {
				c.Bad("C15-R1", "computeStateRoot ⟂ excluded-keys-are-skipped", fnName(root), p.InstrPos(apps[0].In), "no reserved-key test guards the hashed key list", nil)
			}
		} else {
			c.Unk("C15-R1", "computeStateRoot ⟂ excluded-keys-are-skipped", fnName(root), "", fmt.Sprintf("anchor lost: %d appends", len(apps)))
		}
	}
	// R: keys a transaction may not write, with the subject being the key that is staged
	R := map[string]bool{}
	{
		g := BuildECFG(p, exec, ExpandOpts{MaxDepth: 2, Stop: func(f *ssa.Function) bool { return f == root }})
		c.NoteGraph(g)
		first := true
		for _, n := range g.Select(func(n *Node) bool { return dsCall(n, "Put") || dsCall(n, "Delete") }) {
			key := ArgTerm(n, 1)
			here := map[string]bool{}
			for _, kt := range distinctFrom(guardFacts(g, n)) {
				if stripString(key).String() == kt.subject.String() {
					here[kt.key] = true
				} else if newKeyArg(key) != nil && newKeyArg(key).String() == kt.subject.String() {
					c.Bad("C15-R1", "ExecuteTxs ⟂ test-examines-the-written-key ⟂ "+kt.key, fnName(exec), p.InstrPos(n.In), "the reserved-key test for "+kt.key+" examines the raw string "+trunc(kt.subject.String(), 60)+" but the key written is NewKey of it: a non-canonical spelling passes the test and is normalised onto the reserved key", nil)
				}
			}
			if first {
				R, first = here, false
			} else {
				for k := range R {
					if !here[k] {
						delete(R, k)
					}
				}
			}
		}
	}
	wk, xk, rk := sortedKeys(W), sortedKeys(X), sortedKeys(R)
	if len(wk) < 2 || len(xk) < 2 {
		c.Unk("C15-R1", "key-sets", "", "", fmt.Sprintf("anchor lost: written keys %v, excluded keys %v", wk, xk))
	}
	for _, k := range wk {
		if X[k] {
			c.OK("C15-R1", "written-outside-batch ⊆ excluded-from-root ⟂ "+k, "", W[k], "key "+k+" is excluded from the state root", true)
		} else {
			c.Bad("C15-R1", "written-outside-batch ⊆ excluded-from-root ⟂ "+k, "", W[k], "key "+k+" is written outside the transaction batch ("+W[k]+") but is hashed into the state root (excluded keys: "+strings.Join(xk, ",")+"): two nodes executing the same blocks but finalising/initialising at different times compute different roots", nil)
		}
	}
	if strings.Join(xk, ",") == strings.Join(rk, ",") {
		c.OK("C15-R1", "excluded-from-root = rejected-in-transactions", "", p.Pos(exec.Pos()), "both sets are "+strings.Join(xk, ","), true)
	} else {
		c.Bad("C15-R1", "excluded-from-root = rejected-in-transactions", "", p.Pos(exec.Pos()), fmt.Sprintf("keys excluded from the root %v differ from keys every staged write was found different from %v: a transaction could write a key that is not hashed, or a reserved key", xk, rk), nil)
	}
	{
		g := BuildECFG(p, root, ExpandOpts{MaxDepth: 0})
		apps := g.Select(func(n *Node) bool { return CallName(n) == "append" })
		if len(apps) != 1 {
			return
		}
		// a paged listing counts what it has seen, not what it kept: the Offset of a query in
		// the root computation must not be derived from the length of the list that the
		// reserved-key filter shortens (each filtered key would shift the next page back by one
		// and a hashed key would be listed twice)
		for _, b := range root.Blocks {
			for _, in := range b.Instrs {
				st, ok := in.(*ssa.Store)
				if !ok {
					continue
				}
				fa, ok := st.Addr.(*ssa.FieldAddr)
				if !ok || fieldLabel(fa.X.Type(), fa.Field) != "Offset" || !strings.HasSuffix(fa.X.Type().String(), "query.Query") {
					continue
				}
				ot := TermOf(st.Val, &Ctx{Fn: root})
				if ot.Op == "const" {
					continue
				}
				dependsOnKept := len(apps) == 1 && ot.Contains(func(x *Term) bool {
					return (x.IsCall("len") || (x.Op == "call" && x.Name == "len")) && len(x.Args) == 1 && strings.Contains(x.Args[0].String(), "append(") && rootOf(x.Args[0]) != nil
				})
				if dependsOnKept {
					c.Bad("C15-R3", "computeStateRoot ⟂ paging-offset-counts-entries-seen", fnName(root), p.InstrPos(in), "the query Offset is derived from the length of the filtered key list ("+trunc(ot.String(), 80)+"): every reserved key filtered out of a page shifts the next page back by one, a hashed key is listed twice, and the root depends on which bookkeeping keys exist", nil)
				} else {
					c.OK("C15-R3", "computeStateRoot ⟂ paging-offset-counts-entries-seen", fnName(root), p.InstrPos(in), "the paging offset does not depend on the filtered list", true)
				}
			}
		}
		// R3
		sorts := g.Select(IsCall("sort.Strings"))
		gets := g.Select(func(n *Node) bool { return dsCall(n, "Get") })
		if len(sorts) == 0 || len(gets) == 0 {
			c.Bad("C15-R3", "computeStateRoot ⟂ sorted", fnName(root), "", "the keys are not sorted before the values are read and concatenated: the root depends on datastore iteration order", nil)
		} else {
			c.Decide("C15-R3", "computeStateRoot ⟂ sorted", fnName(root), p.InstrPos(sorts[0].In), "keys are sorted before values are concatenated", "values can be concatenated before the keys are sorted", g, g.MustPrecede(nodeSet(sorts), nodeSet(gets)))
			if ArgTerm(sorts[0], 0).String() == ArgTerm(apps[0], 0).String() || strings.Contains(ArgTerm(sorts[0], 0).String(), "append(") {
				c.OK("C15-R3", "computeStateRoot ⟂ sorts-the-hashed-list", fnName(root), p.InstrPos(sorts[0].In), "the sorted slice is the list of hashed keys", true)
			} else {
				c.Bad("C15-R3", "computeStateRoot ⟂ sorts-the-hashed-list", fnName(root), p.InstrPos(sorts[0].In), "sort.Strings is not applied to the list of hashed keys", nil)
			}
		}
		// purity: every call is on k.db / results / pure helpers
		impure := []string{}
		for _, n := range g.Select(func(n *Node) bool { return CallCommonOf(n) != nil }) {
			cn := CallName(n)
			switch {
			case strings.HasPrefix(cn, "(github.com/ipfs/go-datastore"), strings.HasPrefix(cn, "github.com/ipfs/go-datastore"), strings.HasPrefix(cn, "(*strings.Builder)"), strings.HasPrefix(cn, "fmt."), cn == "sort.Strings", cn == "append", cn == "len", cn == "":
			case strings.HasPrefix(cn, "time.") || strings.HasPrefix(cn, "math/rand") || strings.HasPrefix(cn, "os."):
				impure = append(impure, cn)
			}
		}
		// field reads of the receiver other than db
		for _, b := range root.Blocks {
			for _, in := range b.Instrs {
				if fa, ok := in.(*ssa.FieldAddr); ok && fa.X == ssa.Value(root.Params[0]) {
					if name := fieldLabel(fa.X.Type(), fa.Field); name != "db" {
						impure = append(impure, "field "+name)
					}
				}
			}
		}
		sort.Strings(impure)
		if len(impure) == 0 {
			c.OK("C15-R3", "computeStateRoot ⟂ reads-only-the-datastore", fnName(root), p.Pos(root.Pos()), "no clock, randomness, file or receiver state other than db is read", true)
		} else {
			c.Bad("C15-R3", "computeStateRoot ⟂ reads-only-the-datastore", fnName(root), p.Pos(root.Pos()), "the state root reads "+strings.Join(impure, ", "), nil)
		}
	}
	// ---- R3 (cont.): what ExecuteTxs hands back is the root computed from the datastore in this
	// very call, on every success return (not a remembered one)
	{
		g := BuildECFG(p, exec, ExpandOpts{MaxDepth: 0})
		nret, bad := 0, ""
		for _, x := range g.Exits {
			if g.ExitClass(x) == rcA {
				continue
			}
			nret++
			t := TermOf(spilledResult(x.In.(*ssa.Return), 0), x.Ctx)
			fresh := false
			for _, leaf := range flattenPhi(t) {
				l := leaf
				if l.Op == "extract" {
					l = l.Args[0]
				}
				if cv, ok := l.V.(*ssa.Call); ok && l.Op == "call" && cv.Common().StaticCallee() == root {
					fresh = true
				} else if why := soundRootCache(p, leaf, root, exec, initc, final); why == "" {
					fresh = true // a remembered root that every writer of the datastore refreshes
				} else {
					fresh = false
					bad = trunc(leaf.String(), 80)
					break
				}
			}
			if !fresh && bad == "" {
				bad = trunc(t.String(), 80)
			}
		}
		switch {
		case nret == 0:
			c.Unk("C15-R3", "ExecuteTxs ⟂ returns-the-root-computed-in-this-call", fnName(exec), "", "anchor lost: no success return")
		case bad == "":
			c.OK("C15-R3", "ExecuteTxs ⟂ returns-the-root-computed-in-this-call", fnName(exec), p.Pos(exec.Pos()), "every success return hands back the result of the state-root function called in this execution", true)
		default:
			c.Bad("C15-R3", "ExecuteTxs ⟂ returns-the-root-computed-in-this-call", fnName(exec), p.Pos(exec.Pos()), "a success return hands back "+bad+", not the root computed from the datastore in this call: the root then depends on what the executor remembered (restarts, re-initialisation), not only on the executed transactions", nil)
		}
	}
	// ---- R2 (cont.): execution does not look at bookkeeping. ExecuteTxs reads none of the keys
	// that are written outside the transaction batch (initialisation marker, genesis root,
	// finalised height), and it reports success only after its batch was committed: whether and
	// how a block is applied must not depend on when the node finalised or initialised.
	{
		g := BuildECFG(p, exec, ExpandOpts{MaxDepth: 1, Stop: func(f *ssa.Function) bool { return f == root }})
		var reads []string
		for _, n := range g.Select(func(n *Node) bool { return dsCall(n, "Get") || dsCall(n, "Has") }) {
			if k := keyName(ArgTerm(n, 1)); k != "" && W[k] != "" {
				reads = append(reads, k+" @"+p.InstrPos(n.In))
			}
		}
		sort.Strings(reads)
		if len(reads) == 0 {
			c.OK("C15-R2", "ExecuteTxs ⟂ reads-no-bookkeeping-key", fnName(exec), p.Pos(exec.Pos()), "none of the keys written outside the transaction batch is read while executing", true)
		} else {
			c.Bad("C15-R2", "ExecuteTxs ⟂ reads-no-bookkeeping-key", fnName(exec), p.Pos(exec.Pos()), "execution reads "+strings.Join(reads, ", ")+", a key written outside the transaction batch (by finalisation / initialisation): what a block does to the state then depends on when the node finalised or initialised, not only on the transactions", nil)
		}
		commitOK := g.Select(ErrNilEdge(func(t *Term) bool { return t.Op == "invoke" && strings.HasSuffix(t.Name, ".Commit") }))
		if len(commitOK) == 0 {
			c.Bad("C15-R2", "ExecuteTxs ⟂ success-only-after-commit", fnName(exec), p.Pos(exec.Pos()), "the result of the batch Commit is not checked", nil)
		} else {
			// a block without transactions has nothing to commit
			txsName := exec.Params[2].Name()
			noTxs := g.Select(EdgeWhere(func(t *Term, pol bool, n *Node) bool {
				t, pol = normFact(t, pol)
				return pol && t.Op == "bin" && t.Name == "==" && t.Args[0].String() == "len("+txsName+")" && t.Args[1].Op == "const" && strings.HasPrefix(t.Args[1].Name, "0")
			}))
			c.Decide("C15-R2", "ExecuteTxs ⟂ success-only-after-commit", fnName(exec), p.InstrPos(commitOK[0].In), "every success return follows a successful Commit of the block's batch (or the block has no transactions)",
				"ExecuteTxs can report success without having committed the block's transactions (the block is silently not applied)", g,
				g.PathAvoiding([]*Node{g.Entry}, g.SuccessExits(), orPred(nodeSet(commitOK), nodeSet(noTxs))))
		}
	}
	// ---- R2
	{
		g := BuildECFG(p, exec, ExpandOpts{MaxDepth: 2, Stop: func(f *ssa.Function) bool { return f == root }})
		c.NoteGraph(g)
		fn := fnName(exec)
		var batchPuts, direct []*Node
		for _, n := range g.Select(func(n *Node) bool { return dsCall(n, "Put") || dsCall(n, "Delete") }) {
			r := RecvTerm(n)
			if r != nil && r.Op == "extract" && r.Args[0].Op == "invoke" && strings.HasSuffix(r.Args[0].Name, ".Batch") {
				batchPuts = append(batchPuts, n)
			} else {
				direct = append(direct, n)
			}
		}
		if len(direct) == 0 && len(batchPuts) > 0 {
			c.OK("C15-R2", "ExecuteTxs ⟂ batch-only", fn, p.InstrPos(batchPuts[0].In), "every write goes to the batch", true)
		} else {
			c.Bad("C15-R2", "ExecuteTxs ⟂ batch-only", fn, p.Pos(exec.Pos()), fmt.Sprintf("%d direct datastore writes in ExecuteTxs: a block with a malformed transaction could leave partial state", len(direct)), nil)
		}
		commits := g.Select(func(n *Node) bool { return dsCall(n, "Commit") })
		if len(commits) == 1 && len(batchPuts) > 0 {
			// no error return of the validation kind after commit: returns between puts and commit never pass commit (structural), and no put after commit
			c.Decide("C15-R2", "ExecuteTxs ⟂ no-write-after-commit", fn, p.InstrPos(commits[0].In), "the single Commit follows every staged write (it is not inside the per-transaction loop)", "a write can be staged after the batch was committed (Commit inside the per-transaction loop): a later malformed transaction leaves earlier ones applied", g, g.PathAvoiding(commits, nodeSet(batchPuts), nil))
		} else {
			c.Bad("C15-R2", "ExecuteTxs ⟂ single-commit", fn, p.Pos(exec.Pos()), fmt.Sprintf("%d Commit calls", len(commits)), nil)
		}
		txs := exec.Params[2].Name()
		for _, pn := range batchPuts {
			k, v := ArgTerm(pn, 1), ArgTerm(pn, 2)
			fromTx := func(t *Term) bool {
				return t.Contains(func(x *Term) bool { return x.Op == "index" && x.Args[0].String() == txs })
			}
			onlyTx := func(t *Term) bool {
				ok := true
				for _, l := range t.Leaves() {
					switch l.Op {
					case "const", "phi":
					case "param":
						if l.Name != txs {
							ok = false
						}
					default:
						ok = false
					}
				}
				return ok
			}
			if fromTx(k) && fromTx(v) && onlyTx(k) && onlyTx(v) {
				c.OK("C15-R2", "ExecuteTxs ⟂ keys-and-values-from-txs-only", fn, p.InstrPos(pn.In), "key and value are functions of the transaction bytes only", true)
			} else {
				c.Bad("C15-R2", "ExecuteTxs ⟂ keys-and-values-from-txs-only", fn, p.InstrPos(pn.In), "a staged key/value depends on something other than the transaction (height, time, previous root …): key="+trunc(k.String(), 80)+" value="+trunc(v.String(), 80), nil)
			}
		}
	}
	// ---- R5: whether a transaction is staged is decided by the transaction alone. A branch on
	// what the committed datastore holds (Get / Has / GetSize / Query of the executor's database)
	// from which the commit is reachable without any staged write means "this write was skipped
	// because of what is stored": the stored value is the state *before* the block, not the state
	// after the block's earlier transactions, so the outcome depends on how transactions are split
	// into blocks and on re-execution. (A skip that also consults a record of the block's own
	// staged writes — a map looked up on the way — is not reported.)
	{
		c.Doc("C15-R5", "GA+EO: no staged write of ExecuteTxs is skipped on account of what the committed datastore holds (a branch on a datastore read from which the commit is reached without a staged write), unless the block's own staged writes are consulted as well.")
		g := BuildECFG(p, exec, ExpandOpts{MaxDepth: 2, Stop: func(f *ssa.Function) bool { return f == root }})
		isStaged := func(n *Node) bool {
			if !(dsCall(n, "Put") || dsCall(n, "Delete")) {
				return false
			}
			r := RecvTerm(n)
			return r != nil && r.Op == "extract" && r.Args[0].Op == "invoke" && strings.HasSuffix(r.Args[0].Name, ".Batch")
		}
		commits := g.Select(func(n *Node) bool { return dsCall(n, "Commit") })
		readsStore := func(t *Term) bool {
			return t.Contains(func(x *Term) bool {
				if x.Op != "invoke" {
					return false
				}
				for _, m := range []string{".Get", ".Has", ".GetSize", ".Query"} {
					if strings.HasSuffix(x.Name, m) && strings.Contains(x.Name, "go-datastore") {
						return true
					}
				}
				return false
			})
		}
		hasLookup := func(t *Term) bool { return t.Contains(func(x *Term) bool { return x.Op == "lookup" }) }
		edges := g.Select(EdgeWhere(func(t *Term, pol bool, n *Node) bool { return readsStore(t) }))
		var bad []*Node
		nEdges := 0
		for _, e := range edges {
			e := e
			nEdges++
			path := g.PathAvoiding([]*Node{e}, nodeSet(commits), isStaged)
			if path == nil {
				continue
			}
			exempt := false
			if t, _ := CondTerm(e); t != nil && hasLookup(t) {
				exempt = true
			}
			for _, f := range g.NecessaryEdges(func(n *Node) bool { return n == e }) {
				if hasLookup(f.Cond) {
					exempt = true
				}
			}
			if !exempt && bad == nil {
				bad = path
			}
		}
		switch {
		case len(commits) == 0 || len(g.Select(isStaged)) == 0:
			c.Unk("C15-R5", "ExecuteTxs ⟂ no-write-skipped-on-stored-contents", fnName(exec), "", "anchor lost: no staged write or no commit in ExecuteTxs")
		default:
			c.Decide("C15-R5", "ExecuteTxs ⟂ no-write-skipped-on-stored-contents", fnName(exec), p.Pos(exec.Pos()),
				fmt.Sprintf("no branch on a read of the committed datastore (%d such branches) leads to the commit past the staged write", nEdges),
				"a branch on what the committed datastore holds reaches the commit without the staged write: the write of a transaction is skipped because of the state before the block, which the block's earlier transactions may already have changed — the resulting state depends on block boundaries and changes on re-execution", g, bad)
		}
	}
	// ---- R4: the genesis writes are guarded by the *presence* of a key that the guarded
	// region itself writes (a marker). A test on a stored value is not a marker: the genesis
	// state root of an empty chain is the empty string.
	{
		g := BuildECFG(p, initc, ExpandOpts{MaxDepth: 3})
		c.NoteGraph(g)
		puts := g.Select(func(n *Node) bool { return dsCall(n, "Put") })
		written := map[string]bool{}
		for _, pn := range puts {
			for _, k := range putKeys(pn) {
				written[k] = true
			}
		}
		// absent(f): the fact says "key K is not in the datastore"
		absent := func(f Fact) string {
			t, pol := normFact(f.Cond, f.Pol)
			// Has(K)#0 is false
			if t.Op == "extract" && t.Name == "0" && t.Args[0].Op == "invoke" && strings.HasSuffix(t.Args[0].Name, ".Has") && !pol && len(t.Args[0].Args) >= 3 {
				return keyName(t.Args[0].Args[2])
			}
			// errors.Is(Get(K)#1, ErrNotFound) is true
			if t.IsCall("errors.Is") && pol && len(t.Args) == 2 && t.Args[1].Op == "global" && strings.HasSuffix(t.Args[1].Name, "ErrNotFound") {
				e := t.Args[0]
				if e.Op == "extract" && e.Args[0].Op == "invoke" && strings.HasSuffix(e.Args[0].Name, ".Get") && len(e.Args[0].Args) >= 3 {
					return keyName(e.Args[0].Args[2])
				}
			}
			return ""
		}
		if len(puts) == 0 {
			c.Unk("C15-R4", "InitChain ⟂ idempotent", fnName(initc), "", "anchor lost: InitChain writes nothing")
		}
		okAll, why := len(puts) > 0, ""
		for _, pn := range puts {
			pn := pn
			marker := ""
			for _, f := range g.NecessaryEdges(func(n *Node) bool { return n == pn }) {
				if k := absent(f); k != "" && written[k] {
					marker = k
				}
			}
			if marker == "" {
				okAll = false
				why = "the write of " + trunc(ArgTerm(pn, 1).String(), 60) + " is not behind a test that a key written by InitChain itself is absent from the datastore (a test on a stored value is not a marker: the genesis root of an empty chain is empty)"
			}
		}
		// on an initialised chain the root handed back is the stored one: a returned value that is
		// recomputed from the current contents changes once blocks were executed
		{
			nInit, badRet := 0, ""
			for _, x := range g.Exits {
				if g.ExitClass(x) == rcA {
					continue
				}
				xx := x
				present := false
				for _, f := range g.NecessaryEdges(func(n *Node) bool { return n == xx }) {
					ff := Fact{Cond: f.Cond, Pol: !f.Pol}
					if k := absent(ff); k != "" && written[k] {
						present = true
					}
				}
				if !present {
					continue
				}
				nInit++
				t := TermOf(spilledResult(x.In.(*ssa.Return), 0), x.Ctx)
				for _, leaf := range flattenPhi(t) {
					l := leaf.unconv()
					fromStore := l.Op == "extract" && l.Args[0].Op == "invoke" && strings.HasSuffix(l.Args[0].Name, ".Get") && len(l.Args[0].Args) >= 3 && written[keyName(l.Args[0].Args[2])]
					if !fromStore {
						badRet = trunc(l.String(), 80)
					}
				}
			}
			switch {
			case nInit == 0:
				c.Unk("C15-R4", "InitChain ⟂ initialised→stored-root", fnName(initc), "", "anchor lost: no success return of InitChain behind the marker being present")
			case badRet == "":
				c.OK("C15-R4", "InitChain ⟂ initialised→stored-root", fnName(initc), p.Pos(initc.Pos()), "on an initialised chain InitChain returns the root it stored at genesis", true)
			default:
				c.Bad("C15-R4", "InitChain ⟂ initialised→stored-root", fnName(initc), p.Pos(initc.Pos()), "on an initialised chain InitChain returns "+badRet+" instead of the root stored at genesis: called again after blocks were executed (a restart before the first state write) it reports the current root as the genesis root", nil)
			}
		}
		// R8: the marker says "the genesis state is complete". It reaches the disk together with
		// what it vouches for (one batch, one commit), or after it: a marker written first, by a
		// write of its own, survives a crash that the genesis root does not — every later start
		// finds the chain "initialised" and fails to read its root.
		{
			markers := map[string]bool{}
			for _, pn := range puts {
				pn := pn
				for _, f := range g.NecessaryEdges(func(n *Node) bool { return n == pn }) {
					if k := absent(f); k != "" && written[k] {
						markers[k] = true
					}
				}
			}
			isBatchPut := func(n *Node) bool {
				r := RecvTerm(n)
				return r != nil && r.Op == "extract" && r.Args[0].Op == "invoke" && strings.HasSuffix(r.Args[0].Name, ".Batch")
			}
			var markerPuts, otherPuts []*Node
			allBatched := true
			for _, pn := range puts {
				if !isBatchPut(pn) {
					allBatched = false
				}
				isMarker, isOther := false, false
				for _, k := range putKeys(pn) {
					if markers[k] {
						isMarker = true
					} else {
						isOther = true
					}
				}
				if isMarker {
					markerPuts = append(markerPuts, pn)
				}
				if isOther || !isMarker {
					otherPuts = append(otherPuts, pn)
				}
			}
			commits := g.Select(func(n *Node) bool { return dsCall(n, "Commit") })
			inst := "InitChain ⟂ marker durable with or after what it vouches for"
			switch {
			case len(markerPuts) == 0 || len(otherPuts) == 0:
				c.OK("C15-R8", inst, fnName(initc), p.Pos(initc.Pos()), "InitChain writes a single genesis record", false)
			case allBatched && len(commits) == 1:
				c.OK("C15-R8", inst, fnName(initc), p.InstrPos(commits[0].In), "marker and genesis state are staged in one batch and committed once", true)
			default:
				c.Decide("C15-R8", inst, fnName(initc), p.InstrPos(markerPuts[0].In), "no genesis record is written after the marker",
					"the initialisation marker is written by a write of its own before another genesis record: a crash between the two leaves the chain marked initialised without its genesis root, and every later start fails in InitChain (\"initialized but failed to retrieve state root\") — the node can never be started again", g,
					g.PathAvoiding(markerPuts, nodeSet(otherPuts), nil))
			}
		}
		if okAll {
			c.OK("C15-R4", "InitChain ⟂ idempotent", fnName(initc), p.InstrPos(puts[0].In), "genesis keys are written only when a marker key that InitChain itself writes is absent", true)
		} else if len(puts) > 0 {
			c.Bad("C15-R4", "InitChain ⟂ idempotent", fnName(initc), p.InstrPos(puts[0].In), why+": a later InitChain recomputes and overwrites the genesis root from the current contents", nil)
		}
	}
	c.MinInstances("C15-R1", 5)
	c.MinInstances("C15-R2", 5)
	c.MinInstances("C15-R3", 4)
	c.MinInstances("C15-R4", 2)
	c.Doc("C15-R8", "EO: the initialisation marker of InitChain and the genesis records it vouches for are staged in one batch committed once, or the marker is written after them: never a marker on disk without the genesis root.")
	c.MinInstances("C15-R8", 1)
	ruleNoBatchUseAfterCommit(c, p, "C15-R9", kvPkg)
	ruleExecuteTakesBlockAsGiven(c, p, "C15-R10", exec)
	ruleOnDiskStoreOptionsDefault(c, c.Mod(ModRoot), "C15-R11")
	c.MinInstances("C15-R9", 2)
	c.MinInstances("C15-R5", 1)
	ruleFinalisationRepeatable(c, "C15-R6")
	ruleReexecutionAccepted(c, "C15-R7")
}

// soundRootCache: leaf is a load of a receiver field that remembers the state root. That is as
// good as recomputing iff (a) every store to the field, anywhere in the package, stores the
// result of the state-root function, and (b) in every function that commits or puts to the
// datastore, each such write is followed by a store to the field before the function returns
// successfully. Returns "" if sound, else the reason.
func soundRootCache(p *Prog, leaf *Term, root *ssa.Function, fns ...*ssa.Function) string {
	l := leaf.unconv()
	if l.Op != "field" || len(l.Args) != 1 || l.Args[0].Op != "param" {
		return "not a remembered root"
	}
	field := l.Name
	isFieldStore := func(n *Node) bool {
		st, ok := n.In.(*ssa.Store)
		if !ok {
			return false
		}
		fa, ok := st.Addr.(*ssa.FieldAddr)
		return ok && fieldLabel(fa.X.Type(), fa.Field) == field
	}
	for _, fn := range p.Funcs {
		pk := fnPkg(fn)
		if pk == nil || pk.Pkg.Path() != kvPkg {
			continue
		}
		for _, b := range fn.Blocks {
			for _, in := range b.Instrs {
				st, ok := in.(*ssa.Store)
				if !ok {
					continue
				}
				fa, ok := st.Addr.(*ssa.FieldAddr)
				if !ok || fieldLabel(fa.X.Type(), fa.Field) != field {
					continue
				}
				v := TermOf(st.Val, &Ctx{Fn: fn})
				okV := false
				for _, alt := range flattenPhi(v) {
					a := alt
					if a.Op == "extract" {
						a = a.Args[0]
					}
					cv, isCall := a.V.(*ssa.Call)
					okV = isCall && a.Op == "call" && cv.Common().StaticCallee() == root
					if !okV {
						return "the remembered root " + field + " is set in " + fnShort(fn) + " from " + trunc(alt.String(), 60) + ", not from the state-root function"
					}
				}
			}
		}
	}
	for _, fn := range fns {
		g := BuildECFG(p, fn, ExpandOpts{MaxDepth: 1, Stop: func(f *ssa.Function) bool { return f == root }})
		// only the transaction batch changes hashed keys (the keys written outside it are excluded
		// from the root: C15-R1)
		writes := g.Select(func(n *Node) bool { return dsCall(n, "Commit") })
		if len(writes) == 0 {
			continue
		}
		if g.PathAvoiding(writes, g.SuccessExits(), isFieldStore) != nil {
			return fnShort(fn) + " writes the datastore and can return without refreshing the remembered root " + field
		}
	}
	return ""
}

// ruleExecuteTakesBlockAsGiven (C15-R10): the transactions of a block are executed as the block
// lists them, and nothing but the block and the committed state decides the outcome. ExecuteTxs
// therefore neither reorders nor rewrites the list it is handed (a sort of an alias sorts the
// caller's slice), and reads nothing of the executor's mempool (the channel of injected
// transactions): a proposer with a non-empty mempool would compute another root than a full node.
func ruleExecuteTakesBlockAsGiven(c *Check, p *Prog, rule string, exec *ssa.Function) {
	c.Doc(rule, "VP+CS: in reach of ExecuteTxs no sorting / shuffling / reversing call and no element store is applied to the transaction list parameter (or a slice of it), and no channel field of the executor is received from, sent to or measured: the outcome depends on the block as given and the committed state only.")
	g := BuildECFG(p, exec, ownPkgOpts(kvPkg, 3))
	c.NoteGraph(g)
	var txsParam *ssa.Parameter
	for _, prm := range exec.Params {
		if prm.Type().String() == "[][]byte" {
			txsParam = prm
		}
	}
	if txsParam == nil {
		c.Unk(rule, "ExecuteTxs ⟂ list as given", fnName(exec), "", "anchor lost: the transaction list parameter")
		return
	}
	isList := func(t *Term) bool {
		for d := 0; d < 6 && t != nil; d++ {
			if t.V == ssa.Value(txsParam) {
				return true
			}
			switch {
			case (t.Op == "slice" || t.Op == "conv" || t.Op == "iface") && len(t.Args) > 0:
				t = t.Args[0]
			default:
				return false
			}
		}
		return false
	}
	bad := ""
	for _, n := range g.Nodes {
		if !g.Live()[n] || n.Kind != NInstr {
			continue
		}
		switch x := n.In.(type) {
		case ssa.CallInstruction:
			cn := CallName(n)
			reorders := strings.HasPrefix(cn, "sort.") && cn != "sort.Search" && !strings.HasPrefix(cn, "sort.Search") && !strings.HasSuffix(cn, "IsSorted") ||
				strings.HasPrefix(cn, "slices.Sort") || cn == "slices.Reverse" || strings.HasSuffix(cn, "rand.Shuffle") || strings.HasSuffix(cn, "Rand).Shuffle")
			if !reorders {
				continue
			}
			for i := range x.Common().Args {
				a := TermOf(x.Common().Args[i], n.Ctx)
				if a != nil && (isList(a) || p.DeepContains(a, isList, 1)) {
					bad = cn + " on the transaction list @" + p.InstrPos(n.In)
				}
			}
		case *ssa.Store:
			if ia, ok := x.Addr.(*ssa.IndexAddr); ok {
				if t := TermOf(ia.X, n.Ctx); t != nil && isList(t) {
					bad = "an element of the transaction list is overwritten @" + p.InstrPos(n.In)
				}
			}
		}
	}
	if bad == "" {
		c.OK(rule, "ExecuteTxs ⟂ list as given", fnName(exec), p.Pos(exec.Pos()), "the transaction list is neither reordered nor rewritten", true)
	} else {
		c.Bad(rule, "ExecuteTxs ⟂ list as given", fnName(exec), p.Pos(exec.Pos()), "ExecuteTxs changes the list it is handed ("+bad+"): the transactions are applied in another order than the block lists them (two writes of one key end differently), and the caller's slice — the block about to be saved and published — is reordered with it", nil)
	}
	// the mempool
	isChanField := func(v ssa.Value) bool {
		if ld, ok := v.(*ssa.UnOp); ok {
			if fa, ok := ld.X.(*ssa.FieldAddr); ok {
				if _, ok := fa.Type().(*types.Pointer).Elem().Underlying().(*types.Chan); ok {
					return true
				}
			}
		}
		return false
	}
	touch := ""
	for _, n := range g.Nodes {
		if !g.Live()[n] || n.Kind != NInstr {
			continue
		}
		switch x := n.In.(type) {
		case *ssa.UnOp:
			if x.Op == token.ARROW && isChanField(x.X) {
				touch = "receive @" + p.InstrPos(n.In)
			}
		case *ssa.Send:
			if isChanField(x.Chan) {
				touch = "send @" + p.InstrPos(n.In)
			}
		case *ssa.Select:
			for _, st := range x.States {
				if isChanField(st.Chan) {
					touch = "select @" + p.InstrPos(n.In)
				}
			}
		case *ssa.Call:
			if bi, ok := x.Common().Value.(*ssa.Builtin); ok && (bi.Name() == "len" || bi.Name() == "cap") && len(x.Common().Args) == 1 && isChanField(x.Common().Args[0]) {
				touch = bi.Name() + " @" + p.InstrPos(n.In)
			}
		}
	}
	if touch == "" {
		c.OK(rule, "ExecuteTxs ⟂ mempool untouched", fnName(exec), p.Pos(exec.Pos()), "no channel of the executor is read, written or measured while executing", true)
	} else {
		c.Bad(rule, "ExecuteTxs ⟂ mempool untouched", fnName(exec), p.Pos(exec.Pos()), "ExecuteTxs uses the executor's queue of injected transactions ("+touch+"): what it does then depends on the mempool, which a proposer has and a full node (or a re-execution) has not — the same block can give different roots", nil)
	}
	c.MinInstances(rule, 2)
}
