package main

import (
	"fmt"
	"sort"
	"strings"

	"golang.org/x/tools/go/ssa"
)

func init() {
	register("C15", &propDef{
		run: runC15,
		explanation: "Decides for the reference key-value executor: R1 every constant key written outside the transaction batch (chain initialisation, finalisation marker) is excluded from the state-root computation and rejected as a transaction key — the three key sets are read from the code and compared; " +
			"R2 in ExecuteTxs every write goes to one datastore batch whose keys and values derive only from the transactions, nothing is written directly, and the batch is committed once after the loop; " +
			"R3 the state root reads only the datastore and sorts the keys before concatenating; R4 the genesis keys are written only on the not-initialised edge.",
		notDecided:  "Equality of roots across instances for all histories (follows from R1–R3 plus datastore semantics; not claimed); mempool behaviour.",
		assumptions: []string{"go-datastore is an effect leaf; batch commit is atomic", "go/ssa"},
	})
}

const kvPkg = rootPath + "/apps/testapp/kv"

func runC15(c *Check) {
	p := c.Mod(ModTestapp)
	c.Doc("C15-R1", "CS+CT: written-outside-batch keys ⊆ keys excluded from the root = keys rejected in transactions.")
	c.Doc("C15-R2", "EO+VP: batch-only, tx-derived writes, single commit after the loop.")
	c.Doc("C15-R3", "VP: root purity and key sorting.")
	c.Doc("C15-R4", "GA: idempotent InitChain.")
	m := func(n string) *ssa.Function { return p.MustFunc("(*" + kvPkg + ".KVExecutor)." + n) }
	exec, initc, final := m("ExecuteTxs"), m("InitChain"), m("SetFinal")
	var root *ssa.Function
	for _, cal := range staticCalleesOf(p, exec) {
		for _, b := range cal.Blocks {
			for _, in := range b.Instrs {
				if call, ok := in.(*ssa.Call); ok && strings.HasPrefix(commonName(call.Common()), "(github.com/ipfs/go-datastore.") && strings.HasSuffix(commonName(call.Common()), ").Query") {
					root = cal
				}
			}
		}
	}
	if root == nil {
		c.Unk("C15-R3", "state-root-function", "", "", "anchor lost: the function ExecuteTxs calls to compute the state root")
		return
	}

	// global key variables -> string (from the package initialiser)
	globals := map[string]string{}
	if pk := p.Package(kvPkg); pk != nil {
		if initFn := pk.Func("init"); initFn != nil {
			for _, b := range initFn.Blocks {
				for _, in := range b.Instrs {
					st, ok := in.(*ssa.Store)
					if !ok {
						continue
					}
					gl, ok := st.Addr.(*ssa.Global)
					if !ok {
						continue
					}
					t := TermOf(st.Val, &Ctx{Fn: initFn})
					if t.IsCall("go-datastore.NewKey") && t.Args[0].Op == "const" {
						globals[globalName(gl)] = t.Args[0].Name
					}
				}
			}
		}
	}
	keyName := func(t *Term) string {
		t = t.unconv()
		if t.Op == "global" {
			if s, ok := globals[t.Name]; ok {
				return s
			}
			return "global:" + t.Name
		}
		if t.IsCall("go-datastore.NewKey") && t.Args[0].Op == "const" {
			return t.Args[0].Name
		}
		return ""
	}
	// W: constant keys written outside ExecuteTxs
	W := map[string]string{}
	for _, fn := range []*ssa.Function{initc, final} {
		g := BuildECFG(p, fn, ExpandOpts{MaxDepth: 1})
		c.NoteGraph(g)
		for _, n := range g.Select(func(n *Node) bool { return dsCall(n, "Put") }) {
			k := keyName(ArgTerm(n, 1))
			if k == "" {
				c.Bad("C15-R1", fnShort(fn)+" ⟂ non-constant-key", fnName(fn), p.InstrPos(n.In), "a key written outside the transaction batch is not a constant: it cannot be excluded from the state root: "+trunc(ArgTerm(n, 1).String(), 80), nil)
				continue
			}
			W[k] = fnShort(fn) + " @" + p.InstrPos(n.In)
		}
	}
	// other functions of the executor that write
	for _, fn := range p.Funcs {
		pk := fnPkg(fn)
		if pk == nil || pk.Pkg.Path() != kvPkg || fn == exec || fn == initc || fn == final || fn.Parent() != nil {
			continue
		}
		for _, b := range fn.Blocks {
			for _, in := range b.Instrs {
				if call, ok := in.(*ssa.Call); ok {
					n := &Node{Kind: NInstr, In: call, Ctx: &Ctx{Fn: fn}}
					if dsCall(n, "Put") || dsCall(n, "Delete") {
						c.Bad("C15-R1", fnShort(fn)+" ⟂ unexpected-writer", fnName(fn), p.InstrPos(in), "the datastore is written outside InitChain / ExecuteTxs / SetFinal: the state root can depend on something other than executed transactions", nil)
					}
				}
			}
		}
	}
	var equalOperands func(fn *ssa.Function) map[string]bool
	equalDepth := 0
	equalOperands = func(fn *ssa.Function) map[string]bool {
		out := map[string]bool{}
		// predicates of this package that the function calls (a guard moved into a helper)
		if equalDepth < 2 {
			equalDepth++
			for _, cal := range staticCalleesOf(p, fn) {
				if pk := fnPkg(cal); pk != nil && pk.Pkg.Path() == kvPkg && cal != root && cal.Signature.Results().Len() == 1 && isBoolType(cal.Signature.Results().At(0).Type()) {
					for k := range equalOperands(cal) {
						out[k] = true
					}
				}
			}
			equalDepth--
		}
		var bodies []*ssa.Function
		bodies = append(bodies, fn)
		bodies = append(bodies, fn.AnonFuncs...)
		for _, body := range bodies {
			for _, b := range body.Blocks {
				for _, in := range b.Instrs {
					call, ok := in.(*ssa.Call)
					if !ok || !strings.HasSuffix(commonName(call.Common()), "go-datastore.Key).Equal") {
						continue
					}
					t := TermOf(call, &Ctx{Fn: body})
					for _, a := range t.Args {
						if k := keyName(a); k != "" {
							out[k] = true
						}
					}
				}
			}
		}
		return out
	}
	X, R := equalOperands(root), equalOperands(exec)
	wk, xk, rk := sortedKeys(W), sortedKeys(X), sortedKeys(R)
	if len(wk) < 2 || len(xk) < 2 {
		c.Unk("C15-R1", "key-sets", "", "", fmt.Sprintf("anchor lost: written keys %v, excluded keys %v", wk, xk))
	}
	for _, k := range wk {
		if X[k] {
			c.OK("C15-R1", "written-outside-batch ⊆ excluded-from-root ⟂ "+k, "", W[k], "key "+k+" is excluded from the state root", true)
		} else {
			c.Bad("C15-R1", "written-outside-batch ⊆ excluded-from-root ⟂ "+k, "", W[k], "key "+k+" is written outside the transaction batch ("+W[k]+") but is hashed into the state root (excluded keys: "+strings.Join(xk, ",")+"): two nodes executing the same blocks but finalising/initialising at different times compute different roots", nil)
		}
	}
	if strings.Join(xk, ",") == strings.Join(rk, ",") {
		c.OK("C15-R1", "excluded-from-root = rejected-in-transactions", "", p.Pos(exec.Pos()), "both sets are "+strings.Join(xk, ","), true)
	} else {
		c.Bad("C15-R1", "excluded-from-root = rejected-in-transactions", "", p.Pos(exec.Pos()), fmt.Sprintf("keys excluded from the root %v differ from keys transactions may not write %v: a transaction could write a key that is not hashed, or a reserved key", xk, rk), nil)
	}
	// the exclusion really skips the key: the append of a key is behind the false edges of all Equal tests
	{
		g := BuildECFG(p, root, ExpandOpts{MaxDepth: 0})
		c.NoteGraph(g)
		apps := g.Select(func(n *Node) bool { return CallName(n) == "append" })
		eqFalse := g.Select(EdgeWhere(func(t *Term, pol bool, n *Node) bool {
			t, pol = normFact(t, pol)
			return !pol && t.IsCall("go-datastore.Key).Equal")
		}))
		nEq := 0
		for _, b := range root.Blocks {
			for _, in := range b.Instrs {
				if call, ok := in.(*ssa.Call); ok && strings.HasSuffix(commonName(call.Common()), "go-datastore.Key).Equal") {
					nEq++
				}
			}
		}
		nEq = len(X)
		if len(apps) == 1 {
			facts := FactSet(g.NecessaryEdges(nodeSet(apps)))
			// a rejected predicate helper contributes the facts common to all its rejecting alternatives
			for _, f := range append(FactSet{}, facts...) {
				if f.Pol || f.Cond.Op != "call" {
					continue
				}
				if cv, ok := f.Cond.V.(*ssa.Call); ok && cv.Common().StaticCallee() != nil && p.InRepo(cv.Common().StaticCallee()) {
					callee := cv.Common().StaticCallee()
					alts := p.RejectDNF(callee, &Ctx{Parent: f.Cond.Ctx, Site: cv, Fn: callee}, 0, 1)
					facts = append(facts, intersectFacts(alts)...)
				}
			}
			got := 0
			seenEq := map[string]bool{}
			for _, f := range facts {
				if !f.Pol && f.Cond.IsCall("go-datastore.Key).Equal") && !seenEq[f.Cond.String()] {
					seenEq[f.Cond.String()] = true
					got++
				}
			}
			if got == nEq && nEq > 0 {
				c.OK("C15-R1", "computeStateRoot ⟂ excluded-keys-are-skipped", fnName(root), p.InstrPos(apps[0].In), fmt.Sprintf("a key enters the hashed list only behind the false edges of all %d reserved-key tests", nEq), true)
			} else {
				c.Bad("C15-R1", "computeStateRoot ⟂ excluded-keys-are-skipped", fnName(root), p.InstrPos(apps[0].In), fmt.Sprintf("only %d of %d reserved-key tests guard the hashed key list", got, nEq), nil)
			}
		} else {
			c.Unk("C15-R1", "computeStateRoot ⟂ excluded-keys-are-skipped", fnName(root), "", fmt.Sprintf("anchor lost: %d appends", len(apps)))
		}
		_ = eqFalse
		// R3
		sorts := g.Select(IsCall("sort.Strings"))
		gets := g.Select(func(n *Node) bool { return dsCall(n, "Get") })
		if len(sorts) == 0 || len(gets) == 0 {
			c.Bad("C15-R3", "computeStateRoot ⟂ sorted", fnName(root), "", "the keys are not sorted before the values are read and concatenated: the root depends on datastore iteration order", nil)
		} else {
			c.Decide("C15-R3", "computeStateRoot ⟂ sorted", fnName(root), p.InstrPos(sorts[0].In), "keys are sorted before values are concatenated", "values can be concatenated before the keys are sorted", g, g.MustPrecede(nodeSet(sorts), nodeSet(gets)))
			if ArgTerm(sorts[0], 0).String() == ArgTerm(apps[0], 0).String() || strings.Contains(ArgTerm(sorts[0], 0).String(), "append(") {
				c.OK("C15-R3", "computeStateRoot ⟂ sorts-the-hashed-list", fnName(root), p.InstrPos(sorts[0].In), "the sorted slice is the list of hashed keys", true)
			} else {
				c.Bad("C15-R3", "computeStateRoot ⟂ sorts-the-hashed-list", fnName(root), p.InstrPos(sorts[0].In), "sort.Strings is not applied to the list of hashed keys", nil)
			}
		}
		// purity: every call is on k.db / results / pure helpers
		impure := []string{}
		for _, n := range g.Select(func(n *Node) bool { return CallCommonOf(n) != nil }) {
			cn := CallName(n)
			switch {
			case strings.HasPrefix(cn, "(github.com/ipfs/go-datastore"), strings.HasPrefix(cn, "github.com/ipfs/go-datastore"), strings.HasPrefix(cn, "(*strings.Builder)"), strings.HasPrefix(cn, "fmt."), cn == "sort.Strings", cn == "append", cn == "len", cn == "":
			case strings.HasPrefix(cn, "time.") || strings.HasPrefix(cn, "math/rand") || strings.HasPrefix(cn, "os."):
				impure = append(impure, cn)
			}
		}
		// field reads of the receiver other than db
		for _, b := range root.Blocks {
			for _, in := range b.Instrs {
				if fa, ok := in.(*ssa.FieldAddr); ok && fa.X == ssa.Value(root.Params[0]) {
					if name := derefStruct(fa.X.Type()).Field(fa.Field).Name(); name != "db" {
						impure = append(impure, "field "+name)
					}
				}
			}
		}
		sort.Strings(impure)
		if len(impure) == 0 {
			c.OK("C15-R3", "computeStateRoot ⟂ reads-only-the-datastore", fnName(root), p.Pos(root.Pos()), "no clock, randomness, file or receiver state other than db is read", true)
		} else {
			c.Bad("C15-R3", "computeStateRoot ⟂ reads-only-the-datastore", fnName(root), p.Pos(root.Pos()), "the state root reads "+strings.Join(impure, ", "), nil)
		}
	}
	// ---- R2
	{
		g := BuildECFG(p, exec, ExpandOpts{MaxDepth: 2, Stop: func(f *ssa.Function) bool { return f == root }})
		c.NoteGraph(g)
		fn := fnName(exec)
		var batchPuts, direct []*Node
		for _, n := range g.Select(func(n *Node) bool { return dsCall(n, "Put") || dsCall(n, "Delete") }) {
			r := RecvTerm(n)
			if r != nil && r.Op == "extract" && r.Args[0].Op == "invoke" && strings.HasSuffix(r.Args[0].Name, ".Batch") {
				batchPuts = append(batchPuts, n)
			} else {
				direct = append(direct, n)
			}
		}
		if len(direct) == 0 && len(batchPuts) > 0 {
			c.OK("C15-R2", "ExecuteTxs ⟂ batch-only", fn, p.InstrPos(batchPuts[0].In), "every write goes to the batch", true)
		} else {
			c.Bad("C15-R2", "ExecuteTxs ⟂ batch-only", fn, p.Pos(exec.Pos()), fmt.Sprintf("%d direct datastore writes in ExecuteTxs: a block with a malformed transaction could leave partial state", len(direct)), nil)
		}
		commits := g.Select(func(n *Node) bool { return dsCall(n, "Commit") })
		if len(commits) == 1 && len(batchPuts) > 0 {
			// no error return of the validation kind after commit: returns between puts and commit never pass commit (structural), and no put after commit
			c.Decide("C15-R2", "ExecuteTxs ⟂ no-write-after-commit", fn, p.InstrPos(commits[0].In), "the single Commit follows every staged write (it is not inside the per-transaction loop)", "a write can be staged after the batch was committed (Commit inside the per-transaction loop): a later malformed transaction leaves earlier ones applied", g, g.PathAvoiding(commits, nodeSet(batchPuts), nil))
		} else {
			c.Bad("C15-R2", "ExecuteTxs ⟂ single-commit", fn, p.Pos(exec.Pos()), fmt.Sprintf("%d Commit calls", len(commits)), nil)
		}
		txs := exec.Params[2].Name()
		for _, pn := range batchPuts {
			k, v := ArgTerm(pn, 1), ArgTerm(pn, 2)
			fromTx := func(t *Term) bool {
				return t.Contains(func(x *Term) bool { return x.Op == "index" && x.Args[0].String() == txs })
			}
			onlyTx := func(t *Term) bool {
				ok := true
				for _, l := range t.Leaves() {
					switch l.Op {
					case "const", "phi":
					case "param":
						if l.Name != txs {
							ok = false
						}
					default:
						ok = false
					}
				}
				return ok
			}
			if fromTx(k) && fromTx(v) && onlyTx(k) && onlyTx(v) {
				c.OK("C15-R2", "ExecuteTxs ⟂ keys-and-values-from-txs-only", fn, p.InstrPos(pn.In), "key and value are functions of the transaction bytes only", true)
			} else {
				c.Bad("C15-R2", "ExecuteTxs ⟂ keys-and-values-from-txs-only", fn, p.InstrPos(pn.In), "a staged key/value depends on something other than the transaction (height, time, previous root …): key="+trunc(k.String(), 80)+" value="+trunc(v.String(), 80), nil)
			}
		}
	}
	// ---- R4
	{
		g := BuildECFG(p, initc, ExpandOpts{MaxDepth: 0})
		c.NoteGraph(g)
		puts := g.Select(func(n *Node) bool { return dsCall(n, "Put") })
		notInit := g.Select(EdgeWhere(func(t *Term, pol bool, n *Node) bool {
			t, pol = normFact(t, pol)
			return !pol && t.Op == "extract" && t.Name == "0" && t.Args[0].Op == "invoke" && strings.HasSuffix(t.Args[0].Name, ".Has") && strings.Contains(t.Args[0].String(), "genesisInitializedKey")
		}))
		if len(puts) == 0 || len(notInit) == 0 {
			c.Bad("C15-R4", "InitChain ⟂ idempotent", fnName(initc), p.Pos(initc.Pos()), "no branch on Has(genesis-initialised key) guarding the genesis writes", nil)
		} else {
			c.Decide("C15-R4", "InitChain ⟂ idempotent", fnName(initc), p.InstrPos(puts[0].In), "genesis keys are written only when the chain is not initialised yet", "genesis keys can be rewritten on an initialised chain", g, g.MustPrecede(nodeSet(notInit), nodeSet(puts)))
		}
	}
	c.MinInstances("C15-R1", 5)
	c.MinInstances("C15-R2", 3)
	c.MinInstances("C15-R3", 3)
	c.MinInstances("C15-R4", 1)
}
