package main

import (
	"go/types"
	"sort"
	"strings"

	"golang.org/x/tools/go/ssa"
)

// The in-repository implementations of the DA interface (the in-process DummyDA a based app falls
// back to, and the local DA server) are what real components run against; the properties that
// quantify over "the DA layer" rely on three things every implementation keeps.

func daImplFuncs(ps []*Prog, method string) []daFn {
	var out []daFn
	seen := map[string]bool{}
	for _, p := range ps {
		for _, fn := range p.Funcs {
			if fn.Blocks == nil || fn.Signature.Recv() == nil || fn.Name() != method {
				continue
			}
			pk := fnPkg(fn)
			if pk == nil || !strings.HasPrefix(pk.Pkg.Path(), rootPath) || strings.Contains(pk.Pkg.Path(), "/jsonrpc") || strings.Contains(pk.Pkg.Path(), "/mocks") || strings.Contains(pk.Pkg.Path(), "/test/") {
				continue
			}
			// a DA implementation: the receiver type has GetIDs and SubmitWithOptions
			rt := fn.Signature.Recv().Type()
			ms := types.NewMethodSet(rt)
			if ms.Lookup(nil, "GetIDs") == nil || ms.Lookup(nil, "SubmitWithOptions") == nil || ms.Lookup(nil, "Validate") == nil {
				continue
			}
			if seen[fnName(fn)] {
				continue
			}
			seen[fnName(fn)] = true
			out = append(out, daFn{p, fn})
		}
	}
	sort.Slice(out, func(i, j int) bool { return fnName(out[i].fn) < fnName(out[j].fn) })
	return out
}

type daFn struct {
	p  *Prog
	fn *ssa.Function
}

// ruleDAHeightsServedAreClosed (C20-R17 = C02-R18): a scan reads a DA height once and moves on. A
// DA implementation therefore lists a height only when it is closed — at or below its current
// height, which submissions are filed above: every non-error return of GetIDs is behind the
// not-from-the-future edge of the height test.
func ruleDAHeightsServedAreClosed(c *Check, ps []*Prog, rule string) {
	c.Doc(rule, "GA: in every DA implementation of the repository each non-error return of GetIDs is behind the false edge of `height > current height` (a height that can still receive blobs is answered with height-from-future, never listed): a scan that has read a height never has to come back to it.")
	n := 0
	for _, df := range daImplFuncs(ps, "GetIDs") {
		p, fn := df.p, df.fn
		g := BuildECFG(p, fn, ExpandOpts{MaxDepth: 0})
		c.NoteGraph(g)
		var hp *ssa.Parameter
		for _, prm := range fn.Params[1:] {
			if bt, ok := prm.Type().Underlying().(*types.Basic); ok && bt.Kind() == types.Uint64 {
				hp = prm
			}
		}
		if hp == nil {
			continue
		}
		closed := g.Select(EdgeWhere(func(t *Term, pol bool, _ *Node) bool {
			a, op, b, ok := canonCmp(t, pol)
			if !ok {
				return false
			}
			a, b = a.unconv(), b.unconv()
			isH := func(x *Term) bool { return x.V == ssa.Value(hp) }
			isCur := func(x *Term) bool {
				return x.Op == "field" || x.Op == "load" || (x.Op == "call" && strings.Contains(x.Name, "Load"))
			}
			// height <= current, or current >= height
			return (op == "<=" && isH(a) && isCur(b)) || (op == ">=" && isCur(a) && isH(b))
		}))
		var okExits []*Node
		for _, x := range g.Exits {
			if g.ExitClass(x) != rcA {
				okExits = append(okExits, x)
			}
		}
		n++
		inst := fnShort(fn) + " ⟂ lists only closed heights"
		if len(closed) == 0 {
			c.Bad(rule, inst, fnName(fn), p.Pos(fn.Pos()), "GetIDs has no test of the requested height against the current height: it lists heights that can still receive blobs", nil)
			continue
		}
		c.Decide(rule, inst, fnName(fn), p.InstrPos(closed[0].In), "every non-error return is behind height <= current height",
			"GetIDs can answer for a height above the current one (the future-height test is made only on some paths, for example only when the height has no blobs yet): submissions are filed under current height + 1, so a scan is shown that open height, takes what is there, moves its position past it — and a blob submitted to the same height afterwards is never released", g,
			g.PathAvoiding([]*Node{g.Entry}, nodeSet(okExits), nodeSet(closed)))
	}
	if n == 0 {
		c.Unk(rule, "anchor-count", "", "", "anchor lost: no DA implementation with GetIDs")
	}
}

// ruleDASubmitTakesAPrefix (C11-R11 = C06-R13 = C16-R11): what a DA implementation accepts of a
// submission is a prefix of it — callers (the submitter, the based sequencer) read the number of
// returned ids as a prefix length and go on with blobs[n:]. After the first blob that does not
// fit, nothing more is taken.
func ruleDASubmitTakesAPrefix(c *Check, ps []*Prog, rule string) {
	c.Doc(rule, "EO: in every DA implementation of the repository, after the edge on which the cumulative size test refuses a blob, no further id is appended (the accepted blobs are a prefix of the submission: the callers continue with blobs[len(ids):]).")
	n := 0
	for _, df := range daImplFuncs(ps, "SubmitWithOptions") {
		p, fn := df.p, df.fn
		g := BuildECFG(p, fn, ownPkgOpts(fnPkg(fn).Pkg.Path(), 1))
		c.NoteGraph(g)
		apps := g.Select(func(x *Node) bool {
			if CallName(x) != "append" {
				return false
			}
			v, ok := x.In.(ssa.Value)
			return ok && strings.HasSuffix(v.Type().String(), "[]"+rootPath+"/core/da.ID") || ok && strings.HasSuffix(v.Type().String(), "[][]byte")
		})
		// the cumulative test: (running + len) > limit, true edge
		misfit := g.Select(EdgeWhere(func(t *Term, pol bool, _ *Node) bool {
			a, op, b, ok := canonCmp(t, pol)
			if !ok || op != "<" {
				return false
			}
			// limit < running + len
			b = b.unconv()
			_ = a
			return b.Op == "bin" && b.Name == "+" && strings.Contains(b.String(), "len(")
		}))
		if len(apps) == 0 || len(misfit) == 0 {
			continue // an implementation without a cumulative limit takes everything
		}
		// the appends of the loop that makes the test (what is done with the ids after the loop is not acceptance)
		hdr := loopHeaderOf(misfit[0].In.Block())
		var inLoop []*Node
		for _, a := range apps {
			if hdr != nil && a.Ctx == misfit[0].Ctx && (loopHeaderOf(a.In.Block()) == hdr || a.In.Block() == hdr) {
				inLoop = append(inLoop, a)
			}
		}
		if len(inLoop) == 0 {
			continue
		}
		apps = inLoop
		n++
		c.Decide(rule, fnShort(fn)+" ⟂ accepts a prefix", fnName(fn), p.InstrPos(misfit[0].In), "after the first blob that does not fit nothing more is accepted",
			"after a blob was refused by the cumulative size test a later blob can still be accepted (continue instead of break): the returned ids are not those of a prefix, the caller takes their number for a prefix length — the blob that was passed over is marked submitted and never reaches the DA layer, and a later one is submitted twice", g,
			g.PathAvoiding(misfit, nodeSet(apps), nil))
	}
	if n == 0 {
		c.OK(rule, "DA implementations ⟂ no cumulative limit", "", "", "no DA implementation of the repository cuts a submission by cumulative size", false)
	}
}

// ruleDAErrorsKeepSentinelText (C16-R12): only the message of an error crosses the JSON-RPC
// transport, and the client recognises the classes by the text of the DA sentinels. An error a DA
// implementation returns is therefore a sentinel itself, or built by fmt.Errorf / errors.New /
// errors.Join (a %w of a sentinel keeps its text): an error type of its own with its own Error()
// reads the same in-process (errors.Is through Unwrap) and differently through the proxy.
func ruleDAErrorsKeepSentinelText(c *Check, ps []*Prog, rule string) {
	c.Doc(rule, "VP: no method of a DA implementation of the repository returns, as its error, a value of a named error type declared in the repository (only sentinels and errors built by fmt.Errorf / errors.New / errors.Join, whose text includes the wrapped sentinel's): the class survives a transport that carries the message only.")
	n := 0
	for _, m := range []string{"SubmitWithOptions", "Submit", "GetIDs", "Get", "GetProofs", "Commit", "Validate"} {
		for _, df := range daImplFuncs(ps, m) {
			p, fn := df.p, df.fn
			n++
			bad := ""
			for _, b := range fn.Blocks {
				ret, ok := b.Instrs[len(b.Instrs)-1].(*ssa.Return)
				if !ok || len(ret.Results) == 0 {
					continue
				}
				ev := spilledResult(ret, len(ret.Results)-1)
				var check func(v ssa.Value, d int)
				check = func(v ssa.Value, d int) {
					if v == nil || d > 4 {
						return
					}
					switch x := v.(type) {
					case *ssa.Phi:
						for _, e := range x.Edges {
							check(e, d+1)
						}
					case *ssa.MakeInterface:
						t := x.X.Type()
						if pt, ok := t.(*types.Pointer); ok {
							t = pt.Elem()
						}
						if nt, ok := t.(*types.Named); ok && nt.Obj().Pkg() != nil && strings.HasPrefix(nt.Obj().Pkg().Path(), rootPath) {
							bad = nt.Obj().Name() + " @" + p.InstrPos(ret)
						}
					}
				}
				check(ev, 0)
			}
			inst := fnShort(fn) + " ⟂ errors keep the sentinel's text"
			if bad == "" {
				c.OK(rule, inst, fnName(fn), p.Pos(fn.Pos()), "no error type of the repository's own is returned", true)
			} else {
				c.Bad(rule, inst, fnName(fn), p.Pos(fn.Pos()), "the method returns an error of the repository's own type "+bad+": in-process callers classify it through errors.Is / Unwrap, but only its message crosses the JSON-RPC transport, and a message of its own does not contain the sentinel's text — the same failure is 'too big' in-process and a generic error through the proxy", nil)
			}
		}
	}
	if n == 0 {
		c.Unk(rule, "anchor-count", "", "", "anchor lost: no DA implementation methods")
	}
}
