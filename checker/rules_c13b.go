package main

import (
	"fmt"
	"go/types"
	"sort"
	"strings"

	"golang.org/x/tools/go/ssa"
)

// ruleStructLocksets (C13-R11): guarded-by consistency for every struct type of the repository
// that owns a mutex (the block manager has its own, root-aware rule C13-R1). A field is *guarded*
// when some method writes it with the struct's mutex held (the code states the belief "this field
// is shared"); every other access to a guarded field — read or write, in any function of any
// loaded module — must then hold that mutex too, locally or at every call site of the enclosing
// unexported helper. Accesses to an object still under construction (the struct is a local
// allocation of the accessing function) are not accesses to shared state.
func ruleStructLocksets(c *Check, rule string, progs []*Prog) {
	type access struct {
		p     *Prog
		fn    *ssa.Function
		in    *ssa.FieldAddr
		write bool
	}
	type owner struct {
		named *types.Named
		mus   []string // labels of the mutex fields
		acc   map[string][]access
		ftype map[string]types.Type
	}
	isMutex := func(t types.Type) bool {
		s := strings.TrimPrefix(t.String(), "*")
		return s == "sync.Mutex" || s == "sync.RWMutex"
	}
	owners := map[string]*owner{}
	seenAcc := map[string]bool{}
	for _, p := range progs {
		for _, fn := range p.Funcs {
			pk := fnPkg(fn)
			if pk == nil || !strings.HasPrefix(pk.Pkg.Path(), rootPath) || fn.Blocks == nil {
				continue
			}
			pp := pk.Pkg.Path()
			if strings.Contains(pp, "/test/") || strings.Contains(pp, "/mocks") || strings.HasSuffix(pp, "/bench") {
				continue
			}
			for _, b := range fn.Blocks {
				for ii, in := range b.Instrs {
					fa, ok := in.(*ssa.FieldAddr)
					if !ok {
						continue
					}
					nt, ok := derefType(fa.X.Type()).(*types.Named)
					if !ok {
						continue
					}
					st, ok := nt.Underlying().(*types.Struct)
					if !ok {
						continue
					}
					key := nt.Origin().String()
					if key == rootPath+"/block.Manager" {
						continue // C13-R1
					}
					o := owners[key]
					if o == nil {
						var mus []string
						for i := 0; i < st.NumFields(); i++ {
							if isMutex(st.Field(i).Type()) {
								mus = append(mus, fieldLabel(fa.X.Type(), i))
							}
						}
						if len(mus) == 0 {
							owners[key] = &owner{}
							continue
						}
						o = &owner{named: nt, mus: mus, acc: map[string][]access{}, ftype: map[string]types.Type{}}
						owners[key] = o
					}
					if o.named == nil {
						continue
					}
					ft := st.Field(fa.Field).Type()
					if isMutex(ft) || selfSync(ft) {
						continue
					}
					if al, isAl := fa.X.(*ssa.Alloc); isAl {
						_ = al
						continue // under construction
					}
					ak := fmt.Sprintf("%s|%s|%d|%d|%d", p.InstrPos(fa), fnName(fn), fa.Field, b.Index, ii)
					if seenAcc[ak] {
						continue // the same source function loaded in another module's program
					}
					seenAcc[ak] = true
					label := fieldLabel(fa.X.Type(), fa.Field)
					o.ftype[label] = ft
					o.acc[label] = append(o.acc[label], access{p, fn, fa, fieldAddrWritten(fa)})
				}
			}
		}
	}
	nGuarded := 0
	for _, key := range sortedKeys(owners) {
		o := owners[key]
		if o.named == nil {
			continue
		}
		for _, label := range sortedKeys(o.acc) {
			as := o.acc[label]
			// which mutex guards it: one under which some write happens
			held := func(a access) string {
				for _, mu := range o.mus {
					if lockHeldInterproc(a.p, a.fn, a.in, mu, 3) {
						return mu
					}
				}
				return ""
			}
			guard := ""
			anyWrite := false
			for _, a := range as {
				if a.write {
					anyWrite = true
					if mu := held(a); mu != "" {
						guard = mu
					}
				}
			}
			if !anyWrite || guard == "" {
				continue // immutable after construction, or never written under the mutex: no stated belief
			}
			nGuarded++
			var unguarded []string
			for _, a := range as {
				if !lockHeldInterproc(a.p, a.fn, a.in, guard, 3) {
					kind := "read"
					if a.write {
						kind = "write"
					}
					unguarded = append(unguarded, kind+" in "+fnShort(a.fn)+"@"+a.p.InstrPos(a.in))
				}
			}
			sort.Strings(unguarded)
			inst := shortName(key) + "." + label + " ⟂ guarded by " + guard
			pos := as[0].p.InstrPos(as[0].in)
			if len(unguarded) == 0 {
				c.OK(rule, inst, "", pos, fmt.Sprintf("written under %s; all %d accesses outside construction hold it (locally or at every call site)", guard, len(as)), true)
			} else {
				c.Bad(rule, inst, "", pos, fmt.Sprintf("the field is written with %s held (so it is shared between goroutines) but accessed without it at: %s — a data race with the guarded writers", guard, strings.Join(unguarded, ", ")), nil)
			}
		}
	}
	if nGuarded == 0 {
		c.Unk(rule, "guarded-fields", "", "", "anchor lost: no field written under its struct's mutex found")
	}
}

// fieldAddrWritten: the address is stored to, or a nested element/field of it is, or the map /
// slice it holds is updated in place.
func fieldAddrWritten(fa *ssa.FieldAddr) bool {
	var addrWritten func(v ssa.Value, depth int) bool
	addrWritten = func(v ssa.Value, depth int) bool {
		if depth > 3 || v.Referrers() == nil {
			return false
		}
		for _, r := range *v.Referrers() {
			switch x := r.(type) {
			case *ssa.Store:
				if x.Addr == v {
					return true
				}
			case *ssa.FieldAddr:
				if x.X == v && addrWritten(x, depth+1) {
					return true
				}
			case *ssa.IndexAddr:
				if x.X == v && addrWritten(x, depth+1) {
					return true
				}
			case *ssa.UnOp:
				// a load of a map / slice / pointer held in the field, then updated in place
				if x.X != v || x.Referrers() == nil {
					continue
				}
				for _, rr := range *x.Referrers() {
					switch y := rr.(type) {
					case *ssa.MapUpdate:
						if y.Map == ssa.Value(x) {
							return true
						}
					case *ssa.IndexAddr:
						if y.X == ssa.Value(x) && addrWritten(y, depth+1) {
							return true
						}
					case *ssa.Call:
						if bi, ok := y.Call.Value.(*ssa.Builtin); ok && (bi.Name() == "delete" || bi.Name() == "clear") && len(y.Call.Args) > 0 && y.Call.Args[0] == ssa.Value(x) {
							return true
						}
					}
				}
			}
		}
		return false
	}
	return addrWritten(fa, 0)
}
