package main

import (
	"fmt"
	"go/token"
	"go/types"
	"sort"
	"strings"

	"golang.org/x/tools/go/ssa"
)

// ruleStructLocksets (C13-R11): guarded-by consistency for every struct type of the repository
// that owns a mutex (the block manager has its own, root-aware rule C13-R1). A field is *guarded*
// when some method writes it with the struct's mutex held (the code states the belief "this field
// is shared"); every other access to a guarded field — read or write, in any function of any
// loaded module — must then hold that mutex too, locally or at every call site of the enclosing
// unexported helper. Accesses to an object still under construction (the struct is a local
// allocation of the accessing function) are not accesses to shared state.
func ruleStructLocksets(c *Check, rule string, progs []*Prog) {
	type access struct {
		p     *Prog
		fn    *ssa.Function
		in    *ssa.FieldAddr
		write bool
	}
	type owner struct {
		named *types.Named
		mus   []string // labels of the mutex fields
		acc   map[string][]access
		ftype map[string]types.Type
	}
	isMutex := func(t types.Type) bool {
		s := strings.TrimPrefix(t.String(), "*")
		return s == "sync.Mutex" || s == "sync.RWMutex"
	}
	owners := map[string]*owner{}
	seenAcc := map[string]bool{}
	for _, p := range progs {
		for _, fn := range p.Funcs {
			pk := fnPkg(fn)
			if pk == nil || !strings.HasPrefix(pk.Pkg.Path(), rootPath) || fn.Blocks == nil {
				continue
			}
			pp := pk.Pkg.Path()
			if strings.Contains(pp, "/test/") || strings.Contains(pp, "/mocks") || strings.HasSuffix(pp, "/bench") {
				continue
			}
			for _, b := range fn.Blocks {
				for ii, in := range b.Instrs {
					fa, ok := in.(*ssa.FieldAddr)
					if !ok {
						continue
					}
					nt, ok := derefType(fa.X.Type()).(*types.Named)
					if !ok {
						continue
					}
					st, ok := nt.Underlying().(*types.Struct)
					if !ok {
						continue
					}
					key := nt.Origin().String()
					if key == rootPath+"/block.Manager" {
						continue // C13-R1
					}
					o := owners[key]
					if o == nil {
						var mus []string
						for i := 0; i < st.NumFields(); i++ {
							if isMutex(st.Field(i).Type()) {
								mus = append(mus, fieldLabel(fa.X.Type(), i))
							}
						}
						if len(mus) == 0 {
							owners[key] = &owner{}
							continue
						}
						o = &owner{named: nt, mus: mus, acc: map[string][]access{}, ftype: map[string]types.Type{}}
						owners[key] = o
					}
					if o.named == nil {
						continue
					}
					ft := st.Field(fa.Field).Type()
					if isMutex(ft) || selfSync(ft) {
						continue
					}
					if rootIsLocalAlloc(fa.X) {
						continue // under construction
					}
					ak := fmt.Sprintf("%s|%s|%d|%d|%d", p.InstrPos(fa), fnName(fn), fa.Field, b.Index, ii)
					if seenAcc[ak] {
						continue // the same source function loaded in another module's program
					}
					seenAcc[ak] = true
					label := fieldLabel(fa.X.Type(), fa.Field)
					o.ftype[label] = ft
					o.acc[label] = append(o.acc[label], access{p, fn, fa, fieldAddrWritten(fa)})
				}
			}
		}
	}
	nGuarded := 0
	for _, key := range sortedKeys(owners) {
		o := owners[key]
		if o.named == nil {
			continue
		}
		for _, label := range sortedKeys(o.acc) {
			as := o.acc[label]
			// which mutex guards it: one under which some write happens
			held := func(a access) string {
				for _, mu := range o.mus {
					if lockHeldInterproc(a.p, a.fn, a.in, mu, 3) {
						return mu
					}
				}
				return ""
			}
			guard := ""
			anyWrite := false
			for _, a := range as {
				if a.write {
					anyWrite = true
					if mu := held(a); mu != "" {
						guard = mu
					}
				}
			}
			if !anyWrite || guard == "" {
				continue // immutable after construction, or never written under the mutex: no stated belief
			}
			nGuarded++
			var unguarded []string
			for _, a := range as {
				if !lockHeldInterproc(a.p, a.fn, a.in, guard, 3) {
					kind := "read"
					if a.write {
						kind = "write"
					}
					unguarded = append(unguarded, kind+" in "+fnShort(a.fn)+"@"+a.p.InstrPos(a.in))
				}
			}
			sort.Strings(unguarded)
			inst := shortName(key) + "." + label + " ⟂ guarded by " + guard
			pos := as[0].p.InstrPos(as[0].in)
			if len(unguarded) == 0 {
				c.OK(rule, inst, "", pos, fmt.Sprintf("written under %s; all %d accesses outside construction hold it (locally or at every call site)", guard, len(as)), true)
			} else {
				c.Bad(rule, inst, "", pos, fmt.Sprintf("the field is written with %s held (so it is shared between goroutines) but accessed without it at: %s — a data race with the guarded writers", guard, strings.Join(unguarded, ", ")), nil)
			}
		}
	}
	if nGuarded == 0 {
		c.Unk(rule, "guarded-fields", "", "", "anchor lost: no field written under its struct's mutex found")
	}
	// (b) a field that holds a stateful stream object of the standard library (a hash, a buffer, a
	// reader / writer, a random source) changes with every use: in a struct that owns a mutex each
	// method call on it holds the mutex exclusively — a read lock admits several users at once.
	statefulStd := func(t types.Type) bool {
		s := strings.TrimPrefix(t.String(), "*")
		switch s {
		case "hash.Hash", "hash.Hash32", "hash.Hash64", "io.Writer", "io.Reader", "io.ReadWriter", "bytes.Buffer", "strings.Builder", "bufio.Writer", "bufio.Reader", "bufio.Scanner", "math/rand.Rand", "math/rand/v2.Rand", "encoding/gob.Encoder", "encoding/gob.Decoder", "encoding/json.Encoder", "encoding/json.Decoder", "crypto/cipher.Stream", "crypto/cipher.BlockMode":
			return true
		}
		return false
	}
	for _, key := range sortedKeys(owners) {
		o := owners[key]
		if o.named == nil {
			continue
		}
		for _, label := range sortedKeys(o.acc) {
			if !statefulStd(o.ftype[label]) {
				continue
			}
			var bad []string
			nUse := 0
			for _, a := range o.acc[label] {
				// method calls on the loaded value
				for _, r := range *a.in.Referrers() {
					ld, ok := r.(*ssa.UnOp)
					if !ok || ld.Referrers() == nil {
						continue
					}
					for _, rr := range *ld.Referrers() {
						ci, ok := rr.(ssa.CallInstruction)
						if !ok {
							continue
						}
						cc := ci.Common()
						used := cc.IsInvoke() && cc.Value == ssa.Value(ld)
						for _, arg := range cc.Args {
							if arg == ssa.Value(ld) {
								used = true // a method call on it, or it is handed to a function that will use it
							}
						}
						if !used {
							continue
						}
						nUse++
						g := BuildECFG(a.p, a.fn, ExpandOpts{MaxDepth: 0})
						okHeld := false
						for _, nd := range g.Nodes {
							if nd.In == ssa.Instruction(ci) && nd.Kind == NInstr {
								for _, mu := range o.mus {
									if heldAtMode(g, nd, mu, true) {
										okHeld = true
									}
								}
							}
						}
						if !okHeld {
							bad = append(bad, fnShort(a.fn)+"@"+a.p.InstrPos(ci))
						}
					}
				}
			}
			if nUse == 0 {
				continue
			}
			sort.Strings(bad)
			inst := shortName(key) + "." + label + " ⟂ stateful object used under the exclusive lock"
			if len(bad) == 0 {
				c.OK(rule, inst, "", o.acc[label][0].p.InstrPos(o.acc[label][0].in), fmt.Sprintf("%d uses, each with the mutex held exclusively", nUse), true)
			} else {
				c.Bad(rule, inst, "", o.acc[label][0].p.InstrPos(o.acc[label][0].in), "the field holds a "+o.ftype[label].String()+", which changes with every use, and its methods are called without the struct's mutex held exclusively (a read lock admits several callers at once) at: "+strings.Join(bad, ", ")+" — concurrent callers interleave on its internal state", nil)
			}
		}
	}
}

// fieldAddrWritten: the address is stored to, or a nested element/field of it is, or the map /
// slice it holds is updated in place.
func fieldAddrWritten(fa *ssa.FieldAddr) bool {
	var addrWritten func(v ssa.Value, depth int) bool
	addrWritten = func(v ssa.Value, depth int) bool {
		if depth > 3 || v.Referrers() == nil {
			return false
		}
		for _, r := range *v.Referrers() {
			switch x := r.(type) {
			case *ssa.Store:
				if x.Addr == v {
					return true
				}
			case *ssa.FieldAddr:
				if x.X == v && addrWritten(x, depth+1) {
					return true
				}
			case *ssa.IndexAddr:
				if x.X == v && addrWritten(x, depth+1) {
					return true
				}
			case *ssa.UnOp:
				// a load of a map / slice / pointer held in the field, then updated in place
				if x.X != v || x.Referrers() == nil {
					continue
				}
				for _, rr := range *x.Referrers() {
					switch y := rr.(type) {
					case *ssa.MapUpdate:
						if y.Map == ssa.Value(x) {
							return true
						}
					case *ssa.IndexAddr:
						if y.X == ssa.Value(x) && addrWritten(y, depth+1) {
							return true
						}
					case *ssa.Call:
						if bi, ok := y.Call.Value.(*ssa.Builtin); ok && (bi.Name() == "delete" || bi.Name() == "clear") && len(y.Call.Args) > 0 && y.Call.Args[0] == ssa.Value(x) {
							return true
						}
					}
				}
			}
		}
		return false
	}
	return addrWritten(fa, 0)
}

// ruleNoSharedPackageState (C13-R12): package-level variables are shared by every goroutine of the
// process — all worker loops, the RPC handlers, the P2P library's goroutines. The node's packages
// keep none that changes: (1) no package-level variable is stored to, and no element of a slice /
// entry of a map held in one is written, outside the package initialiser; (2) none holds a stateful
// object — a value of an interface type other than error, or a pointer to a type of another module
// — on which methods are invoked at run time (directly, or after it is handed to a function of the
// repository), unless its initialiser builds a value of a type known to be safe for concurrent use.
func ruleNoSharedPackageState(c *Check, rule string, progs []*Prog) {
	safeInit := func(name string) bool {
		for _, pre := range []string{"errors.New", "fmt.Errorf", "regexp.MustCompile", "regexp.Compile", "github.com/prometheus/", "github.com/ipfs/go-log", "github.com/ipfs/go-datastore.NewKey", "sync.", "sync/atomic."} {
			if strings.HasPrefix(strings.TrimPrefix(name, "("), pre) || strings.HasPrefix(strings.TrimPrefix(name, "(*"), pre) {
				return true
			}
		}
		return false
	}
	seen := map[string]bool{}
	n := 0
	for _, p := range progs {
		for _, pkg := range p.SSA.AllPackages() {
			pp := pkg.Pkg.Path()
			if !strings.HasPrefix(pp, rootPath) || strings.Contains(pp, "/test/") || strings.Contains(pp, "/mocks") || strings.Contains(pp, "/pb/") || strings.HasSuffix(pp, "/bench") || strings.Contains(pp, "/cmd") || p.byPkg[pp] == nil {
				continue
			}
			initFn := pkg.Func("init")
			for _, mem := range pkg.Members {
				gl, ok := mem.(*ssa.Global)
				if !ok || seen[pp+"."+gl.Name()] || strings.HasPrefix(gl.Name(), "init$") || gl.Name() == "_" {
					continue
				}
				seen[pp+"."+gl.Name()] = true
				et := gl.Type().(*types.Pointer).Elem()
				if selfSync(et) {
					continue
				}
				n++
				inst := shortName(pp) + "." + gl.Name()
				var writes, calls []string
				// what the initialiser stores
				initName := ""
				if initFn != nil {
					for _, b := range initFn.Blocks {
						for _, in := range b.Instrs {
							if st, ok := in.(*ssa.Store); ok && st.Addr == ssa.Value(gl) {
								v := st.Val
								for {
									switch x := v.(type) {
									case *ssa.MakeInterface:
										v = x.X
										continue
									case *ssa.ChangeInterface:
										v = x.X
										continue
									}
									break
								}
								if call, ok := v.(*ssa.Call); ok {
									initName = commonName(call.Common())
								}
							}
						}
					}
				}
				stateful := false
				if _, isIface := et.Underlying().(*types.Interface); isIface && et.String() != "error" {
					stateful = true
				}
				if pt, isPtr := et.Underlying().(*types.Pointer); isPtr {
					if nt, ok := pt.Elem().(*types.Named); ok && nt.Obj().Pkg() != nil && !strings.HasPrefix(nt.Obj().Pkg().Path(), rootPath) {
						stateful = true
					}
				}
				if stateful && safeInit(initName) {
					stateful = false
				}
				var follow func(v ssa.Value, fn *ssa.Function, depth int)
				follow = func(v ssa.Value, fn *ssa.Function, depth int) {
					if v.Referrers() == nil || depth > 2 {
						return
					}
					for _, r := range *v.Referrers() {
						switch x := r.(type) {
						case *ssa.MapUpdate:
							if x.Map == v {
								writes = append(writes, "map update in "+fnShort(fn)+"@"+p.InstrPos(x))
							}
						case *ssa.IndexAddr:
							if x.X == v && fieldAddrLikeWritten(x) {
								writes = append(writes, "element store in "+fnShort(fn)+"@"+p.InstrPos(x))
							}
						case ssa.CallInstruction:
							cc := x.Common()
							if !stateful {
								continue
							}
							if cc.IsInvoke() && cc.Value == v {
								calls = append(calls, cc.Method.Name()+" in "+fnShort(fn)+"@"+p.InstrPos(x))
								continue
							}
							callee := cc.StaticCallee()
							if callee == nil {
								continue
							}
							for i, a := range cc.Args {
								if a != v {
									continue
								}
								if callee.Signature.Recv() != nil && i == 0 {
									calls = append(calls, callee.Name()+" in "+fnShort(fn)+"@"+p.InstrPos(x))
								} else if p.InRepo(callee) && callee.Blocks != nil && i < len(callee.Params) {
									follow(callee.Params[i], callee, depth+1)
								}
							}
						case *ssa.MakeInterface:
							follow(x, fn, depth)
						case *ssa.ChangeInterface:
							follow(x, fn, depth)
						case *ssa.Phi:
							follow(x, fn, depth+1)
						}
					}
				}
				for _, fn := range p.Funcs {
					if fn == initFn || fn.Blocks == nil || (fn.Synthetic != "" && strings.HasPrefix(fn.Name(), "init")) {
						continue
					}
					for _, b := range fn.Blocks {
						for _, in := range b.Instrs {
							switch x := in.(type) {
							case *ssa.Store:
								if x.Addr == ssa.Value(gl) {
									writes = append(writes, "store in "+fnShort(fn)+"@"+p.InstrPos(x))
								}
							case *ssa.UnOp:
								if x.X == ssa.Value(gl) {
									follow(x, fn, 0)
								}
							case *ssa.FieldAddr:
								if x.X == ssa.Value(gl) && fieldAddrWritten(x) {
									writes = append(writes, "field store in "+fnShort(fn)+"@"+p.InstrPos(x))
								}
							case *ssa.IndexAddr:
								if x.X == ssa.Value(gl) && fieldAddrLikeWritten(x) {
									writes = append(writes, "element store in "+fnShort(fn)+"@"+p.InstrPos(x))
								}
							}
						}
					}
				}
				sort.Strings(writes)
				sort.Strings(calls)
				switch {
				case len(writes) > 0:
					c.Bad(rule, inst, "", p.Pos(gl.Pos()), "the package-level variable is written after initialisation ("+strings.Join(writes, ", ")+"): every goroutine of the process shares it, and nothing orders the write with the other goroutines' reads", nil)
				case len(calls) > 0:
					c.Bad(rule, inst, "", p.Pos(gl.Pos()), "the package-level variable holds one stateful object (initialised by "+initName+") whose methods are invoked at run time ("+strings.Join(calls, ", ")+"): every worker loop and library goroutine that gets here uses the same object concurrently — a data race on its internal state", nil)
				default:
					c.OK(rule, inst, "", p.Pos(gl.Pos()), "never written after initialisation; no method of a shared stateful object is invoked", false)
				}
			}
		}
	}
	if n == 0 {
		c.Unk(rule, "package-level variables", "", "", "anchor lost: no package-level variable found")
	}
}

// fieldAddrLikeWritten: an element address is stored to (directly or through nested addresses).
func fieldAddrLikeWritten(ia *ssa.IndexAddr) bool {
	if ia.Referrers() == nil {
		return false
	}
	for _, r := range *ia.Referrers() {
		switch x := r.(type) {
		case *ssa.Store:
			if x.Addr == ssa.Value(ia) {
				return true
			}
		case *ssa.FieldAddr:
			if x.X == ssa.Value(ia) && fieldAddrWritten(x) {
				return true
			}
		case *ssa.IndexAddr:
			if x.X == ssa.Value(ia) && fieldAddrLikeWritten(x) {
				return true
			}
		}
	}
	return false
}

// ruleMetricsPreBound: the node's metrics are go-kit metrics declared with the caller's label
// names and bound to their values once, in the constructor. A further With(...) on such a metric
// adds label values the Prometheus collector was not declared with: under Prometheus (not under
// the no-op metrics every test uses) the first Add / Set / Observe through it panics with
// "inconsistent label cardinality" — in a worker loop without recover that ends the node. Census:
// no function reachable from the given roots binds labels on a metric outside the constructors.
func ruleMetricsPreBound(c *Check, p *Prog, rule string, roots []*ssa.Function, depth int) {
	c.Doc(rule, "CS: no function reachable from the loop(s) calls With(...) on a go-kit metric outside the metrics constructors: the metrics are bound to all their declared labels at construction, and an extra label value makes the Prometheus collector panic (inconsistent label cardinality) on the path that uses it — e.g. on the first transient fetch error of a node running with Prometheus enabled.")
	isCtor := func(fn *ssa.Function) bool {
		// a constructor builds metrics from the Prometheus / discard providers
		return callsNamed(topParent(fn), func(n string) bool {
			return strings.Contains(n, "go-kit/kit/metrics/prometheus.New") || strings.Contains(n, "go-kit/kit/metrics/discard.New")
		})
	}
	n := 0
	seen := map[ssa.Instruction]bool{}
	for _, r := range roots {
		g := BuildECFG(p, r, ExpandOpts{MaxDepth: depth})
		c.NoteGraph(g)
		live := g.Live()
		var bad []string
		for _, nd := range g.Nodes {
			if !live[nd] || nd.Kind != NInstr || nd.In == nil {
				continue
			}
			cn := CallName(nd)
			if !strings.HasPrefix(cn, "(github.com/go-kit/kit/metrics.") || !strings.HasSuffix(cn, ").With") {
				continue
			}
			if isCtor(nd.Ctx.Fn) || seen[nd.In] {
				continue
			}
			seen[nd.In] = true
			if metricDeclaresLabels(p, nd, isCtor) {
				continue // the metric was declared with these label names and left unbound for them
			}
			bad = append(bad, fnShort(nd.Ctx.Fn)+"@"+p.InstrPos(nd.In))
		}
		n++
		sort.Strings(bad)
		inst := fnShort(r) + " ⟂ metrics are used as bound by the constructor"
		if len(bad) == 0 {
			c.OK(rule, inst, fnName(r), p.Pos(r.Pos()), "no label is bound on a metric outside the constructors", true)
		} else {
			c.Bad(rule, inst, fnName(r), p.Pos(r.Pos()), "a label is bound on an already fully bound metric at "+strings.Join(bad, ", ")+": with Prometheus enabled the collector panics (inconsistent label cardinality) when the metric is used, and the loop has no recover — the node dies instead of retrying", nil)
		}
	}
	if n == 0 {
		c.Unk(rule, "roots", "", "", "anchor lost: no loop to examine")
	}
}

// metricDeclaresLabels: the With call binds constant label names, all of which appear as string
// constants in the label-name list the Prometheus constructor of that very metric field was given.
func metricDeclaresLabels(p *Prog, nd *Node, isCtor func(*ssa.Function) bool) bool {
	recv := RecvTerm(nd)
	cc := CallCommonOf(nd)
	if recv == nil || recv.Op != "field" || cc == nil {
		return false
	}
	// the label names bound here: the even elements of the variadic list
	var keys []string
	for _, a := range cc.Args {
		t := TermOf(a, nd.Ctx)
		if t.Op != "list" && t.Op != "slice" && t.Op != "alloc" {
			continue
		}
		for i, e := range t.Args {
			if i%2 == 0 {
				u := e.unconv()
				if u.Op != "const" || !strings.HasPrefix(u.Name, "\"") {
					return false
				}
				keys = append(keys, u.Name)
			}
		}
	}
	if len(keys) == 0 {
		return false
	}
	declared := map[string]bool{}
	for _, fn := range p.Funcs {
		if fn.Blocks == nil || !isCtor(fn) {
			continue
		}
		for _, b := range fn.Blocks {
			for _, in := range b.Instrs {
				st, ok := in.(*ssa.Store)
				if !ok {
					continue
				}
				fa, ok := st.Addr.(*ssa.FieldAddr)
				if !ok || fieldLabel(fa.X.Type(), fa.Field) != recv.Name {
					continue
				}
				TermOf(st.Val, &Ctx{Fn: fn}).Walk(func(x *Term) bool {
					if (x.Op == "call") && strings.Contains(x.Name, "go-kit/kit/metrics/prometheus.New") && len(x.Args) >= 2 {
						x.Args[1].Walk(func(y *Term) bool {
							if y.Op == "const" && strings.HasPrefix(y.Name, "\"") {
								declared[y.Name] = true
							}
							return true
						})
					}
					return true
				})
			}
		}
	}
	for _, k := range keys {
		if !declared[k] {
			return false
		}
	}
	return true
}

// ruleLayerImplsSynchronised (C13-R14): the node calls its layers from several goroutines at once
// (the reaper hands transactions to the sequencer while block production takes batches from it; the
// execution layer is driven by production, sync, the DA includer and the RPC server; the DA layer
// by both submission loops and the scan; the signer by production and the data submitter). Every
// implementation of those interfaces in the repository therefore keeps no plain mutable state: a
// field of such a type that any function writes after construction is of a self-synchronising
// type or is written with the type's mutex held (and then R11 covers all its accesses).
func ruleLayerImplsSynchronised(c *Check, rule string, progs []*Prog) {
	ifaceNames := []string{rootPath + "/core/sequencer.Sequencer", rootPath + "/core/execution.Executor", rootPath + "/core/da.DA", rootPath + "/pkg/signer.Signer"}
	isMutex := func(t types.Type) bool {
		s := strings.TrimPrefix(t.String(), "*")
		return s == "sync.Mutex" || s == "sync.RWMutex"
	}
	seenT := map[string]bool{}
	n := 0
	for _, p := range progs {
		var ifaces []*types.Interface
		for _, in := range ifaceNames {
			i := strings.LastIndex(in, ".")
			if tp := p.TypesPkg(in[:i]); tp != nil {
				if o := tp.Scope().Lookup(in[i+1:]); o != nil {
					if it, ok := o.Type().Underlying().(*types.Interface); ok {
						ifaces = append(ifaces, it)
					}
				}
			}
		}
		for _, pkg := range p.Pkgs {
			pp := pkg.PkgPath
			if !strings.HasPrefix(pp, rootPath) || strings.Contains(pp, "/test/") || strings.Contains(pp, "/mocks") || pkg.Types == nil {
				continue
			}
			for _, name := range pkg.Types.Scope().Names() {
				tn, ok := pkg.Types.Scope().Lookup(name).(*types.TypeName)
				if !ok || seenT[pp+"."+name] {
					continue
				}
				st, ok := tn.Type().Underlying().(*types.Struct)
				if !ok {
					continue
				}
				impl := ""
				for k, it := range ifaces {
					if types.Implements(types.NewPointer(tn.Type()), it) || types.Implements(tn.Type(), it) {
						impl = ifaceNames[k][strings.LastIndex(ifaceNames[k], "/")+1:]
					}
				}
				if impl == "" {
					continue
				}
				seenT[pp+"."+name] = true
				var mus []string
				for i := 0; i < st.NumFields(); i++ {
					if isMutex(st.Field(i).Type()) {
						mus = append(mus, fieldLabel(tn.Type(), i))
					}
				}
				// writes after construction, per field
				type wr struct {
					fn *ssa.Function
					in *ssa.FieldAddr
				}
				writes := map[string][]wr{}
				for _, fn := range p.Funcs {
					if fn.Blocks == nil {
						continue
					}
					for _, b := range fn.Blocks {
						for _, in := range b.Instrs {
							fa, ok := in.(*ssa.FieldAddr)
							if !ok {
								continue
							}
							nt, ok := derefType(fa.X.Type()).(*types.Named)
							if !ok || nt.Obj() != tn {
								continue
							}
							if rootIsLocalAlloc(fa.X) {
								continue // under construction
							}
							ft := st.Field(fa.Field).Type()
							if isMutex(ft) || selfSync(ft) || !fieldAddrWritten(fa) {
								continue
							}
							l := fieldLabel(fa.X.Type(), fa.Field)
							writes[l] = append(writes[l], wr{fn, fa})
						}
					}
				}
				n++
				inst := shortName(pp) + "." + name + " (" + impl + ") ⟂ no plain mutable state"
				var bad []string
				for _, l := range sortedKeys(writes) {
					for _, w := range writes[l] {
						held := false
						for _, mu := range mus {
							if lockHeldInterproc(p, w.fn, w.in, mu, 3) {
								held = true
							}
						}
						// a functional option / setter applied by the constructor before the value is shared
						if !held && (allocatesType(w.fn, tn) || onlyCalledDuringConstruction(p, w.fn, tn)) {
							held = true
						}
						if !held {
							bad = append(bad, l+" written in "+fnShort(w.fn)+"@"+p.InstrPos(w.in))
						}
					}
				}
				sort.Strings(bad)
				if len(bad) == 0 {
					c.OK(rule, inst, "", p.Pos(tn.Pos()), fmt.Sprintf("%d fields written after construction, each self-synchronising or written under the type's mutex", len(writes)), true)
				} else {
					c.Bad(rule, inst, "", p.Pos(tn.Pos()), "the type implements "+impl+", whose methods the node calls from several goroutines at once, and keeps plain state that is written after construction without its mutex: "+strings.Join(bad, ", ")+" — a data race between the calling loops", nil)
				}
			}
		}
	}
	if n == 0 {
		c.Unk(rule, "layer implementations", "", "", "anchor lost: no implementation of the layer interfaces found")
	}
}

// onlyCalledDuringConstruction: fn (or the closure it is) writes the field on a value that is
// still being built: every static call site passes a locally allocated value of the type, or fn
// is a closure returned as a functional option and applied in a function that allocates the value.
func onlyCalledDuringConstruction(p *Prog, fn *ssa.Function, tn *types.TypeName) bool {
	isLocalAlloc := func(v ssa.Value) bool {
		for i := 0; i < 4; i++ {
			switch x := v.(type) {
			case *ssa.Alloc:
				return true
			case *ssa.UnOp:
				v = x.X
				continue
			case *ssa.Phi:
				return false
			}
			break
		}
		return false
	}
	top := fn
	if fn.Parent() != nil {
		// a functional option: the closure is returned by its parent; options are applied by the
		// constructor, which allocates the value
		top = fn.Parent()
		for _, b := range top.Blocks {
			if ret, ok := b.Instrs[len(b.Instrs)-1].(*ssa.Return); ok {
				for _, r := range ret.Results {
					if mc, ok := r.(*ssa.MakeClosure); ok && mc.Fn == ssa.Value(fn) {
						return true
					}
				}
			}
		}
		return false
	}
	sites := 0
	for _, caller := range p.Funcs {
		for _, b := range caller.Blocks {
			for _, in := range b.Instrs {
				call, ok := in.(*ssa.Call)
				if !ok || call.Common().StaticCallee() != fn {
					continue
				}
				sites++
				okSite := false
				for _, a := range call.Common().Args {
					if nt, isN := derefType(a.Type()).(*types.Named); isN && nt.Obj() == tn && isLocalAlloc(a) {
						okSite = true
					}
				}
				if !okSite {
					return false
				}
			}
		}
	}
	return sites > 0
}

// allocatesType: fn allocates a value of the named type (it is a constructor of it: the fields it
// writes belong to the value it is building).
func allocatesType(fn *ssa.Function, tn *types.TypeName) bool {
	for _, b := range fn.Blocks {
		for _, in := range b.Instrs {
			if al, ok := in.(*ssa.Alloc); ok {
				if nt, ok := derefType(al.Type()).(*types.Named); ok && nt.Obj() == tn {
					return true
				}
			}
		}
	}
	return false
}

// rootIsLocalAlloc: the address is rooted (through field / element addresses) in an allocation of
// the enclosing function: the value is still being built there.
func rootIsLocalAlloc(v ssa.Value) bool {
	for i := 0; i < 6; i++ {
		switch x := v.(type) {
		case *ssa.Alloc:
			return true
		case *ssa.FieldAddr:
			v = x.X
		case *ssa.IndexAddr:
			v = x.X
		default:
			return false
		}
	}
	return false
}

// rulePooledMemoryNotReturned (C13-R15 / C03-R7): a value taken from a sync.Pool belongs to the
// function only until it is put back; the next Get — on any goroutine — hands the same memory to
// somebody else. A function that puts the value back (also by defer) and returns something built
// in that memory returns bytes another goroutine overwrites: the signature payload of one header
// is verified while it already holds the encoding of another.
func rulePooledMemoryNotReturned(c *Check, rule string, progs []*Prog) {
	c.Doc(rule, "VP: no function that hands a value back to a sync.Pool (Put, also deferred) returns a value derived from what it took out of the pool (the pooled buffer itself, a slice of it, the result of an append / encode-into call on it): after the Put the memory belongs to the next Get on any goroutine.")
	n, nPools := 0, 0
	seen := map[string]bool{}
	for _, p := range progs {
		for _, fn := range p.Funcs {
			pk := fnPkg(fn)
			if pk == nil || !strings.HasPrefix(pk.Pkg.Path(), rootPath) || fn.Blocks == nil || seen[fnName(fn)] {
				continue
			}
			seen[fnName(fn)] = true
			n++
			puts := callsNamed(fn, func(nm string) bool { return nm == "(*sync.Pool).Put" })
			if !puts {
				continue
			}
			nPools++
			bad := ""
			ctx := &Ctx{Fn: fn}
			for _, b := range fn.Blocks {
				ret, ok := b.Instrs[len(b.Instrs)-1].(*ssa.Return)
				if !ok {
					continue
				}
				for i := range ret.Results {
					t := TermOf(spilledResult(ret, i), ctx)
					if t.Contains(func(x *Term) bool {
						return (x.Op == "call" || x.Op == "invoke") && strings.HasSuffix(x.Name, "sync.Pool).Get")
					}) {
						bad = p.InstrPos(ret) + ": " + trunc(t.String(), 90)
					}
				}
			}
			inst := fnShort(fn) + " ⟂ returns nothing it gave back to the pool"
			if bad == "" {
				c.OK(rule, inst, fnName(fn), p.Pos(fn.Pos()), "no returned value derives from the pooled value", true)
			} else {
				c.Bad(rule, inst, fnName(fn), p.Pos(fn.Pos()), "the function puts a pooled value back and returns memory derived from it ("+bad+"): the caller still reads it when the next Get, on another goroutine, writes into it — e.g. the payload a header's signature is verified over is overwritten by the encoding of another header, and a forged header passes with the genuine one's signature", nil)
			}
		}
	}
	if n == 0 {
		c.Unk(rule, "functions", "", "", "anchor lost: no function examined")
		return
	}
	if nPools == 0 {
		c.OK(rule, "no function of the repository puts a value back into a sync.Pool", "", "", fmt.Sprintf("%d functions examined", n), false)
	}
}

// ruleWakeChannelBuffered (C07-R11 / C09-R13 / C02-R15): the loops that work "when there is
// something to do" are woken through a signal channel by non-blocking sends. A signal sent while
// the loop is in the middle of a pass must not be lost — the pass may already be past the point
// where the new work would have been seen — so each such channel keeps one pending signal:
// capacity >= 1, a constant. With an unbuffered channel a non-blocking send succeeds only while
// the loop is parked in its select; the work signalled during a pass waits for the next unrelated
// signal, or for ever.
func ruleWakeChannelBuffered(c *Check, p *Prog, rule string, loops ...string) {
	c.Doc(rule, "CT: every signal channel (chan struct{} field of the manager) the loop waits on in its select is created with a constant capacity >= 1: the signals are sent without blocking, and one sent during a pass of the loop must be kept for the next pass.")
	nm := p.MustFunc(blockF("NewManager"))
	caps := map[string]string{} // field label -> "k" | "?" (non-constant / unbuffered)
	pos := map[string]string{}
	for _, b := range nm.Blocks {
		for _, in := range b.Instrs {
			st, ok := in.(*ssa.Store)
			if !ok {
				continue
			}
			fa, ok := st.Addr.(*ssa.FieldAddr)
			if !ok || derefStruct(fa.X.Type()) == nil {
				continue
			}
			mk, ok := st.Val.(*ssa.MakeChan)
			if !ok {
				continue
			}
			l := fieldLabel(fa.X.Type(), fa.Field)
			pos[l] = p.InstrPos(mk)
			if k, ok := mk.Size.(*ssa.Const); ok && k.Int64() >= 1 {
				caps[l] = fmt.Sprint(k.Int64())
			} else {
				caps[l] = "?"
			}
		}
	}
	n := 0
	for _, ln := range loops {
		root := p.MustFunc(mgrM(ln))
		g := BuildECFG(p, root, ExpandOpts{MaxDepth: 2})
		c.NoteGraph(g)
		seen := map[string]bool{}
		for _, nd := range g.Nodes {
			sel, ok := nd.In.(*ssa.Select)
			if !ok || nd.Kind != NInstr || !g.Live()[nd] {
				continue
			}
			for _, stt := range sel.States {
				if stt.Dir != types.RecvOnly {
					continue
				}
				ct, ok := stt.Chan.Type().Underlying().(*types.Chan)
				if !ok || ct.Elem().String() != "struct{}" {
					continue
				}
				t := TermOf(stt.Chan, nd.Ctx)
				if t.Op != "field" || len(t.Args) != 1 || t.Args[0].V == nil || !strings.HasSuffix(t.Args[0].V.Type().String(), "block.Manager") || seen[t.Name] {
					continue
				}
				seen[t.Name] = true
				n++
				inst := ln + " ⟂ wake-up channel " + t.Name + " keeps a pending signal"
				switch caps[t.Name] {
				case "":
					c.Unk(rule, inst, fnName(root), "", "anchor lost: the channel is not created with make in NewManager")
				case "?":
					c.Bad(rule, inst, fnName(nm), pos[t.Name], "the channel the loop waits on is unbuffered (or of non-constant capacity) while its signals are sent without blocking: a signal sent during a pass of the loop is dropped, and what it announced waits for the next unrelated signal — if none comes, for ever", nil)
				default:
					c.OK(rule, inst, fnName(nm), pos[t.Name], "capacity "+caps[t.Name], true)
				}
			}
		}
	}
	if n == 0 {
		c.Unk(rule, "wake-up channels", "", "", "anchor lost: no signal channel of the manager in the loops' selects")
	}
}

// ruleSightingWakesIncluder (C07-R12): on a full node the DA includer is woken only when the DA
// scan sees a block part. Whether the part is new to the node does not matter: the marks may
// have been restored from the cache files, or set before the block was applied — the includer
// looked then, found the block missing and went back to sleep. So every admitted sighting wakes
// it: from the accepting edge of the admission predicate every path to the handler's return
// passes the non-blocking signal on the includer's channel. A wake-up sent only for parts not yet
// marked leaves the DA-included height behind after a restart although everything is on the DA layer.
func ruleSightingWakesIncluder(c *Check, p *Prog, rule string) {
	c.Doc(rule, "EO: in each DA blob handler, every path from the accepting edge of the admission predicate (a bool function of the block package applied to the decoded item) to a return passes the wake-up of the DA includer (the non-blocking send on the channel DAIncluderLoop waits on): a sighting of an admitted part always leads to another inclusion check, whether or not the part was marked before.")
	// the includer's channel field
	incl := p.MustFunc(mgrM("DAIncluderLoop"))
	chName := ""
	for _, b := range incl.Blocks {
		for _, in := range b.Instrs {
			if sel, ok := in.(*ssa.Select); ok {
				for _, st := range sel.States {
					if ct, isC := st.Chan.Type().Underlying().(*types.Chan); isC && ct.Elem().String() == "struct{}" && st.Dir == types.RecvOnly {
						if t := TermOf(st.Chan, &Ctx{Fn: incl}); t.Op == "field" {
							chName = t.Name
						}
					}
				}
			}
		}
	}
	if chName == "" {
		c.Unk(rule, "includer channel", fnName(incl), "", "anchor lost: the signal channel DAIncluderLoop waits on")
		return
	}
	root := p.MustFunc(mgrM("RetrieveLoop"))
	rg := BuildECFG(p, root, ExpandOpts{MaxDepth: 5})
	handlers := map[*ssa.Function]bool{}
	for _, sn := range rg.Select(func(x *Node) bool { si := classifySink(x); return si != nil && si.what == "send" }) {
		handlers[sn.Ctx.Fn] = true
	}
	var hs []*ssa.Function
	for h := range handlers {
		hs = append(hs, h)
	}
	sort.Slice(hs, func(i, j int) bool { return fnName(hs[i]) < fnName(hs[j]) })
	n := 0
	for _, h := range hs {
		g := BuildECFG(p, h, ownPkgOpts(rootPath+"/block", 3))
		c.NoteGraph(g)
		isSignal := func(x *Node) bool {
			switch in := x.In.(type) {
			case *ssa.Select:
				for _, st := range in.States {
					if st.Dir == types.SendOnly {
						if t := TermOf(st.Chan, x.Ctx); (t.Op == "field" && t.Name == chName) || strings.HasSuffix(t.String(), "."+chName) {
							return true
						}
					}
				}
			case *ssa.Send:
				if t := TermOf(in.Chan, x.Ctx); (t.Op == "field" && t.Name == chName) || strings.HasSuffix(t.String(), "."+chName) {
					return true
				}
			}
			return false
		}
		signals := g.Select(isSignal)
		admitted := g.Select(EdgeWhere(func(t *Term, pol bool, nd *Node) bool {
			t, pol = normFact(t, pol)
			if !pol || t.Op != "call" {
				return false
			}
			cv, ok := t.V.(*ssa.Call)
			if !ok || cv.Common().StaticCallee() == nil {
				return false
			}
			cal := cv.Common().StaticCallee()
			if pk := fnPkg(cal); pk == nil || pk.Pkg.Path() != rootPath+"/block" {
				return false
			}
			if res := cal.Signature.Results(); res.Len() != 1 || !isBoolType(res.At(0).Type()) {
				return false
			}
			for _, a := range cv.Common().Args {
				ts := a.Type().String()
				if strings.HasSuffix(ts, "types.SignedHeader") || strings.HasSuffix(ts, "types.SignedData") {
					return true
				}
			}
			return false
		}))
		inst := fnShort(h) + " ⟂ admitted sighting wakes the includer"
		if len(admitted) == 0 || len(signals) == 0 {
			c.Unk(rule, inst, fnName(h), "", fmt.Sprintf("anchor lost: %d accepting edges of an admission predicate, %d wake-ups of the includer in the handler", len(admitted), len(signals)))
			continue
		}
		n++
		var exits []*Node
		for _, x := range g.Exits {
			if x.Ctx.Depth == 0 {
				exits = append(exits, x)
			}
		}
		c.Decide(rule, inst, fnName(h), p.InstrPos(signals[0].In), "every return after the admission passes the wake-up of the DA includer",
			"an admitted block part found on the DA layer can be handled without waking the DA includer (e.g. when it is already marked): marks restored from the cache files, or set before the block was applied, are then never looked at again — the DA-included height stays behind although both parts of every block are on the DA layer", g,
			g.PathAvoiding(admitted, nodeSet(exits), nodeSet(signals)))
	}
	if n == 0 {
		c.Unk(rule, "DA handlers", "", "", "anchor lost: no DA blob handler with an admission predicate and a wake-up")
	}
}

// ruleWorkerEndsOnlyStoppedOrReported (C07-R13 / C13-R16 / C02-R16): a worker that was handed the
// node's error channel ends in exactly two ways — its own context is done, or it has told the node
// why (a send on the channel, which makes the node stop and be restarted). A return that is
// neither leaves the rest of the node running without the worker: signals are still raised, nobody
// consumes them, and what the worker advances stands still for the life of the process. What the
// worker's *context* says is read from the context (Done, Err), not guessed from an error value
// that merely wraps a cancellation or a deadline of some inner request.
func ruleWorkerEndsOnlyStoppedOrReported(c *Check, p *Prog, rule string, workers []string) {
	c.Doc(rule, "EO: every return of a worker loop that takes the node's error channel is behind an edge that reads the worker's own context as done (a ctx.Done() case, ctx.Err() != nil) or behind a send on that channel; the one frozen exception is the aggregation loop's failed first read of the store height (pinned behaviour: logged, the node is not told).")
	n := 0
	for _, w := range workers {
		fn := p.Func(mgrM(w))
		if fn == nil || fn.Blocks == nil {
			continue
		}
		var chParam *ssa.Parameter
		for _, prm := range fn.Params {
			if ch, ok := prm.Type().Underlying().(*types.Chan); ok && ch.Elem().String() == "error" {
				chParam = prm
			}
		}
		if chParam == nil {
			continue
		}
		n++
		g := BuildECFG(p, fn, ownPkgOpts(rootPath+"/block", 2))
		c.NoteGraph(g)
		sends := func(x *Node) bool {
			sd, ok := x.In.(*ssa.Send)
			if ok && x.Kind == NInstr {
				t := TermOf(sd.Chan, x.Ctx)
				return t != nil && t.V == ssa.Value(chParam)
			}
			// a send that is a select case
			if sel, ok := x.In.(*ssa.Select); ok && x.Kind == NInstr {
				for _, st := range sel.States {
					if st.Dir == types.SendOnly {
						if t := TermOf(st.Chan, x.Ctx); t != nil && t.V == ssa.Value(chParam) {
							return true
						}
					}
				}
			}
			return false
		}
		done := nodeSet(ctxDoneEdges(g))
		ctxErr := EdgeWhere(func(t *Term, pol bool, _ *Node) bool {
			t, pol = normFact(t, pol)
			return t.Op == "bin" && len(t.Args) == 2 && t.Args[0].Op == "invoke" && t.Args[0].Name == "(context.Context).Err" && t.Args[1].Name == "nil" && ((t.Name == "!=" && pol) || (t.Name == "==" && !pol))
		})
		avoid := orPred(sends, done, ctxErr)
		if w == "AggregationLoop" {
			// frozen exception, one edge: the failed read of the store height before the loop starts
			avoid = orPred(avoid, func(x *Node) bool {
				return x.Ctx.Depth == 0 && ErrNotNilEdge(func(t *Term) bool { return t.Op == "invoke" && strings.HasSuffix(t.Name, "pkg/store.Store).Height") })(x)
			})
		}
		path := g.PathAvoiding([]*Node{g.Entry}, nodeSet(g.Exits), avoid)
		c.Decide(rule, w+" ⟂ ends only stopped or after reporting", fnName(fn), p.Pos(fn.Pos()),
			"every return is behind the worker's own context being done or a report on the node's error channel",
			"the worker can end while the node keeps running and without telling it: a return that is behind neither the worker's own context being done (ctx.Done(), ctx.Err()) nor a send on the error channel — for example an error that merely wraps a cancellation or deadline of an inner request, taken for a shutdown. The rest of the node goes on, the signals meant for this worker are never consumed again, and what it advances stands still until the process is restarted by hand", g, path)
	}
	if n == 0 {
		c.Unk(rule, "anchor-count", "", "", "anchor lost: no worker that takes the error channel")
	}
}

// ruleNoBatchUseAfterCommit (C11-R10 / C10-R11 / C15-R9 / C14-R10): typestate of a datastore batch.
// A batch obtained from Batching.Batch is finished by Commit: what a later Put / Delete / Commit
// on the same batch does is up to the backend — the in-memory datastore of the tests takes it,
// the badger store of a node refuses every later write. A batch that is flushed part-way and
// used on therefore loses, on a real node, everything after the first flush while the code
// reports nothing but a log line.
func ruleNoBatchUseAfterCommit(c *Check, p *Prog, rule string, pkgPrefix string) {
	c.Doc(rule, "TS: on no path is a datastore batch written or committed again after its Commit without the batch having been obtained anew in between (a batch is single-use: backends differ in what they do with a finished batch, the node's own refuses it).")
	n := 0
	for _, fn := range p.Funcs {
		pk := fnPkg(fn)
		if pk == nil || !strings.HasPrefix(pk.Pkg.Path(), pkgPrefix) || fn.Blocks == nil {
			continue
		}
		hasBatch := false
		for _, b := range fn.Blocks {
			for _, in := range b.Instrs {
				if ci, ok := in.(ssa.CallInstruction); ok && ci.Common().IsInvoke() && ci.Common().Method.Name() == "Batch" && strings.Contains(ci.Common().Value.Type().String(), "go-datastore") {
					hasBatch = true
				}
			}
		}
		if !hasBatch {
			continue
		}
		g := BuildECFG(p, fn, ExpandOpts{MaxDepth: 0})
		c.NoteGraph(g)
		recvOf := func(x *Node) ssa.Value {
			cc := CallCommonOf(x)
			if cc == nil || !cc.IsInvoke() {
				return nil
			}
			return cc.Value
		}
		isBatchVal := func(v ssa.Value) bool {
			return v != nil && strings.HasSuffix(v.Type().String(), "go-datastore.Batch")
		}
		commits := g.Select(func(x *Node) bool { return x.Kind == NInstr && dsCall(x, "Commit") && isBatchVal(recvOf(x)) })
		for _, cm := range commits {
			cm := cm
			bv := recvOf(cm)
			if _, isPhi := bv.(*ssa.Phi); isPhi {
				continue // a variable holding now one batch, now another: not decided here
			}
			n++
			def, _ := bv.(ssa.Instruction)
			isDef := func(x *Node) bool { return def != nil && x.Kind == NInstr && x.In == def }
			// an Extract of the Batch call: the call is the point where the batch is obtained
			if ex, ok := bv.(*ssa.Extract); ok {
				if call, ok := ex.Tuple.(ssa.Instruction); ok {
					isDef = func(x *Node) bool { return x.Kind == NInstr && (x.In == call || x.In == def) }
				}
			}
			isUse := func(x *Node) bool {
				return x.Kind == NInstr && (dsCall(x, "Put") || dsCall(x, "Delete") || dsCall(x, "Commit")) && recvOf(x) == bv
			}
			var succ []*Node
			for _, s := range cm.Succ {
				succ = append(succ, s)
			}
			path := g.PathAvoiding(succ, isUse, isDef)
			c.Decide(rule, fnShort(fn)+" ⟂ batch not used after its commit", fnName(fn), p.InstrPos(cm.In),
				"after Commit the batch is not written or committed again",
				"a datastore batch is written or committed again after its Commit (for example flushed every N entries and used on): the node's badger store refuses every write to a finished batch — the writes after the first flush are lost with nothing but a log line, while the in-memory datastore of the tests accepts them", g, path)
		}
	}
	if n == 0 {
		c.OK(rule, "no batch commit", "", "", "no function of the package commits a datastore batch", false)
	}
}

// ruleStoreNotBuffered (C10-R12 / C20-R14 / C14-R11): a write that was acknowledged is durable
// because the datastore the component writes to is the one the node opened, seen through
// wrappers that only rename keys. A wrapper that holds writes back (autobatch), delays, retries
// or redirects them changes what "Put returned nil" means: the batch was accepted, and a restart
// loses it. Who-may-call: of the go-datastore module's sub-packages the package uses only those
// that transform keys, build queries or add a mutex.
func ruleStoreNotBuffered(c *Check, p *Prog, rule string, pkgPrefix string) {
	c.Doc(rule, "CS: the package calls nothing of the go-datastore module's wrapper packages except keytransform, namespace, query and sync: no buffering (autobatch), delaying, retrying, failing or mounting wrapper sits between an acknowledged write and the node's datastore.")
	allowed := map[string]bool{
		"github.com/ipfs/go-datastore":              true,
		"github.com/ipfs/go-datastore/keytransform": true,
		"github.com/ipfs/go-datastore/namespace":    true,
		"github.com/ipfs/go-datastore/query":        true,
		"github.com/ipfs/go-datastore/sync":         true,
	}
	nCalls, nFns := 0, 0
	var bad []string
	for _, fn := range p.Funcs {
		pk := fnPkg(fn)
		if pk == nil || !strings.HasPrefix(pk.Pkg.Path(), pkgPrefix) || fn.Blocks == nil {
			continue
		}
		nFns++
		for _, b := range fn.Blocks {
			for _, in := range b.Instrs {
				ci, ok := in.(ssa.CallInstruction)
				if !ok {
					continue
				}
				callee := ci.Common().StaticCallee()
				if callee == nil || callee.Pkg == nil {
					continue
				}
				path := callee.Pkg.Pkg.Path()
				if !strings.HasPrefix(path, "github.com/ipfs/go-datastore") {
					continue
				}
				nCalls++
				if !allowed[path] {
					bad = append(bad, fnShort(callee)+" @"+p.InstrPos(in))
				}
			}
		}
	}
	sort.Strings(bad)
	inst := pkgPrefix[strings.LastIndex(pkgPrefix, "/")+1:] + " ⟂ no holding wrapper around the datastore"
	switch {
	case nFns == 0:
		c.Unk(rule, inst, "", "", "anchor lost: no functions in "+pkgPrefix)
	case len(bad) == 0:
		c.OK(rule, inst, "", "", fmt.Sprintf("%d calls into the go-datastore module, all to the root package or to key-transforming / query / mutex wrappers", nCalls), true)
	default:
		c.Bad(rule, inst, "", strings.TrimPrefix(bad[0][strings.LastIndex(bad[0], "@")+1:], " "), "the component's datastore is wrapped by "+strings.Join(bad, ", ")+": a wrapper that holds writes back (or delays / redirects them) acknowledges a write that is not yet in the node's datastore — what was accepted before a stop or crash is gone after the restart, and deletions that were acknowledged come back", nil)
	}
}

// ruleNoStaleReadAcrossUnlock (C13-R17 / C20-R17): check-then-act. Inside one method of a type
// that guards its state with a mutex, a value read from the receiver's state under the lock and
// then — after the lock was released and taken again — used to decide where or what is written
// into that state is stale by then: another goroutine may have changed what was read (the DA
// height a submission is filed under, read before a long computation and used after it, when the
// height has already been published and scanned as empty). The read and the write that depends on
// it sit in one critical section.
func ruleNoStaleReadAcrossUnlock(c *Check, rule string, progs []*Prog) {
	c.Doc(rule, "LS: in no method of a mutex-guarded type does a store or map update to the receiver's state, made with the lock held, use (as key, index or value) a value derived from a load of the receiver's state made in an earlier critical section of the same call — i.e. with a release of that mutex on a path between the load and the write.")
	isMutexT := func(t types.Type) bool {
		s := strings.TrimPrefix(t.String(), "*")
		return s == "sync.Mutex" || s == "sync.RWMutex"
	}
	nTypes := 0
	seen := map[string]bool{}
	for _, p := range progs {
		for _, fn := range p.Funcs {
			pk := fnPkg(fn)
			if pk == nil || !strings.HasPrefix(pk.Pkg.Path(), rootPath) || fn.Blocks == nil || fn.Signature.Recv() == nil || len(fn.Params) == 0 {
				continue
			}
			pp := pk.Pkg.Path()
			if strings.Contains(pp, "/test/") || strings.Contains(pp, "/mocks") || strings.HasSuffix(pp, "/bench") {
				continue
			}
			recv := fn.Params[0]
			st := derefStruct(recv.Type())
			if st == nil {
				continue
			}
			var mus []string
			for i := 0; i < st.NumFields(); i++ {
				if isMutexT(st.Field(i).Type()) {
					mus = append(mus, fieldLabel(recv.Type(), i))
				}
			}
			if len(mus) == 0 {
				continue
			}
			key := fnName(fn)
			if seen[key] {
				continue
			}
			seen[key] = true
			// loads of the receiver's (non-mutex) fields, and writes into the receiver's state
			type ld struct {
				in  *ssa.UnOp
				lbl string
			}
			var loads []ld
			var writes []ssa.Instruction
			sliceLoad := map[*ssa.UnOp]bool{}
			isRecvField := func(v ssa.Value) (string, bool) {
				fa, ok := v.(*ssa.FieldAddr)
				if !ok || fa.X != ssa.Value(recv) {
					return "", false
				}
				if isMutexT(st.Field(fa.Field).Type()) {
					return "", false
				}
				return fieldLabel(recv.Type(), fa.Field), true
			}
			rootedInRecv := func(v ssa.Value) bool {
				for d := 0; d < 5 && v != nil; d++ {
					switch x := v.(type) {
					case *ssa.FieldAddr:
						if x.X == ssa.Value(recv) {
							return true
						}
						v = x.X
					case *ssa.UnOp:
						v = x.X
					case *ssa.IndexAddr:
						v = x.X
					default:
						return false
					}
				}
				return false
			}
			for _, b := range fn.Blocks {
				for _, in := range b.Instrs {
					switch x := in.(type) {
					case *ssa.UnOp:
						if x.Op == token.MUL {
							if l, ok := isRecvField(x.X); ok {
								// only scalar state: a loaded map or slice header is the container, not a snapshot of a value
								switch x.Type().Underlying().(type) {
								case *types.Basic:
									loads = append(loads, ld{x, l})
								case *types.Slice:
									// a slice header is a snapshot of (pointer, length): written back
									// after a release it undoes what was appended meanwhile
									loads = append(loads, ld{x, l})
									sliceLoad[x] = true
								}
							}
						}
					case *ssa.MapUpdate:
						if rootedInRecv(x.Map) {
							writes = append(writes, in)
						}
					case *ssa.Store:
						if rootedInRecv(x.Addr) {
							writes = append(writes, in)
						}
					}
				}
			}
			if len(loads) == 0 || len(writes) == 0 {
				continue
			}
			nTypes++
			var g *Graph
			for _, l := range loads {
				// forward slice of the loaded value
				slice := map[ssa.Value]bool{l.in: true}
				work := []ssa.Value{l.in}
				for len(work) > 0 && len(slice) < 400 {
					v := work[0]
					work = work[1:]
					refs := v.Referrers()
					if refs == nil {
						continue
					}
					for _, r := range *refs {
						rv, ok := r.(ssa.Value)
						if !ok || slice[rv] {
							continue
						}
						switch r.(type) {
						case *ssa.BinOp, *ssa.Convert, *ssa.ChangeType, *ssa.Phi, *ssa.Call, *ssa.Slice, *ssa.MakeInterface, *ssa.Extract, *ssa.UnOp:
							slice[rv] = true
							work = append(work, rv)
						}
					}
				}
				for _, w := range writes {
					uses := false
					if sliceLoad[l.in] {
						// only the value written back counts (indexing into the loaded slice to
						// find the place of a write is the ordinary use of a container)
						if st, ok := w.(*ssa.Store); ok && slice[st.Val] {
							if _, isSl := st.Val.Type().Underlying().(*types.Slice); isSl {
								uses = true
							}
						}
					} else {
						for _, op := range w.Operands(nil) {
							if op != nil && *op != nil && slice[*op] {
								uses = true
							}
						}
					}
					if !uses {
						continue
					}
					if g == nil {
						g = BuildECFG(p, fn, ExpandOpts{MaxDepth: 0})
						c.NoteGraph(g)
					}
					var ln, wn *Node
					for _, nd := range g.Nodes {
						if nd.Kind != NInstr {
							continue
						}
						if nd.In == ssa.Instruction(l.in) {
							ln = nd
						}
						if nd.In == w {
							wn = nd
						}
					}
					if ln == nil || wn == nil {
						continue
					}
					// the mutex that guards both accesses (a type may have several)
					mu := ""
					for _, m := range mus {
						if heldAt(g, ln, m) && heldAt(g, wn, m) {
							// released in between under this mutex? take the first that is
							mu = m
							rel := false
							for _, u := range g.Select(func(x *Node) bool {
								cn := CallName(x)
								if cn != "(*sync.Mutex).Unlock" && cn != "(*sync.RWMutex).Unlock" && cn != "(*sync.RWMutex).RUnlock" {
									return false
								}
								if _, deferred := x.In.(deferredCall); deferred {
									return false
								}
								r := RecvTerm(x)
								return r != nil && r.Op == "field" && r.Name == m
							}) {
								uu := u
								if g.PathAvoiding(ln.Succ, func(x *Node) bool { return x == uu }, nil) != nil && g.PathAvoiding(uu.Succ, func(x *Node) bool { return x == wn }, nil) != nil {
									rel = true
								}
							}
							if rel {
								break
							}
						}
					}
					if mu == "" {
						continue
					}
					isUnlock := func(x *Node) bool {
						cn := CallName(x)
						if cn != "(*sync.Mutex).Unlock" && cn != "(*sync.RWMutex).Unlock" && cn != "(*sync.RWMutex).RUnlock" {
							return false
						}
						if _, deferred := x.In.(deferredCall); deferred {
							return false
						}
						r := RecvTerm(x)
						return r != nil && r.Op == "field" && r.Name == mu
					}
					// a release on a path from the load to the write
					released := false
					var via *Node
					for _, u := range g.Select(isUnlock) {
						uu := u
						if g.PathAvoiding(ln.Succ, func(x *Node) bool { return x == uu }, nil) != nil && g.PathAvoiding(uu.Succ, func(x *Node) bool { return x == wn }, nil) != nil {
							released, via = true, uu
						}
					}
					inst := fnShort(fn) + " ⟂ " + l.lbl + " read and used in one critical section"
					if released {
						c.Bad(rule, inst, fnName(fn), p.InstrPos(w), "the value of "+l.lbl+" is read under the lock (@"+p.InstrPos(l.in)+"), the lock is released (@"+p.InstrPos(via.In)+"), and after it was taken again a write into the receiver's state uses what was read: by then another goroutine may have changed it — the write lands where the state no longer is (a blob filed under a DA height that has meanwhile been published and scanned as empty is never found by the scan)", nil)
					} else {
						c.OK(rule, inst, fnName(fn), p.InstrPos(w), "the read of "+l.lbl+" and the write that depends on it sit in one critical section", true)
					}
				}
			}
		}
	}
	if nTypes == 0 {
		c.Unk(rule, "anchor-count", "", "", "anchor lost: no method of a mutex-guarded type reads and writes its state")
	}
}

// ruleSignalTakenOnlyAtTheWait (C07-R14 = C13-R18): a signal on a worker's wake-up channel says
// "state you care about has changed since you last looked". The worker takes a signal in one
// place only — the blocking wait at the head of its loop — so that every signal is followed by a
// fresh look. A second, non-blocking receive elsewhere in the loop ("drain what piled up") throws
// away a signal that was raised after the look it is supposed to cover: the change it announced
// is acted on only when some unrelated later signal arrives.
func ruleSignalTakenOnlyAtTheWait(c *Check, p *Prog, rule string) {
	c.Doc(rule, "CS: a channel field that a function of the block package receives from in a blocking select (its wake-up) is received from nowhere else in that function or its closures: no draining receive besides the wait.")
	n := 0
	byTop := map[*ssa.Function][]*ssa.Function{}
	for _, fn := range p.Funcs {
		pk := fnPkg(fn)
		if pk == nil || pk.Pkg.Path() != rootPath+"/block" || fn.Blocks == nil {
			continue
		}
		byTop[topParent(fn)] = append(byTop[topParent(fn)], fn)
	}
	var tops []*ssa.Function
	for t := range byTop {
		tops = append(tops, t)
	}
	sort.Slice(tops, func(i, j int) bool { return fnName(tops[i]) < fnName(tops[j]) })
	chanField := func(v ssa.Value) string {
		ld, ok := v.(*ssa.UnOp)
		if !ok || ld.Op != token.MUL {
			return ""
		}
		fa, ok := ld.X.(*ssa.FieldAddr)
		if !ok {
			return ""
		}
		if _, isChan := ld.Type().Underlying().(*types.Chan); !isChan {
			return ""
		}
		return fieldLabel(fa.X.Type(), fa.Field)
	}
	for _, top := range tops {
		waits := map[string]token.Pos{}
		others := map[string]token.Pos{}
		for _, fn := range byTop[top] {
			for _, b := range fn.Blocks {
				for _, in := range b.Instrs {
					switch x := in.(type) {
					case *ssa.Select:
						for _, st := range x.States {
							if st.Dir != types.RecvOnly {
								continue
							}
							f := chanField(st.Chan)
							if f == "" {
								continue
							}
							if x.Blocking {
								waits[f] = in.Pos()
							} else {
								others[f] = st.Pos
								if others[f] == token.NoPos {
									others[f] = in.Pos()
								}
							}
						}
					case *ssa.UnOp:
						if x.Op == token.ARROW {
							if f := chanField(x.X); f != "" {
								others[f] = x.Pos()
							}
						}
					}
				}
			}
		}
		var fields []string
		for f := range waits {
			fields = append(fields, f)
		}
		sort.Strings(fields)
		for _, f := range fields {
			n++
			inst := fnShort(top) + " ⟂ " + f + " taken only at the wait"
			if pos, bad := others[f]; bad {
				c.Bad(rule, inst, fnName(top), p.Pos(pos), "the wake-up channel "+f+" is also received from outside the loop's blocking wait (a draining receive): a signal raised after the worker last looked at the state — but before the drain — is discarded, the worker goes back to waiting, and what the signal announced (a block now fully on the DA layer, new transactions) is acted on only when an unrelated later signal arrives", nil)
			} else {
				c.OK(rule, inst, fnName(top), p.Pos(waits[f]), "the channel is received from only in the blocking wait", true)
			}
		}
	}
	if n == 0 {
		c.Unk(rule, "anchor-count", "", "", "anchor lost: no blocking wait on a channel field in the block package")
	}
	c.MinInstances(rule, 3)
}

// ruleOnDiskStoreOptionsDefault (C15-R11 = C14-R13): "one batch, one commit" is atomic only as
// far as the backend's write batch is: badger's WriteBatch commits what it holds and goes on
// whenever the pending transaction would pass its size limit, which is a fraction of the
// memtable size. With the library's defaults the limit is far above a block; a store opened with
// a smaller memtable commits a large block's batch in pieces — a block that is then rejected has
// already changed the store. The node's on-disk store is opened with the library's own options.
func ruleOnDiskStoreOptionsDefault(c *Check, p *Prog, rule string) {
	c.Doc(rule, "CT: the constructor of the node's on-disk key-value store hands go-ds-badger4 nil options or its DefaultOptions untouched (no size-tuning method of badger's Options is called in pkg/store): the write-batch transaction limit, on which the atomicity of a block's batch rests, stays the library's.")
	storePk := rootPath + "/pkg/store"
	n := 0
	for _, fn := range p.Funcs {
		pk := fnPkg(fn)
		if pk == nil || pk.Pkg.Path() != storePk || fn.Blocks == nil {
			continue
		}
		for _, b := range fn.Blocks {
			for _, in := range b.Instrs {
				call, ok := in.(*ssa.Call)
				if !ok || !strings.HasSuffix(commonName(call.Common()), "go-ds-badger4.NewDatastore") || len(call.Common().Args) < 2 {
					continue
				}
				// the in-memory store (first argument "") is not the node's durable store
				if k, ok := call.Common().Args[0].(*ssa.Const); ok && k.Value != nil && k.Value.ExactString() == `""` {
					continue
				}
				n++
				inst := fnShort(fn) + " ⟂ library options"
				if k, ok := call.Common().Args[1].(*ssa.Const); ok && k.IsNil() {
					c.OK(rule, inst, fnName(fn), p.InstrPos(in), "the store is opened with nil options (the library's defaults)", true)
					continue
				}
				// options given: no tuning call in the function
				tuned := ""
				for _, bb := range fn.Blocks {
					for _, i2 := range bb.Instrs {
						if c2, ok := i2.(*ssa.Call); ok {
							cn := commonName(c2.Common())
							if strings.Contains(cn, "badger/v4.Options).With") {
								tuned = cn[strings.LastIndex(cn, ".")+1:] + " @" + p.InstrPos(i2)
							}
						}
					}
				}
				if tuned == "" {
					c.OK(rule, inst, fnName(fn), p.InstrPos(in), "options are passed, but none of badger's tuning methods is applied to them", true)
				} else {
					c.Bad(rule, inst, fnName(fn), p.InstrPos(in), "the node's on-disk store is opened with tuned badger options ("+tuned+"): badger's write batch commits in pieces once a transaction passes a fraction of the memtable size, so a smaller memtable makes a block's batch non-atomic — a rejected block with enough data before the bad transaction is partly committed, and a crash mid-block leaves half a block", nil)
				}
			}
		}
	}
	if n == 0 {
		c.Unk(rule, "anchor-count", "", "", "anchor lost: no on-disk badger store is opened in pkg/store")
	}
}
