package main

import (
	"crypto/sha256"
	"fmt"
	"go/ast"
	"go/constant"
	"go/token"
	"go/types"
	"strings"

	"golang.org/x/tools/go/ssa"
)

func init() {
	register("C01", &propDef{
		run: runC01,
		explanation: "Decides, on every path of the block-production step: R1 every commit effect (final block save, state, height, broadcast) happens only after Manager.Validate accepted the very header/data committed; " +
			"R2 the validator's accepting paths entail each clause it is relied on for (height = last+1, chain id, time not before last block (first height exempt), app hash chaining, data commitment, proposer/signature clauses); " +
			"R3 what validation does not cover is right by construction in the block builder (height, previous hash, proposer, public key, transactions copied index by index, data hash of exactly that data or the empty-hash constant); " +
			"R4 the empty-data hash constant is the commitment of an empty Data; R5 the signature is made over the header that is committed and the header is not written after signing; " +
			"R6 the state advance copies height/time/app hash from this block; R7 a content-dependent rejection (timestamp regression) is applied before the block is saved for re-use on every path, including the empty-batch path.",
		notDecided:  "State-root values; that execution errors cannot recur forever; lazy/normal timing; chains of any length beyond the per-step induction.",
		assumptions: []string{"Signer, libp2p crypto, Store, Executor and Sequencer are effect leaves", "go/ssa"},
	})
}

// litStores collects the values stored into (nested) fields of a struct literal built in alloc.
func litStoresOf(al *ssa.Alloc) map[string][]ssa.Value { return litStores(al) }

func litStores(al ssa.Value) map[string][]ssa.Value {
	out := map[string][]ssa.Value{}
	var walk func(addr ssa.Value, prefix string)
	walk = func(addr ssa.Value, prefix string) {
		refs := addr.Referrers()
		if refs == nil {
			return
		}
		for _, r := range *refs {
			switch x := r.(type) {
			case *ssa.FieldAddr:
				if x.X != addr {
					continue
				}
				st := derefStruct(x.X.Type())
				name := fmt.Sprintf("#%d", x.Field)
				if st != nil {
					name = fieldLabel(x.X.Type(), x.Field)
				}
				p := name
				if prefix != "" {
					p = prefix + "." + name
				}
				walk(x, p)
			case *ssa.IndexAddr:
				if x.X != addr {
					continue
				}
				if k, ok := x.Index.(*ssa.Const); ok {
					pp := fmt.Sprintf("[%s]", k.Value.String())
					if prefix != "" {
						pp = prefix + pp
					}
					walk(x, pp)
				}
			case *ssa.Store:
				if x.Addr == addr && prefix != "" {
					// nested composite literals are built in their own local and copied whole
					if u, ok := x.Val.(*ssa.UnOp); ok && u.Op == token.MUL {
						if inner, ok := u.X.(*ssa.Alloc); ok && inner.Comment == "complit" {
							walk(inner, prefix)
							continue
						}
					}
					out[prefix] = append(out[prefix], x.Val)
				}
			}
		}
	}
	walk(al, "")
	return out
}

func runC01(c *Check) {
	p := c.Mod(ModRoot)
	depth := 5
	if c.Thorough() {
		depth = 8
	}
	c.Doc("C01-R1", "EO+GA+VP: Store.SetHeight, Store.UpdateState, broadcaster.WriteToStoreAndBroadcast and the post-signature Store.SaveBlockData are reachable only through the nil edge of Manager.Validate(ctx,h,d), and h,d are the values committed.")
	c.Doc("C01-R2", "FS: accepting execValidate / SignedHeader.ValidateBasic / types.Validate entail the clauses listed in DESIGN 4.1.")
	c.Doc("C01-R3", "VP: provenance of the fields of the header and data built by the block builder.")
	c.Doc("C01-R4", "CT: dataHashForEmptyTxs = sha256(0x00) (leaf hash of the empty Data encoding).")
	c.Doc("C01-R5", "EO+VP: the signed payload derives from the header committed; no store into header.Header after signing; sign < validate < final save.")
	c.Doc("C01-R6", "VP: State.NextState sets LastBlockHeight/LastBlockTime from the header and AppHash from the execution result; the executed transactions are the block's.")
	c.Doc("C01-R9", "BO: the production step calls the execution and sequencing layers with the loop's context, with no deadline of its own (the saved block is retried unchanged: a deadline an honest but slow answer exceeds would fail every retry).")
	c.Doc("C01-R7", "EO: between taking a batch and the early save, the timestamp-not-before-last-header check is passed on every path.")

	steps := productionStep(c, p)
	if len(steps) == 0 {
		c.Unk("C01-R1", "anchor", "", "", "anchor lost: production step")
		return
	}
	for _, step := range steps {
		g := BuildECFG(p, step, ExpandOpts{MaxDepth: depth})
		c.NoteGraph(g)
		fn := fnName(step)
		isSave := IsCall(storeM("SaveBlockData"))
		isState := IsCall(storeM("UpdateState"))
		isHeight := IsCall(storeM("SetHeight"))
		isSign := IsCall(signerM("Sign"))
		isBatch := IsCall(seqM("GetNextBatch"))
		isBroadcast := func(n *Node) bool { return strings.HasSuffix(CallName(n), ").WriteToStoreAndBroadcast") }
		// R9: the step retries the block it has saved, unchanged, until it commits. A deadline of
		// the step's own on the call into the execution layer (or the sequencing layer) turns an
		// honest but slow answer into an error that repeats on every retry and after every restart:
		// the node can neither commit the block nor drop it. The only deadline is the loop's context.
		for _, nd := range g.Select(IsCall(execM("ExecuteTxs"), execM("InitChain"), execM("SetFinal"), seqM("GetNextBatch"))) {
			cc := CallCommonOf(nd)
			if cc == nil || len(cc.Args) == 0 {
				continue
			}
			ct := TermOf(cc.Args[0], nd.Ctx)
			cn := CallName(nd)
			inst := fnShort(step) + " ⟂ " + cn[strings.LastIndex(cn, ".")+1:] + " called without a deadline of the step's own"
			if p.DeepContains(ct, func(t *Term) bool {
				return t.IsCall("context.WithTimeout") || t.IsCall("context.WithDeadline") || t.IsCall("context.WithTimeoutCause") || t.IsCall("context.WithDeadlineCause")
			}, 1) {
				c.Bad("C01-R9", inst, fn, p.InstrPos(nd.In), "the call is made under a deadline set inside the production step ("+trunc(ct.String(), 80)+"): a well-formed answer that takes longer fails the step, and since the saved block is retried unchanged it fails on every attempt and after every restart — the node stops producing blocks although the layer behaves correctly", nil)
			} else {
				c.OK("C01-R9", inst, fn, p.InstrPos(nd.In), "the context handed on is the loop's own", true)
			}
		}
		var finals, early []*Node
		for _, s := range g.Select(isSave) {
			if g.PathAvoiding([]*Node{g.Entry}, nodeSet([]*Node{s}), isSign) == nil {
				finals = append(finals, s)
			} else {
				early = append(early, s)
			}
		}
		isValidate := func(t *Term) bool { return t.IsCall("block.Manager).Validate") }
		validOK := g.Select(ErrNilEdge(isValidate))
		if len(validOK) == 0 {
			c.Bad("C01-R1", fnShort(step)+" ⟂ Validate", fn, "", "no branch on the result of Manager.Validate in the production step", nil)
		} else {
			effects := []struct {
				name string
				pred NodePred
			}{{"final SaveBlockData", nodeSet(finals)}, {"UpdateState", isState}, {"SetHeight", isHeight}, {"WriteToStoreAndBroadcast", isBroadcast}}
			for _, e := range effects {
				if len(g.Select(e.pred)) == 0 {
					c.Unk("C01-R1", fnShort(step)+" ⟂ Validate<"+e.name, fn, "", "anchor lost: effect "+e.name+" not found in the production step")
					continue
				}
				c.Decide("C01-R1", fnShort(step)+" ⟂ Validate<"+e.name, fn, posOf(g, e.pred),
					e.name+" only after successful validation",
					e.name+" is reachable without a successful Manager.Validate: a block made invalid by a sequencer/executor response would be committed",
					g, g.MustPrecede(nodeSet(validOK), e.pred))
			}
			// validated values = committed values
			var vcall *Term
			ct, _ := CondTerm(validOK[0])
			ct.Walk(func(t *Term) bool {
				if isValidate(t) {
					vcall = t
				}
				return true
			})
			if vcall != nil && len(vcall.Args) >= 4 {
				hv, dv := vcall.Args[2], vcall.Args[3]
				for _, s := range finals {
					same := ArgTerm(s, 1).String() == hv.String() && ArgTerm(s, 2).String() == dv.String()
					if same {
						c.OK("C01-R1", fnShort(step)+" ⟂ saved=validated", fn, p.InstrPos(s.In), "the header/data saved are the validated values", true)
					} else {
						c.Bad("C01-R1", fnShort(step)+" ⟂ saved=validated", fn, p.InstrPos(s.In), "saved ("+trunc(ArgTerm(s, 1).String(), 60)+") differs from validated ("+trunc(hv.String(), 60)+")", nil)
					}
				}
				for _, b := range g.Select(isBroadcast) {
					a := ArgTerm(b, 1).String()
					if a == hv.String() || a == dv.String() {
						c.OK("C01-R1", fnShort(step)+" ⟂ broadcast=validated", fn, p.InstrPos(b.In), "the broadcast item is a validated value", true)
					} else {
						c.Bad("C01-R1", fnShort(step)+" ⟂ broadcast=validated", fn, p.InstrPos(b.In), "broadcast item "+trunc(a, 80)+" is not the validated header/data", nil)
					}
				}
				// R5: signature over the committed header
				for _, sg := range g.Select(isSign) {
					payload := ArgTerm(sg, 0)
					okPayload := payload != nil && payload.Contains(func(t *Term) bool {
						return t.Op == "field" && t.Name == "Header" && t.Args[0].String() == hv.String()
					})
					inst := fnShort(step) + " ⟂ sign-payload"
					if okPayload {
						c.OK("C01-R5", inst, fn, p.InstrPos(sg.In), "the signed payload derives from the Header of the committed signed header: "+trunc(payload.String(), 100), true)
					} else {
						c.Bad("C01-R5", inst, fn, p.InstrPos(sg.In), "the payload signed does not derive from the header that is committed: "+trunc(payload.String(), 160), nil)
					}
				}
				// signature stored into the header is the Sign result
				sigStores := g.Select(func(n *Node) bool {
					st, ok := n.In.(*ssa.Store)
					if !ok {
						return false
					}
					at := TermOf(st.Addr, n.Ctx)
					return at.Op == "field" && at.Name == "Signature" && at.Args[0].String() == hv.String()
				})
				okSig := false
				for _, ss := range sigStores {
					v := TermOf(ss.In.(*ssa.Store).Val, ss.Ctx)
					if p.DeepContains(v, func(t *Term) bool { return t.Op == "invoke" && strings.HasSuffix(t.Name, "signer.Signer).Sign") }, 3) {
						okSig = true
					}
				}
				if okSig {
					c.OK("C01-R5", fnShort(step)+" ⟂ signature-stored", fn, posOf(g, nodeSet(sigStores)), "header.Signature is assigned the Signer.Sign result", true)
				} else {
					c.Bad("C01-R5", fnShort(step)+" ⟂ signature-stored", fn, "", "header.Signature is not assigned the result of Signer.Sign on this header", nil)
				}
				// no store into header.Header.* after signing
				hdrStore := func(n *Node) bool {
					st, ok := n.In.(*ssa.Store)
					if !ok {
						return false
					}
					at := TermOf(st.Addr, n.Ctx)
					under := false
					for x := at; x != nil && x.Op == "field"; x = x.Args[0] {
						if x.Name == "Header" && x.Args[0].String() == hv.String() {
							under = true
						}
					}
					return under
				}
				c.Decide("C01-R5", fnShort(step)+" ⟂ no-write-after-sign", fn, posOf(g, isSign),
					"no store into the header's signed part is reachable after Signer.Sign",
					"the header is modified after it was signed: the committed header does not verify", g, g.NeverAfter(isSign, hdrStore))
				c.Decide("C01-R5", fnShort(step)+" ⟂ sign<validate", fn, posOf(g, isSign),
					"validation sees the signed header", "Manager.Validate can run before the header is signed",
					g, g.FreshPrecede(isSign, nodeSet(validOK)))
			}
		}

		// R7: timestamp check between batch and early save (all paths)
		tsOK := g.Select(EdgeWhere(func(t *Term, pol bool, n *Node) bool {
			t, pol = normFact(t, pol)
			return !pol && t.Op == "call" && strings.HasSuffix(t.Name, "time.Time).Before") && fromBatch(p, t.Args[0])
		}))
		if len(early) > 0 {
			if len(tsOK) == 0 {
				c.Bad("C01-R7", fnShort(step)+" ⟂ batch→timestamp-check→early-save", fn, posOf(g, nodeSet(early)), "no timestamp-not-before-last-header check on the batch before the early save", nil)
			} else {
				path := g.PathAvoiding(g.Select(isBatch), nodeSet(early), nodeSet(tsOK))
				c.Decide("C01-R7", fnShort(step)+" ⟂ batch→timestamp-check→early-save", fn, posOf(g, nodeSet(early)),
					"every path from taking a batch to the early save passes the timestamp check",
					"a batch whose timestamp is before the last header's can be saved as the pending block without the timestamp check (empty-batch path): the saved block then fails validation and is re-used forever",
					g, path)
				// and the compared time is the last header's time
				ct, _ := CondTerm(tsOK[0])
				if strings.Contains(ct.String(), "types.Header).Time(") && strings.Contains(ct.String(), "GetBlockData(") {
					c.OK("C01-R7", fnShort(step)+" ⟂ compared-with-last-header-time", fn, p.InstrPos(tsOK[0].In), "the batch time is compared with the time of the header loaded at the current height", true)
				} else {
					c.Bad("C01-R7", fnShort(step)+" ⟂ compared-with-last-header-time", fn, p.InstrPos(tsOK[0].In), "the timestamp check does not compare with the last stored header's time: "+trunc(ct.String(), 160), nil)
				}
			}
		}

		// R3: builder provenance, in the context of the production step
		ruleBuilder(c, p, g, step)
		undecidedGraph(c, "C01-R1", g, nil)
	}
	c.MinInstances("C01-R1", 6)
	c.MinInstances("C01-R5", 4)
	c.MinInstances("C01-R7", 2)
	c.MinInstances("C01-R3", 9)
	c.MinInstances("C01-R8", 2)

	ruleValidatorFacts(c, p)
	ruleValidatorAgreesWithBuilder(c, p)
	ruleFirstBlockMatchesInitialState(c, p)
	rulePersistedStateLoadable(c, p, "C01-R12")
	ruleEmptyHashConst(c, p)
	ruleNextState(c, p)
}

// ruleBuilder (C01-R3).
func ruleBuilder(c *Check, p *Prog, g *Graph, step *ssa.Function) {
	// the builder: the function in the step's graph that allocates a types.SignedHeader
	type site struct {
		al  *ssa.Alloc
		ctx *Ctx
	}
	var hdrs, datas []site
	seen := map[*ssa.Alloc]bool{}
	for _, n := range g.Nodes {
		al, ok := n.In.(*ssa.Alloc)
		if !ok || !g.Live()[n] || seen[al] {
			continue
		}
		et := al.Type().(*types.Pointer).Elem().String()
		if et == rootPath+"/types.SignedHeader" && al.Heap {
			seen[al] = true
			hdrs = append(hdrs, site{al, n.Ctx})
		}
		if et == rootPath+"/types.Data" && al.Heap && len(hdrs) > 0 && n.Ctx == hdrs[0].ctx {
			seen[al] = true
			datas = append(datas, site{al, n.Ctx})
		}
	}
	rule := "C01-R3"
	if len(hdrs) != 1 || len(datas) != 1 {
		c.Unk(rule, fnShort(step)+" ⟂ builder", fnName(step), "", fmt.Sprintf("anchor lost: expected one SignedHeader and one Data literal in the block builder, found %d/%d", len(hdrs), len(datas)))
		return
	}
	h, d := hdrs[0], datas[0]
	c.Doc("C01-R8", "VP: chain links (previous header hash, previous data hash) are nil only when the new height is not above the initial height, on every path including the re-use of a stored block.")
	ruleChainLinks(c, p, g, step, h.al, h.ctx)
	bfn := fnName(h.ctx.Fn)
	pos := p.InstrPos(h.al)
	stores := litStores(h.al)
	tm := func(path string) string {
		vs := stores[path]
		var ss []string
		for _, v := range vs {
			ss = append(ss, TermOf(v, h.ctx).String())
		}
		return strings.Join(ss, " | ")
	}
	check := func(name, got string, ok bool, why string) {
		inst := fnShort(h.ctx.Fn) + " ⟂ " + name
		if ok {
			c.OK(rule, inst, bfn, pos, name+" ← "+trunc(got, 140), true)
		} else {
			c.Bad(rule, inst, bfn, pos, name+" ← "+trunc(got, 200)+" — "+why, nil)
		}
	}
	ht := tm("Header.BaseHeader.Height")
	check("Height", ht, ht != "" && func() bool {
		vs := stores["Header.BaseHeader.Height"]
		return len(vs) == 1 && isHeightPlusOne(TermOf(vs[0], h.ctx))
	}(), "the new block's height must be Store.Height()+1")
	lh := tm("Header.LastHeaderHash")
	check("LastHeaderHash", lh, strings.Contains(lh, "types.Header).Hash(") && strings.Contains(lh, "GetBlockData(") && regexpHeightArg(lh), "must be the hash of the header stored at the current height")
	pa := tm("Header.ProposerAddress")
	check("ProposerAddress", pa, strings.HasSuffix(pa, ".genesis.ProposerAddress"), "must be the genesis proposer address")
	sa := tm("Signer.Address")
	check("Signer.Address", sa, strings.HasSuffix(sa, ".genesis.ProposerAddress"), "must be the genesis proposer address")
	pk := tm("Signer.PubKey")
	check("Signer.PubKey", pk, strings.Contains(pk, "signer.Signer).GetPublic(") && strings.HasSuffix(pk, "#0"), "must be the signer's public key")
	ah := tm("Header.AppHash")
	check("AppHash", ah, strings.HasSuffix(ah, ".lastState.AppHash"), "must be the last state's app hash (delayed execution)")
	ci := tm("Header.BaseHeader.ChainID")
	check("ChainID", ci, strings.HasSuffix(ci, ".lastState.ChainID"), "must be the chain id of the state")
	tmv := tm("Header.BaseHeader.Time")
	check("Time", tmv, len(stores["Header.BaseHeader.Time"]) == 1 && fromBatch(p, TermOf(stores["Header.BaseHeader.Time"][0], h.ctx)) && strings.Contains(tmv, "UnixNano"), "must be the batch timestamp")

	// guard: genesis proposer = signer address on every success path of the builder
	bg := BuildECFG(p, h.ctx.Fn, ExpandOpts{MaxDepth: 0})
	c.NoteGraph(bg)
	facts := FactSet(bg.NecessaryEdges(bg.SuccessExits()))
	guard := false
	for _, f := range facts {
		s := f.Cond.String()
		if f.Pol && f.Cond.Op == "call" && f.Cond.Name == "bytes.Equal" && strings.Contains(s, ".genesis.ProposerAddress") && strings.Contains(s, "signer.Signer).GetAddress(") {
			guard = true
		}
	}
	check("proposer-guard", strings.Join(facts.Strings(), " ; "), guard, "the builder must refuse to build unless the signer's address equals the genesis proposer address")

	// data: Txs copied index by index from the batch; DataHash of exactly that data or the empty constant
	var copyOK, anyTxStore bool
	for _, b := range h.ctx.Fn.Blocks {
		for _, in := range b.Instrs {
			st, ok := in.(*ssa.Store)
			if !ok {
				continue
			}
			ia, ok := st.Addr.(*ssa.IndexAddr)
			if !ok {
				continue
			}
			base := TermOf(ia.X, h.ctx)
			if !(base.Op == "field" && base.Name == "Txs" && base.Args[0].V == ssa.Value(d.al)) {
				continue
			}
			anyTxStore = true
			val := TermOf(st.Val, h.ctx).unconv()
			if val.Op == "index" && val.Args[1].V == ia.Index && strings.Contains(val.Args[0].String(), "Transactions") && fromBatch(p, val.Args[0]) {
				copyOK = true
			} else {
				copyOK = false
			}
		}
	}
	check("Txs[i]←batch.Transactions[i]", fmt.Sprintf("indexed copy found=%v", anyTxStore), anyTxStore && copyOK, "transactions must be copied from the batch at the same index, in order")
	dh := stores["Header.DataHash"]
	var dhs []string
	okDH := len(dh) == 2
	sawEmpty, sawCommit := false, false
	for _, v := range dh {
		t := TermOf(v, h.ctx)
		dhs = append(dhs, t.String())
		if t.Op == "global" && t.Name == "block.dataHashForEmptyTxs" {
			sawEmpty = true
		} else if t.IsCall("types.Data).DACommitment") && t.Args[0].V == ssa.Value(d.al) {
			sawCommit = true
		} else {
			okDH = false
		}
	}
	check("DataHash", strings.Join(dhs, " | "), okDH && sawEmpty && sawCommit, "DataHash must be the commitment of exactly the built data, or the empty-hash constant")
	// the empty constant only when there are no transactions: the store of the constant is guarded by emptiness of the batch
	emptyStores := bg.Select(func(n *Node) bool {
		st, ok := n.In.(*ssa.Store)
		if !ok {
			return false
		}
		t := TermOf(st.Val, n.Ctx).unconv()
		return t.Op == "global" && t.Name == "block.dataHashForEmptyTxs"
	})
	if len(emptyStores) == 0 {
		c.Unk(rule, fnShort(h.ctx.Fn)+" ⟂ empty-hash-iff-empty", bfn, "", "anchor lost: no store of the empty-hash constant in the builder")
	}
	for _, n := range emptyStores {
		// on every path to this store, "isEmpty" holds: Batch == nil or len(Transactions) == 0; equivalently no Txs store precedes it
		path := bg.PathAvoiding([]*Node{bg.Entry}, nodeSet([]*Node{n}), nil)
		_ = path
		txStore := func(x *Node) bool {
			st, ok := x.In.(*ssa.Store)
			if !ok {
				return false
			}
			fa, ok := st.Addr.(*ssa.FieldAddr)
			return ok && fa.X == ssa.Value(d.al) && TermOf(fa, bg.RootCtx).Name == "Txs" && !strings.Contains(TermOf(st.Val, bg.RootCtx).String(), "0:int")
		}
		_ = txStore
		fs := FactSet(bg.NecessaryEdges(nodeSet([]*Node{n})))
		// alternatives: a fact on a short-circuit phi stands for the disjunction of its incoming edges
		alts := []FactSet{fs}
		for _, f := range fs {
			if phi, ok := f.Cond.V.(*ssa.Phi); ok && f.Cond.Op == "phi" {
				if a := bg.BoolPhiDNF(phi, bg.RootCtx, f.Pol); len(a) > 0 {
					alts = a
				}
			}
		}
		// every alternative says: there is no batch, or the batch has no transactions
		noTxs := func(f Fact) bool {
			t, pol := normFact(f.Cond, f.Pol)
			if t.Op != "bin" || len(t.Args) != 2 {
				return false
			}
			l, r := t.Args[0].unconv(), t.Args[1].unconv()
			isNil := func(x *Term) bool { return x.Op == "const" && x.Name == "nil" }
			isZero := func(x *Term) bool { return x.Op == "const" && (x.Name == "0" || strings.HasPrefix(x.Name, "0:")) }
			lenTxs := func(x *Term) bool {
				return (x.IsCall("len") || (x.Op == "call" && x.Name == "len")) && len(x.Args) == 1 && strings.HasSuffix(x.Args[0].unconv().String(), ".Transactions")
			}
			batchPtr := func(x *Term) bool { return x.Op == "field" && x.Name == "Batch" }
			switch {
			case (batchPtr(l) && isNil(r)) || (batchPtr(r) && isNil(l)):
				return (t.Name == "==") == pol
			case lenTxs(l) && isZero(r):
				return (t.Name == "==" && pol) || (t.Name == "!=" && !pol) || (t.Name == ">" && !pol) || (t.Name == "<=" && pol)
			case lenTxs(r) && isZero(l):
				return (t.Name == "==" && pol) || (t.Name == "!=" && !pol) || (t.Name == "<" && !pol) || (t.Name == ">=" && pol)
			}
			return false
		}
		okE := len(alts) > 0
		var bad string
		for _, a := range alts {
			a = p.closeFacts(a, 2)
			hit := false
			for _, f := range a {
				if noTxs(f) {
					hit = true
				}
			}
			if !hit {
				okE = false
				bad = strings.Join(a.Strings(), " ; ")
			}
		}
		desc := strings.Join(fs.Strings(), " ; ")
		if bad != "" {
			desc = "alternative without an emptiness test: " + bad
		}
		check("empty-hash-iff-empty", desc, okE, "the empty-hash constant (and an empty transaction list) may be used only where there is no batch or len(batch.Transactions) == 0; any other notion of emptiness drops transactions the batch contains")
	}
}

// fromBatch: the value derives from the response of Sequencer.GetNextBatch (looking through the
// repo functions that return it).
func fromBatch(p *Prog, t *Term) bool {
	return p.DeepContains(t, func(x *Term) bool {
		return x.Op == "invoke" && strings.HasSuffix(x.Name, "sequencer.Sequencer).GetNextBatch")
	}, 4)
}

func regexpHeightArg(s string) bool {
	// GetBlockData(store, ctx, Height(...)#0) : the current height, not height+1
	i := strings.Index(s, "GetBlockData(")
	if i < 0 {
		return false
	}
	rest := s[i:]
	return strings.Contains(rest, "pkg/store.Store).Height(") && !strings.Contains(rest[:strings.Index(rest, "pkg/store.Store).Height(")+10], "+ 1")
}

// ruleValidatorAgreesWithBuilder (C01-R10): the builder leaves the chain links (previous header
// hash, previous data hash …) empty exactly for the chain's first block, which sits at the genesis
// InitialHeight (C01-R8). The validation shared with full nodes therefore refuses an empty chain
// link only under a test of the height against InitialHeight: a literal height (> 1) refuses the
// first block of every chain that starts above 1 — the block is already stored as the pending
// block, so production fails the same way on every attempt and after every restart.
func ruleValidatorAgreesWithBuilder(c *Check, p *Prog) {
	rule := "C01-R10"
	c.Doc(rule, "FS: every rejecting alternative of the shared validation that requires an empty chain link (a Last… field of the header or of the data's metadata being nil / of length 0) also carries a comparison with InitialHeight: the builder leaves the links empty exactly at the initial height (C01-R8), whatever that height is.")
	mv := p.MustFunc(mgrM("Validate"))
	alts := p.RejectDNF(mv, nil, corrResult(mv), 1)
	// follow the delegation to the validator proper
	var all [][]Fact
	var expand func(alts []FactSet, depth int)
	expand = func(alts []FactSet, depth int) {
		for _, alt := range alts {
			expanded := false
			if depth < 3 {
				for _, f := range alt {
					t := f.Cond
					if !(f.Pol && t.Op == "bin" && t.Name == "!=" && t.Args[1].Name == "nil") {
						continue
					}
					x := t.Args[0]
					if x.Op == "extract" {
						x = x.Args[0]
					}
					cv, ok := x.V.(*ssa.Call)
					if !ok || x.Op != "call" || cv.Common().StaticCallee() == nil || !p.Expandable(cv.Common().StaticCallee()) {
						continue
					}
					callee := cv.Common().StaticCallee()
					d := 0
					if x.Ctx != nil {
						d = x.Ctx.Depth + 1
					}
					expand(p.RejectDNF(callee, &Ctx{Parent: x.Ctx, Site: cv, Fn: callee, Depth: d}, corrResult(callee), 1), depth+1)
					expanded = true
				}
			}
			if !expanded {
				all = append(all, alt)
			}
		}
	}
	expand(alts, 0)
	n, nLink := 0, 0
	for _, alt := range all {
		n++
		var link *Fact
		hasInitial := false
		for i, f := range alt {
			t, pol := normFact(f.Cond, f.Pol)
			if strings.Contains(t.String(), ".InitialHeight") {
				hasInitial = true
			}
			if t.Op != "bin" || t.Name != "==" || !pol {
				continue
			}
			for k := 0; k < 2; k++ {
				a, b := t.Args[k].unconv(), t.Args[1-k].unconv()
				if b.Op != "const" || (b.Name != "nil" && !strings.HasPrefix(b.Name, "0")) {
					continue
				}
				x := a
				if (x.Op == "call" || x.Op == "builtin") && x.Name == "len" && len(x.Args) == 1 {
					x = x.Args[0].unconv()
				} else if strings.HasPrefix(x.String(), "len(") && len(x.Args) == 1 {
					x = x.Args[0].unconv()
				}
				if x.Op == "field" && strings.HasPrefix(x.Name, "Last") && x.Name != "LastBlockHeight" && x.Name != "LastBlockTime" {
					link = &alt[i]
				}
			}
		}
		if link == nil {
			continue
		}
		nLink++
		inst := "validation ⟂ empty-link refused only relative to InitialHeight ⟂ " + trunc(link.String(), 60)
		if hasInitial {
			c.OK(rule, inst, fnName(mv), p.Pos(mv.Pos()), "the alternative also compares the height with InitialHeight", true)
		} else {
			c.Bad(rule, inst, fnName(mv), p.Pos(mv.Pos()), "the shared validation refuses a block whose chain link is empty ("+link.String()+") without comparing its height with the genesis InitialHeight (facts: "+strings.Join(factStrings(alt), " ; ")+"): the first block of a chain that starts above height 1 has no predecessor, is refused, stays in the store as the pending block, and production fails for good", nil)
		}
	}
	if n < 5 {
		c.Unk(rule, "validation ⟂ rejecting-alternatives", fnName(mv), "", fmt.Sprintf("anchor lost: only %d rejecting alternatives of the shared validation found", n))
		return
	}
	if nLink == 0 {
		c.OK(rule, "validation ⟂ no-empty-link-refusal", fnName(mv), p.Pos(mv.Pos()), fmt.Sprintf("none of the %d rejecting alternatives of the shared validation requires an empty chain link", n), true)
	}
}

// ruleValidatorFacts (C01-R2).
func ruleValidatorFacts(c *Check, p *Prog) {
	rule := "C01-R2"
	// Manager.Validate delegates to the validator with the manager's last state
	mv := p.MustFunc(mgrM("Validate"))
	alts := p.AcceptDNF(mv, nil, corrResult(mv), 6)
	facts := intersectFacts(alts)
	have := func(pred func(f Fact) bool) bool {
		for _, f := range facts {
			if pred(f) {
				return true
			}
		}
		return false
	}
	pos := p.Pos(mv.Pos())
	fn := fnName(mv)
	recv := mv.Params[0].Name()
	hN, dN := mv.Params[2].Name(), mv.Params[3].Name()
	last := recv + ".lastState"
	accepted := func(sub string) func(Fact) bool {
		return func(f Fact) bool {
			t, _, ok := acceptedCall(f)
			return ok && strings.Contains(t.String(), sub)
		}
	}
	eqFalse := func(a, b string) func(Fact) bool {
		return func(f Fact) bool {
			t := f.Cond
			if t.Op != "bin" {
				return false
			}
			isEq := (t.Name == "!=" && !f.Pol) || (t.Name == "==" && f.Pol)
			if !isEq {
				return false
			}
			x, y := t.Args[0].String(), t.Args[1].String()
			return (x == a && y == b) || (x == b && y == a)
		}
	}
	hdr := hN + ".Header"
	clauses := []struct {
		name string
		ok   bool
		why  string
	}{
		{"SignedHeader.ValidateBasic accepted", have(accepted("types.SignedHeader).ValidateBasic(" + hN)), "the header's own validation must be required"},
		{"types.Validate(h,d) accepted", have(accepted("types.Validate(" + hN + ", " + dN)), "header/data agreement must be required"},
		{"chain id", have(eqFalse("(*types.Header).ChainID("+hdr+")", last+".ChainID")), "header.ChainID = lastState.ChainID"},
		{"height = last+1", have(eqFalse("(*types.Header).Height("+hdr+")", "("+last+".LastBlockHeight + 1)")), "header.Height = lastState.LastBlockHeight + 1"},
		{"app hash", have(func(f Fact) bool {
			return f.Pol && f.Cond.Op == "call" && f.Cond.Name == "bytes.Equal" && strings.Contains(f.Cond.String(), hdr+".AppHash") && strings.Contains(f.Cond.String(), last+".AppHash")
		}), "header.AppHash = lastState.AppHash"},
		{"data commitment", have(func(f Fact) bool {
			s := f.Cond.String()
			return f.Pol && f.Cond.Op == "call" && f.Cond.Name == "bytes.Equal" && strings.Contains(s, "types.Data).DACommitment(") && strings.Contains(s, hdr+".DataHash")
		}), "DACommitment(Data{Txs: d.Txs}) = header.DataHash"},
		{"proposer = signer address", have(func(f Fact) bool {
			s := f.Cond.String()
			return f.Pol && f.Cond.Name == "bytes.Equal" && strings.Contains(s, hdr+".ProposerAddress") && strings.Contains(s, hN+".Signer.Address")
		}), "header.ProposerAddress = header.Signer.Address"},
		{"signature verified", len(verifyFacts(facts)) > 0, "Verify(h.Signer.PubKey, payload, h.Signature)"},
		{"signature non-empty", have(accepted("types.Signature).ValidateBasic(")), "non-empty signature"},
		{"header basic", have(accepted("types.Header).ValidateBasic(")), "Header.ValidateBasic"},
	}
	for _, cl := range clauses {
		inst := "Manager.Validate ⟂ " + cl.name
		if cl.ok {
			c.OK(rule, inst, fn, pos, "entailed by every accepting path", true)
		} else {
			c.Bad(rule, inst, fn, pos, "accepting validation does not entail: "+cl.why+"; facts: "+trunc(strings.Join(facts.Strings(), " ; "), 1500), nil)
		}
	}
	// time clause is a disjunction: height <= 1 or not lastBlockTime.After(headerTime)
	// the validator: the repo function Manager.Validate delegates to
	var ev *ssa.Function
	for _, cal := range staticCalleesOf(p, mv) {
		if corrResult(cal) >= 0 && fnPkg(cal) != nil && fnPkg(cal).Pkg.Path() == rootPath+"/block" {
			ev = cal
		}
	}
	if ev == nil {
		// the validator: callee of Manager.Validate in the block package
		c.Unk(rule, "Manager.Validate ⟂ time", fn, pos, "anchor lost: validator function")
	} else {
		g := BuildECFG(p, ev, ExpandOpts{MaxDepth: 0})
		c.NoteGraph(g)
		accept := func(n *Node) bool { return g.AnyExit()(n) && g.ExitClass(n) != rcA }
		timeOK := g.Select(EdgeWhere(func(t *Term, pol bool, n *Node) bool {
			t, pol = normFact(t, pol)
			return !pol && t.Op == "call" && strings.HasSuffix(t.Name, "time.Time).After") && strings.Contains(t.Args[0].String(), "LastBlockTime") && strings.Contains(t.Args[1].String(), "types.Header).Time(")
		}))
		first := g.Select(EdgeWhere(func(t *Term, pol bool, n *Node) bool {
			t, pol = normFact(t, pol)
			return !pol && t.Op == "bin" && t.Name == ">" && strings.Contains(t.Args[0].String(), "types.Header).Height(") && t.Args[1].Name == "1"
		}))
		path := g.PathAvoiding([]*Node{g.Entry}, accept, orPred(nodeSet(timeOK), nodeSet(first)))
		if len(timeOK) == 0 {
			c.Bad(rule, "Manager.Validate ⟂ time", fnName(ev), "", "no clause `not lastState.LastBlockTime.After(header.Time())` in the validator", nil)
		} else {
			c.Decide(rule, "Manager.Validate ⟂ time", fnName(ev), p.InstrPos(timeOK[0].In), "every accepting path has height <= 1 or header time not before the last block time",
				"an accepting path of the validator avoids the block-time clause", g, path)
		}
	}
	// types.Validate hashes a Data with only Txs set
	tv := p.MustFunc(typesF("Validate"))
	found := false
	for _, b := range tv.Blocks {
		for _, in := range b.Instrs {
			al, ok := in.(*ssa.Alloc)
			if !ok || al.Type().(*types.Pointer).Elem().String() != rootPath+"/types.Data" {
				continue
			}
			st := litStores(al)
			if len(st) == 0 {
				continue
			}
			onlyTxs := len(st) == 1 && len(st["Txs"]) == 1 && TermOf(st["Txs"][0], &Ctx{Fn: tv}).String() == tv.Params[1].Name()+".Txs"
			found = true
			if onlyTxs {
				c.OK(rule, "types.Validate ⟂ commitment-over-Txs-only", fnName(tv), p.InstrPos(al), "the compared commitment is computed over Data{Txs: data.Txs}", true)
			} else {
				c.Bad(rule, "types.Validate ⟂ commitment-over-Txs-only", fnName(tv), p.InstrPos(al), fmt.Sprintf("the Data whose commitment is compared has fields %v set", sortedKeys(st)), nil)
			}
		}
	}
	if !found {
		// the commitment taken of the data itself: then the commitment function is what leaves
		// the metadata out — it hashes a Data literal that has only the receiver's Txs
		usesCommit := false
		for _, b := range tv.Blocks {
			for _, in := range b.Instrs {
				if call, ok := in.(*ssa.Call); ok && call.Common().StaticCallee() != nil && call.Common().StaticCallee().String() == "(*"+rootPath+"/types.Data).DACommitment" && len(call.Common().Args) == 1 && call.Common().Args[0] == ssa.Value(tv.Params[1]) {
					usesCommit = true
				}
			}
		}
		dc := p.Func("(*" + rootPath + "/types.Data).DACommitment")
		pruned := false
		if dc != nil && usesCommit {
			for _, b := range dc.Blocks {
				for _, in := range b.Instrs {
					al, ok := in.(*ssa.Alloc)
					if !ok || al.Type().(*types.Pointer).Elem().String() != rootPath+"/types.Data" {
						continue
					}
					st := litStores(al)
					if len(st) == 1 && len(st["Txs"]) == 1 && TermOf(st["Txs"][0], &Ctx{Fn: dc}).String() == dc.Params[0].Name()+".Txs" {
						pruned = true
					}
				}
			}
		}
		switch {
		case usesCommit && pruned:
			c.OK(rule, "types.Validate ⟂ commitment-over-Txs-only", fnName(tv), p.Pos(tv.Pos()), "the compared commitment is data.DACommitment(), which hashes Data{Txs: d.Txs}", true)
		case usesCommit:
			c.Bad(rule, "types.Validate ⟂ commitment-over-Txs-only", fnName(tv), p.Pos(tv.Pos()), "the compared commitment is taken of the data as it is, and DACommitment does not hash a Data that has only the transactions", nil)
		default:
			c.Unk(rule, "types.Validate ⟂ commitment-over-Txs-only", fnName(tv), "", "anchor lost: no Data literal in types.Validate and no commitment of the data parameter")
		}
	}
	c.MinInstances(rule, 12)
}

// ruleEmptyHashConst (C01-R4): evaluate the composite literal and compare with sha256(0x00).
func ruleEmptyHashConst(c *Check, p *Prog) {
	rule := "C01-R4"
	pk := p.byPkg[rootPath+"/block"]
	var lit *ast.CompositeLit
	var pos token.Pos
	for _, f := range pk.Syntax {
		ast.Inspect(f, func(n ast.Node) bool {
			vs, ok := n.(*ast.ValueSpec)
			if !ok {
				return true
			}
			for i, nm := range vs.Names {
				if nm.Name == "dataHashForEmptyTxs" && i < len(vs.Values) {
					if cl, ok := vs.Values[i].(*ast.CompositeLit); ok {
						lit, pos = cl, nm.Pos()
					}
				}
			}
			return true
		})
	}
	if lit == nil {
		c.Unk(rule, "dataHashForEmptyTxs", "", "", "anchor lost: the constant is not a composite literal any more")
		return
	}
	var got []byte
	for _, e := range lit.Elts {
		tv := pk.TypesInfo.Types[e]
		if tv.Value == nil {
			c.Unk(rule, "dataHashForEmptyTxs", "", p.Pos(pos), "non-constant element")
			return
		}
		v, _ := constant.Int64Val(tv.Value)
		got = append(got, byte(v))
	}
	want := sha256.Sum256([]byte{0})
	if string(got) == string(want[:]) {
		c.OK(rule, "dataHashForEmptyTxs", "", p.Pos(pos), "equals sha256(0x00), the commitment of a Data without transactions", true)
	} else {
		c.Bad(rule, "dataHashForEmptyTxs", "", p.Pos(pos), fmt.Sprintf("constant %x differs from sha256(0x00)=%x: empty blocks would never validate", got, want), nil)
	}
}

// ruleNextState (C01-R6).
func ruleNextState(c *Check, p *Prog) {
	rule := "C01-R6"
	ns := p.MustFunc(typesM("State", "NextState"))
	ctx := &Ctx{Fn: ns}
	var al *ssa.Alloc
	for _, b := range ns.Blocks {
		for _, in := range b.Instrs {
			if a, ok := in.(*ssa.Alloc); ok && a.Type().(*types.Pointer).Elem().String() == rootPath+"/types.State" && a.Comment == "complit" {
				al = a
			}
		}
	}
	if al == nil {
		// copy-and-update form: next := *s; next.F = …; return next
		var cp *ssa.Alloc
		for _, b := range ns.Blocks {
			for _, in := range b.Instrs {
				a, ok := in.(*ssa.Alloc)
				if !ok || a.Type().(*types.Pointer).Elem().String() != rootPath+"/types.State" {
					continue
				}
				for _, r := range *a.Referrers() {
					if st, ok := r.(*ssa.Store); ok && st.Addr == ssa.Value(a) {
						if ld, ok := st.Val.(*ssa.UnOp); ok && ld.Op == token.MUL && ld.X == ssa.Value(ns.Params[0]) {
							cp = a
						}
					}
				}
			}
		}
		if cp == nil {
			c.Unk(rule, "State.NextState", fnName(ns), "", "anchor lost: no State literal and no copy of the receiver")
			return
		}
		g := BuildECFG(p, ns, ExpandOpts{MaxDepth: 0})
		c.NoteGraph(g)
		hdr, root := ns.Params[1].Name(), ns.Params[2].Name()
		exp := map[string]func(string) bool{
			"LastBlockHeight": func(s string) bool { return strings.Contains(s, "types.Header).Height(") && strings.Contains(s, hdr) },
			"LastBlockTime":   func(s string) bool { return strings.Contains(s, "types.Header).Time(") && strings.Contains(s, hdr) },
			"AppHash": func(s string) bool {
				return s == root || s == "bytes.Clone("+root+")" || (strings.HasPrefix(s, "append(") && strings.Contains(s, root))
			},
		}
		for _, k := range sortedKeys(exp) {
			var stores []*Node
			okVal := true
			val := ""
			for _, nd := range g.Nodes {
				st, ok := nd.In.(*ssa.Store)
				if !ok || nd.Kind != NInstr || !g.Live()[nd] {
					continue
				}
				fa, ok := st.Addr.(*ssa.FieldAddr)
				if !ok || fa.X != ssa.Value(cp) || fieldLabel(fa.X.Type(), fa.Field) != k {
					continue
				}
				stores = append(stores, nd)
				val = TermOf(st.Val, ctx).String()
				if !exp[k](val) {
					okVal = false
				}
			}
			inst := "State.NextState ⟂ " + k
			switch {
			case len(stores) == 0:
				c.Bad(rule, inst, fnName(ns), p.Pos(ns.Pos()), k+" of the copied state is never updated: the new state carries the previous block's value", nil)
			case !okVal:
				c.Bad(rule, inst, fnName(ns), p.InstrPos(stores[0].In), k+" ← "+val+" (unexpected origin)", nil)
			default:
				c.Decide(rule, inst, fnName(ns), p.InstrPos(stores[0].In), k+" ← "+val+" on every path",
					k+" of the copied state is updated on some paths only: on the others the new state keeps the previous block's value (a stale state root is persisted, put into the next header and validated against itself)",
					g, g.PathAvoiding([]*Node{g.Entry}, g.AnyExit(), nodeSet(stores)))
			}
		}
		for _, k := range []string{"ChainID", "DAHeight", "InitialHeight"} {
			c.OK(rule, "State.NextState ⟂ "+k, fnName(ns), p.Pos(ns.Pos()), k+" kept from the receiver (copy)", true)
		}
		ruleNextStateApplier(c, p, rule)
		return
	}
	st := litStores(al)
	hdr, root := ns.Params[1].Name(), ns.Params[2].Name()
	get := func(k string) string {
		if len(st[k]) != 1 {
			return ""
		}
		return TermOf(st[k][0], ctx).String()
	}
	recv := ns.Params[0].Name()
	exp := map[string]func(string) bool{
		"LastBlockHeight": func(s string) bool { return strings.Contains(s, "types.Header).Height(") && strings.Contains(s, hdr) },
		"LastBlockTime":   func(s string) bool { return strings.Contains(s, "types.Header).Time(") && strings.Contains(s, hdr) },
		"AppHash":         func(s string) bool { return s == root },
		"ChainID":         func(s string) bool { return s == recv+".ChainID" },
		"InitialHeight":   func(s string) bool { return s == recv+".InitialHeight" },
		"DAHeight":        func(s string) bool { return s == recv+".DAHeight" },
	}
	for _, k := range sortedKeys(exp) {
		s := get(k)
		if exp[k](s) {
			c.OK(rule, "State.NextState ⟂ "+k, fnName(ns), p.InstrPos(al), k+" ← "+s, true)
		} else {
			c.Bad(rule, "State.NextState ⟂ "+k, fnName(ns), p.InstrPos(al), k+" ← "+s+" (unexpected origin)", nil)
		}
	}
	ruleNextStateApplier(c, p, rule)
}

// ruleNextStateApplier: the applier passes the executor's root for this header and this block's transactions.
func ruleNextStateApplier(c *Check, p *Prog, rule string) {
	var ap *ssa.Function
	if aps := funcsCalling(p, rootPath+"/block", func(n string) bool { return n == execM("ExecuteTxs") }); len(aps) == 1 {
		ap = aps[0]
	}
	if ap == nil {
		c.Unk(rule, "applier", "", "", "anchor lost: the function calling Executor.ExecuteTxs")
		return
	}
	pByType := func(suffix string) string {
		for _, prm := range ap.Params {
			if strings.HasSuffix(prm.Type().String(), suffix) {
				return prm.Name()
			}
		}
		return "?"
	}
	pState, pHdr, pData := pByType("types.State"), pByType("types.Header"), pByType("types.Data")
	g := BuildECFG(p, ap, ExpandOpts{MaxDepth: 0})
	c.NoteGraph(g)
	for _, n := range g.Select(IsCall(typesM("State", "NextState"))) {
		rootArg := ArgTerm(n, 2)
		hdrArg := ArgTerm(n, 1)
		okRoot := rootArg.Op == "extract" && rootArg.Name == "0" && rootArg.Args[0].Op == "invoke" && strings.HasSuffix(rootArg.Args[0].Name, "Executor).ExecuteTxs")
		if okRoot {
			ex := rootArg.Args[0]
			// ExecuteTxs(exec, ctx, txs, height, time, prevRoot)
			okH := strings.Contains(ex.Args[3].String(), "types.Header).Height(") && strings.Contains(ex.Args[3].String(), pHdr)
			okP := strings.HasSuffix(ex.Args[5].String(), ".AppHash") && strings.Contains(ex.Args[5].String(), pState)
			if okH && okP && hdrArg.String() == pHdr {
				c.OK(rule, "applier ⟂ NextState(header, ExecuteTxs root)", fnName(ap), p.InstrPos(n.In), "state root comes from ExecuteTxs(txs, header.Height(), header.Time(), lastState.AppHash)", true)
				continue
			}
		}
		c.Bad(rule, "applier ⟂ NextState(header, ExecuteTxs root)", fnName(ap), p.InstrPos(n.In), "NextState is not fed the execution result of this header on the previous app hash: "+trunc(rootArg.String(), 160), nil)
	}
	// executed txs are the block's: rawTxs[i] = data.Txs[i]
	okCopy := false
	for _, b := range ap.Blocks {
		for _, in := range b.Instrs {
			st, ok := in.(*ssa.Store)
			if !ok {
				continue
			}
			ia, ok := st.Addr.(*ssa.IndexAddr)
			if !ok {
				continue
			}
			val := TermOf(st.Val, &Ctx{Fn: ap}).unconv()
			if val.Op == "index" && val.Args[1].V == ia.Index && val.Args[0].String() == pData+".Txs" {
				okCopy = true
			}
		}
	}
	if okCopy {
		c.OK(rule, "applier ⟂ rawTxs[i]←data.Txs[i]", fnName(ap), p.Pos(ap.Pos()), "executed transactions are copied from the block's data at the same index", true)
	} else {
		c.Bad(rule, "applier ⟂ rawTxs[i]←data.Txs[i]", fnName(ap), p.Pos(ap.Pos()), "the transactions handed to the executor are not an index-by-index copy of the block's", nil)
	}
	c.MinInstances(rule, 8)
}

// resolveParam follows a parameter up the inlining contexts to the caller's value.
func resolveParam(v ssa.Value, ctx *Ctx) (ssa.Value, *Ctx) {
	for {
		prm, ok := v.(*ssa.Parameter)
		if !ok || ctx == nil || ctx.Site == nil || ctx.Fn != prm.Parent() {
			return v, ctx
		}
		idx := -1
		for i, q := range prm.Parent().Params {
			if q == prm {
				idx = i
			}
		}
		args := siteArgs(ctx.Site, ctx.Fn)
		if idx < 0 || idx >= len(args) {
			return v, ctx
		}
		v, ctx = args[idx], ctx.Parent
	}
}

// resolveBundleField: v reads a field of a by-value struct parameter (spilled into a local) that
// the call site binds to a struct literal: the value the caller's literal stores into that field,
// in the caller's context.
func resolveBundleField(v ssa.Value, ctx *Ctx) (ssa.Value, *Ctx, bool) {
	var base ssa.Value
	field := -1
	switch x := v.(type) {
	case *ssa.UnOp:
		fa, ok := x.X.(*ssa.FieldAddr)
		if !ok || x.Op != token.MUL {
			return nil, nil, false
		}
		al, ok := fa.X.(*ssa.Alloc)
		if !ok {
			return nil, nil, false
		}
		var whole []ssa.Value
		for _, r := range *al.Referrers() {
			if st, ok := r.(*ssa.Store); ok && st.Addr == ssa.Value(al) {
				whole = append(whole, st.Val)
			}
		}
		if len(whole) != 1 {
			return nil, nil, false
		}
		base, field = whole[0], fa.Field
	case *ssa.Field:
		base, field = x.X, x.Field
	default:
		return nil, nil, false
	}
	arg, actx := resolveParam(base, ctx)
	ld, ok := arg.(*ssa.UnOp)
	if !ok || ld.Op != token.MUL {
		return nil, nil, false
	}
	lit, ok := ld.X.(*ssa.Alloc)
	if !ok || lit.Comment != "complit" {
		return nil, nil, false
	}
	var vals []ssa.Value
	for _, r := range *lit.Referrers() {
		if fa, ok := r.(*ssa.FieldAddr); ok && fa.Field == field {
			for _, rr := range *fa.Referrers() {
				if st, ok := rr.(*ssa.Store); ok && st.Addr == ssa.Value(fa) {
					vals = append(vals, st.Val)
				}
			}
		}
	}
	if len(vals) != 1 {
		return nil, nil, false
	}
	return vals[0], actx, true
}

// zeroEdgesOnlyUnder: v is a (possibly nested) phi; every incoming edge whose value is a
// nil/zero constant comes from a block dominated by the side of an If selected by guard.
// Returns the position of an offending edge's predecessor block ("" if none) and whether any
// non-zero alternative exists.
func zeroEdgesOnlyUnder(v ssa.Value, guard func(ifi *ssa.If) (zeroSide int, ok bool), depth int) (bad *ssa.BasicBlock, hasValue bool) {
	phi, ok := v.(*ssa.Phi)
	if !ok || depth > 4 {
		if k, isK := v.(*ssa.Const); isK && k.Value == nil {
			return nil, false
		}
		return nil, true
	}
	blk := phi.Block()
	for i, e := range phi.Edges {
		pred := blk.Preds[i]
		if k, isK := e.(*ssa.Const); isK && (k.Value == nil || k.Value.String() == "0") {
			okGuard := false
			for d := pred; d != nil; d = d.Idom() {
				// is pred dominated by the zero side of a guard If?
				for x := d.Idom(); x != nil; x = x.Idom() {
					ifi, isIf := x.Instrs[len(x.Instrs)-1].(*ssa.If)
					if !isIf {
						continue
					}
					side, isG := guard(ifi)
					if !isG {
						continue
					}
					s := x.Succs[side]
					if len(s.Preds) == 1 && s.Dominates(pred) {
						okGuard = true
					}
				}
				break
			}
			if !okGuard {
				return pred, hasValue
			}
			continue
		}
		if inner, isPhi := e.(*ssa.Phi); isPhi {
			b2, hv := zeroEdgesOnlyUnder(inner, guard, depth+1)
			hasValue = hasValue || hv
			if b2 != nil {
				return b2, hasValue
			}
			continue
		}
		hasValue = true
	}
	return nil, hasValue
}

// ruleChainLinks (C01-R8): the previous-header hash put into the new header and the
// previous-data hash put into the committed data's metadata are nil only on the path where the
// new height is not above the initial height; on every other path — including the one that
// re-uses a block stored before a crash — they are the hashes of the stored predecessor.
func ruleChainLinks(c *Check, p *Prog, g *Graph, step *ssa.Function, hdrLit *ssa.Alloc, hdrCtx *Ctx) {
	rule := "C01-R8"
	fn := fnName(step)
	// the guard: newHeight <= InitialHeight (zero side = true successor), or its negation
	guard := func(ifi *ssa.If) (int, bool) {
		t := TermOf(ifi.Cond, &Ctx{Fn: ifi.Parent()})
		t2, pol := normFact(t, true)
		if t2.Op != "bin" {
			return 0, false
		}
		a, b := t2.Args[0].String(), t2.Args[1].String()
		isNew := func(s string) bool {
			return strings.Contains(s, "pkg/store.Store).Height(") && strings.Contains(s, "+ 1")
		}
		isInit := func(s string) bool { return strings.HasSuffix(s, ".InitialHeight") }
		le := false
		switch {
		case isNew(a) && isInit(b) && (t2.Name == "<=" || t2.Name == "<"):
			le = true
		case isInit(a) && isNew(b) && (t2.Name == ">=" || t2.Name == ">"):
			le = true
		case isNew(a) && isInit(b) && (t2.Name == ">" || t2.Name == ">="):
			le = false
			pol = !pol
			le = true
		default:
			return 0, false
		}
		_ = le
		if pol {
			return 0, true
		}
		return 1, true
	}
	check := func(name string, v ssa.Value, ctx *Ctx, pos string) {
		v, ctx = resolveParam(v, ctx)
		for i := 0; i < 3; i++ {
			v2, ctx2, ok := resolveBundleField(v, ctx)
			if !ok {
				break
			}
			v, ctx = resolveParam(v2, ctx2)
		}
		// look through a local variable that is kept in memory
		if u, ok := v.(*ssa.UnOp); ok {
			if al, ok := u.X.(*ssa.Alloc); ok {
				var stores []ssa.Value
				for _, r := range *al.Referrers() {
					if st, ok := r.(*ssa.Store); ok && st.Addr == ssa.Value(al) {
						stores = append(stores, st.Val)
					}
				}
				if len(stores) == 1 {
					v = stores[0]
				}
			}
		}
		bad, has := zeroEdgesOnlyUnder(v, guard, 0)
		t := TermOf(v, &Ctx{Fn: step})
		fromPrev := strings.Contains(t.String(), "GetBlockData(") && (strings.Contains(t.String(), ").Hash("))
		inst := fnShort(step) + " ⟂ " + name
		switch {
		case bad != nil:
			c.Bad(rule, inst, fn, p.Pos(bad.Instrs[0].Pos()), name+" can be nil on a path where the new height is above the initial height (e.g. the path that re-uses a block stored before a crash): the committed block does not link to its predecessor: "+trunc(t.String(), 120), nil)
		case !has || !fromPrev:
			c.Bad(rule, inst, fn, pos, name+" does not derive from the hash of the block stored at the current height: "+trunc(t.String(), 120), nil)
		default:
			c.OK(rule, inst, fn, pos, name+" is nil only for the first block and otherwise the hash of the stored predecessor", true)
		}
	}
	// LastHeaderHash of the new header
	if vs := litStores(hdrLit)["Header.LastHeaderHash"]; len(vs) == 1 {
		check("LastHeaderHash", vs[0], hdrCtx, p.InstrPos(hdrLit))
	} else {
		c.Unk(rule, fnShort(step)+" ⟂ LastHeaderHash", fn, "", "anchor lost: LastHeaderHash of the built header")
	}
	// LastDataHash of the committed data's metadata: the Metadata literal stored into data.Metadata in the step
	found := false
	for _, n := range g.Nodes {
		if !g.Live()[n] || n.Ctx.Depth != 0 {
			continue
		}
		st, ok := n.In.(*ssa.Store)
		if !ok {
			continue
		}
		at := TermOf(st.Addr, n.Ctx)
		if at.Op != "field" || at.Name != "Metadata" {
			continue
		}
		al, ok := st.Val.(*ssa.Alloc)
		if !ok {
			continue
		}
		if vs := litStores(al)["LastDataHash"]; len(vs) == 1 {
			found = true
			check("Metadata.LastDataHash", vs[0], n.Ctx, p.InstrPos(st))
		}
	}
	if !found {
		c.Unk(rule, fnShort(step)+" ⟂ Metadata.LastDataHash", fn, "", "anchor lost: the metadata attached to the committed data")
	}
}

// ruleFirstBlockMatchesInitialState (C01-R11): on a chain without a persisted state the loader
// asks the execution layer for the genesis root (InitChain), builds the chain's first block on it
// and stores that block; the production step later takes the stored block over as the pending
// block and validates it against the state built from the very same InitChain answer. The stored
// block is therefore written on every path from InitChain's success to the loader's success
// return: a block left over from an earlier start (before the first block was committed) carries
// that start's root, fails "appHash mismatch" against the new state, and the sequencer can never
// produce its first block.
func ruleFirstBlockMatchesInitialState(c *Check, p *Prog) {
	rule := "C01-R11"
	c.Doc(rule, "EO: in the initial-state loader, every path from the success edge of Executor.InitChain to a success return passes Store.SaveBlockData (the first block is rebuilt from the root InitChain reported on this start, never left as an earlier start wrote it).")
	var loader *ssa.Function
	for _, fn := range p.Funcs {
		pk := fnPkg(fn)
		if pk == nil || pk.Pkg.Path() != rootPath+"/block" || fn.Parent() != nil || fn.Blocks == nil {
			continue
		}
		if !callsNamed(fn, func(n string) bool { return n == storeM("GetState") }) {
			continue
		}
		if callsNamed(fn, func(n string) bool { return n == execM("InitChain") }) {
			loader = fn
			continue
		}
		// the initialisation may sit in a helper of the loader
		for _, cl := range staticCalleesOf(p, fn) {
			if pk2 := fnPkg(cl); pk2 != nil && pk2.Pkg.Path() == rootPath+"/block" && cl.Blocks != nil && callsNamed(cl, func(n string) bool { return n == execM("InitChain") }) && loader == nil {
				loader = fn
			}
		}
	}
	if loader == nil {
		c.Unk(rule, "initial-state loader", "", "", "anchor lost: no function of the block package that reads the state and initialises the chain")
		return
	}
	g := BuildECFG(p, loader, ownPkgOpts(rootPath+"/block", 2))
	c.NoteGraph(g)
	initOK := g.Select(ErrNilEdge(func(t *Term) bool { return t.IsCall("core/execution.Executor).InitChain") }))
	saves := g.Select(IsCall(storeM("SaveBlockData")))
	if len(initOK) == 0 || len(saves) == 0 {
		c.Unk(rule, fnShort(loader)+" ⟂ InitChain→SaveBlockData", fnName(loader), "", fmt.Sprintf("anchor lost: %d checked InitChain calls, %d SaveBlockData calls in the loader", len(initOK), len(saves)))
		return
	}
	// success returns; a return that hands on a helper's results stands for the helper's own
	// non-error returns
	okExits := g.Select(g.SuccessExits())
	c.Decide(rule, fnShort(loader)+" ⟂ InitChain→SaveBlockData", fnName(loader), p.InstrPos(saves[0].In),
		"every success return after InitChain follows the write of the first block built on the reported root",
		"the loader can return the state built from this start's InitChain answer without writing the first block: a block stored by an earlier start (before the first block was committed) stays, the production step takes it over as the pending block and rejects it against the new state (appHash mismatch) on every attempt and after every restart", g,
		g.PathAvoiding(initOK, nodeSet(okExits), nodeSet(saves)))
	c.MinInstances(rule, 1)
}
