package main

import (
	"fmt"
	"go/token"
	"go/types"
	"reflect"
	"sort"
	"strings"

	"golang.org/x/tools/go/ssa"
)

func init() {
	register("C20", &propDef{
		run: runC20,
		explanation: "Decides for the based sequencer's GetNextBatch: R1 (enum-conditioned reachability over all DA status codes) the scan cursor is advanced past a DA height only when the retrieval of that height returned Success or NotFound; " +
			"R2 on the path that pushes the unreleased remainder of a height to the carry-over queue the persisted cursor is past that height (otherwise the height is scanned again and its transactions are released twice); " +
			"R3 every append to the released batch is behind the size test; R4 the carry-over queue is popped before scanning, transactions are appended in blob order, the remainder pushed back is exactly Data[i:]/IDs[i:] for the loop index i, and the value persisted is the cursor.",
		notDecided:  "Exactly-once end to end; restart continuity beyond 'cursor and queue are written with the values R1–R4 constrain'; the persistence format of the carry-over queue.",
		assumptions: []string{"DA and datastore are effect leaves", "types.RetrieveWithHelpers' status mapping (C09-R3)", "go/ssa"},
	})
}

const basedPkg = rootPath + "/sequencers/based"

func runC20(c *Check) {
	p := c.Mod(ModBased)
	c.Doc("C20-R1", "ER: cursor increment reachable after a retrieval only for Success/NotFound.")
	c.Doc("C20-R2", "EO+VP: remainder push is followed by a cursor increment before the cursor is persisted.")
	c.Doc("C20-R3", "GA: size guard on appends to the batch.")
	c.Doc("C20-R9", "GA+VP: the scan start is the persisted position, the configured start, or a value taken only behind a comparison showing it larger than a value that includes the persisted position.")
	c.Doc("C20-R7", "EO: every non-error return after a cursor increment or a durable remainder push passes the write of the scan position.")
	c.Doc("C20-R4", "EO+VP: pop before scan, in-order append, remainder = Data[i:]/IDs[i:], persisted value = cursor.")
	fnb := p.MustFunc("(*" + basedPkg + ".Sequencer).GetNextBatch")
	// helpers of the sequencer itself are looked through (a scan-position getter/setter); the
	// carry-over queue's methods and the retrieval helper stay leaves, they are anchors
	g := BuildECFG(p, fnb, ExpandOpts{MaxDepth: 1, Stop: func(f *ssa.Function) bool {
		n := fnName(f)
		return strings.Contains(n, "PersistentPendingTxs).") || strings.HasSuffix(n, "types.RetrieveWithHelpers") || (fnPkg(f) != nil && fnPkg(f).Pkg.Path() != basedPkg)
	}})
	c.NoteGraph(g)
	fn := fnName(fnb)
	isRetrieve := IsCall(typesF("RetrieveWithHelpers"))
	rets := g.Select(isRetrieve)
	puts := g.Select(func(n *Node) bool { return dsCall(n, "Put") })
	if len(rets) != 1 || len(puts) != 1 {
		c.Unk("C20-R1", "GetNextBatch ⟂ anchors", fn, "", fmt.Sprintf("anchor lost: %d retrievals, %d datastore Puts", len(rets), len(puts)))
		return
	}
	// the cursor: the value formatted into the persisted bytes
	var cursor *ssa.Phi
	{
		var find func(v ssa.Value, d int)
		seen := map[ssa.Value]bool{}
		fctx := puts[0].Ctx
		find = func(v ssa.Value, d int) {
			if v == nil || seen[v] || d > 8 || cursor != nil {
				return
			}
			seen[v] = true
			if prm, ok := v.(*ssa.Parameter); ok {
				if rv, rc := resolveParam(prm, fctx); rv != ssa.Value(prm) {
					fctx = rc
					find(rv, d+1)
				}
				return
			}
			switch x := v.(type) {
			case *ssa.Phi:
				if bt, ok := x.Type().Underlying().(interface{ Kind() interface{} }); ok {
					_ = bt
				}
				if strings.Contains(x.Type().String(), "uint64") {
					cursor = x
				}
			case *ssa.Call:
				for _, a := range x.Common().Args {
					find(a, d+1)
				}
			case *ssa.Convert:
				find(x.X, d+1)
			case *ssa.ChangeType:
				find(x.X, d+1)
			case *ssa.MakeInterface:
				find(x.X, d+1)
			case *ssa.Slice:
				find(x.X, d+1)
			case *ssa.Alloc:
				for _, vs := range litStores(x) {
					for _, e := range vs {
						find(e, d+1)
					}
				}
			}
		}
		find(puts[0].In.(*ssa.Call).Common().Args[2], 0)
	}
	if cursor == nil {
		c.Unk("C20-R4", "GetNextBatch ⟂ persisted-value", fn, p.InstrPos(puts[0].In), "the value persisted as the scan position is not a loop-carried height")
		return
	}
	// the phi at the loop exit may merge the loop-header phi: collect the family of phis
	family := map[ssa.Value]bool{cursor: true}
	changed := true
	var incs []*ssa.BinOp
	for changed {
		changed = false
		for ph := range family {
			x, ok := ph.(*ssa.Phi)
			if !ok {
				continue
			}
			for _, e := range x.Edges {
				switch v := e.(type) {
				case *ssa.Phi:
					if !family[v] {
						family[v] = true
						changed = true
					}
				case *ssa.BinOp:
					if v.Op == token.ADD && family[v.X] {
						if k, ok := v.Y.(*ssa.Const); ok && k.Int64() == 1 {
							dup := false
							for _, o := range incs {
								if o == v {
									dup = true
								}
							}
							if !dup {
								incs = append(incs, v)
								changed = true
							}
						}
					}
				}
			}
		}
	}
	incNode := func(n *Node) bool {
		b, ok := n.In.(*ssa.BinOp)
		if !ok {
			return false
		}
		for _, i := range incs {
			// increments inside the scan loop (those fed from a retrieved height)
			if i == b {
				return true
			}
		}
		return false
	}
	// only increments that follow a retrieval (the pre-loop "scanned+1" from LastBatchData is not one)
	var loopIncs []*Node
	for _, n := range g.Select(incNode) {
		if g.PathAvoiding(rets, func(x *Node) bool { return x == n }, nil) != nil {
			loopIncs = append(loopIncs, n)
		}
	}
	c.OK("C20-R4", "GetNextBatch ⟂ persisted-value=cursor", fn, p.InstrPos(puts[0].In), "the persisted scan position is the loop-carried cursor "+cursor.Name()+" ("+cursor.Comment+")", true)
	if len(loopIncs) == 0 {
		c.Unk("C20-R1", "GetNextBatch ⟂ cursor-increment", fn, "", "anchor lost: no cursor increment after a retrieval")
		return
	}
	// R16 (= C13-R17): one call reads a DA height at most once. Between two retrievals the
	// cursor has moved (or the call has ended): a retry of the same height inside the call has
	// no bound — with the DA layer down, or the context cancelled (every read then fails at
	// once), GetNextBatch spins on that height and block production never gets back to its
	// stop check; the node hangs in shutdown.
	c.Doc("C20-R16", "EO+BO: in GetNextBatch no path leads from a DA retrieval to another DA retrieval without an increment of the scan cursor in between: no unbounded re-read of one height inside a call (the retry belongs to the next call, which the caller makes under its own stop check).")
	{
		var after []*Node
		for _, r := range rets {
			after = append(after, r.Succ...)
		}
		c.Decide("C20-R16", "GetNextBatch ⟂ a height is read at most once per call", fn, p.InstrPos(rets[0].In), "between two retrievals the cursor is advanced",
			"a DA height can be read again in the same call without the cursor having moved (a retry by `continue`): nothing bounds the number of reads — when every read fails at once (DA down, context cancelled at shutdown) the call never returns, the aggregation loop never reaches its stop check, and the node hangs", g,
			g.PathAvoiding(after, nodeSet(rets), nodeSet(loopIncs)))
	}
	consts := enumConsts(p, daPkg, "StatusCode")
	isCode := func(t *Term) bool {
		return t.Op == "field" && t.Name == "Code" && strings.Contains(t.String(), "types.RetrieveWithHelpers(")
	}
	reach := g.EnumReach(rets, nodeSet(loopIncs), isCode, consts, isRetrieve)
	// only the codes the retrieve helper can actually produce matter (read from its return literals, module root)
	produced := producedCodes(c, c.Mod(ModRoot))
	var bad []string
	for _, k := range sortedKeys(reach) {
		if k != "StatusSuccess" && k != "StatusNotFound" && produced[k] {
			bad = append(bad, k)
		}
	}
	sort.Strings(bad)
	if len(bad) == 0 && len(reach) > 0 {
		c.OK("C20-R1", "GetNextBatch ⟂ advance-only-after-Success/NotFound", fn, p.InstrPos(loopIncs[0].In), fmt.Sprintf("of the status codes the retrieve helper produces %v the cursor increment is reachable only for Success/NotFound", sortedKeys(produced)), true)
	} else if len(reach) == 0 {
		c.Unk("C20-R1", "GetNextBatch ⟂ advance-only-after-Success/NotFound", fn, "", "the cursor increment is reachable for no status code")
	} else {
		c.Bad("C20-R1", "GetNextBatch ⟂ advance-only-after-Success/NotFound", fn, p.InstrPos(loopIncs[0].In), "the scan cursor moves past a DA height although its retrieval returned "+strings.Join(bad, ",")+" (e.g. a height not produced yet): blobs published there later are never released", g.DescribePath(reach[bad[0]]))
	}
	// R2
	isPush := func(n *Node) bool {
		return strings.HasSuffix(CallName(n), "based.PersistentPendingTxs).Push") && g.PathAvoiding(rets, func(x *Node) bool { return x == n }, nil) != nil
	}
	pushes := g.Select(isPush)
	if len(pushes) == 0 {
		c.Unk("C20-R2", "GetNextBatch ⟂ remainder-push", fn, "", "anchor lost: no push of a remainder after a retrieval")
	} else {
		path := g.PathAvoiding(pushes, nodeSet(puts), orPred(nodeSet(loopIncs), isRetrieve))
		c.Decide("C20-R2", "GetNextBatch ⟂ remainder-push→cursor-past-height", fn, p.InstrPos(pushes[0].In), "after the remainder of a height is queued the cursor is moved past that height before it is persisted",
			"the remainder of a DA height is queued but the persisted cursor still points at that height: the next call scans it again and releases its transactions a second time", g, path)
		// remainder = Data[i:], IDs[i:]
		for _, pn := range pushes {
			a1, a2 := ArgTerm(pn, 1), ArgTerm(pn, 2)
			ok := a1.Op == "slice" && a2.Op == "slice" && a1.Args[1].String() == a2.Args[1].String() && a1.Args[2].Name == "_" && a2.Args[2].Name == "_" &&
				strings.HasSuffix(a1.Args[0].String(), ".Data") && strings.HasSuffix(a2.Args[0].String(), ".IDs") && strings.Contains(a1.Args[0].String(), "RetrieveWithHelpers(")
			// the index is the range index of the loop over Data
			idxOK := false
			for _, an := range g.Select(func(n *Node) bool { return CallName(n) == "append" }) {
				e := ArgTerm(an, 1)
				if p.DeepContains(e, func(t *Term) bool {
					return t.Op == "index" && strings.HasSuffix(t.Args[0].String(), ".Data") && t.Args[1].String() == a1.Args[1].String()
				}, 2) {
					idxOK = true
				}
			}
			if ok && idxOK {
				c.OK("C20-R4", "GetNextBatch ⟂ remainder=Data[i:],IDs[i:]", fn, p.InstrPos(pn.In), "the remainder pushed back starts at the first transaction that did not fit, for both lists", true)
			} else {
				c.Bad("C20-R4", "GetNextBatch ⟂ remainder=Data[i:],IDs[i:]", fn, p.InstrPos(pn.In), "the remainder pushed to the carry-over queue is not Data[i:]/IDs[i:] for the index of the first transaction that did not fit: "+trunc(a1.String(), 80)+" / "+trunc(a2.String(), 80), nil)
			}
		}
	}
	// R11: a fetched height is left only when every one of its transactions is accounted for. From
	// inside the loop over the height's transactions the cursor increment is reached only through
	// the loop's own end (every transaction was appended) or through the push of the remainder:
	// leaving the loop early and moving on drops the transactions that were not looked at.
	{
		c.Doc("C20-R11", "EO: from the body of the loop over a fetched height's transactions, every path to an increment of the scan cursor passes the loop's own exhaustion edge or the push of the remainder to the carry-over queue (an early exit that moves the cursor drops the rest of the height for good).")
		var apps []*Node
		for _, an := range g.Select(func(n *Node) bool { return CallName(n) == "append" }) {
			e := ArgTerm(an, 1)
			if e != nil && p.DeepContains(e, func(t *Term) bool {
				return t.Op == "index" && strings.HasSuffix(t.Args[0].String(), ".Data") && strings.Contains(t.Args[0].String(), "RetrieveWithHelpers(")
			}, 2) {
				apps = append(apps, an)
			}
		}
		if len(apps) == 0 {
			c.Unk("C20-R11", "GetNextBatch ⟂ height-fully-accounted-for", fn, "", "anchor lost: no append of a fetched transaction to the batch")
		} else {
			ab, actx := apps[0].In.Block(), apps[0].Ctx
			hb := loopHeaderOf(ab)
			var ifi *ssa.If
			if hb != nil {
				ifi, _ = hb.Instrs[len(hb.Instrs)-1].(*ssa.If)
			}
			if ifi == nil {
				c.Unk("C20-R11", "GetNextBatch ⟂ height-fully-accounted-for", fn, p.InstrPos(apps[0].In), "the loop over the fetched transactions has no bound test at its head")
			} else {
				body := g.Select(func(n *Node) bool { return n.Kind == NTrue && n.In == ssa.Instruction(ifi) && n.Ctx == actx })
				done := g.Select(func(n *Node) bool { return n.Kind == NFalse && n.In == ssa.Instruction(ifi) && n.Ctx == actx })
				c.Decide("C20-R11", "GetNextBatch ⟂ height-fully-accounted-for", fn, p.InstrPos(ifi),
					"the cursor moves past a fetched height only after the loop over its transactions ran to its end or the remainder was queued",
					"the loop over a fetched height's transactions can be left early and the scan cursor still moves past the height without the remainder being queued: the transactions not yet looked at are neither released nor kept, and the persisted scan position is already behind them", g,
					g.PathAvoiding(body, nodeSet(loopIncs), orPred(nodeSet(done), nodeSet(pushes))))
			}
		}
		c.MinInstances("C20-R11", 1)
	}
	// R7: once the scan moved (cursor increment) or a remainder was queued durably, every return
	// passes the write of the cursor: the scan position and the carry-over queue stay in step on
	// disk, whatever the batch returned (including an empty one)
	{
		moved := append(append([]*Node{}, loopIncs...), pushes...)
		var okExits []*Node
		for _, x := range g.Exits {
			if g.ExitClass(x) != rcA {
				okExits = append(okExits, x)
			}
		}
		c.Decide("C20-R7", "GetNextBatch ⟂ scan-moved→cursor-persisted", fn, p.InstrPos(puts[0].In), "every non-error return after the scan moved or a remainder was queued passes the write of the scan position",
			"the call can return after the scan moved past a DA height (its transactions released or queued durably) without writing the scan position: after a restart that height is scanned again and its transactions are released twice", g,
			g.PathAvoiding(moved, nodeSet(okExits), nodeSet(puts)))
	}
	// R9: the scan never starts below the persisted position. Every value that can become the
	// scan start, other than the persisted position itself and the configured start it is compared
	// with, is taken only behind a comparison showing it larger than a value that includes the
	// persisted position (a max-update); otherwise a height already released (or queued) is
	// scanned again.
	{
		// the persisted position: the cells json.Unmarshal fills from a datastore read (in this
		// function or in a helper of the package), and receiver fields that remember such a cell
		cells := map[ssa.Value]bool{}
		for _, f := range p.Funcs {
			if pk := fnPkg(f); pk == nil || pk.Pkg.Path() != basedPkg {
				continue
			}
			for _, b := range f.Blocks {
				for _, in := range b.Instrs {
					call, ok := in.(*ssa.Call)
					if !ok || commonName(call.Common()) != "encoding/json.Unmarshal" || len(call.Common().Args) < 2 {
						continue
					}
					src := TermOf(call.Common().Args[0], &Ctx{Fn: f})
					if !strings.Contains(src.String(), "go-datastore.") || !strings.Contains(src.String(), ").Get(") {
						continue
					}
					v := call.Common().Args[1]
					if mi, ok := v.(*ssa.MakeInterface); ok {
						v = mi.X
					}
					if al, ok := v.(*ssa.Alloc); ok && strings.Contains(al.Type().String(), "uint64") {
						cells[al] = true
					}
				}
			}
		}
		var cell ssa.Value
		for k := range cells {
			cell = k
		}
		direct := func(x *Term) bool {
			if u, ok := x.V.(*ssa.UnOp); ok && cells[u.X] {
				return true
			}
			return x.V != nil && cells[x.V]
		}
		memo := map[string]bool{}
		for _, f := range p.Funcs {
			if pk := fnPkg(f); pk == nil || pk.Pkg.Path() != basedPkg {
				continue
			}
			for _, b := range f.Blocks {
				for _, in := range b.Instrs {
					st, ok := in.(*ssa.Store)
					if !ok {
						continue
					}
					fa, ok := st.Addr.(*ssa.FieldAddr)
					if !ok {
						continue
					}
					if TermOf(st.Val, &Ctx{Fn: f}).Contains(direct) {
						memo[fieldLabel(fa.X.Type(), fa.Field)] = true
					}
				}
			}
		}
		mentionsCell := func(t *Term) bool {
			return p.DeepContains(t, func(x *Term) bool {
				return direct(x) || (x.Op == "field" && memo[x.Name])
			}, 2)
		}
		if cell == nil {
			c.Unk("C20-R9", "GetNextBatch ⟂ scan-start>=persisted-position", fn, "", "anchor lost: the persisted scan position is not decoded with json.Unmarshal from a datastore read")
		} else {
			bad := ""
			nAlt := 0
			var phis []*ssa.Phi
			for v := range family {
				if ph, ok := v.(*ssa.Phi); ok {
					phis = append(phis, ph)
				}
			}
			// phis feeding the family from before the loop
			for i := 0; i < len(phis); i++ {
				for _, e := range phis[i].Edges {
					if ph, ok := e.(*ssa.Phi); ok {
						dup := false
						for _, q := range phis {
							if q == ph {
								dup = true
							}
						}
						if !dup {
							phis = append(phis, ph)
						}
					}
				}
			}
			sort.Slice(phis, func(i, j int) bool { return phis[i].Pos() < phis[j].Pos() })
			for _, ph := range phis {
				for i, e := range ph.Edges {
					if _, isPhi := e.(*ssa.Phi); isPhi {
						continue
					}
					if b, ok := e.(*ssa.BinOp); ok && family[b.X] {
						continue // the loop's own increment
					}
					t := TermOf(e, g.RootCtx)
					if mentionsCell(t) || (t.Op == "field" && t.Name == "daStartHeight") {
						continue // the persisted position itself, or the configured start
					}
					nAlt++
					pred := ph.Block().Preds[i]
					okGuard := false
					for _, f := range g.NecessaryEdges(func(n *Node) bool {
						return n.Kind != NEntry && n.In != nil && n.In.Block() == pred && n.Ctx == g.RootCtx
					}) {
						ft, pol := normFact(f.Cond, f.Pol)
						if ft.Op != "bin" || len(ft.Args) != 2 {
							continue
						}
						larger := (pol && (ft.Name == ">" || ft.Name == ">=")) || (!pol && (ft.Name == "<" || ft.Name == "<="))
						smaller := (pol && (ft.Name == "<" || ft.Name == "<=")) || (!pol && (ft.Name == ">" || ft.Name == ">="))
						if larger && mentionsCell(ft.Args[1]) || smaller && mentionsCell(ft.Args[0]) {
							okGuard = true
						}
					}
					if !okGuard {
						bad = trunc(t.String(), 80)
					}
				}
			}
			switch {
			case nAlt == 0:
				c.OK("C20-R9", "GetNextBatch ⟂ scan-start>=persisted-position", fn, p.InstrPos(puts[0].In), "the scan start is the persisted position or the configured start", true)
			case bad == "":
				c.OK("C20-R9", "GetNextBatch ⟂ scan-start>=persisted-position", fn, p.InstrPos(puts[0].In), "every other candidate for the scan start is taken only when it is larger than a value that includes the persisted position", true)
			default:
				c.Bad("C20-R9", "GetNextBatch ⟂ scan-start>=persisted-position", fn, p.InstrPos(puts[0].In), "the scan can start at "+bad+" without that value having been compared with the persisted scan position: it can fall behind heights already released or queued, whose transactions are then released a second time", nil)
			}
		}
		c.MinInstances("C20-R9", 1)
	}
	// R3
	txApps := g.Select(func(n *Node) bool {
		if CallName(n) != "append" {
			return false
		}
		a := ArgTerm(n, 0)
		return a != nil && strings.HasSuffix(a.String(), ".Transactions")
	})
	sizeOK := g.Select(EdgeWhere(func(t *Term, pol bool, n *Node) bool {
		t, pol = normFact(t, pol)
		return !pol && t.Op == "bin" && (t.Name == ">=" || t.Name == ">") && strings.Contains(t.Args[0].String(), "len(") && t.Args[0].Op == "bin" && t.Args[0].Name == "+"
	}))
	if len(txApps) == 0 {
		c.Unk("C20-R3", "GetNextBatch ⟂ appends", fn, "", "anchor lost: no append to the batch's transactions")
	}
	for _, an := range txApps {
		facts := g.NecessaryEdges(nodeSet([]*Node{an}))
		ok := false
		for _, f := range facts {
			t := f.Cond
			if !f.Pol && t.Op == "bin" && (t.Name == ">=" || t.Name == ">") && t.Args[0].Op == "bin" && t.Args[0].Name == "+" && strings.Contains(t.Args[0].String(), "len(") && t.Args[1].String() != "" {
				// the compared limit is the requested size
				if strings.Contains(t.Args[1].String(), "MaxBytes") || strings.Contains(t.Args[1].String(), "1500000") {
					ok = true
				}
			}
		}
		// the running size of that test counts what the batch already holds from the carry-over
		// queue: its start value is the size the pop returned
		if ok {
			counts := false
			var sizeS string
			for _, f := range facts {
				a, op, _, okc := canonCmp(f.Cond, f.Pol)
				if !okc || (op != "<" && op != "<=") {
					continue
				}
				a = a.unconv()
				if a.Op != "bin" || a.Name != "+" || !strings.Contains(a.String(), "len(") {
					continue
				}
				// the test of the transaction being appended: running size + len(tx)
				lenSide := -1
				for i, side := range a.Args {
					if u := side.unconv(); u.IsCall("len") || (u.Op == "call" && u.Name == "len") {
						lenSide = i
					}
				}
				if lenSide < 0 {
					continue
				}
				for i, side := range a.Args {
					if i == lenSide {
						continue
					}
					sizeS = trunc(side.String(), 100)
					for _, leaf := range flattenPhi(side) {
						if p.DeepContains(leaf, func(x *Term) bool {
							return x.Op == "extract" && len(x.Args) > 0 && x.Args[0].IsCall("PersistentPendingTxs).PopUpToMaxBytes")
						}, 1) {
							counts = true
						}
					}
				}
			}
			if counts {
				c.OK("C20-R3", "GetNextBatch ⟂ size-test-counts-carried-over-bytes", fn, p.InstrPos(an.In), "the running size starts from the bytes popped from the carry-over queue", true)
			} else {
				c.Bad("C20-R3", "GetNextBatch ⟂ size-test-counts-carried-over-bytes", fn, p.InstrPos(an.In), "the running size compared with the limit ("+sizeS+") does not start from the bytes already popped from the carry-over queue: a batch that begins with carried-over transactions and is topped up from the DA layer can exceed the requested size", nil)
			}
		}
		if ok {
			c.OK("C20-R3", "GetNextBatch ⟂ append-under-size-test", fn, p.InstrPos(an.In), "a transaction is appended only if size+len(tx) stays below the requested size", true)
		} else {
			c.Bad("C20-R3", "GetNextBatch ⟂ append-under-size-test", fn, p.InstrPos(an.In), "a transaction can be appended to the released batch without the size test: the batch can exceed the requested size", nil)
		}
	}
	_ = sizeOK
	// R4: pop before scan; append in blob order (element at the range index)
	pops := g.Select(func(n *Node) bool {
		return strings.HasSuffix(CallName(n), "based.PersistentPendingTxs).PopUpToMaxBytes")
	})
	if len(pops) == 0 {
		c.Bad("C20-R4", "GetNextBatch ⟂ pop<scan", fn, "", "the carry-over queue is not popped", nil)
	} else {
		c.Decide("C20-R4", "GetNextBatch ⟂ pop<scan", fn, p.InstrPos(pops[0].In), "carried-over transactions are taken before anything is scanned", "the DA layer can be scanned before the carry-over queue is popped: carried-over transactions would come after newer ones",
			g, g.MustPrecede(nodeSet(pops), isRetrieve))
		// the batch starts with the popped transactions
		for _, an := range txApps {
			base := ArgTerm(an, 0)
			if al, ok := rootAlloc(rootOf(base)); ok || true {
				_ = al
			}
		}
	}
	// the carry-over pop is bounded by the same requested size: inside the popping method every
	// append to a released list is behind the size test against the method's limit parameter,
	// and the caller passes the requested size for that parameter
	for _, pn := range pops {
		callee := CallCommonOf(pn).StaticCallee()
		if callee == nil || callee.Blocks == nil {
			continue
		}
		pg := BuildECFG(p, callee, ExpandOpts{MaxDepth: 1})
		c.NoteGraph(pg)
		var limitParam *ssa.Parameter
		napp := 0
		for _, an := range pg.Select(func(n *Node) bool {
			if CallName(n) != "append" {
				return false
			}
			v, ok := n.In.(ssa.Value)
			return ok && v.Type().String() == "[][]byte"
		}) {
			an := an
			napp++
			okGuard := false
			exactFitRefused := false
			for _, f := range pg.NecessaryEdges(func(n *Node) bool { return n == an }) {
				t, pol := normFact(f.Cond, f.Pol)
				if t.Op != "bin" || len(t.Args) != 2 {
					continue
				}
				fits := (!pol && (t.Name == ">" || t.Name == ">=")) || (pol && (t.Name == "<=" || t.Name == "<"))
				if !fits || t.Args[0].Op != "bin" || t.Args[0].Name != "+" || len(t.Args[0].Args) != 2 {
					continue
				}
				// the queue is the last resort of a transaction that did not fit: one that fills
				// the batch exactly must be released (size + len == limit is within the limit)
				strict := t.Name == ">" || t.Name == "<="

				// the term added to the running size is the length of what is released, measured
				// here — not a size remembered elsewhere (a cached size is only as good as every
				// place that has to keep it current, including what a restart reloads)
				measured := false
				for _, o := range t.Args[0].Args {
					for o != nil && o.Op == "conv" && len(o.Args) == 1 {
						o = o.Args[0]
					}
					if o != nil && o.Op == "call" && o.Name == "len" {
						measured = true
					}
				}
				if !measured {
					continue
				}
				if lp, ok := t.Args[1].V.(*ssa.Parameter); ok && lp.Parent() == callee {
					limitParam, okGuard = lp, true
					if !strict {
						exactFitRefused = true
					}
				}
			}
			if okGuard && exactFitRefused {
				c.Bad("C20-R3", fnShort(callee)+" ⟂ pop-releases-an-exact-fit", fnName(callee), p.InstrPos(an.In), "the carry-over pop refuses a transaction whose length brings the running size exactly to the limit (>= instead of >): a carried-over transaction as large as the requested size is never released, stays at the head of the persisted queue, and — the scan resuming only over an empty queue — nothing behind it is released either, in this run or after a restart", nil)
			} else if okGuard {
				c.OK("C20-R3", fnShort(callee)+" ⟂ pop-releases-an-exact-fit", fnName(callee), p.InstrPos(an.In), "a carried-over transaction that fills the batch exactly is released", true)
			}
			if okGuard {
				c.OK("C20-R3", fnShort(callee)+" ⟂ pop-under-size-test", fnName(callee), p.InstrPos(an.In), "a carried-over transaction is released only if the running size plus its length stays within the limit parameter", true)
			} else {
				c.Bad("C20-R3", fnShort(callee)+" ⟂ pop-under-size-test", fnName(callee), p.InstrPos(an.In), "a carried-over transaction can be released without the size test against the limit: the batch can exceed the requested size", nil)
			}
		}
		if napp == 0 {
			c.Unk("C20-R3", fnShort(callee)+" ⟂ pop-under-size-test", fnName(callee), "", "anchor lost: no append to a released list in the popping method")
		}
		if limitParam != nil {
			for i, prm := range callee.Params {
				if prm == limitParam {
					a := TermOf(CallCommonOf(pn).Args[i], pn.Ctx)
					if strings.Contains(a.String(), "MaxBytes") {
						c.OK("C20-R3", "GetNextBatch ⟂ pop-limit-is-requested-size", fn, p.InstrPos(pn.In), "the pop is limited by the requested size", true)
					} else {
						c.Bad("C20-R3", "GetNextBatch ⟂ pop-limit-is-requested-size", fn, p.InstrPos(pn.In), "the limit handed to the carry-over pop is not the requested size: "+trunc(a.String(), 80), nil)
					}
				}
			}
		}
	}
	// R15: no transaction of a fetched height is passed over. In the loop over the height's
	// blobs, an iteration ends with the blob appended to the batch — or the loop is left (the
	// remainder is pushed, R11). A `continue` that skips a blob (a "seen this id already"
	// filter: an id is the blob's commitment, two equal transactions in one height share it)
	// drops it for good: the cursor moves past the height.
	c.Doc("C20-R15", "EO: in the loop over the blobs of a fetched height no path leads from the body's entry to the next iteration without the append of the blob to the batch: every blob is released or (with the rest of the height) carried over, none is skipped.")
	if len(txApps) > 0 {
		hdr := loopHeaderOf(txApps[0].In.Block())
		var head *Node
		if hdr != nil {
			head = g.headNode(txApps[0].Ctx, hdr)
		}
		if head == nil {
			c.Unk("C20-R15", "GetNextBatch ⟂ no blob of a height is passed over", fn, "", "anchor lost: the loop over the fetched blobs")
		} else {
			var body []*Node
			body = append(body, head.Succ...)
			// only paths that stay inside the loop: leaving it (exhaustion, break) is R11's business
			ctx0 := txApps[0].Ctx
			outside := func(x *Node) bool {
				if x.Ctx != ctx0 || x.In == nil || x == head {
					return false
				}
				b := x.In.Block()
				return !(b == hdr || loopHeaderOf(b) == hdr)
			}
			c.Decide("C20-R15", "GetNextBatch ⟂ no blob of a height is passed over", fn, p.InstrPos(txApps[0].In), "every iteration over the height's blobs appends the blob or leaves the loop",
				"an iteration over the blobs of a fetched height can go on to the next blob without appending this one (a filter that skips it): the transaction is neither released nor carried over, and the scan position moves past its height — it is never released", g,
				g.PathAvoiding(body, func(x *Node) bool { return x == head }, orPred(nodeSet(txApps), outside)))
		}
	}
	for _, an := range txApps {
		e := ArgTerm(an, 1)
		inOrder := p.DeepContains(e, func(t *Term) bool {
			if t.Op != "index" || !strings.HasSuffix(t.Args[0].String(), ".Data") {
				return false
			}
			// index is a range index: phi(-1 | ↺+1) + 1
			// … or a counter: phi(0 | ↺+1)
			s := t.Args[1].String()
			return strings.Contains(s, "+ 1") && strings.Contains(s, "φ(") && !strings.Contains(s, "- 1") && (strings.Contains(s, "-1") || strings.Contains(s, "0"))
		}, 2)
		if inOrder {
			c.OK("C20-R4", "GetNextBatch ⟂ append-in-blob-order", fn, p.InstrPos(an.In), "transactions are appended while ranging over the retrieved blobs in ascending index order", true)
		} else {
			c.Bad("C20-R4", "GetNextBatch ⟂ append-in-blob-order", fn, p.InstrPos(an.In), "the appended transaction is not the blob at the ascending range index: "+trunc(e.String(), 120), nil)
		}
	}
	ruleScanOnlyOverEmptyQueue(c, p, g, fnb, isRetrieve)
	c.Doc("C20-R5", "EO: every mutation of the carry-over list is followed by Save before the method returns.")
	ruleCarryOverDurable(c, p)
	c.Doc("C20-R6", "EO: no error return of GetNextBatch is reachable after the durable pop of the carry-over queue.")
	rulePoppedNotDiscarded(c, p, g, fnb)
	c.Doc("C20-R8", "= C09-R3 on the retrieval helper the scan uses: Success only after GetIDs succeeded and every chunk was read; a failed Get is StatusError (never NotFound / HeightFromFuture, which the scan moves past).")
	ruleRetrieveHelper(c, c.Mod(ModRoot), "C20-R8")
	ruleHelperSequential(c, c.Mod(ModRoot), "C20-R12")
	rulePersistedFieldsSurvive(c, p, "C20-R13", basedPkg)
	ruleStoreNotBuffered(c, p, "C20-R14", basedPkg)
	ruleDAHeightsServedAreClosed(c, []*Prog{c.Mod(ModCore), c.Mod(ModDA)}, "C20-R17")
	c.MinInstances("C20-R13", 1)
	c.MinInstances("C20-R8", 4)
	c.MinInstances("C20-R1", 1)
	c.MinInstances("C20-R7", 1)
	c.MinInstances("C20-R2", 1)
	c.MinInstances("C20-R3", 4)
	c.MinInstances("C20-R4", 4)
}

// ruleCarryOverDurable (C20-R5): in every method of the persistent carry-over queue, every path
// from a mutation of the in-memory list to a return passes Save (the queue survives a restart
// exactly as it is in memory).
func ruleCarryOverDurable(c *Check, p *Prog) {
	rule := "C20-R5"
	n := 0
	for _, fn := range p.Funcs {
		pk := fnPkg(fn)
		if pk == nil || pk.Pkg.Path() != basedPkg || fn.Parent() != nil || !strings.Contains(fn.String(), "PersistentPendingTxs).") {
			continue
		}
		if fn.Name() == "Load" || fn.Name() == "Save" {
			continue
		}
		g := BuildECFG(p, fn, ExpandOpts{MaxDepth: 0})
		mut := g.Select(func(x *Node) bool {
			st, ok := x.In.(*ssa.Store)
			if !ok {
				return false
			}
			at := TermOf(st.Addr, x.Ctx)
			// pt.list = …  or  pt.list[i] = …
			if at.Op == "field" && at.Name == "list" {
				return true
			}
			return at.Op == "index" && at.Args[0].Op == "field" && at.Args[0].Name == "list"
		})
		if len(mut) == 0 {
			continue
		}
		c.NoteGraph(g)
		n++
		isSave := func(x *Node) bool { return strings.HasSuffix(CallName(x), "PersistentPendingTxs).Save") }
		path := g.PathAvoiding(mut, g.AnyExit(), isSave)
		c.Decide(rule, fnShort(fn)+" ⟂ mutation→Save", fnName(fn), p.InstrPos(mut[0].In), "every return after a change of the carry-over list is preceded by Save",
			"the carry-over list can be changed in memory and the method return without persisting it: after a restart the stale list is reloaded and already-released transactions are released again (or queued ones are lost)", g, path)
	}
	if n < 2 {
		c.Unk(rule, "carry-over-queue-mutators", "", "", fmt.Sprintf("anchor lost: %d mutating methods of the carry-over queue (2 confirmed by hand)", n))
	}
}

// rulePoppedNotDiscarded (C20-R6): PopUpToMaxBytes removes the carried-over transactions from
// the durable queue; after it, GetNextBatch must not return an error (the response carrying the
// popped transactions would be discarded and they would never be released).
func rulePoppedNotDiscarded(c *Check, p *Prog, g *Graph, fnb *ssa.Function) {
	rule := "C20-R6"
	pops := g.Select(func(n *Node) bool {
		return strings.HasSuffix(CallName(n), "based.PersistentPendingTxs).PopUpToMaxBytes")
	})
	if len(pops) == 0 {
		c.Unk(rule, "GetNextBatch ⟂ pop", fnName(fnb), "", "anchor lost: the carry-over queue is not popped in GetNextBatch")
		return
	}
	n := 0
	for _, x := range g.Exits {
		if g.ExitClass(x) != rcA {
			continue
		}
		xx := x
		path := g.PathAvoiding(pops, func(nd *Node) bool { return nd == xx }, nil)
		if path == nil {
			continue
		}
		n++
		// name the failing condition
		cond := ""
		for _, pn := range path {
			if pn.Kind == NTrue || pn.Kind == NFalse {
				t, pol := CondTerm(pn)
				t, pol = normFact(t, pol)
				cond = genericName(shortCond(t, pol))
			}
		}
		c.Bad(rule, "GetNextBatch ⟂ error-return-after-pop ⟂ "+cond, fnName(fnb), p.InstrPos(x.In), "GetNextBatch can return an error after the carried-over transactions were popped (and the shortened queue persisted): the response is discarded and those transactions are never released, not even after a restart", g.DescribePath(path))
	}
	if n == 0 {
		c.OK(rule, "GetNextBatch ⟂ no-error-return-after-pop", fnName(fnb), p.InstrPos(pops[0].In), "no error return is reachable after the carry-over queue was popped", true)
	}
}

// ruleScanOnlyOverEmptyQueue (C20-R10): what is still in the carry-over queue was found on the DA
// layer before anything a further scan can find. A transaction that did not fit "comes first in
// the next batch", so while the queue holds something nothing may be scanned into the batch behind
// it: every retrieval is reached, after the last change of the queue (the pop, a remainder push),
// only through a test showing the queue empty.
func ruleScanOnlyOverEmptyQueue(c *Check, p *Prog, g *Graph, fnb *ssa.Function, isRetrieve NodePred) {
	rule := "C20-R10"
	c.Doc(rule, "EO+GA: after the last change of the carry-over queue (pop, remainder push) the DA layer is scanned only through a test showing the queue empty: a smaller transaction of a later height never overtakes a carried-over transaction that did not fit.")
	fn := fnName(fnb)
	isQueue := func(t types.Type) bool { return strings.HasSuffix(t.String(), "based.PersistentPendingTxs") }
	// what a queue method without arguments reports: "len", "empty", "nonempty" or ""
	reports := func(f *ssa.Function) string {
		if f == nil || f.Blocks == nil || f.Signature.Recv() == nil || len(f.Params) != 1 || f.Signature.Results().Len() != 1 {
			return ""
		}
		kind := ""
		for _, b := range f.Blocks {
			for _, in := range b.Instrs {
				switch x := in.(type) {
				case *ssa.Store, *ssa.MapUpdate, *ssa.Send, *ssa.Go:
					return ""
				case *ssa.Return:
					t := TermOf(x.Results[0], &Ctx{Fn: f}).unconv()
					k := ""
					isLen := func(u *Term) bool {
						u = u.unconv()
						return u.IsCall("len") && len(u.Args) == 1 && strings.HasPrefix(u.Args[0].String(), f.Params[0].Name()+".")
					}
					switch {
					case isLen(t):
						k = "len"
					case t.Op == "bin" && len(t.Args) == 2 && isLen(t.Args[0]) && t.Args[1].unconv().Op == "const":
						z := t.Args[1].unconv().Name
						switch {
						case (t.Name == "==" && z == "0") || (t.Name == "<" && z == "1") || (t.Name == "<=" && z == "0"):
							k = "empty"
						case (t.Name == "!=" && z == "0") || (t.Name == ">" && z == "0") || (t.Name == ">=" && z == "1"):
							k = "nonempty"
						}
					}
					if k == "" || (kind != "" && kind != k) {
						return ""
					}
					kind = k
				}
			}
		}
		return kind
	}
	lenKind := func(t *Term) string {
		t = t.unconv()
		if t.IsCall("len") && len(t.Args) == 1 {
			if ld, ok := t.Args[0].V.(*ssa.UnOp); ok {
				if fa, ok := ld.X.(*ssa.FieldAddr); ok && isQueue(derefType(fa.X.Type())) {
					return "len"
				}
			}
		}
		if cv, ok := t.V.(*ssa.Call); ok {
			if cal := cv.Common().StaticCallee(); cal != nil && cal.Signature.Recv() != nil && isQueue(derefType(cal.Signature.Recv().Type())) {
				return reports(cal)
			}
		}
		return ""
	}
	empties := g.Select(EdgeWhere(func(t *Term, pol bool, n *Node) bool {
		t, pol = normFact(t, pol)
		switch k := lenKind(t); k {
		case "empty":
			return pol
		case "nonempty":
			return !pol
		}
		if t.Op != "bin" || len(t.Args) != 2 {
			return false
		}
		a, b, op := t.Args[0], t.Args[1], t.Name
		if lenKind(b) == "len" {
			a, b = b, a
			op = map[string]string{"<": ">", "<=": ">=", ">": "<", ">=": "<=", "==": "==", "!=": "!="}[op]
		}
		if lenKind(a) != "len" || b.unconv().Op != "const" {
			return false
		}
		z := b.unconv().Name
		isEmpty := (op == "==" && z == "0") || (op == "<" && z == "1") || (op == "<=" && z == "0")
		isNonEmpty := (op == "!=" && z == "0") || (op == ">" && z == "0") || (op == ">=" && z == "1")
		return (isEmpty && pol) || (isNonEmpty && !pol)
	}))
	isMut := func(n *Node) bool {
		cc := CallCommonOf(n)
		if cc == nil || cc.StaticCallee() == nil || cc.StaticCallee().Signature.Recv() == nil || !isQueue(derefType(cc.StaticCallee().Signature.Recv().Type())) {
			return false
		}
		return reports(cc.StaticCallee()) == "" // every queue method that is not a pure report
	}
	muts := g.Select(isMut)
	if len(muts) < 2 || len(g.Select(isRetrieve)) == 0 {
		c.Unk(rule, "GetNextBatch ⟂ anchors", fn, "", fmt.Sprintf("anchor lost: %d calls changing the carry-over queue (pop, remainder push), %d retrievals", len(muts), len(g.Select(isRetrieve))))
		return
	}
	c.Decide(rule, "GetNextBatch ⟂ scan-only-over-empty-queue", fn, posOf(g, isRetrieve), "the DA layer is scanned only after a test showing the carry-over queue empty",
		"the DA layer is scanned although the carry-over queue may still hold a transaction that did not fit: a smaller transaction found at a later height is released ahead of it (DA order broken)",
		g, g.PrecedeSince(isMut, nodeSet(empties), isRetrieve))
	c.MinInstances(rule, 1)
}

// rulePersistedFieldsSurvive (C20-R13): a record written with encoding/json (or encoding/gob)
// keeps only its exported fields (and, for json, those not tagged "-"). A field of such a record
// that the encoder drops, and that the package reads, is state that silently becomes zero at the
// next start: the restarted node no longer continues from what the stopped one knew.
func rulePersistedFieldsSurvive(c *Check, p *Prog, rule string, pkgPrefix string) {
	c.Doc(rule, "VP: every field of a record type handed to encoding/json or encoding/gob for persistence that the package reads is one the encoder keeps (exported, not tagged \"-\"), unless the type brings its own (un)marshalling methods or the loading function assigns the field itself.")
	isCodec := func(name string) bool {
		switch name {
		case "encoding/json.Marshal", "encoding/json.MarshalIndent", "encoding/json.Unmarshal",
			"(*encoding/json.Encoder).Encode", "(*encoding/json.Decoder).Decode",
			"(*encoding/gob.Encoder).Encode", "(*encoding/gob.Decoder).Decode":
			return true
		}
		return false
	}
	type site struct {
		fn  *ssa.Function
		pos token.Pos
	}
	persisted := map[*types.Named]site{}
	var collect func(t types.Type, s site, depth int)
	collect = func(t types.Type, s site, depth int) {
		if depth > 6 {
			return
		}
		switch u := t.(type) {
		case *types.Pointer:
			collect(u.Elem(), s, depth+1)
		case *types.Slice:
			collect(u.Elem(), s, depth+1)
		case *types.Array:
			collect(u.Elem(), s, depth+1)
		case *types.Map:
			collect(u.Elem(), s, depth+1)
		case *types.Named:
			if u.Obj().Pkg() == nil || !strings.HasPrefix(u.Obj().Pkg().Path(), pkgPrefix) {
				return
			}
			st, ok := u.Underlying().(*types.Struct)
			if !ok {
				collect(u.Underlying(), s, depth+1)
				return
			}
			if _, seen := persisted[u]; seen {
				return
			}
			// a type with its own codec methods decides itself what is written
			for _, m := range []string{"MarshalJSON", "UnmarshalJSON", "GobEncode", "GobDecode", "MarshalBinary", "UnmarshalBinary", "MarshalText", "UnmarshalText"} {
				if obj, _, _ := types.LookupFieldOrMethod(types.NewPointer(u), true, u.Obj().Pkg(), m); obj != nil {
					if _, isFn := obj.(*types.Func); isFn {
						return
					}
				}
			}
			persisted[u] = s
			for i := 0; i < st.NumFields(); i++ {
				collect(st.Field(i).Type(), s, depth+1)
			}
		}
	}
	loaders := map[*types.Named]map[*ssa.Function]bool{}
	for _, f := range p.Funcs {
		if pk := fnPkg(f); pk == nil || !strings.HasPrefix(pk.Pkg.Path(), pkgPrefix) {
			continue
		}
		for _, b := range f.Blocks {
			for _, in := range b.Instrs {
				call, ok := in.(ssa.CallInstruction)
				if !ok || !isCodec(commonName(call.Common())) {
					continue
				}
				for _, a := range call.Common().Args {
					if mi, ok := a.(*ssa.MakeInterface); ok {
						before := len(persisted)
						collect(mi.X.Type(), site{f, in.Pos()}, 0)
						_ = before
						if strings.Contains(commonName(call.Common()), "Unmarshal") || strings.Contains(commonName(call.Common()), "Decode") {
							var mark func(t types.Type, d int)
							mark = func(t types.Type, d int) {
								if d > 6 {
									return
								}
								switch u := t.(type) {
								case *types.Pointer:
									mark(u.Elem(), d+1)
								case *types.Slice:
									mark(u.Elem(), d+1)
								case *types.Named:
									if loaders[u] == nil {
										loaders[u] = map[*ssa.Function]bool{}
									}
									loaders[u][f] = true
								}
							}
							mark(mi.X.Type(), 0)
						}
					}
				}
			}
		}
	}
	var names []*types.Named
	for n := range persisted {
		names = append(names, n)
	}
	sort.Slice(names, func(i, j int) bool { return names[i].String() < names[j].String() })
	for _, n := range names {
		st := n.Underlying().(*types.Struct)
		s := persisted[n]
		var lost []string
		for i := 0; i < st.NumFields(); i++ {
			fld := st.Field(i)
			tag := reflect.StructTag(st.Tag(i)).Get("json")
			dropped := !fld.Exported() || tag == "-"
			if !dropped || fld.Embedded() {
				continue
			}
			// read anywhere in the package, and not assigned by a function that loads the record
			read, reloaded := false, false
			for _, f := range p.Funcs {
				if pk := fnPkg(f); pk == nil || !strings.HasPrefix(pk.Pkg.Path(), pkgPrefix) {
					continue
				}
				for _, b := range f.Blocks {
					for _, in := range b.Instrs {
						switch x := in.(type) {
						case *ssa.Field:
							if structOf(x.X.Type()) == n && x.Field == i {
								read = true
							}
						case *ssa.FieldAddr:
							if structOf(x.X.Type()) != n || x.Field != i {
								continue
							}
							for _, r := range *x.Referrers() {
								switch u := r.(type) {
								case *ssa.UnOp:
									read = true
								case *ssa.Store:
									if u.Addr == ssa.Value(x) && loaders[n][f] {
										reloaded = true
									}
								}
							}
						}
					}
				}
			}
			if read && !reloaded {
				lost = append(lost, fld.Name())
			}
		}
		inst := n.Obj().Pkg().Name() + "." + n.Obj().Name() + " ⟂ fields the package reads are persisted"
		if len(lost) == 0 {
			c.OK(rule, inst, fnName(s.fn), p.Pos(s.pos), "every field of the persisted record that is read is one the encoder writes", true)
		} else {
			c.Bad(rule, inst, fnName(s.fn), p.Pos(s.pos), "the record is persisted with an encoder that drops the field(s) "+strings.Join(lost, ", ")+" (unexported or tagged \"-\"), which the package reads: after a restart they are zero, and the restarted node does not continue from what the stopped one held", nil)
		}
	}
}

func structOf(t types.Type) *types.Named {
	if pt, ok := t.Underlying().(*types.Pointer); ok {
		t = pt.Elem()
	}
	n, _ := t.(*types.Named)
	return n
}
