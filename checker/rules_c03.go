package main

import (
	"fmt"
	"go/types"
	"strings"

	"golang.org/x/tools/go/ssa"
)

func init() {
	register("C03", &propDef{
		run: runC03,
		explanation: "Decides which facts the admission paths establish before a decoded header / signed data reaches a sink (the sync channels, the DA-included marks, go-header's Validate hook). " +
			"R1/R2: every sink fed by material decoded from the DA layer or read from the P2P header store is reachable only through guards that entail " +
			"Verify(item.Signer.PubKey, payload(item), item.Signature) AND KeyAddress(item.Signer.PubKey) = genesis.ProposerAddress (facts = If edges every path to the sink passes, closed under equality). " +
			"R3: the Validate method go-header calls on every P2P header is declared on SignedHeader and entails signature verification under a key bound to the header's proposer address. " +
			"R4: no sink is reachable on a decode-error path. R5: census of all sinks in the module: each is either under R1/R2 or inside the submitter's post-acceptance callback.",
		notDecided: "Liveness under adversarial traffic (third-party material cannot stall the node); unforgeability of signatures; go-header's syncer beyond calling Validate/Verify; unsigned P2P data is authenticated only at application through the header's data commitment (C01-R2/C05-R3), not here.",
		assumptions: []string{"libp2p crypto.PubKey.Verify is sound", "go-header calls Validate() on every received header (p2p/subscriber.go, p2p/session.go) and Verify() against a trusted header",
			"KeyAddress is the address derivation used by genesis (checked by C19-R3)"},
	})
}

const cacheSetDAIncluded = "(*" + rootPath + "/pkg/cache.Cache[_]).SetDAIncluded"

type sinkInfo struct {
	kind string // "header" | "data"
	what string // "SetDAIncluded" | "send"
	item *Term  // the *SignedHeader / *SignedData / *Data term
}

// classifySink recognises the sinks of C03 at node n.
func classifySink(n *Node) *sinkInfo {
	if n.Kind != NInstr || n.In == nil {
		return nil
	}
	if CallName(n) == cacheSetDAIncluded {
		recv := RecvTerm(n)
		kind := ""
		switch {
		case recv != nil && recv.Op == "field" && recv.Name == "headerCache":
			kind = "header"
		case recv != nil && recv.Op == "field" && recv.Name == "dataCache":
			kind = "data"
		default:
			// by type argument of the receiver
			if cc := CallCommonOf(n); cc != nil && len(cc.Args) > 0 {
				ts := cc.Args[0].Type().String()
				if strings.Contains(ts, "SignedHeader") {
					kind = "header"
				} else {
					kind = "data"
				}
			}
		}
		hash := ArgTerm(n, 1)
		var item *Term
		hash.Walk(func(t *Term) bool {
			if item == nil && (t.IsCall("types.Header).Hash") || t.IsCall("types.Data).DACommitment") || t.IsCall("types.Data).Hash")) && len(t.Args) > 0 {
				item = t.Args[0]
			}
			return true
		})
		if item != nil && item.Op == "field" && (item.Name == "Header" || item.Name == "Data") {
			item = item.Args[0]
		}
		return &sinkInfo{kind: kind, what: "SetDAIncluded", item: item}
	}
	// a send may be a plain Send instruction or a sending case of a select
	var sendChan, sendVal ssa.Value
	switch s := n.In.(type) {
	case *ssa.Send:
		sendChan, sendVal = s.Chan, s.X
	case *ssa.Select:
		for _, st := range s.States {
			if st.Dir == types.SendOnly {
				ch := TermOf(st.Chan, n.Ctx)
				if ch.Op == "field" && (ch.Name == "headerInCh" || ch.Name == "dataInCh") {
					sendChan, sendVal = st.Chan, st.Send
				}
			}
		}
	}
	if sendChan != nil {
		s := struct{ Chan, X ssa.Value }{sendChan, sendVal}
		ch := TermOf(s.Chan, n.Ctx)
		if ch.Op != "field" || (ch.Name != "headerInCh" && ch.Name != "dataInCh") {
			return nil
		}
		kind := "header"
		fld := "Header"
		if ch.Name == "dataInCh" {
			kind, fld = "data", "Data"
		}
		var item *Term
		if v := structLitField(s.X, fld); v != nil {
			item = TermOf(v, n.Ctx)
			if item.Op == "field" && item.Name == "Data" { // &signedData.Data
				item = item.Args[0]
			}
		}
		return &sinkInfo{kind: kind, what: "send", item: item}
	}
	return nil
}

func inSubmitter(n *Node) bool {
	for c := n.Ctx; c != nil; c = c.Parent {
		if c.Fn != nil && isSubmitterFn(c.Fn) {
			return true
		}
	}
	return false
}

func runC03(c *Check) {
	p := c.Mod(ModRoot)
	depth := 7
	if c.Thorough() {
		depth = 9
	}
	c.Doc("C03-R1", "FS+GA: every header sink outside the submitter is reachable only under Verify(h.Signer.PubKey, payload(&h.Header), h.Signature) and KeyAddress(h.Signer.PubKey) = genesis.ProposerAddress.")
	c.Doc("C03-R2", "FS+GA: every signed-data sink outside the submitter is reachable only under Verify(d.Signer.PubKey, d.Data.MarshalBinary(), d.Signature) and KeyAddress(d.Signer.PubKey) = genesis.ProposerAddress.")
	c.Doc("C03-R3", "TM+FS: (*SignedHeader).Validate — the hook go-header calls — is declared on SignedHeader (not promoted from Header) and its accepting paths entail signature verification under a key whose address is the header's proposer address.")
	c.Doc("C03-R4", "GA: sinks are reachable only on the success edges of the decoders (proto.Unmarshal + FromProto / UnmarshalBinary).")
	c.Doc("C03-R5", "CS: every sink instruction of the module lies in the graph of a worker loop and is classified (admission under R1/R2, submitter post-acceptance callback, or unsigned P2P data that is authenticated at application).")

	// census of sink instructions
	allSinks := map[ssa.Instruction]*ssa.Function{}
	for _, fn := range p.Funcs {
		if fn.Origin() != nil && fn.Origin() != fn {
			// instantiations are visited through the graphs; census uses them too because call
			// sites of generic methods live in concrete functions
		}
		tmp := &Graph{P: p}
		ctx := &Ctx{Fn: fn}
		for _, b := range fn.Blocks {
			for _, in := range b.Instrs {
				n := &Node{Kind: NInstr, In: in, Ctx: ctx}
				if si := classifySink(n); si != nil {
					pk := fnPkg(fn)
					if pk != nil && strings.HasSuffix(pk.Pkg.Path(), "/pkg/cache") {
						continue
					}
					allSinks[in] = fn
				}
			}
		}
		_ = tmp
	}
	covered := map[ssa.Instruction]bool{}
	loops := []string{"RetrieveLoop", "HeaderStoreRetrieveLoop", "DataStoreRetrieveLoop", "HeaderSubmissionLoop", "DataSubmissionLoop", "SyncLoop", "DAIncluderLoop", "AggregationLoop"}
	for _, l := range loops {
		root := p.MustFunc(mgrM(l))
		g := BuildECFG(p, root, ExpandOpts{MaxDepth: depth})
		c.NoteGraph(g)
		for _, u := range g.Undecided {
			c.Unk("C03-R5", "graph:"+l, fnName(root), "", u)
		}
		for _, n := range g.Select(func(n *Node) bool { return classifySink(n) != nil }) {
			si := classifySink(n)
			covered[n.In] = true
			inst := fmt.Sprintf("%s ⟂ %s %s in %s", l, si.kind, si.what, fnShort(n.Ctx.Fn))
			pos := p.InstrPos(n.In)
			fn := fnName(n.Ctx.Fn)
			if inSubmitter(n) {
				c.OK("C03-R5", inst, fn, pos, "sink inside the submitter's post-acceptance callback: the item is the node's own committed block read from its store (C06-R2/R6)", true)
				continue
			}
			if si.item == nil {
				c.Unk("C03-R5", inst, fn, pos, "cannot identify the item that reaches this sink")
				continue
			}
			is := si.item.String()
			if si.kind == "data" && !strings.Contains(is, "SignedData") {
				if strings.Contains(is, "dataStore") || strings.Contains(is, "getDataFromDataStore") {
					c.OK("C03-R5", inst, fn, pos, "unsigned P2P data: enters the cache only; it is applied only if it matches the data commitment of an admitted header (types.Validate under C01-R2/C05-R3); item="+trunc(is, 80), true)
				} else {
					c.Bad("C03-R5", inst, fn, pos, "data of unknown origin reaches a sink without being signed data: "+trunc(is, 120), nil)
				}
				continue
			}
			rule := "C03-R1"
			if si.kind == "data" {
				rule = "C03-R2"
			}
			verified, bound, is, key, facts, genesisClass := sinkAdmission(p, g, n, si)
			switch {
			case verified && bound:
				c.OK(rule, inst, fn, pos, "admission entails Verify("+key+", …) and KeyAddress("+key+") = genesis.ProposerAddress", true)
			case !verified:
				c.Bad(rule, inst, fn, pos, "no signature verification of this item under its own signer key on every path to the sink; facts: "+strings.Join(factStrings(facts), " ; "), nil)
			default:
				c.Bad(rule, inst, fn, pos, "the key the signature is verified with ("+key+") is not bound to the genesis proposer address: anyone can sign with a fresh key and name the proposer's address. "+
					"Facts equal to genesis.ProposerAddress: ["+strings.Join(genesisClass, ", ")+"]", nil)
			}
			// R4 decode success
			if strings.Contains(is, "new(") { // decoded locally from blob bytes
				var need []string
				if si.kind == "header" {
					need = []string{"proto.Unmarshal(", "types.SignedHeader).FromProto(" + is}
				} else {
					need = []string{"types.SignedData).UnmarshalBinary(" + is}
				}
				for _, nd := range need {
					found := false
					for _, f := range facts {
						t := f.Cond
						if t.Op == "bin" && ((t.Name == "!=" && !f.Pol) || (t.Name == "==" && f.Pol)) && strings.Contains(t.Args[0].String(), nd) && t.Args[1].Name == "nil" {
							found = true
						}
					}
					i4 := inst + " ⟂ " + strings.TrimSuffix(strings.SplitN(nd, "(", 2)[0], ")")
					if found {
						c.OK("C03-R4", i4, fn, pos, "sink only on the success edge of "+nd+"…)", true)
					} else {
						c.Bad("C03-R4", i4, fn, pos, "sink reachable although "+nd+"…) failed or was not checked", nil)
					}
				}
			}
		}
	}
	ruleForeignKeyNilChecked(c, p, depth)
	rulePooledMemoryNotReturned(c, "C03-R7", []*Prog{p})
	// third-party bytes (the raw blob, and the byte fields of what decodes from it) are sliced, indexed or
	// converted to an array only under a test of their length: a junk blob must not end the scan goroutine
	ruleBlobBytesBoundsChecked(c, p, "C03-R8")
	for in, fn := range allSinks {
		if !covered[in] {
			c.Bad("C03-R5", "unaccounted sink in "+fnShort(fn), fnName(fn), p.InstrPos(in), "a header/data sink (sync channel send or SetDAIncluded) outside every worker loop's admission path", nil)
		}
	}
	c.MinInstances("C03-R1", 3)
	c.MinInstances("C03-R2", 2)
	c.MinInstances("C03-R4", 4)
	c.MinInstances("C03-R5", 3)

	// R3
	ruleP2PValidateHook(c, p)
}

func ruleP2PValidateHook(c *Check, p *Prog) {
	tp := p.TypesPkg(rootPath + "/types")
	if tp == nil {
		c.Unk("C03-R3", "types", "", "", "anchor lost: package types")
		return
	}
	obj := tp.Scope().Lookup("SignedHeader")
	if obj == nil {
		c.Unk("C03-R3", "SignedHeader", "", "", "anchor lost: type SignedHeader")
		return
	}
	ptr := types.NewPointer(obj.Type())
	sel := types.NewMethodSet(ptr).Lookup(tp, "Validate")
	inst := "(*SignedHeader).Validate"
	if sel == nil {
		c.Bad("C03-R3", inst+" ⟂ declared", "", "", "*SignedHeader has no Validate method", nil)
		return
	}
	pos := p.Pos(sel.Obj().Pos())
	if len(sel.Index()) != 1 {
		c.Bad("C03-R3", inst+" ⟂ declared", sel.Obj().(*types.Func).FullName(), pos,
			"the Validate method of *SignedHeader is promoted from the embedded Header ("+sel.Obj().(*types.Func).FullName()+"): go-header validates every P2P header with it and it does not look at the signature, so unsigned headers enter the header store of full and light nodes", nil)
		return
	}
	c.OK("C03-R3", inst+" ⟂ declared", sel.Obj().(*types.Func).FullName(), pos, "declared on SignedHeader", false)
	fn := p.SSA.FuncValue(sel.Obj().(*types.Func))
	if fn == nil {
		c.Unk("C03-R3", inst+" ⟂ facts", "", pos, "no SSA for the method")
		return
	}
	alts := p.AcceptDNF(fn, nil, corrResult(fn), 6)
	facts := intersectFacts(alts)
	eq := NewEqClasses(facts)
	recv := fn.Params[0].Name()
	key := recv + ".Signer.PubKey"
	verified := false
	for _, v := range verifyFacts(facts) {
		if len(v.Args) >= 3 && v.Args[0].String() == key && v.Args[2].String() == recv+".Signature" && (strings.Contains(v.Args[1].String(), recv+".Header") || p.DeepContains(v.Args[1], func(t *Term) bool { return t.Op == "field" && t.String() == recv+".Header" }, 2)) {
			verified = true
		}
	}
	bound := eq.Same("types.KeyAddress("+key+")", recv+".Header.ProposerAddress")
	if verified && bound {
		c.OK("C03-R3", inst+" ⟂ facts", fnName(fn), pos, "accepting paths entail Verify("+key+", payload(&h.Header), h.Signature) and KeyAddress("+key+") = h.ProposerAddress; with Header.Verify's proposer-address equality a light node accepts only keys with the trusted header's address", true)
	} else {
		c.Bad("C03-R3", inst+" ⟂ facts", fnName(fn), pos, fmt.Sprintf("accepting paths of the P2P validation hook do not entail signature verification (verified=%v) under a key bound to the proposer address (bound=%v); facts: %s", verified, bound, strings.Join(factStrings(facts), " ; ")), nil)
	}
}

// ruleForeignKeyNilChecked (C03-R6): an item decoded from third-party bytes may carry no signer
// key at all (FromProto leaves Signer.PubKey nil when the sub-message or its key is absent). A
// method invoked on that nil interface panics, and the loops that examine DA / P2P material run
// without recover: one junk blob would halt the node at that DA height on every restart.
func ruleForeignKeyNilChecked(c *Check, p *Prog, depth int) {
	rule := "C03-R6"
	c.Doc(rule, "NG: in the loops that examine DA-layer and P2P material, every method invoked on an item's Signer.PubKey (directly or inside a helper it is passed to) is reached only through a non-nil test of that key — a blob without a key is refused, it does not panic the loop.")
	n := 0
	seen := map[string]bool{}
	for _, l := range []string{"RetrieveLoop", "HeaderStoreRetrieveLoop", "DataStoreRetrieveLoop", "SyncLoop"} {
		root := p.MustFunc(mgrM(l))
		g := BuildECFG(p, root, ExpandOpts{MaxDepth: depth})
		for _, nd := range g.Select(func(nd *Node) bool {
			cc := CallCommonOf(nd)
			if cc == nil || !cc.IsInvoke() || inSubmitter(nd) {
				return false
			}
			nt, ok := cc.Value.Type().(*types.Named)
			if !ok || nt.Obj().Name() != "PubKey" {
				return false
			}
			rt := TermOf(cc.Value, nd.Ctx)
			return rt != nil && strings.HasSuffix(rt.String(), ".Signer.PubKey")
		}) {
			cc := CallCommonOf(nd)
			key := TermOf(cc.Value, nd.Ctx).String()
			item := "header"
			if strings.Contains(key, "SignedData") {
				item = "signed data"
			}
			inst := fmt.Sprintf("%s ⟂ %s key.%s in %s", l, item, cc.Method.Name(), fnShort(nd.Ctx.Fn))
			if seen[inst] {
				continue
			}
			seen[inst] = true
			n++
			facts := g.FactsAt(nodeSet([]*Node{nd}), 3)
			ok := false
			for _, f := range facts {
				t, pol := normFact(f.Cond, f.Pol)
				if t.Op == "bin" && len(t.Args) == 2 && t.Args[1].Name == "nil" && t.Args[0].String() == key && ((t.Name == "!=" && pol) || (t.Name == "==" && !pol)) {
					ok = true
				}
			}
			if ok {
				c.OK(rule, inst, fnName(nd.Ctx.Fn), p.InstrPos(nd.In), "reached only when "+trunc(key, 70)+" != nil", true)
			} else {
				c.Bad(rule, inst, fnName(nd.Ctx.Fn), p.InstrPos(nd.In), "a method is invoked on the signer key of a decoded item without a non-nil test of that key on every path: a third-party blob without a key makes the loop panic (nil interface), and it panics again at the same DA height after every restart", nil)
			}
		}
	}
	if n < 3 {
		c.Unk(rule, "anchor-count", "", "", fmt.Sprintf("anchor lost: only %d invocations on a decoded item's signer key found in the examining loops", n))
	}
}

// sinkAdmission: what the facts on every path to sink n entail for the item that reaches it —
// verified: its signature was verified under its own signer key over its own payload; bound: that
// key's address equals the genesis proposer address. is is the rendering of the item under which
// both hold (the item as named at the sink, or the value a decoding helper handed back).
func sinkAdmission(p *Prog, g *Graph, n *Node, si *sinkInfo) (verified, bound bool, is, key string, facts FactSet, genesisClass []string) {
	is = si.item.String()
	target := nodeSet([]*Node{n})
	facts = g.FactsAt(target, 5)
	eq := NewEqClasses(facts)
	evalFor := func(is string) (bool, bool, []string) {
		key := is + ".Signer.PubKey"
		// verification
		verified := false
		for _, v := range verifyFacts(facts) {
			if len(v.Args) < 3 {
				continue
			}
			okKey := v.Args[0].String() == key
			okSig := v.Args[2].String() == is+".Signature"
			msg := v.Args[1].String()
			okMsg := false
			if si.kind == "header" {
				okMsg = strings.Contains(msg, is+".Header") || p.DeepContains(v.Args[1], func(t *Term) bool { return t.Op == "field" && t.String() == is+".Header" }, 2)
			} else {
				okMsg = strings.Contains(msg, "MarshalBinary("+is+".Data)") || p.DeepContains(v.Args[1], func(t *Term) bool {
					return strings.HasSuffix(t.Name, "MarshalBinary") && len(t.Args) > 0 && t.Args[0].String() == is+".Data"
				}, 2)
			}
			if okKey && okSig && okMsg {
				verified = true
			}
		}
		// binding of the verifying key to the genesis proposer address
		bound := false
		var genesisClass []string
		for k := range eq.parent {
			if strings.HasSuffix(k, ".genesis.ProposerAddress") {
				genesisClass = eq.Class(k)
				for _, mbr := range genesisClass {
					if isKeyAddressOf(mbr, key) {
						bound = true
					}
				}
			}
		}
		return verified, bound, genesisClass
	}
	// the item as named at the sink, or — when a repository helper decoded and admitted it and
	// handed it back — the value that helper returns on its accepting paths
	cands := []string{is}
	for _, alt := range p.Alternatives(si.item, 2) {
		if as := alt.String(); as != is && alt.Op != "const" {
			cands = append(cands, as)
		}
	}
	for _, cand := range cands {
		v, b, gc := evalFor(cand)
		if cand == is || (v && b) {
			verified, bound, genesisClass = v, b, gc
			key = cand + ".Signer.PubKey"
		}
		if v && b {
			is = cand
			break
		}
	}
	return verified, bound, is, key, facts, genesisClass
}
