package main

import (
	"fmt"
	"go/token"
	"sort"
	"strings"

	"golang.org/x/tools/go/ssa"
)

func init() {
	register("C10", &propDef{
		run: runC10,
		explanation: "Decides for the single sequencer's batch queue: R1 write-ahead (the datastore Put succeeds before the batch enters the in-memory queue); R2 a rejected submission (queue full, foreign chain id, empty batch) leaves no trace (no Put / no queue write / no AddBatch on any path to those returns); " +
			"R3 the queue write is guarded by maxQueueSize = 0 or len(queue) < maxQueueSize; R4 the datastore key of an entry depends on per-queue state and not only on the batch's content, that state advances with every accepted batch, and reload imposes key order; " +
			"R5 Next returns queue[0], keeps queue[1:] and deletes the key belonging to that same element; parallel key slices are written in lock-step with the queue; R6 every access to the queue's fields is under its mutex.",
		notDecided:  "Linearizability under concurrent submitters beyond the lock; datastore faults; that the datastore's query order is what it claims.",
		assumptions: []string{"go-datastore is an effect leaf", "sync.Mutex semantics", "go/ssa"},
	})
	register("C11", &propDef{
		run: runC11,
		explanation: "Decides: R1 the reaper marks transactions seen only on the success edge of the hand-off, and marks exactly the slice it submitted; R2 the submitted batch is the not-yet-seen transactions in mempool order; " +
			"R3 once the production step has irrevocably taken a batch (cursor written) every path to a return passes the early block save, except through error edges of infrastructure calls; content-dependent returns lose the batch; " +
			"R4 the function that hands a batch to the node does not durably delete it in the same call (otherwise a crash before the block is saved loses it).",
		notDecided:  "At-most-once inclusion; executors whose GetTxs drains the mempool; everything dynamic about retries.",
		assumptions: []string{"Executor/Sequencer/datastore are effect leaves", "go/ssa"},
	})
}

const singlePkg = rootPath + "/sequencers/single"

func dsCall(n *Node, method string) bool {
	cn := CallName(n)
	return strings.HasPrefix(cn, "(github.com/ipfs/go-datastore.") && strings.HasSuffix(cn, ")."+method)
}

// fieldStore matches stores into a named field of the method receiver.
func fieldStoreTo(g *Graph, field string) NodePred {
	return func(n *Node) bool {
		st, ok := n.In.(*ssa.Store)
		if !ok {
			return false
		}
		fa, ok := st.Addr.(*ssa.FieldAddr)
		if !ok {
			return false
		}
		st2 := derefStruct(fa.X.Type())
		return st2 != nil && fieldLabel(fa.X.Type(), fa.Field) == field
	}
}

// heldAt: mutex field mu of the receiver is held at node n on every path.
func heldAt(g *Graph, n *Node, mu string) bool { return heldAtMode(g, n, mu, false) }

// heldAtMode: with exclusive set, a read lock (RLock) does not count.
func heldAtMode(g *Graph, n *Node, mu string, exclusive bool) bool {
	isLock := func(x *Node) bool {
		cn := CallName(x)
		if cn != "(*sync.Mutex).Lock" && cn != "(*sync.RWMutex).Lock" && (exclusive || cn != "(*sync.RWMutex).RLock") {
			return false
		}
		if _, deferred := x.In.(deferredCall); deferred {
			return false
		}
		r := RecvTerm(x)
		return r != nil && r.Op == "field" && r.Name == mu
	}
	isUnlock := func(x *Node) bool {
		cn := CallName(x)
		if cn != "(*sync.Mutex).Unlock" && cn != "(*sync.RWMutex).Unlock" && cn != "(*sync.RWMutex).RUnlock" {
			return false
		}
		r := RecvTerm(x)
		return r != nil && r.Op == "field" && r.Name == mu
	}
	tgt := func(x *Node) bool { return x == n }
	if g.PathAvoiding([]*Node{g.Entry}, tgt, isLock) != nil {
		return false
	}
	if us := g.Select(isUnlock); len(us) > 0 && g.PathAvoiding(us, tgt, isLock) != nil {
		return false
	}
	return true
}

func runC10(c *Check) {
	p := c.Mod(ModSingle)
	ruleNoBatchUseAfterCommit(c, p, "C10-R11", singlePkg)
	ruleStoreNotBuffered(c, p, "C10-R12", singlePkg)
	ruleNoStaleReadAcrossUnlock(c, "C10-R13", []*Prog{p})
	c.Doc("C10-R1", "EO+GA: in AddBatch the success edge of the datastore Put precedes every write of the in-memory queue.")
	c.Doc("C10-R2", "EO: no Put / queue write reaches the queue-full return; no AddBatch reaches the invalid-id or empty-batch returns of SubmitBatchTxs.")
	c.Doc("C10-R3", "FS: the queue write is behind maxQueueSize <= 0 or len(queue) < maxQueueSize.")
	c.Doc("C10-R4", "VP: the entry key depends on per-queue state that advances per accepted batch; Load queries in key order.")
	c.Doc("C10-R5", "VP: FIFO pop and deletion of the popped element's own key; parallel slices move in lock-step.")
	c.Doc("C10-R6", "LS: accesses to BatchQueue fields only under mu.")
	q := func(m string) string { return "(*" + singlePkg + ".BatchQueue)." + m }
	add := p.MustFunc(q("AddBatch"))
	next := p.MustFunc(q("Next"))
	load := p.MustFunc(q("Load"))

	// which receiver slice fields are part of the queue state: queue + parallel slices
	stateFields := []string{"queue"}
	{
		st := derefStruct(add.Params[0].Type())
		for i := 0; i < st.NumFields(); i++ {
			f := st.Field(i)
			if l := fieldLabel(add.Params[0].Type(), i); l != "queue" && strings.HasPrefix(f.Type().String(), "[]") {
				stateFields = append(stateFields, l)
			}
		}
	}
	// ---- AddBatch
	{
		g := BuildECFG(p, add, ExpandOpts{MaxDepth: 1})
		c.NoteGraph(g)
		fn := fnName(add)
		isPut := func(n *Node) bool { return dsCall(n, "Put") }
		putOK := g.Select(ErrNilEdge(func(t *Term) bool { return t.Op == "invoke" && strings.HasSuffix(t.Name, ".Put") }))
		qStore := fieldStoreTo(g, "queue")
		if len(g.Select(isPut)) == 0 || len(g.Select(qStore)) == 0 {
			c.Unk("C10-R1", "AddBatch ⟂ anchors", fn, "", "anchor lost: no datastore Put or no queue write in AddBatch")
		} else {
			c.Decide("C10-R1", "AddBatch ⟂ Put-ok<queue-write", fn, posOf(g, qStore), "the batch enters memory only after it is durable",
				"the in-memory queue is written before / without a successful datastore Put: an accepted batch can be lost on restart", g, g.MustPrecede(nodeSet(putOK), qStore))
			// once the batch is in the log it is accepted: no refusal after the durable write
			c.Decide("C10-R2", "AddBatch ⟂ no-refusal-after-the-durable-write", fn, posOf(g, isPut), "after the datastore Put succeeded every return is reached through the in-memory append",
				"AddBatch can refuse a submission (return before the in-memory append) after the batch was written to the log: the refused batch leaves a trace — after a restart it is reloaded and handed out although it was never acknowledged, and a retried submission is delivered twice",
				g, g.MustFollow(nodeSet(putOK), qStore, g.AnyExit()))
			// the bytes handed to the datastore belong to this call: a buffer kept in the queue and
			// reused for the next entry is overwritten under every datastore that keeps the slice it
			// was given — earlier log entries then hold a later batch's bytes
			for _, pn := range g.Select(isPut) {
				v := ArgTerm(pn, 2)
				shared := ""
				if v != nil {
					v.Walk(func(t *Term) bool {
						if t.Op == "field" && len(t.Args) > 0 && t.Args[0].String() == add.Params[0].Name() && t.V != nil {
							if ts := t.V.Type().String(); strings.Contains(ts, "[]byte") || strings.Contains(ts, "[]uint8") {
								shared = t.String()
							}
						}
						if t.Op == "global" {
							shared = t.String()
						}
						return true
					})
				}
				if shared == "" {
					c.OK("C10-R1", "AddBatch ⟂ Put-value-owned-by-the-call", fn, p.InstrPos(pn.In), "the stored bytes are built in this call", true)
				} else {
					c.Bad("C10-R1", "AddBatch ⟂ Put-value-owned-by-the-call", fn, p.InstrPos(pn.In), "the bytes handed to the datastore share storage that outlives the call ("+shared+"): the next entry is encoded into the same array, and a datastore that keeps the slice it was given then holds the later batch's bytes under the earlier key — after a restart pending batches come back with other contents or not at all", nil)
				}
			}
			// the value put is the encoding of this batch
			for _, pn := range g.Select(isPut) {
				v := ArgTerm(pn, 2)
				if v != nil && p.DeepContains(v, func(t *Term) bool { return t.IsCall("proto.Marshal") }, 2) && p.DeepContains(v, func(t *Term) bool {
					return t.Op == "field" && t.Name == "Transactions" && t.Args[0].String() == add.Params[2].Name()
				}, 2) {
					c.OK("C10-R1", "AddBatch ⟂ Put-value=batch", fn, p.InstrPos(pn.In), "the stored value encodes the submitted batch's transactions", true)
				} else {
					c.Bad("C10-R1", "AddBatch ⟂ Put-value=batch", fn, p.InstrPos(pn.In), "the value written to the datastore is not the encoding of the submitted batch: "+trunc(v.String(), 120), nil)
				}
			}
		}
		// R2: queue-full return
		var fullExits []*Node
		for _, x := range g.Exits {
			ret := x.In.(*ssa.Return)
			t := TermOf(spilledResult(ret, 0), g.RootCtx)
			if t.Op == "global" && strings.HasSuffix(t.Name, ".ErrQueueFull") {
				fullExits = append(fullExits, x)
			}
		}
		if len(fullExits) == 0 {
			c.Unk("C10-R2", "AddBatch ⟂ queue-full-return", fn, "", "anchor lost: no return of ErrQueueFull")
		} else {
			path := g.PathAvoiding(g.Select(orPred(isPut, qStore)), nodeSet(fullExits), nil)
			c.Decide("C10-R2", "AddBatch ⟂ queue-full-leaves-no-trace", fn, p.InstrPos(fullExits[0].In), "no write precedes the queue-full return",
				"a submission rejected as queue-full has already been written", g, path)
			// R3
			isLimitOff := func(t *Term, pol bool) bool {
				a, op, b, ok := canonCmp(t, pol) // maxQueueSize <= 0
				return ok && op == "<=" && strings.HasSuffix(a.String(), ".maxQueueSize") && b.unconv().Name == "0"
			}
			isBelow := func(t *Term, pol bool) bool {
				a, op, b, ok := canonCmp(t, pol) // len(queue) < maxQueueSize
				return ok && op == "<" && strings.HasPrefix(a.String(), "len(") && strings.HasSuffix(a.String(), ".queue)") && strings.HasSuffix(b.String(), ".maxQueueSize")
			}
			limitOff := g.GuardEdges(isLimitOff)
			below := g.GuardEdges(isBelow)
			either := g.GuardEdges(func(t *Term, pol bool) bool { return isLimitOff(t, pol) || isBelow(t, pol) })
			if len(below) == 0 && len(either) > 0 {
				below = either
			}
			if len(limitOff) == 0 && len(either) > 0 {
				limitOff = either
			}
			if len(limitOff) == 0 || len(below) == 0 {
				c.Bad("C10-R3", "AddBatch ⟂ bound", fn, "", fmt.Sprintf("bound guard not found (maxQueueSize>0 test: %d, len(queue)>=max test: %d)", len(limitOff), len(below)), nil)
			} else {
				c.Decide("C10-R3", "AddBatch ⟂ bound", fn, p.InstrPos(below[0].In), "the queue grows only if maxQueueSize <= 0 or len(queue) < maxQueueSize",
					"the queue can grow past its bound", g, g.PathAvoiding([]*Node{g.Entry}, orPred(qStore, isPut), orPred(orPred(nodeSet(limitOff), nodeSet(below)), nodeSet(either))))
			}
		}
		// R4: key provenance
		for _, pn := range g.Select(isPut) {
			key := ArgTerm(pn, 1)
			recv := add.Params[0].Name()
			var stateFieldsUsed []string
			key.Walk(func(t *Term) bool {
				if t.Op == "field" && t.Args[0].String() == recv && t.Name != "db" {
					stateFieldsUsed = append(stateFieldsUsed, t.Name)
				}
				return true
			})
			dependsOnBatch := p.DeepContains(key, func(t *Term) bool { return t.Op == "param" && t.Name == add.Params[2].Name() }, 1) || strings.Contains(key.String(), add.Params[2].Name())
			inst := "AddBatch ⟂ key-not-content-only"
			if len(stateFieldsUsed) > 0 {
				c.OK("C10-R4", inst, fn, p.InstrPos(pn.In), "the entry key depends on queue state ("+strings.Join(stateFieldsUsed, ",")+"): "+trunc(key.String(), 100), true)
				// that state advances on the success path
				for _, sf := range stateFieldsUsed {
					adv := fieldStoreTo(g, sf)
					path := g.MustFollow(nodeSet(putOK), adv, g.SuccessExits())
					c.Decide("C10-R4", "AddBatch ⟂ key-state-advances("+sf+")", fn, posOf(g, adv), "every accepted batch advances the key state",
						"a batch can be accepted without advancing the state its key was derived from: the next batch overwrites its entry", g, path)
				}
			} else {
				c.Bad("C10-R4", inst, fn, p.InstrPos(pn.In), fmt.Sprintf("the datastore key of an accepted batch is a function of its content only (depends on batch: %v): two accepted batches with equal contents share one entry — the first Next deletes it and the second batch is lost on restart — and reload order is hash order, not acceptance order; key = %s", dependsOnBatch, trunc(key.String(), 140)), nil)
			}
		}
	}
	// ---- Load: key order
	{
		g := BuildECFG(p, load, ownPkgOpts(singlePkg, 2))
		c.NoteGraph(g)
		fn := fnName(load)
		qs := g.Select(func(n *Node) bool { return dsCall(n, "Query") })
		if len(qs) == 0 {
			c.Unk("C10-R4", "Load ⟂ query", fn, "", "anchor lost: no datastore Query in Load")
		}
		for _, qn := range qs {
			qa := ArgTerm(qn, 1)
			ordered := false
			if r := rootOf(qa); r != nil {
				var al *ssa.Alloc
				if r.Op == "load" && len(r.Args) > 0 {
					al, _ = r.Args[0].V.(*ssa.Alloc)
				} else if r.Op == "alloc" {
					al, _ = r.V.(*ssa.Alloc)
				} else if u, ok := r.V.(*ssa.UnOp); ok {
					al, _ = u.X.(*ssa.Alloc)
				}
				if al != nil {
					for k, vs := range litStores(al) {
						if strings.HasPrefix(k, "Orders") {
							for _, v := range vs {
								if orderByKeyIn(v, 0) {
									ordered = true
								}
							}
						}
					}
				}
			}
			if ordered {
				c.OK("C10-R4", "Load ⟂ key-order", fn, p.InstrPos(qn.In), "reload queries the entries ordered by key", true)
			} else {
				c.Bad("C10-R4", "Load ⟂ key-order", fn, p.InstrPos(qn.In), "reload reads the entries with an unordered query: the reloaded queue order is datastore iteration order, not acceptance order", nil)
			}
		}
	}
	// ---- Load: the key state is restored past every reloaded key, including sequence number 0
	{
		g := BuildECFG(p, load, ownPkgOpts(singlePkg, 2))
		fn := fnName(load)
		recvL := load.Params[0].Name()
		// which receiver fields feed the key in AddBatch
		var keyState []string
		{
			ga := BuildECFG(p, add, ExpandOpts{MaxDepth: 1})
			for _, pn := range ga.Select(func(n *Node) bool { return dsCall(n, "Put") }) {
				ArgTerm(pn, 1).Walk(func(t *Term) bool {
					if t.Op == "field" && t.Args[0].String() == add.Params[0].Name() && t.Name != "db" {
						keyState = append(keyState, t.Name)
					}
					return true
				})
			}
		}
		for _, sf := range keyState {
			stores := g.Select(fieldStoreTo(g, sf))
			if len(stores) == 0 {
				c.Bad("C10-R4", "Load ⟂ restores-"+sf, fn, p.Pos(load.Pos()), "reload does not restore the key state "+sf+": after a restart new batches re-use the keys of batches still in the WAL and overwrite them", nil)
				continue
			}
			for _, st := range stores {
				v := TermOf(st.In.(*ssa.Store).Val, st.Ctx)
				fromKey := p.DeepContains(v, func(t *Term) bool { return t.IsCall("strconv.ParseUint") }, 1)
				if !fromKey {
					c.Bad("C10-R4", "Load ⟂ restores-"+sf, fn, p.InstrPos(st.In), "the restored key state does not derive from the reloaded keys: "+trunc(v.String(), 120), nil)
					continue
				}
				sentinel := ""
				for _, f := range g.NecessaryEdges(nodeSet([]*Node{st})) {
					t := f.Cond
					if t.Op != "bin" {
						continue
					}
					for i := 0; i < 2; i++ {
						k, o := t.Args[i].unconv(), t.Args[1-i]
						if k.Op == "const" && k.Name == "0" && (t.Name == ">" || t.Name == "!=" || t.Name == "<" || t.Name == "==") &&
							p.DeepContains(o, func(x *Term) bool { return x.IsCall("strconv.ParseUint") }, 1) && !strings.Contains(o.String(), recvL+"."+sf) {
							sentinel = f.String()
						}
					}
				}
				// the comparison with the current key state must admit equality: the restored value is
				// seq+1, so an entry whose number equals the running state must advance it too
				strict := ""
				for _, f := range g.NecessaryEdges(nodeSet([]*Node{st})) {
					t := f.Cond
					if t.Op != "bin" {
						continue
					}
					a, b := t.Args[0], t.Args[1]
					aSeq := p.DeepContains(a, func(x *Term) bool { return x.IsCall("strconv.ParseUint") }, 1)
					bSeq := p.DeepContains(b, func(x *Term) bool { return x.IsCall("strconv.ParseUint") }, 1)
					aState := a.String() == recvL+"."+sf
					bState := b.String() == recvL+"."+sf
					var op string
					switch {
					case aSeq && bState:
						op = t.Name
					case bSeq && aState: // state OP seq  ==  seq OP' state
						op = map[string]string{"<": ">", "<=": ">=", ">": "<", ">=": "<=", "==": "==", "!=": "!="}[t.Name]
					default:
						continue
					}
					if !f.Pol {
						op = map[string]string{"<": ">=", "<=": ">", ">": "<=", ">=": "<", "==": "!=", "!=": "=="}[op]
					}
					// op now reads: seq <op> state holds on the path to the restore
					if op == ">" {
						strict = f.String()
					}
				}
				if sentinel == "" && strict != "" {
					c.Bad("C10-R4", "Load ⟂ restores-"+sf, fn, p.InstrPos(st.In), "the restore of "+sf+" to seq+1 happens only when the reloaded sequence number is strictly greater than the running state ("+trunc(strict, 100)+"): an entry whose number equals the state does not advance it, so after a restart the next accepted batch re-uses the key of the newest pending batch and overwrites it", nil)
				} else if sentinel == "" {
					c.OK("C10-R4", "Load ⟂ restores-"+sf, fn, p.InstrPos(st.In), sf+" is restored from the reloaded sequence keys with no sentinel test on the sequence value", true)
				} else {
					c.Bad("C10-R4", "Load ⟂ restores-"+sf, fn, p.InstrPos(st.In), "the restore of "+sf+" is guarded by a comparison of the reloaded sequence number with 0 ("+trunc(sentinel, 100)+"), but 0 is a legitimate sequence number (the first key ever written): with only entry 0 pending at restart the next accepted batch re-uses key 0 and overwrites it", nil)
				}
			}
		}
	}
	// ---- key codec agreement: the base the sequence keys are written in is the base they are parsed in
	{
		bases := func(fn *ssa.Function, callee string, depth int) map[string]string {
			out := map[string]string{}
			seen := map[*ssa.Function]bool{}
			var visit func(f *ssa.Function, d int)
			visit = func(f *ssa.Function, d int) {
				if seen[f] || d > depth {
					return
				}
				seen[f] = true
				for _, b := range f.Blocks {
					for _, in := range b.Instrs {
						call, ok := in.(*ssa.Call)
						if !ok {
							continue
						}
						cn := commonName(call.Common())
						if cn == callee {
							t := TermOf(call, &Ctx{Fn: f})
							switch callee {
							case "fmt.Sprintf":
								var format string
								if a := t.Args[0].unconv(); a.Op == "const" {
									fmt.Sscanf(a.Name, "%q", &format)
								}
								switch {
								case strings.ContainsAny(format, "xX") && strings.Contains(format, "%"):
									out[p.InstrPos(in)] = "16"
								case strings.Contains(format, "d"):
									out[p.InstrPos(in)] = "10"
								default:
									out[p.InstrPos(in)] = "?" + format
								}
							case "strconv.ParseUint":
								out[p.InstrPos(in)] = t.Args[1].unconv().Name
							case "strconv.FormatUint":
								out[p.InstrPos(in)] = t.Args[1].unconv().Name
							}
						}
						if cal := call.Common().StaticCallee(); cal != nil && p.InRepo(cal) && fnPkg(cal) != nil && fnPkg(cal).Pkg.Path() == singlePkg {
							visit(cal, d+1)
						}
					}
				}
			}
			visit(fn, 0)
			return out
		}
		w := bases(add, "fmt.Sprintf", 2)
		for k, v := range bases(add, "strconv.FormatUint", 2) {
			w[k] = v
		}
		r := bases(load, "strconv.ParseUint", 2)
		ws, rs := map[string]bool{}, map[string]bool{}
		for _, v := range w {
			ws[v] = true
		}
		for _, v := range r {
			rs[v] = true
		}
		if len(r) > 0 || len(w) > 0 {
			wk, rk := sortedKeys(ws), sortedKeys(rs)
			if len(wk) == 1 && len(rk) == 1 && wk[0] == rk[0] {
				c.OK("C10-R4", "key-codec ⟂ same-base", fnName(load), p.Pos(load.Pos()), "sequence keys are written and parsed in base "+wk[0], true)
			} else {
				c.Bad("C10-R4", "key-codec ⟂ same-base", fnName(load), p.Pos(load.Pos()), fmt.Sprintf("sequence keys are written in base %v but parsed in base %v: after a restart the key state is restored too low and new batches sort before or overwrite pending ones", wk, rk), nil)
			}
		}
	}
	// ---- R7: reload completeness
	c.Doc("C10-R7", "EO: the reload consumes the whole result stream (the loop over the stored entries is left only when the stream is exhausted or through an error return) and appends every entry that decoded.")
	{
		g := BuildECFG(p, load, ownPkgOpts(singlePkg, 2))
		c.NoteGraph(g)
		fn := fnName(load)
		isRecv := func(n *Node) bool {
			u, ok := n.In.(*ssa.UnOp)
			return ok && u.Op == token.ARROW && u.CommaOk
		}
		recvs := g.Select(isRecv)
		gotOne := g.Select(EdgeWhere(func(t *Term, pol bool, n *Node) bool {
			t, pol = normFact(t, pol)
			if !pol || t.Op != "extract" || t.Name != "1" {
				return false
			}
			u, ok := t.Args[0].V.(*ssa.UnOp)
			return ok && u.Op == token.ARROW && u.CommaOk
		}))
		apps := g.Select(func(n *Node) bool {
			if CallName(n) != "append" {
				return false
			}
			a := ArgTerm(n, 0)
			return a != nil && a.Contains(func(x *Term) bool { return x.Op == "field" && x.Name == "queue" })
		})
		rests := g.Select(func(n *Node) bool { return strings.HasSuffix(CallName(n), "query.Results).Rest") })
		if len(recvs) == 0 && len(rests) == 1 && len(apps) > 0 {
			// the other way to read the stream: everything at once. Rest stops at the first entry
			// it cannot read and reports it: only its nil edge says "these are all the entries".
			var okExits []*Node
			for _, x := range g.Exits {
				if g.ExitClass(x) != rcA {
					okExits = append(okExits, x)
				}
			}
			isRest := func(t *Term) bool { return t.IsCall("query.Results).Rest") }
			c.Decide("C10-R7", "Load ⟂ consumes-the-whole-stream", fn, p.InstrPos(rests[0].In), "the reload returns successfully only through the nil edge of the read of the whole stream",
				"the reload reads the stored entries at once and can report success although the read failed part-way: the entries behind the unreadable one are invisible, their keys are not counted when the key state is restored (new batches overwrite them), and they reappear out of order after a later restart", g,
				g.PathAvoiding(rests, nodeSet(okExits), ErrNilEdge(isRest)))
			decoded := g.Select(ErrNilEdge(func(t *Term) bool { return t.IsCall("proto.Unmarshal") }))
			if len(decoded) == 0 {
				c.Unk("C10-R7", "Load ⟂ decoded-entry-is-queued", fn, "", "anchor lost: decode-success edge")
			} else {
				hdr := loopHeaderOf(decoded[0].In.Block())
				var head *Node
				if hdr != nil {
					head = g.headNode(decoded[0].Ctx, hdr)
				}
				c.Decide("C10-R7", "Load ⟂ decoded-entry-is-queued", fn, p.InstrPos(decoded[0].In), "every entry that decoded is appended before the next one is looked at",
					"an entry that decoded can be passed over without being queued", g, g.PathAvoiding(decoded, orPred(func(n *Node) bool { return head != nil && n == head }, nodeSet(okExits)), nodeSet(apps)))
			}
		} else if len(recvs) != 1 || len(gotOne) == 0 || len(apps) == 0 {
			c.Unk("C10-R7", "Load ⟂ anchors", fn, "", fmt.Sprintf("anchor lost: %d stream receives, %d element edges, %d appends to the queue", len(recvs), len(gotOne), len(apps)))
		} else {
			var okExits []*Node
			for _, x := range g.Exits {
				if g.ExitClass(x) != rcA {
					okExits = append(okExits, x)
				}
			}
			c.Decide("C10-R7", "Load ⟂ consumes-the-whole-stream", fn, p.InstrPos(recvs[0].In), "after an entry was received the reload returns successfully only through the exhausted stream",
				"the reload can stop before the stored entries are exhausted and still report success: the remaining accepted batches are invisible, their keys are not counted when the key state is restored (new batches overwrite them), and they reappear out of order after another restart", g,
				g.PathAvoiding(gotOne, nodeSet(okExits), isRecv))
			decoded := g.Select(ErrNilEdge(func(t *Term) bool { return t.IsCall("proto.Unmarshal") }))
			if len(decoded) == 0 {
				c.Unk("C10-R7", "Load ⟂ decoded-entry-is-queued", fn, "", "anchor lost: decode-success edge")
			} else {
				c.Decide("C10-R7", "Load ⟂ decoded-entry-is-queued", fn, p.InstrPos(decoded[0].In), "every entry that decoded is appended before the next one is read",
					"an entry that decoded can be passed over without being queued", g, g.PathAvoiding(decoded, orPred(isRecv, nodeSet(okExits)), nodeSet(apps)))
			}
		}
	}
	c.MinInstances("C10-R7", 2)
	c.Doc("C10-R9", "EO: every constructor of the sequencer returns a sequencer only after the queue was reloaded from its log successfully (whatever the role flags): a sequencer that accepts and hands out batches with an empty in-memory queue over a non-empty log forgets pending batches and overwrites their entries.")
	{
		nCtor := 0
		for _, fn := range p.Funcs {
			pk := fnPkg(fn)
			if pk == nil || pk.Pkg.Path() != singlePkg || fn.Parent() != nil || fn.Signature.Recv() != nil {
				continue
			}
			res := fn.Signature.Results()
			if res.Len() != 2 || !strings.HasSuffix(res.At(0).Type().String(), "single.Sequencer") {
				continue
			}
			g := BuildECFG(p, fn, ExpandOpts{MaxDepth: 0})
			// constructors that delegate to another constructor are covered through it
			direct := g.Select(func(n *Node) bool { cc := CallCommonOf(n); return cc != nil && cc.StaticCallee() == load })
			if len(direct) == 0 {
				delegates := false
				for _, cal := range staticCalleesOf(p, fn) {
					if r := cal.Signature.Results(); r.Len() == 2 && strings.HasSuffix(r.At(0).Type().String(), "single.Sequencer") {
						delegates = true
					}
				}
				if delegates {
					continue
				}
			}
			c.NoteGraph(g)
			nCtor++
			loadOK := g.Select(ErrNilEdge(func(t *Term) bool {
				cv, ok := t.V.(*ssa.Call)
				return ok && t.Op == "call" && cv.Common().StaticCallee() == load
			}))
			inst := fnShort(fn) + " ⟂ queue-reloaded-before-use"
			if len(loadOK) == 0 {
				c.Bad("C10-R9", inst, fnName(fn), p.Pos(fn.Pos()), "the constructor does not reload the queue from its log (or ignores the result)", nil)
				continue
			}
			c.Decide("C10-R9", inst, fnName(fn), p.InstrPos(loadOK[0].In), "a sequencer is returned only after the queue was reloaded from its log",
				"a sequencer can be returned without its queue having been reloaded from the log: batches accepted before the restart are not handed out, and new ones re-use their sequence numbers and overwrite them", g,
				g.PathAvoiding([]*Node{g.Entry}, g.SuccessExits(), nodeSet(loadOK)))
		}
		if nCtor == 0 {
			c.Unk("C10-R9", "constructors", "", "", "anchor lost: no constructor of the sequencer calls the queue's Load")
		}
		c.MinInstances("C10-R9", 1)
	}
	c.Doc("C10-R8", "EO: in Next, after the head was removed from the in-memory queue every return hands the batch out (no error return after the pop).")
	rulePoppedBatchHandedOut(c, p, "C10-R8")
	c.MinInstances("C10-R8", 1)
	c.MinInstances("C10-R1", 2)
	c.MinInstances("C10-R2", 1)
	c.MinInstances("C10-R3", 1)
	c.MinInstances("C10-R4", 5)

	// ---- Next: FIFO pop
	{
		g := BuildECFG(p, next, ExpandOpts{MaxDepth: 1})
		c.NoteGraph(g)
		fn := fnName(next)
		recv := next.Params[0].Name()
		// returned batch on the non-empty path
		okRet := false
		for _, x := range g.Exits {
			ret := x.In.(*ssa.Return)
			t := TermOf(spilledResult(ret, 0), g.RootCtx)
			if p.DeepContains(t, func(s *Term) bool {
				return s.Op == "index" && s.Args[1].Name == "0" && s.Args[0].String() == recv+".queue"
			}, 2) {
				okRet = true
			}
		}
		if okRet {
			c.OK("C10-R5", "Next ⟂ returns-queue[0]", fn, p.Pos(next.Pos()), "the batch handed out is the head of the queue", true)
		} else {
			c.Bad("C10-R5", "Next ⟂ returns-queue[0]", fn, p.Pos(next.Pos()), "Next does not return queue[0]", nil)
		}
		for _, sf := range stateFields {
			ss := g.Select(fieldStoreTo(g, sf))
			ok := len(ss) > 0
			var got []string
			for _, s := range ss {
				v := TermOf(s.In.(*ssa.Store).Val, s.Ctx)
				got = append(got, v.String())
				if !(v.Op == "slice" && v.Args[0].String() == recv+"."+sf && v.Args[1].Name == "1" && v.Args[2].Name == "_") {
					ok = false
				}
			}
			if ok {
				c.OK("C10-R5", "Next ⟂ keeps-"+sf+"[1:]", fn, p.InstrPos(ss[0].In), sf+" ← "+sf+"[1:]", true)
			} else {
				c.Bad("C10-R5", "Next ⟂ keeps-"+sf+"[1:]", fn, p.Pos(next.Pos()), "Next does not pop exactly the first element of "+sf+": "+strings.Join(got, " | "), nil)
			}
		}
		dels := g.Select(func(n *Node) bool { return dsCall(n, "Delete") })
		for _, d := range dels {
			key := ArgTerm(d, 1)
			head := func(field string) func(*Term) bool {
				return func(s *Term) bool {
					return s.Op == "index" && s.Args[1].Name == "0" && s.Args[0].String() == recv+"."+field
				}
			}
			okKey := false
			for _, sf := range stateFields {
				if p.DeepContains(key, head(sf), 2) {
					okKey = true
				}
			}
			if okKey {
				c.OK("C10-R5", "Next ⟂ deletes-own-key", fn, p.InstrPos(d.In), "the key deleted derives from the popped head element: "+trunc(key.String(), 100), true)
			} else {
				c.Bad("C10-R5", "Next ⟂ deletes-own-key", fn, p.InstrPos(d.In), "the datastore key deleted by Next does not derive from the element it pops: "+trunc(key.String(), 140), nil)
			}
		}
		if len(dels) == 0 {
			c.Unk("C10-R5", "Next ⟂ deletes-own-key", fn, "", "no datastore Delete in Next (hand-out is not recorded durably: a handed-out batch would reappear after a restart)")
		}
	}
	// parallel slices: lock-step shapes per function
	if len(stateFields) > 1 {
		for _, m := range []*ssa.Function{add, next, load} {
			g := BuildECFG(p, m, ExpandOpts{MaxDepth: 0})
			shape := func(field string) []string {
				var out []string
				for _, s := range g.Select(fieldStoreTo(g, field)) {
					v := TermOf(s.In.(*ssa.Store).Val, s.Ctx)
					sh := v.Op
					if v.Op == "call" {
						sh = v.Name
					}
					if v.Op == "slice" {
						sh = "slice[" + v.Args[1].Name + ":" + v.Args[2].Name + "]"
					}
					out = append(out, sh)
				}
				sort.Strings(out)
				return out
			}
			base := strings.Join(shape("queue"), ",")
			for _, sf := range stateFields[1:] {
				s := strings.Join(shape(sf), ",")
				// the writes alternate on every path: no two writes of one slice without a write of the
				// other in between, and no return after a write of the first without its partner
				qW, kW := g.Select(fieldStoreTo(g, "queue")), g.Select(fieldStoreTo(g, sf))
				var alt []*Node
				why := ""
				if s == base && len(qW) > 0 && len(kW) > 0 {
					first, second, fn1, fn2 := qW, kW, "queue", sf
					if g.PathAvoiding([]*Node{g.Entry}, nodeSet(qW), nodeSet(kW)) == nil {
						first, second, fn1, fn2 = kW, qW, sf, "queue"
					}
					if pth := g.PathAvoiding(first, nodeSet(first), nodeSet(second)); pth != nil {
						alt, why = pth, "two writes of "+fn1+" can follow one another without a write of "+fn2+" in between"
					} else if pth := g.PathAvoiding(second, nodeSet(second), nodeSet(first)); pth != nil {
						alt, why = pth, "two writes of "+fn2+" can follow one another without a write of "+fn1+" in between"
					} else if pth := g.PathAvoiding(first, g.AnyExit(), nodeSet(second)); pth != nil {
						alt, why = pth, "the function can return after writing "+fn1+" without writing "+fn2
					}
				}
				if s == base && alt != nil {
					c.Bad("C10-R5", fnShort(m)+" ⟂ lock-step("+sf+")", fnName(m), p.InstrPos(alt[0].In), why+": entry i of "+sf+" no longer belongs to batch i, so the wrong entry is deleted when a batch is handed out and a handed-out batch reappears after a restart", g.DescribePath(alt))
				} else if s == base {
					c.OK("C10-R5", fnShort(m)+" ⟂ lock-step("+sf+")", fnName(m), p.Pos(m.Pos()), "writes of "+sf+" mirror the writes of queue ("+base+") and alternate with them on every path", true)
				} else {
					c.Bad("C10-R5", fnShort(m)+" ⟂ lock-step("+sf+")", fnName(m), p.Pos(m.Pos()), "the parallel slice "+sf+" is not written in lock-step with queue (queue: "+base+"; "+sf+": "+s+"): keys and batches get out of step", nil)
				}
			}
		}
	}
	c.MinInstances("C10-R5", 3)

	// ---- R10: "nothing to hand out" is a statement about the queue. Every return of Next that
	// hands out no batch (a success return not preceded by the pop) is behind len(queue) == 0 — or
	// behind a test of another field of the queue only if that field mirrors the queue: every
	// function that writes the queue writes the field after each such write, on every path.
	{
		c.Doc("C10-R10", "GA+EO: every success return of Next that hands out no batch is behind len(queue) == 0, or behind a test of a field that every writer of the queue (AddBatch, Next, Load) updates after each write of the queue on every path (a counter that misses the batches reloaded at start-up reports an empty queue while accepted batches wait in it).")
		g := BuildECFG(p, next, ExpandOpts{MaxDepth: 0})
		c.NoteGraph(g)
		recv := next.Params[0].Name()
		pops := g.Select(fieldStoreTo(g, "queue"))
		lenZero := func(f Fact) bool {
			a, op, b, ok := canonCmp(f.Cond, f.Pol)
			if !ok {
				return false
			}
			isLen := func(t *Term) bool { return t.unconv().String() == "len("+recv+".queue)" }
			isZero := func(t *Term) bool { u := t.unconv(); return u.Op == "const" && strings.HasPrefix(u.Name, "0") }
			return (op == "==" && ((isLen(a) && isZero(b)) || (isLen(b) && isZero(a)))) || (op == "<=" && isLen(a) && isZero(b)) || (op == ">=" && isZero(a) && isLen(b))
		}
		// mirror(field): written in lock-step after every queue write in each of the three writers
		mirror := func(field string) (bool, string) {
			isW := func(g2 *Graph) NodePred {
				st := fieldStoreTo(g2, field)
				return func(n *Node) bool {
					if st(n) {
						return true
					}
					_, ok := isAtomicMutatorOn(n, field)
					return ok
				}
			}
			for _, m := range []*ssa.Function{add, next, load} {
				g2 := BuildECFG(p, m, ExpandOpts{MaxDepth: 0})
				qW := g2.Select(fieldStoreTo(g2, "queue"))
				if len(qW) == 0 {
					continue
				}
				w := isW(g2)
				if pth := g2.PathAvoiding(qW, orPred(g2.SuccessExits(), nodeSet(qW)), w); pth != nil {
					return false, fnShort(m) + " writes the queue at " + p.InstrPos(qW[0].In) + " and can return or write it again without updating " + field
				}
			}
			return true, ""
		}
		nEmpty := 0
		for _, x := range g.Exits {
			if g.ExitClass(x) == rcA {
				continue
			}
			xx := x
			tgt := func(n *Node) bool { return n == xx }
			if g.PathAvoiding([]*Node{g.Entry}, tgt, nodeSet(pops)) == nil {
				continue // the return follows the pop: a batch is handed out
			}
			nEmpty++
			facts := g.NecessaryEdges(tgt)
			inst := "Next ⟂ empty-hand-out-only-on-empty-queue @" + p.InstrPos(x.In)
			okLen := false
			var other []string
			for _, f := range facts {
				if lenZero(f) {
					okLen = true
				}
				f.Cond.Walk(func(t *Term) bool {
					if t.Op == "field" && len(t.Args) == 1 && t.Args[0].String() == recv && t.Name != "queue" {
						other = append(other, t.Name)
					}
					return true
				})
			}
			switch {
			case okLen:
				c.OK("C10-R10", inst, fnName(next), p.InstrPos(x.In), "behind len(queue) == 0", true)
			case len(other) > 0:
				allMirror, why := true, ""
				for _, fld := range other {
					if ok, w := mirror(fld); !ok {
						allMirror, why = false, w
					}
				}
				if allMirror {
					c.OK("C10-R10", inst, fnName(next), p.InstrPos(x.In), fmt.Sprintf("behind a test of %v, updated after every write of the queue in AddBatch, Next and Load", other), true)
				} else {
					c.Bad("C10-R10", inst, fnName(next), p.InstrPos(x.In), fmt.Sprintf("Next hands out nothing on a test of %v, which does not mirror the queue (%s): with accepted batches waiting in the queue the sequencer reports it empty, they are never handed out and still count against the bound", other, why), g.DescribePath(g.PathAvoiding([]*Node{g.Entry}, tgt, nodeSet(pops))))
				}
			default:
				c.Bad("C10-R10", inst, fnName(next), p.InstrPos(x.In), "Next can return successfully without popping and without having found the queue empty: facts "+strings.Join(factStrings(facts), " ; "), g.DescribePath(g.PathAvoiding([]*Node{g.Entry}, tgt, nodeSet(pops))))
			}
		}
		if nEmpty == 0 {
			c.Unk("C10-R10", "Next ⟂ empty-hand-out", fnName(next), "", "anchor lost: Next has no success return that hands out nothing")
		}
		c.MinInstances("C10-R10", 1)
	}

	// ---- R6 lockset
	nAcc := 0
	underLock := callerHolds(p, singlePkg, "mu")
	for _, fn := range p.Funcs {
		pk := fnPkg(fn)
		if pk == nil || pk.Pkg.Path() != singlePkg || fn.Parent() != nil {
			continue
		}
		g := BuildECFG(p, fn, ExpandOpts{MaxDepth: 0})
		for _, n := range g.Select(func(n *Node) bool {
			fa, ok := n.In.(*ssa.FieldAddr)
			if !ok {
				return false
			}
			st := derefStruct(fa.X.Type())
			if st == nil || !strings.HasSuffix(fa.X.Type().String(), "single.BatchQueue") {
				return false
			}
			name := fieldLabel(fa.X.Type(), fa.Field)
			for _, sf := range stateFields {
				if sf == name {
					return true
				}
			}
			return name == "nextSeq"
		}) {
			// constructor: the receiver is a fresh allocation
			fa := n.In.(*ssa.FieldAddr)
			if al, ok := fa.X.(*ssa.Alloc); ok && al.Heap {
				continue
			}
			nAcc++
			inst := fnShort(fn) + " ⟂ " + fieldLabel(fa.X.Type(), fa.Field) + " under mu"
			if underLock[topParent(fn)] {
				c.OK("C10-R6", inst, fnName(fn), p.InstrPos(fa), "accessed in a helper whose every caller holds mu", true)
			} else if heldAt(g, n, "mu") {
				c.OK("C10-R6", inst, fnName(fn), p.InstrPos(fa), "accessed with mu held", true)
			} else {
				c.Bad("C10-R6", inst, fnName(fn), p.InstrPos(fa), "queue state is accessed without holding mu: concurrent submitters and the block producer race on it", nil)
			}
		}
	}
	if nAcc < 6 {
		c.Unk("C10-R6", "anchor-count-accesses", "", "", fmt.Sprintf("anchor lost: only %d accesses of the queue state found", nAcc))
	}

	// ---- SubmitBatchTxs: rejected submissions
	sub := p.MustFunc("(*" + singlePkg + ".Sequencer).SubmitBatchTxs")
	{
		g := BuildECFG(p, sub, ExpandOpts{MaxDepth: 0})
		c.NoteGraph(g)
		fn := fnName(sub)
		isAdd := func(n *Node) bool { cc := CallCommonOf(n); return cc != nil && cc.StaticCallee() == add }
		adds := g.Select(isAdd)
		if len(adds) == 0 {
			c.Unk("C10-R2", "SubmitBatchTxs ⟂ AddBatch", fn, "", "anchor lost: SubmitBatchTxs does not call AddBatch")
		} else {
			validID := g.Select(EdgeWhere(func(t *Term, pol bool, n *Node) bool {
				t, pol = normFact(t, pol)
				return pol && t.Op == "call" && strings.Contains(t.Name, "Sequencer).isValid")
			}))
			nonEmpty := g.Select(EdgeWhere(func(t *Term, pol bool, n *Node) bool {
				t, pol = normFact(t, pol)
				return !pol && t.Op == "bin" && t.Name == "==" && strings.HasPrefix(t.Args[0].String(), "len(") && strings.Contains(t.Args[0].String(), ".Transactions") && t.Args[1].Name == "0"
			}))
			c.Decide("C10-R2", "SubmitBatchTxs ⟂ foreign-id-leaves-no-trace", fn, p.InstrPos(adds[0].In), "AddBatch only after the chain id check passed",
				"a submission with a foreign chain id can reach the queue", g, g.MustPrecede(nodeSet(validID), isAdd))
			c.Decide("C10-R2", "SubmitBatchTxs ⟂ empty-batch-leaves-no-trace", fn, p.InstrPos(adds[0].In), "AddBatch only for a non-empty batch",
				"an empty batch can reach the queue", g, g.MustPrecede(nodeSet(nonEmpty), isAdd))
			// an accepted submission is one that reached the queue: success is returned only
			// through the success of AddBatch (an error of the queue — whatever its kind — is
			// passed on, never answered with an empty success)
			{
				addOK := g.Select(ErrNilEdge(func(t *Term) bool {
					cv, ok := t.V.(*ssa.Call)
					return ok && cv.Common().StaticCallee() == add
				}))
				if len(addOK) == 0 {
					c.Bad("C10-R2", "SubmitBatchTxs ⟂ success-only-after-AddBatch-succeeded", fn, p.InstrPos(adds[0].In), "the result of AddBatch is not tested: a batch the queue refused is acknowledged", nil)
				} else {
					c.Decide("C10-R2", "SubmitBatchTxs ⟂ success-only-after-AddBatch-succeeded", fn, p.InstrPos(adds[0].In), "a submission is acknowledged only after the queue accepted it",
						"SubmitBatchTxs can return success although AddBatch returned an error: the batch is acknowledged but was never written to the log or queued — it is never handed out, before or after a restart", g,
						g.MustFollow(isAdd, nodeSet(addOK), g.SuccessExits()))
					// … and a submission is accepted or refused as a whole: once the queue accepted
					// (part of) it, the call does not end in an error — the reaper marks nothing seen on
					// an error and hands everything over again, so what was already queued is queued, and
					// included in a block, a second time
					var errExits []*Node
					for _, x := range g.Exits {
						if g.ExitClass(x) == rcA && x.Ctx.Depth == 0 {
							errExits = append(errExits, x)
						}
					}
					c.Decide("C10-R2", "SubmitBatchTxs ⟂ no-error-after-the-queue-accepted", fn, p.InstrPos(adds[0].In), "no error return is reachable once AddBatch succeeded: the submission is queued whole or not at all",
						"SubmitBatchTxs can return an error after the queue accepted a batch of the same submission (a submission split into several AddBatch calls, one of which is refused): the caller treats the whole hand-off as failed and repeats it, and the part already queued is handed out twice — its transactions are included in two blocks without any crash", g,
						g.PathAvoiding(addOK, nodeSet(errExits), nil))
				}
			}
			// every other entry point of the sequencer that touches the queue does so only after the id check
			for _, m := range p.MethodsOf(sub.Signature.Recv().Type()) {
				if m == sub || m.Object() == nil || !m.Object().Exported() || m.Blocks == nil {
					continue
				}
				gm := BuildECFG(p, m, ExpandOpts{MaxDepth: 0})
				isQ := func(n *Node) bool {
					cc := CallCommonOf(n)
					if cc == nil || cc.StaticCallee() == nil || cc.StaticCallee().Signature.Recv() == nil {
						return false
					}
					return cc.StaticCallee().Signature.Recv().Type().String() == add.Signature.Recv().Type().String() && (cc.StaticCallee() == add || cc.StaticCallee() == next)
				}
				if len(gm.Select(isQ)) == 0 {
					continue
				}
				c.NoteGraph(gm)
				vm := gm.Select(EdgeWhere(func(t *Term, pol bool, n *Node) bool {
					t, pol = normFact(t, pol)
					return pol && t.Op == "call" && strings.Contains(t.Name, "Sequencer).isValid")
				}))
				c.Decide("C10-R2", fnShort(m)+" ⟂ foreign-id-leaves-no-trace", fnName(m), p.InstrPos(gm.Select(isQ)[0].In), "the queue is touched only after the chain id check passed",
					"a request with a foreign chain id changes the queue before it is refused: the batch it removes is neither handed to the rightful chain nor kept", gm, gm.MustPrecede(nodeSet(vm), isQ))
			}
			// the id check compares with the sequencer's own id
			iv := p.Func("(*" + singlePkg + ".Sequencer).isValid")
			if iv != nil {
				alts := p.AcceptDNF(iv, nil, 0, 1)
				ok := false
				for _, f := range intersectFacts(alts) {
					if f.Pol && f.Cond.Op == "call" && f.Cond.Name == "bytes.Equal" && strings.Contains(f.Cond.String(), ".Id") {
						ok = true
					}
				}
				if ok {
					c.OK("C10-R2", "isValid ⟂ bytes.Equal(own id, request id)", fnName(iv), p.Pos(iv.Pos()), "the chain id check is an equality with the sequencer's id", true)
				} else {
					c.Bad("C10-R2", "isValid ⟂ bytes.Equal(own id, request id)", fnName(iv), p.Pos(iv.Pos()), "the chain id check does not entail equality with the sequencer's id", nil)
				}
			}
		}
	}
}

func runC11(c *Check) {
	p := c.Mod(ModRoot)
	c.Doc("C11-R5", "VP: the slice handed to the sequencing layer is owned by the hand-off (built in the call, not derived from or stored into longer-lived storage).")
	c.Doc("C11-R1", "GA: seenStore.Put only after SubmitBatchTxs succeeded; the marked slice is the submitted slice.")
	c.Doc("C11-R2", "VP: the submitted batch is built by appending, in mempool order, the transactions the seen-store does not have.")
	c.Doc("C11-R3", "EO: after the batch cursor is written, every path to a return passes the early SaveBlockData or an infrastructure error edge.")
	c.Doc("C11-R4", "EO: the sequencer's GetNextBatch does not durably delete the batch it hands out.")
	rp := p.MustFunc("(*" + rootPath + "/block.Reaper).SubmitTxs")
	{
		g := BuildECFG(p, rp, ExpandOpts{MaxDepth: 1})
		c.NoteGraph(g)
		fn := fnName(rp)
		isPut := func(n *Node) bool { return dsCall(n, "Put") }
		isSubmit := IsCall(seqM("SubmitBatchTxs"))
		subOK := g.Select(ErrNilEdge(func(t *Term) bool { return t.Op == "invoke" && strings.HasSuffix(t.Name, "Sequencer).SubmitBatchTxs") }))
		if len(g.Select(isPut)) == 0 || len(g.Select(isSubmit)) != 1 || len(subOK) == 0 {
			c.Unk("C11-R1", "Reaper ⟂ anchors", fn, "", "anchor lost: seen-store Put / SubmitBatchTxs / its error check")
			return
		}
		c.Decide("C11-R1", "Reaper ⟂ hand-off-ok<mark-seen", fn, posOf(g, isPut), "transactions are marked seen only after the sequencer accepted them",
			"transactions can be marked seen although the hand-off failed: they are never submitted again (lost)", g, g.MustPrecede(nodeSet(subOK), isPut))
		// submitted slice
		sn := g.Select(isSubmit)[0]
		req := ArgTerm(sn, 1)
		var batchTxs *Term
		if al, ok := rootAlloc(req); ok {
			for k, vs := range litStores(al) {
				if k == "Batch" && len(vs) == 1 {
					bt := TermOf(vs[0], g.RootCtx)
					if bal, ok := bt.V.(*ssa.Alloc); ok {
						if tv := litStores(bal)["Transactions"]; len(tv) == 1 {
							batchTxs = TermOf(tv[0], g.RootCtx)
						}
					}
				}
			}
		}
		if batchTxs == nil {
			c.Unk("C11-R1", "Reaper ⟂ submitted-slice", fn, p.InstrPos(sn.In), "cannot identify the Transactions of the submitted batch")
		} else {
			// the marking loop ranges over the same slice: the Put key derives from an element of it
			okMark := false
			for _, pn := range g.Select(isPut) {
				k := ArgTerm(pn, 1)
				if p.DeepContains(k, func(t *Term) bool { return t.Op == "index" && t.Args[0].String() == batchTxs.String() }, 2) {
					okMark = true
				}
				// … or of a list built index-aligned with it by the same helper (the hashes of the
				// submitted transactions, computed once while filtering)
				if p.DeepContains(k, func(t *Term) bool {
					if t.Op != "index" {
						return false
					}
					h, s := t.Args[0].unconv(), batchTxs.unconv()
					if h.Op != "extract" || s.Op != "extract" || len(h.Args) == 0 || len(s.Args) == 0 || h.Args[0].V == nil || h.Args[0].V != s.Args[0].V {
						return false
					}
					call, ok := h.Args[0].V.(*ssa.Call)
					if !ok || call.Common().StaticCallee() == nil {
						return false
					}
					var hi, si int
					fmt.Sscan(h.Name, &hi)
					fmt.Sscan(s.Name, &si)
					return alignedResults(p, call.Common().StaticCallee(), si, hi)
				}, 2) {
					okMark = true
				}
				// … or of a local list built index-aligned with it in the same function
				if p.DeepContains(k, func(t *Term) bool {
					if t.Op != "index" || t.Args[0].V == nil || batchTxs.V == nil || t.Args[0].Ctx == nil || t.Args[0].Ctx.Fn == nil {
						return false
					}
					return alignedValues(p, t.Args[0].Ctx.Fn, []ssa.Value{batchTxs.V}, []ssa.Value{t.Args[0].V})
				}, 2) {
					okMark = true
				}
			}
			if okMark {
				c.OK("C11-R1", "Reaper ⟂ marked=submitted", fn, posOf(g, isPut), "the marked transactions are the elements of the submitted slice", true)
			} else {
				c.Bad("C11-R1", "Reaper ⟂ marked=submitted", fn, posOf(g, isPut), "the transactions marked seen are not the elements of the slice that was submitted", nil)
			}
			// R5: ownership. The sequencing layer keeps the slice it is handed (the queue stores the
			// batch as given); the backing array must therefore be owned by this hand-off alone:
			// not storage of the reaper (or any other object) that a later reap writes again.
			{
				var shared []string
				batchTxs.Walk(func(t *Term) bool {
					if t.Op == "field" && t.V != nil {
						if ts := t.V.Type().String(); strings.HasPrefix(ts, "*[]") || strings.HasPrefix(ts, "[]") {
							shared = append(shared, t.String())
						}
					}
					if t.Op == "global" {
						shared = append(shared, t.String())
					}
					return true
				})
				// the field the slice is stored back into keeps the array alive for the next call
				for _, b := range rp.Blocks {
					for _, in := range b.Instrs {
						st, ok := in.(*ssa.Store)
						if !ok {
							continue
						}
						if fa, ok := st.Addr.(*ssa.FieldAddr); ok && strings.HasPrefix(st.Val.Type().String(), "[][]byte") && fa.X == ssa.Value(rp.Params[0]) {
							if TermOf(st.Val, g.RootCtx).String() == batchTxs.String() {
								shared = append(shared, "stored into "+TermOf(fa, g.RootCtx).String())
							}
						}
					}
				}
				sort.Strings(shared)
				if len(shared) == 0 {
					c.OK("C11-R5", "Reaper ⟂ submitted-slice-is-owned-by-the-hand-off", fn, p.InstrPos(sn.In), "the submitted slice is built in this call and kept by no one else", true)
				} else {
					c.Bad("C11-R5", "Reaper ⟂ submitted-slice-is-owned-by-the-hand-off", fn, p.InstrPos(sn.In), "the slice handed to the sequencer shares its backing array with storage that outlives the call ("+strings.Join(shared, ", ")+"): the sequencing layer keeps the slice, so the next reap overwrites a batch that is still queued — its transactions are lost and the later ones included twice", nil)
				}
			}
			// R2: built by append of tx from GetTxs under !has
			apps := g.Select(func(n *Node) bool {
				if CallName(n) != "append" {
					return false
				}
				pk := fnPkg(n.Ctx.Fn)
				return n.Ctx.Depth == 0 || n.Ctx.Fn.Parent() == rp || (n.Ctx.Depth == 1 && pk != nil && pk.Pkg.Path() == rootPath+"/block")
			})
			okBuild := false
			for _, a := range apps {
				elem := ArgTerm(a, 1)
				fromMempool := p.DeepContains(elem, func(t *Term) bool {
					return t.Op == "index" && strings.Contains(t.Args[0].String(), "Executor).GetTxs(")
				}, 2)
				// the facts on the way to the append, closed through own predicates that accepted
				// (an "is not yet seen" helper stands for what all its accepting paths establish)
				facts := g.FactsAt(nodeSet([]*Node{a}), 2)
				notSeen := false
				for _, f := range facts {
					t := f.Cond
					if !f.Pol && t.Op == "extract" && t.Name == "0" && t.Args[0].Op == "invoke" && strings.HasSuffix(t.Args[0].Name, ".Has") {
						notSeen = true
					}
				}
				if fromMempool && notSeen {
					okBuild = true
				}
			}
			inOrder := strings.Contains(batchTxs.String(), "append(") || p.DeepContains(batchTxs, func(t *Term) bool { return t.IsCall("append") || (t.Op == "call" && t.Name == "append") }, 2)
			if okBuild && inOrder {
				c.OK("C11-R2", "Reaper ⟂ batch=unseen-in-mempool-order", fn, p.InstrPos(sn.In), "the batch is the mempool transactions the seen-store does not have, appended in mempool order", true)
			} else {
				c.Bad("C11-R2", "Reaper ⟂ batch=unseen-in-mempool-order", fn, p.InstrPos(sn.In), fmt.Sprintf("the submitted batch is not built by appending unseen mempool transactions in order (append-under-not-seen=%v, slice-is-appended=%v)", okBuild, inOrder), nil)
			}
		}
	}
	// ---- R3
	lastKey, _ := constString(p, rootPath+"/pkg/store", "LastBatchDataKey")
	for _, step := range productionStep(c, p) {
		g := BuildECFG(p, step, ExpandOpts{MaxDepth: 5})
		c.NoteGraph(g)
		fn := fnName(step)
		taken := g.Select(func(n *Node) bool {
			return CallName(n) == storeM("SetMetadata") && termIsConstString(ArgTerm(n, 1), lastKey)
		})
		isSave := IsCall(storeM("SaveBlockData"))
		if len(taken) == 0 {
			c.Unk("C11-R3", fnShort(step)+" ⟂ batch-taken", fn, "", "anchor lost: the batch cursor write (SetMetadata(LastBatchDataKey)) is not in reach of the production step")
			continue
		}
		// a non-empty batch has arrived: the success edge, in the step itself, of the call through which it arrives
		arrived := g.Select(ErrNilEdge(func(t *Term) bool {
			if t.Op != "call" {
				return false
			}
			cv, ok := t.V.(*ssa.Call)
			if !ok || t.Ctx == nil || t.Ctx.Depth != 0 {
				return false
			}
			callee := cv.Common().StaticCallee()
			if callee == nil {
				return false
			}
			for _, tk := range taken {
				for x := tk.Ctx; x != nil; x = x.Parent {
					if x.Fn == callee && x.Site == ssa.CallInstruction(cv) {
						return true
					}
				}
			}
			return false
		}))
		if len(arrived) == 0 {
			c.Unk("C11-R3", fnShort(step)+" ⟂ batch-arrives", fn, "", "anchor lost: the call through which the batch arrives is not checked for an error in the step")
			continue
		}
		isInfra := func(f Fact) bool {
			t := f.Cond
			if !(f.Pol && t.Op == "bin" && t.Name == "!=" && t.Args[1].Name == "nil") {
				return false
			}
			x := t.Args[0]
			if x.Op == "extract" {
				x = x.Args[0]
			}
			if x.Op == "invoke" && x.Name == "(context.Context).Err" {
				return false // a stop request is not a fault (see isStop)
			}
			return x.Op == "invoke" || x.Op == "dyncall"
		}
		// isStop: the return is chosen by the node's own stop request (ctx.Err() != nil)
		isStop := func(f Fact) bool {
			t := f.Cond
			return f.Pol && t.Op == "bin" && t.Name == "!=" && t.Args[1].Name == "nil" && t.Args[0].Op == "invoke" && t.Args[0].Name == "(context.Context).Err"
		}
		calleeErr := func(f Fact) (*ssa.Call, bool) {
			t := f.Cond
			if !(f.Pol && t.Op == "bin" && t.Name == "!=" && t.Args[1].Name == "nil") {
				return nil, false
			}
			x := t.Args[0]
			if x.Op == "extract" {
				x = x.Args[0]
			}
			if x.Op != "call" {
				return nil, false
			}
			cv, ok := x.V.(*ssa.Call)
			return cv, ok && cv.Common().StaticCallee() != nil && p.Expandable(cv.Common().StaticCallee())
		}
		contentDep := func(f Fact) bool { return fromBatch(p, f.Cond) }
		cancel := ctxDoneEdges(g)
		n3 := 0
		for _, x := range g.Exits {
			xx := x
			tgt := func(n *Node) bool { return n == xx }
			path := g.PathAvoiding(arrived, tgt, orPred(isSave, nodeSet(cancel)))
			if path == nil {
				continue
			}
			facts := FactSet(g.NecessaryEdgesFrom(arrived, tgt))
			verdictOK, why := false, ""
			var cd, stopFact *Fact
			for i := range facts {
				if isInfra(facts[i]) {
					verdictOK, why = true, "behind an infrastructure error: "+trunc(facts[i].String(), 80)
				}
			}
			if !verdictOK {
				for i := range facts {
					if cv, ok := calleeErr(facts[i]); ok {
						callee := cv.Common().StaticCallee()
						// follow thin wrappers
						alts := p.RejectDNF(callee, &Ctx{Parent: facts[i].Cond.Args[0].Ctx, Site: cv, Fn: callee}, corrResult(callee), 1)
						for depth := 0; depth < 3 && len(alts) == 1; depth++ {
							var inner *ssa.Call
							for _, f := range alts[0] {
								if c2, ok := calleeErr(f); ok {
									inner = c2
								}
							}
							if inner == nil {
								break
							}
							ic := inner.Common().StaticCallee()
							alts = p.RejectDNF(ic, &Ctx{Fn: ic}, corrResult(ic), 1)
						}
						allFine := len(alts) > 0
						for _, alt := range alts {
							fine := true
							for _, f := range alt {
								if isInfra(f) {
									fine = true
									break
								}
								if contentDep(f) || strings.Contains(f.Cond.String(), "batchData") {
									fine = false
								}
								if isStop(f) {
									fine = false
									ff := f
									stopFact = &ff
								}
							}
							if !fine {
								allFine = false
							}
						}
						if allFine {
							verdictOK, why = true, fmt.Sprintf("behind an error of %s all of whose %d rejecting alternatives are infrastructure/configuration errors", fnShort(callee), len(alts))
						}
					}
				}
			}
			if !verdictOK {
				for i := range facts {
					if contentDep(facts[i]) || isStop(facts[i]) {
						cd = &facts[i]
					}
				}
				if cd == nil && stopFact != nil {
					cd = stopFact
				}
				if cd == nil {
					verdictOK, why = true, "not behind any condition that depends on the batch"
				}
			}
			n3++
			if verdictOK {
				c.OK("C11-R3", fnShort(step)+" ⟂ return-without-save", fn, p.InstrPos(x.In), why, true)
			} else {
				c.Bad("C11-R3", "production-step ⟂ taken-batch-dropped ⟂ "+genericName(shortCond(cd.Cond, cd.Pol)), fn, p.InstrPos(x.In), "after a batch with transactions was taken from the sequencer the step can return without saving a block, on a condition that depends on the batch's content or on the node's own stop request ("+trunc(cd.String(), 120)+"): the batch has left the sequencer's queue and its transactions are lost", g.DescribePath(path))
			}
		}
		if n3 == 0 {
			c.OK("C11-R3", fnShort(step)+" ⟂ taken-batch-reaches-save", fn, posOf(g, isSave), "every return after taking a batch is behind the early save", true)
		}
	}
	c.MinInstances("C11-R3", 1)

	// ---- R4 (module single)
	sp := c.Mod(ModSingle)
	gn := sp.MustFunc("(*" + singlePkg + ".Sequencer).GetNextBatch")
	{
		g := BuildECFG(sp, gn, ExpandOpts{MaxDepth: 3})
		c.NoteGraph(g)
		dels := g.Select(func(n *Node) bool { return dsCall(n, "Delete") })
		if len(dels) == 0 {
			c.OK("C11-R4", "single.GetNextBatch ⟂ no-durable-delete-on-hand-out", fnName(gn), sp.Pos(gn.Pos()), "handing out a batch does not delete it durably", true)
		}
		for _, d := range dels {
			c.Bad("C11-R4", "single.GetNextBatch ⟂ durable-delete-on-hand-out", fnName(d.Ctx.Fn), sp.InstrPos(d.In), "the batch is deleted from the durable queue in the same call that hands it to the node; the node saves the block later: a crash in between loses the batch's transactions (they are already marked seen by the reaper)", nil)
		}
	}
	c.Doc("C11-R6", "= C10-R8: the sequencer's queue never returns an error after it removed the head from memory (the batch would be neither delivered nor kept).")
	rulePoppedBatchHandedOut(c, sp, "C11-R6")
	ruleSubmissionWhole(c, sp, "C11-R8")
	ruleBlockSaveAtomic(c, p, "C11-R9")
	ruleNoBatchUseAfterCommit(c, p, "C11-R10", rootPath+"/block")
	ruleDASubmitTakesAPrefix(c, []*Prog{c.Mod(ModCore), c.Mod(ModDA)}, "C11-R11")
	ruleBasedHandOffCompletes(c, "C11-R7")
	c.MinInstances("C11-R6", 1)
	c.MinInstances("C11-R1", 2)
	c.MinInstances("C11-R5", 1)
	c.MinInstances("C11-R2", 1)
	c.MinInstances("C11-R4", 1)
}

func shortCond(t *Term, pol bool) string {
	s := t.String()
	// keep it stable and short: callee name or operator
	switch t.Op {
	case "call", "invoke":
		s = t.Name
	case "bin":
		s = "(" + headOf(t.Args[0]) + " " + t.Name + " " + headOf(t.Args[1]) + ")"
	case "extract":
		s = headOf(t.Args[0]) + "#" + t.Name
	}
	if !pol {
		s = "¬" + s
	}
	return s
}

func headOf(t *Term) string {
	switch t.Op {
	case "call", "invoke":
		return t.Name
	case "extract":
		return headOf(t.Args[0]) + "#" + t.Name
	case "const", "global", "param":
		return t.Name
	case "field":
		return "." + t.Name
	}
	return t.Op
}

// rootAlloc: the local allocation a loaded struct value lives in.
func rootAlloc(t *Term) (*ssa.Alloc, bool) {
	if t == nil {
		return nil, false
	}
	if t.Op == "load" && len(t.Args) > 0 {
		al, ok := t.Args[0].V.(*ssa.Alloc)
		return al, ok
	}
	if t.Op == "alloc" {
		al, ok := t.V.(*ssa.Alloc)
		return al, ok
	}
	if u, ok := t.V.(*ssa.UnOp); ok {
		al, ok := u.X.(*ssa.Alloc)
		return al, ok
	}
	return nil, false
}

// orderByKeyIn: the value (a slice literal of query.Order) contains a query.OrderByKey element.
func orderByKeyIn(v ssa.Value, depth int) bool {
	if depth > 4 || v == nil {
		return false
	}
	if strings.HasSuffix(v.Type().String(), "query.OrderByKey") {
		return true
	}
	switch x := v.(type) {
	case *ssa.MakeInterface:
		return orderByKeyIn(x.X, depth+1)
	case *ssa.Slice:
		return orderByKeyIn(x.X, depth+1)
	case *ssa.UnOp:
		return orderByKeyIn(x.X, depth+1)
	case *ssa.Alloc:
		for _, vs := range litStores(x) {
			for _, e := range vs {
				if orderByKeyIn(e, depth+1) {
					return true
				}
			}
		}
	}
	return false
}

// rulePoppedBatchHandedOut: in BatchQueue.Next, once the head was removed from the in-memory
// queue every return hands that batch out (non-nil). A return with nil (an error path after the
// pop) drops the batch from memory although it was neither delivered nor re-queued: its
// transactions, already marked seen by the reaper, never reach a block while the node runs, and
// the entry left on disk re-appears out of order after a restart.
func rulePoppedBatchHandedOut(c *Check, p *Prog, rule string) {
	next := p.MustFunc("(*" + singlePkg + ".BatchQueue).Next")
	g := BuildECFG(p, next, ExpandOpts{MaxDepth: 0})
	c.NoteGraph(g)
	pops := g.Select(fieldStoreTo(g, "queue"))
	if len(pops) == 0 {
		c.Unk(rule, "Next ⟂ popped-batch-is-handed-out", fnName(next), "", "anchor lost: Next does not write the queue")
		return
	}
	var nilExits []*Node
	for _, x := range g.Exits {
		ret := x.In.(*ssa.Return)
		if len(ret.Results) == 0 {
			continue
		}
		if k, ok := spilledResult(ret, 0).(*ssa.Const); ok && k.Value == nil {
			nilExits = append(nilExits, x)
		}
	}
	c.Decide(rule, "Next ⟂ popped-batch-is-handed-out", fnName(next), p.InstrPos(pops[0].In), "after the head was removed from the in-memory queue every return hands the batch out",
		"after the head was removed from the in-memory queue Next can return no batch (an error path): the batch is neither delivered nor kept, so its transactions are lost while the node runs and re-appear out of order after a restart", g,
		g.PathAvoiding(pops, nodeSet(nilExits), nil))
	// … and the same for the durable side: once the batch's record was deleted from the datastore,
	// the batch exists in memory only. A return without it (an error, a cancellation noticed after
	// the delete) leaves it "for the next call", which a restart in between never sees.
	dels := g.Select(func(n *Node) bool { return dsCall(n, "Delete") })
	if len(dels) > 0 {
		c.Decide(rule, "Next ⟂ durably-deleted-batch-is-handed-out", fnName(next), p.InstrPos(dels[0].In), "after the batch's durable record was deleted every return hands the batch out",
			"after the durable record of the head batch was deleted Next can return without handing the batch out: it is kept in memory only, and a restart before the next call loses an accepted batch that was never delivered", g,
			g.PathAvoiding(dels, nodeSet(nilExits), nil))
	}
}

// alignedResults: results si and hi of fn are lists built index-aligned — every append to the one
// sits in the same basic block as an append to the other, the element appended to hi derives from
// the element appended to si, and both are returned as they were built.
func alignedResults(p *Prog, fn *ssa.Function, si, hi int) bool {
	if fn == nil || fn.Blocks == nil {
		return false
	}
	var sv, hv []ssa.Value
	for _, b := range fn.Blocks {
		if ret, ok := b.Instrs[len(b.Instrs)-1].(*ssa.Return); ok && si < len(ret.Results) && hi < len(ret.Results) {
			sv = append(sv, spilledResult(ret, si))
			hv = append(hv, spilledResult(ret, hi))
		}
	}
	return alignedValues(p, fn, sv, hv)
}

// alignedValues: the slices sv and hv (values of fn) are built index-aligned: every append that
// feeds the one sits in the same block as an append feeding the other, and the element appended
// to hv derives from the element appended to sv.
func alignedValues(p *Prog, fn *ssa.Function, sv, hv []ssa.Value) bool {
	if fn == nil || fn.Blocks == nil {
		return false
	}
	ctx := &Ctx{Fn: fn}
	feeds := func(vs []ssa.Value) []*ssa.Call {
		var out []*ssa.Call
		seen := map[ssa.Value]bool{}
		var walk func(v ssa.Value, d int)
		walk = func(v ssa.Value, d int) {
			if v == nil || seen[v] || d > 8 {
				return
			}
			seen[v] = true
			switch x := v.(type) {
			case *ssa.Phi:
				for _, e := range x.Edges {
					walk(e, d+1)
				}
			case *ssa.Call:
				if b, ok := x.Common().Value.(*ssa.Builtin); ok && b.Name() == "append" {
					out = append(out, x)
					walk(x.Common().Args[0], d+1)
				}
			}
		}
		for _, v := range vs {
			walk(v, 0)
		}
		return out
	}
	sa, ha := feeds(sv), feeds(hv)
	if len(sa) == 0 || len(sa) != len(ha) {
		return false
	}
	for _, h := range ha {
		ok := false
		for _, s := range sa {
			if s.Block() != h.Block() || len(s.Common().Args) < 2 || len(h.Common().Args) < 2 {
				continue
			}
			// the element appended: the single element of the variadic slice
			se, he := TermOf(s.Common().Args[1], ctx), TermOf(h.Common().Args[1], ctx)
			var sElem *Term
			se.Walk(func(t *Term) bool {
				if sElem == nil && t.Op == "index" {
					sElem = t
				}
				return sElem == nil
			})
			if sElem != nil && p.DeepContains(he, func(t *Term) bool { return t.String() == sElem.String() }, 1) {
				ok = true
			}
		}
		if !ok {
			return false
		}
	}
	return true
}

// ruleBasedHandOffCompletes (C11-R7): in based mode the hand-off to the sequencing layer is the
// publication of the batch on the DA layer, with retries. The reaper marks the transactions seen —
// for good — as soon as the hand-off returns without an error. So the hand-off returns nil only
// when every transaction of the batch was accepted: behind the comparison of the accepted count
// with the number of transactions still to submit (directly or through the flag it sets). A nil
// return on cancellation or after a partial submission forgets the rest of the batch.
func ruleBasedHandOffCompletes(c *Check, rule string) {
	c.Doc(rule, "GA: the based sequencer's DA hand-off (the function with the submission retry loop) returns nil only behind the test that the DA layer accepted as many transactions as were left to submit — never on cancellation or after a partial submission (the reaper marks the whole batch seen on a nil return).")
	bp := c.Mod(ModBased)
	n := 0
	for _, fn := range bp.Funcs {
		pk := fnPkg(fn)
		if pk == nil || pk.Pkg.Path() != basedPkg || fn.Blocks == nil || fn.Parent() != nil || corrResult(fn) < 0 {
			continue
		}
		if !callsNamed(fn, func(nm string) bool { return nm == typesF("SubmitWithHelpers") }) {
			continue
		}
		n++
		g := BuildECFG(bp, fn, ExpandOpts{MaxDepth: 0})
		c.NoteGraph(g)
		allAccepted := g.GuardEdges(func(t *Term, pol bool) bool {
			a, op, b, ok := canonCmp(t, pol)
			if !ok || op != "==" {
				return false
			}
			isLeft := func(x *Term) bool {
				s := x.unconv().String()
				return strings.HasPrefix(s, "len(") && strings.Contains(s, "Transactions")
			}
			isCount := func(x *Term) bool {
				return strings.Contains(x.String(), "SubmittedCount") || strings.Contains(x.String(), "SubmitWithHelpers(")
			}
			return (isLeft(a) && isCount(b)) || (isLeft(b) && isCount(a))
		})
		inst := fnShort(fn) + " ⟂ nil only after the whole batch was accepted"
		if len(allAccepted) == 0 {
			c.Bad(rule, inst, fnName(fn), bp.Pos(fn.Pos()), "the hand-off never compares the accepted count with the number of transactions left: it cannot know that the whole batch was published", nil)
			continue
		}
		c.Decide(rule, inst, fnName(fn), bp.InstrPos(allAccepted[0].In), "every nil return lies behind accepted count == transactions left",
			"the hand-off can return nil although not every transaction of the batch was accepted by the DA layer (cancellation, a partial submission): the reaper then marks the whole batch seen, and after the restart the rest is filtered out as seen and never reaches a block",
			g, g.PathAvoiding([]*Node{g.Entry}, g.SuccessExits(), nodeSet(allAccepted)))
	}
	if n == 0 {
		c.Unk(rule, "anchor-count", "", "", "anchor lost: no function of the based sequencer hands a batch to the DA layer")
	}
}

// ruleSubmissionWhole (C11-R8, also a sub-check of C10-R2): the hand-off of a reaped batch to the
// single sequencer is accepted or refused as a whole. The reaper marks transactions seen only when
// the hand-off returned nil, and repeats the whole hand-off otherwise: an error return after the
// queue accepted part of the submission queues that part a second time on the retry.
func ruleSubmissionWhole(c *Check, p *Prog, rule string) {
	c.Doc(rule, "EO: in the single sequencer's SubmitBatchTxs no error return is reachable from the success edge of BatchQueue.AddBatch (a submission split over several AddBatch calls, one of which is refused, is repeated whole by the reaper: the accepted part is included in two blocks without any crash).")
	sub := p.MustFunc("(*" + singlePkg + ".Sequencer).SubmitBatchTxs")
	add := p.MustFunc("(*" + singlePkg + ".BatchQueue).AddBatch")
	g := BuildECFG(p, sub, ExpandOpts{MaxDepth: 0})
	c.NoteGraph(g)
	addOK := g.Select(ErrNilEdge(func(t *Term) bool {
		cv, ok := t.V.(*ssa.Call)
		return ok && cv.Common().StaticCallee() == add
	}))
	if len(addOK) == 0 {
		c.Unk(rule, "SubmitBatchTxs ⟂ AddBatch result", fnName(sub), "", "anchor lost: the result of AddBatch is not tested in SubmitBatchTxs")
		return
	}
	var errExits []*Node
	for _, x := range g.Exits {
		if g.ExitClass(x) == rcA {
			errExits = append(errExits, x)
		}
	}
	c.Decide(rule, "SubmitBatchTxs ⟂ no-error-after-the-queue-accepted", fnName(sub), p.InstrPos(addOK[0].In), "no error return is reachable once AddBatch succeeded: the submission is queued whole or not at all",
		"SubmitBatchTxs can return an error after the queue accepted a batch of the same submission: the reaper repeats the whole hand-off and the accepted part is handed out, and included in a block, twice", g,
		g.PathAvoiding(addOK, nodeSet(errExits), nil))
	c.MinInstances(rule, 1)
}
