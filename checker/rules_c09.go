package main

import (
	"fmt"
	"go/token"
	"go/types"
	"os"
	"sort"
	"strings"

	"golang.org/x/tools/go/ssa"
)

func init() {
	register("C09", &propDef{
		run: runC09,
		explanation: "Decides: R1 the DA scan cursor is written only as loaded+1 and only when the per-height step returned nil or the context was cancelled; " +
			"R2 the step returns nil only when the fetch returned no error, the fetch maps every status code the retrieve helper can produce other than Success/NotFound to an error (enum-conditioned reachability), and the joined error returned after the retry loop is non-nil because the counted loop runs at least once; " +
			"R3 the retrieve helper reports Success only if GetIDs and every chunked Get succeeded, chunks cover [0,len(ids)) contiguously and blobs keep their order; " +
			"R4 every non-empty blob reaches the header handler and, unless that reports it handled, the data handler; " +
			"R5 (nil-guard) no field of a decoded item is read through a possibly-nil pointer field (Data.Metadata) without a dominating nil test, in everything reachable from the blob handlers.",
		notDecided:  "Retry counts and delays; that the scan cannot stall; panics inside protobuf.",
		assumptions: []string{"DA interface is an effect leaf", "protobuf decoding does not panic", "go/ssa"},
	})
}

func runC09(c *Check) {
	p := c.Mod(ModRoot)
	c.Doc("C09-R1", "GA+VP: cursor write in RetrieveLoop.")
	c.Doc("C09-R2", "ER+EO: which outcomes let the per-height step return nil.")
	c.Doc("C09-R3", "GA+VP: RetrieveWithHelpers success conditions and chunking.")
	c.Doc("C09-R4", "EO: dispatch of blobs to the handlers.")
	c.Doc("C09-R5", "NG: nil-guard of pointer fields of decoded items.")

	rl := p.MustFunc(mgrM("RetrieveLoop"))
	// ---- R1
	{
		g := BuildECFG(p, rl, ExpandOpts{MaxDepth: 0})
		c.NoteGraph(g)
		fn := fnName(rl)
		writes := g.Select(func(n *Node) bool { m, ok := isAtomicMutatorOn(n, "daHeight"); return ok && m != "" })
		if len(writes) == 0 {
			c.Unk("C09-R1", "RetrieveLoop ⟂ cursor", fn, "", "anchor lost: no write of the DA scan cursor in RetrieveLoop")
		}
		// the step: the repo call in the loop whose error result is branched on
		var stepCall *Term
		okEdges := g.Select(ErrNilEdge(func(t *Term) bool {
			if t.Op == "call" && strings.Contains(t.Name, "block.Manager).") {
				stepCall = t
				return true
			}
			return false
		}))
		ctxErr := g.Select(EdgeWhere(func(t *Term, pol bool, n *Node) bool {
			t, pol = normFact(t, pol)
			// ctx.Err() == nil is false  (i.e. cancelled)
			return t.Op == "bin" && t.Args[0].Op == "invoke" && t.Args[0].Name == "(context.Context).Err" && t.Args[1].Name == "nil" && ((t.Name == "==" && !pol) || (t.Name == "!=" && pol))
		}))
		isStep := func(n *Node) bool {
			return stepCall != nil && n.Kind == NInstr && n.In != nil && n.In == ssa.Instruction(stepCall.V.(*ssa.Call))
		}
		for _, w := range writes {
			m, _ := isAtomicMutatorOn(w, "daHeight")
			pos := p.InstrPos(w.In)
			if m != "Store" {
				c.Bad("C09-R1", "RetrieveLoop ⟂ cursor."+m, fn, pos, "unexpected mutator of the scan cursor", nil)
				continue
			}
			v := ArgTerm(w, 1)
			okV := v.Op == "bin" && v.Name == "+" && v.Args[1].Name == "1" && v.Args[0].IsCall("atomic.Uint64).Load") && v.Args[0].Args[0].Name == "daHeight"
			if okV {
				c.OK("C09-R1", "RetrieveLoop ⟂ cursor=loaded+1", fn, pos, "cursor ← "+v.String(), true)
			} else {
				c.Bad("C09-R1", "RetrieveLoop ⟂ cursor=loaded+1", fn, pos, "the cursor is not advanced by exactly one from its loaded value: "+trunc(v.String(), 100), nil)
			}
			if len(okEdges) == 0 {
				c.Bad("C09-R1", "RetrieveLoop ⟂ advance-only-after-success", fn, pos, "the result of the per-height step is not checked", nil)
				continue
			}
			path := g.PrecedeSince(isStep, orPred(nodeSet(okEdges), nodeSet(ctxErr)), nodeSet([]*Node{w}))
			c.Decide("C09-R1", "RetrieveLoop ⟂ advance-only-after-success", fn, pos, "the cursor moves only when the step returned nil (or the context is cancelled)",
				"the scan cursor can move past a height whose step failed: that DA height is skipped for good", g, path)
			// the value loaded is loaded before the step of the same iteration
			ld := v.Args[0].V
			if okV {
				isLoad := func(n *Node) bool { return n.In != nil && n.In == ld.(ssa.Instruction) }
				c.Decide("C09-R1", "RetrieveLoop ⟂ load<step", fn, pos, "the cursor value is read before the step it accounts for",
					"the cursor is read after the step: a concurrent or nested update would be skipped over", g, g.PrecedeSince(nodeSet(g.Select(func(n *Node) bool { _, ok := n.In.(*ssa.Select); return ok })), isLoad, isStep))
			}
		}
		c.MinInstances("C09-R1", 3)
	}

	// ---- R2
	steps := stepFuncs(c, p, mgrM("RetrieveLoop"), 2, typesF("RetrieveWithHelpers"))
	// steps contains the fetch function; the per-height step is its caller in the loop graph
	consts := enumConsts(p, daPkg, "StatusCode")
	produced := producedCodes(c, p)
	var fetchFn *ssa.Function
	if len(steps) == 1 {
		fetchFn = steps[0]
	}
	if fetchFn == nil {
		c.Unk("C09-R2", "fetch", "", "", fmt.Sprintf("anchor lost: expected one function calling RetrieveWithHelpers, found %d", len(steps)))
	} else {
		g := BuildECFG(p, fetchFn, ExpandOpts{MaxDepth: 0})
		c.NoteGraph(g)
		fn := fnName(fetchFn)
		// nil-error returns: per phi edge
		var nilTargets []*Node
		for _, x := range g.Exits {
			ret := x.In.(*ssa.Return)
			k := corrResult(fetchFn)
			v := spilledResult(ret, k)
			if cst, ok := v.(*ssa.Const); ok && cst.Value == nil {
				nilTargets = append(nilTargets, x)
				continue
			}
			if phi, ok := v.(*ssa.Phi); ok {
				// walk back phi edges: preds of the phi's block
				head := g.heads[g.RootCtx][phi.Block()]
				for i, e := range phi.Edges {
					if cst, ok := e.(*ssa.Const); ok && cst.Value == nil && head != nil {
						for _, pn := range head.Pred {
							if pn.In != nil && pn.In.Block() == phi.Block().Preds[i] {
								nilTargets = append(nilTargets, pn)
							}
						}
					}
				}
			} else if al, ok := v.(*ssa.UnOp); ok {
				// err kept in a local (captured by the deferred cancel?): look at its stores
				if a, ok := al.X.(*ssa.Alloc); ok {
					stored := false
					for _, r := range *a.Referrers() {
						if st, ok := r.(*ssa.Store); ok && st.Addr == a {
							stored = true
						}
					}
					if !stored {
						nilTargets = append(nilTargets, x)
					}
				}
			}
		}
		isCode := func(t *Term) bool {
			return t.Op == "field" && t.Name == "Code" && strings.Contains(t.String(), "types.RetrieveWithHelpers(")
		}
		var reach map[string][]*Node
		if len(nilTargets) == 0 {
			c.Unk("C09-R2", "fetch ⟂ nil-returns", fn, "", "cannot identify the returns of the fetch function whose error is nil")
		} else {
			reach = g.EnumReach([]*Node{g.Entry}, nodeSet(nilTargets), isCode, consts, nil)
		}
		var bad []string
		for _, k := range sortedKeys(reach) {
			if produced[k] && k != "StatusSuccess" && k != "StatusNotFound" {
				bad = append(bad, k)
			}
		}
		if len(produced) == 0 {
			c.Unk("C09-R2", "fetch ⟂ error-mapping", fn, "", "anchor lost: no status codes read from RetrieveWithHelpers")
		} else if len(bad) == 0 {
			c.OK("C09-R2", "fetch ⟂ error-mapping", fn, p.Pos(fetchFn.Pos()), fmt.Sprintf("of the codes the retrieve helper produces %v only Success/NotFound reach a nil-error return", sortedKeys(produced)), true)
		} else {
			c.Bad("C09-R2", "fetch ⟂ error-mapping", fn, p.Pos(fetchFn.Pos()), "the fetch returns a nil error for status codes "+strings.Join(bad, ",")+": the scan would move past a height that was not read", g.DescribePath(reach[bad[0]]))
		}
		// the per-height step: callers of fetch
		for _, step := range callersOf(p, fetchFn) {
			sg := BuildECFG(p, step, ExpandOpts{MaxDepth: 0})
			c.NoteGraph(sg)
			sfn := fnName(step)
			fetchOK := sg.Select(ErrNilEdge(func(t *Term) bool {
				cv, ok := t.V.(*ssa.Call)
				return ok && cv.Common().StaticCallee() == fetchFn
			}))
			cancel := ctxDoneEdges(sg)
			nNil := 0
			for _, x := range sg.Exits {
				cls := sg.ExitClass(x)
				if cls == rcA {
					continue
				}
				xx := x
				tgt := func(n *Node) bool { return n == xx }
				if cls == rcB {
					nNil++
					path := sg.PathAvoiding([]*Node{sg.Entry}, tgt, orPred(nodeSet(fetchOK), nodeSet(cancel)))
					c.Decide("C09-R2", fnShort(step)+" ⟂ nil-only-after-fetch-ok", sfn, p.InstrPos(x.In), "a nil return follows a successful fetch",
						"the per-height step can return nil without a successful fetch of that height", sg, path)
					continue
				}
				// unknown class: the joined error after the retry loop
				ret := x.In.(*ssa.Return)
				v := spilledResult(ret, corrResult(step))
				ok, why := joinedErrorNonNil(v, fetchFn)
				inst := fnShort(step) + " ⟂ return-after-retries-is-error"
				if cancelOnly := sg.PathAvoiding([]*Node{sg.Entry}, tgt, nodeSet(cancel)) == nil; cancelOnly {
					c.OK("C09-R2", fnShort(step)+" ⟂ return-on-cancel", sfn, p.InstrPos(x.In), "return reached only on cancellation", true)
				} else if ok {
					c.OK("C09-R2", inst, sfn, p.InstrPos(x.In), why, true)
				} else {
					c.Bad("C09-R2", inst, sfn, p.InstrPos(x.In), "a return whose error may be nil is reachable without a successful fetch: "+why, nil)
				}
			}
			if nNil == 0 {
				c.Unk("C09-R2", fnShort(step)+" ⟂ nil-returns", sfn, "", "anchor lost: the step has no nil return")
			}
			ruleBlobDispatch(c, p, step, nil)
		}
	}
	c.MinInstances("C09-R2", 4)
	ruleRetrieveHelper(c, p, "C09-R3")
	ruleHelperSequential(c, p, "C09-R11")
	ruleAdmissionRejectsOnlyForgeries(c, p, "C09-R12")
	ruleWakeChannelBuffered(c, p, "C09-R13", "RetrieveLoop")
	c.MinInstances("C09-R13", 1)
	ruleNilGuard(c, p)
	ruleBlobBytesBoundsChecked(c, p, "C09-R14")
	ruleFetchedHeightIsExamined(c, p, "C09-R15")
	ruleHandOffNotUnderDeadline(c, p, "C09-R9")
	ruleMetricsPreBound(c, p, "C09-R10", []*ssa.Function{p.MustFunc(mgrM("RetrieveLoop"))}, 6)
	c.MinInstances("C09-R10", 1)
	c.Doc("C09-R6", "EO: the hand-off of an admitted item to sync cannot be skipped: blocking send, or select with cancellation as the only alternative.")
	ruleHandOffNotDroppable(c, p)
	ruleDropDecisionsArePure(c, p, "C09-R8")
	c.Doc("C09-R7", "VP+GA: the scan cursor starts at the persisted state's DA height raised to the configured start height.")
	ruleScanStart(c, p)
}

// producedCodes: StatusCode constants appearing as Code in RetrieveWithHelpers' return literals.
func producedCodes(c *Check, p *Prog) map[string]bool {
	fn := p.MustFunc(typesF("RetrieveWithHelpers"))
	consts := enumConsts(p, daPkg, "StatusCode")
	byVal := map[string]string{}
	for k, v := range consts {
		byVal[fmt.Sprint(v)] = k
	}
	out := map[string]bool{}
	ctx := &Ctx{Fn: fn}
	for _, b := range fn.Blocks {
		ret, ok := b.Instrs[len(b.Instrs)-1].(*ssa.Return)
		if !ok {
			continue
		}
		views := p.returnedLits(ret.Results[0], ctx, 2)
		if views == nil {
			out["?"] = true
			continue
		}
		for _, lv := range views {
			all := false
			if v := lv.Field("BaseResult.Code"); len(v) == 1 {
				all = true
				for _, t := range flattenPhi(v[0].unconv()) {
					t = t.unconv()
					if name, ok := byVal[t.Name]; ok && t.Op == "const" {
						out[name] = true
					} else if t.Op == "phi" {
						// cycle marker
					} else {
						all = false
					}
				}
			}
			if !all {
				out["?"] = true
			}
		}
	}
	if out["?"] {
		c.Unk("C09-R2", "RetrieveWithHelpers ⟂ produced-codes", fnName(fn), "", "a return of the retrieve helper does not set Code to a StatusCode constant")
		delete(out, "?")
	}
	return out
}

// joinedErrorNonNil: v is the error accumulated in a counted retry loop that runs at least once
// and whose latch value is errors.Join(prev, fetchErr) on the fetchErr != nil path.
func joinedErrorNonNil(v ssa.Value, fetchFn *ssa.Function) (bool, string) {
	phi, ok := v.(*ssa.Phi)
	if !ok {
		return false, fmt.Sprintf("returned error %s is not a loop-carried value", v.Name())
	}
	hdr := phi.Block()
	// counted loop: header ends in If (i < K) with i = phi(0, i+1), K constant > 0
	ifi, ok := hdr.Instrs[len(hdr.Instrs)-1].(*ssa.If)
	if !ok {
		return false, "the loop header does not end in a bound test"
	}
	cond, ok := ifi.Cond.(*ssa.BinOp)
	if !ok || cond.Op != token.LSS {
		return false, "the loop bound is not of the form i < K"
	}
	k, ok := cond.Y.(*ssa.Const)
	if !ok || k.Int64() <= 0 {
		return false, "the retry bound is not a positive constant"
	}
	iphi, ok := cond.X.(*ssa.Phi)
	if !ok || iphi.Block() != hdr {
		return false, "the loop counter is not a loop-carried value"
	}
	zeroStart := false
	for _, e := range iphi.Edges {
		if cst, ok := e.(*ssa.Const); ok && cst.Int64() == 0 {
			zeroStart = true
		}
	}
	if !zeroStart {
		return false, "the loop counter does not start at 0"
	}
	// error phi: nil from the preheader, Join(...) from the latch
	joinOK := false
	for i, e := range phi.Edges {
		if cst, ok := e.(*ssa.Const); ok && cst.Value == nil {
			if hdr.Dominates(hdr.Preds[i]) {
				return false, "a nil error flows around the back edge"
			}
			continue
		}
		call, ok := e.(*ssa.Call)
		if !ok || call.Common().StaticCallee() == nil || call.Common().StaticCallee().String() != "errors.Join" {
			return false, "the loop-carried error is not errors.Join(prev, fetchErr)"
		}
		// one of the joined values is the fetch error and the Join is on its non-nil path
		found := false
		for _, a := range call.Common().Args {
			sl, ok := a.(*ssa.Slice)
			if !ok {
				continue
			}
			al, ok := sl.X.(*ssa.Alloc)
			if !ok {
				continue
			}
			for _, vs := range litStores(al) {
				for _, v := range vs {
					for {
						if mi, ok := v.(*ssa.ChangeInterface); ok {
							v = mi.X
							continue
						}
						break
					}
					if ex, ok := v.(*ssa.Extract); ok {
						if cv, ok := ex.Tuple.(*ssa.Call); ok && cv.Common().StaticCallee() == fetchFn && classifyValueAt(ex, call.Block()) == rcA {
							found = true
						}
					}
				}
			}
		}
		if !found {
			return false, "errors.Join is not fed the non-nil fetch error"
		}
		joinOK = true
	}
	if !joinOK {
		return false, "no errors.Join on the back edge"
	}
	return true, fmt.Sprintf("counted loop from 0 to the constant %d > 0: the body runs at least once and the carried error is errors.Join(prev, non-nil fetch error)", k.Int64())
}

// ruleBlobDispatch (C09-R4).
func ruleBlobDispatch(c *Check, p *Prog, step *ssa.Function, _ *Graph) {
	fn := fnName(step)
	// expand helpers of the step (the dispatch loop may live in one) but keep the two blob handlers as leaves
	isHandler := func(f *ssa.Function) bool {
		for _, b := range f.Blocks {
			for _, in := range b.Instrs {
				if call, ok := in.(*ssa.Call); ok {
					n := commonName(call.Common())
					if strings.HasSuffix(n, "types.SignedHeader).FromProto") || strings.HasSuffix(n, "types.SignedData).UnmarshalBinary") {
						return true
					}
				}
			}
		}
		return false
	}
	g := BuildECFG(p, step, ExpandOpts{MaxDepth: 2, Stop: isHandler})
	c.NoteGraph(g)
	calleeContains := func(n *Node, name string) bool {
		cc := CallCommonOf(n)
		if cc == nil || cc.StaticCallee() == nil || !p.Expandable(cc.StaticCallee()) {
			return false
		}
		for _, b := range cc.StaticCallee().Blocks {
			for _, in := range b.Instrs {
				if call, ok := in.(*ssa.Call); ok && strings.HasSuffix(commonName(call.Common()), name) {
					return true
				}
			}
		}
		return false
	}
	hdrH := g.Select(func(n *Node) bool { return calleeContains(n, "types.SignedHeader).FromProto") })
	dataH := g.Select(func(n *Node) bool {
		return calleeContains(n, "types.SignedData).UnmarshalBinary") && !calleeContains(n, "types.SignedHeader).FromProto")
	})
	if len(hdrH) != 1 || len(dataH) != 1 {
		c.Unk("C09-R4", fnShort(step)+" ⟂ handlers", fn, "", fmt.Sprintf("anchor lost: %d header-handler and %d data-handler call sites", len(hdrH), len(dataH)))
		return
	}
	hb := loopHeaderOf(hdrH[0].In.Block())
	if hb == nil {
		c.Unk("C09-R4", fnShort(step)+" ⟂ blob-loop", fn, "", "anchor lost: the header handler is not called in a loop over the blobs")
		return
	}
	loopCtx := hdrH[0].Ctx
	head := g.headNode(loopCtx, hb)
	// the blob handed over is the ranged element of the fetched Data
	// the handler's blob argument: the one of type []byte, wherever it stands
	var bz *Term
	if cc := CallCommonOf(hdrH[0]); cc != nil {
		for i, a := range cc.Args {
			if a.Type().String() == "[]byte" || strings.HasSuffix(a.Type().String(), "da.Blob") {
				bz = ArgTerm(hdrH[0], i)
			}
		}
	}
	if bz != nil && strings.Contains(bz.String(), ".Data[") {
		c.OK("C09-R4", fnShort(step)+" ⟂ handler-gets-ranged-blob", fn, p.InstrPos(hdrH[0].In), "handler argument is an element of the fetched blob list: "+trunc(bz.String(), 100), true)
	} else {
		c.Bad("C09-R4", fnShort(step)+" ⟂ handler-gets-ranged-blob", fn, p.InstrPos(hdrH[0].In), "the header handler is not given the ranged element of the fetched blobs", nil)
	}
	emptySkip := g.Select(EdgeWhere(func(t *Term, pol bool, n *Node) bool {
		t, pol = normFact(t, pol)
		return pol && t.Op == "bin" && t.Name == "==" && t.Args[1].Name == "0" && bz != nil && t.Args[0].String() == "len("+bz.String()+")"
	}))
	// body entry: the true edge of the loop header's If (range next ok)
	var bodyEntry []*Node
	if ifi, ok := hb.Instrs[len(hb.Instrs)-1].(*ssa.If); ok {
		bodyEntry = g.Select(func(n *Node) bool { return n.Kind == NTrue && n.In == ssa.Instruction(ifi) && n.Ctx == loopCtx })
	}
	if len(bodyEntry) == 0 {
		c.Unk("C09-R4", fnShort(step)+" ⟂ blob-loop", fn, "", "cannot find the loop body entry")
		return
	}
	isHead := func(n *Node) bool { return n == head }
	path := g.PathAvoiding(bodyEntry, orPred(isHead, g.AnyExit()), orPred(nodeSet(emptySkip), nodeSet(hdrH)))
	c.Decide("C09-R4", fnShort(step)+" ⟂ every-non-empty-blob→header-handler", fn, p.InstrPos(hdrH[0].In), "every non-empty blob is offered to the header handler",
		"a non-empty blob can be passed over without being offered to the header handler", g, path)
	handled := g.Select(EdgeWhere(func(t *Term, pol bool, n *Node) bool {
		t, pol = normFact(t, pol)
		return pol && t.V == ssa.Value(hdrH[0].In.(*ssa.Call))
	}))
	path = g.PathAvoiding(hdrH, orPred(isHead, g.AnyExit()), orPred(nodeSet(handled), nodeSet(dataH)))
	c.Decide("C09-R4", fnShort(step)+" ⟂ not-a-header→data-handler", fn, p.InstrPos(dataH[0].In), "a blob the header handler did not take is offered to the data handler",
		"a blob that is not a header can be dropped without being offered to the data handler", g, path)
	c.MinInstances("C09-R4", 3)
}

// ruleRetrieveHelper (C09-R3).
func ruleRetrieveHelper(c *Check, p *Prog, rule string) {
	fn := p.MustFunc(typesF("RetrieveWithHelpers"))
	g := BuildECFG(p, fn, ownPkgOpts(rootPath+"/types", 2))
	c.NoteGraph(g)
	consts := enumConsts(p, daPkg, "StatusCode")
	success := fmt.Sprint(consts["StatusSuccess"])
	idsOK := g.Select(ErrNilEdge(func(t *Term) bool { return t.Op == "invoke" && strings.HasSuffix(t.Name, "da.DA).GetIDs") }))
	getErr := g.Select(ErrNotNilEdge(func(t *Term) bool { return t.Op == "invoke" && strings.HasSuffix(t.Name, "da.DA).Get") }))
	gets := g.Select(IsCall(daM("Get")))
	var succ []*Node
	for _, x := range g.Exits {
		views := p.returnedLits(x.In.(*ssa.Return).Results[0], g.RootCtx, 2)
		if len(views) != 1 {
			continue
		}
		lv := views[0]
		if v := lv.Field("BaseResult.Code"); len(v) == 1 && v[0].unconv().Name == success {
			succ = append(succ, x)
			// the data returned is the accumulated blobs
			if d := lv.Field("Data"); len(d) == 1 {
				dt := d[0]
				okD := false
				leaves := flattenPhi(dt)
				if dt.Op == "extract" || dt.Op == "call" {
					if ls := p.Alternatives(dt, 2); len(ls) > 0 {
						leaves = ls // the list is built by a helper of the package
					}
				}
				fromGet := strings.Contains(dt.String(), "da.DA).Get(")
				for _, l := range leaves {
					if l.IsCall("append") || l.Op == "make" || (l.Op == "call" && l.Name == "append") {
						okD = true
					}
					if strings.Contains(l.String(), "da.DA).Get(") {
						fromGet = true
					}
				}
				if okD && fromGet {
					c.OK(rule, "RetrieveWithHelpers ⟂ Data=appended-chunks", fnName(fn), p.InstrPos(x.In), "Data ← blobs appended chunk by chunk", true)
				} else {
					c.Bad(rule, "RetrieveWithHelpers ⟂ Data=appended-chunks", fnName(fn), p.InstrPos(x.In), "the Data of a successful result is not the in-order concatenation of the chunks: "+trunc(dt.String(), 160), nil)
				}
			}
		}
	}
	if len(succ) == 0 || len(idsOK) == 0 || len(gets) != 1 {
		c.Unk(rule, "RetrieveWithHelpers ⟂ anchors", fnName(fn), "", fmt.Sprintf("anchor lost: success returns=%d GetIDs checks=%d Get calls=%d", len(succ), len(idsOK), len(gets)))
		return
	}
	c.Decide(rule, "RetrieveWithHelpers ⟂ Success-needs-GetIDs-ok", fnName(fn), p.InstrPos(succ[0].In), "Success only on the nil-error edge of GetIDs",
		"Success can be reported although GetIDs failed", g, g.MustPrecede(nodeSet(idsOK), nodeSet(succ)))
	if len(getErr) == 0 {
		c.Bad(rule, "RetrieveWithHelpers ⟂ Get-error-not-Success", fnName(fn), p.InstrPos(gets[0].In), "the error of DA.Get is not checked", nil)
	} else {
		c.Decide(rule, "RetrieveWithHelpers ⟂ Get-error-not-Success", fnName(fn), p.InstrPos(gets[0].In), "after a failed chunk no Success is reported and no further chunk is read",
			"a failed DA.Get can still lead to a Success result: blobs of that height would be lost", g, g.PathAvoiding(getErr, orPred(nodeSet(succ), nodeSet(gets)), nil))
	}
	// a failed Get (ids were listed, the blobs could not be fetched) is an error, never "nothing at
	// this height" nor "height from the future": callers move past a height reported as NotFound
	if len(getErr) > 0 {
		errCode := fmt.Sprint(consts["StatusError"])
		reach := g.Reachable(getErr, nil)
		var wrong []string
		nEx := 0
		for _, x := range g.Exits {
			if !reach[x] {
				continue
			}
			var codes []*Term
			for _, lv := range p.returnedLits(x.In.(*ssa.Return).Results[0], g.RootCtx, 2) {
				codes = append(codes, lv.Field("BaseResult.Code")...)
			}
			for _, v := range codes {
				nEx++
				for _, leaf := range flattenPhi(v) {
					l := leaf.unconv()
					if l.Op != "const" || l.Name != errCode {
						name := l.String()
						for k, kv := range consts {
							if fmt.Sprint(kv) == l.Name {
								name = k
							}
						}
						wrong = append(wrong, name)
					}
				}
			}
		}
		sort.Strings(wrong)
		switch {
		case nEx == 0:
			c.Unk(rule, "RetrieveWithHelpers ⟂ Get-error→StatusError", fnName(fn), "", "anchor lost: no result literal is returned after a failed Get")
		case len(wrong) == 0:
			c.OK(rule, "RetrieveWithHelpers ⟂ Get-error→StatusError", fnName(fn), p.InstrPos(gets[0].In), "a failed chunk read is always reported as StatusError", true)
		default:
			c.Bad(rule, "RetrieveWithHelpers ⟂ Get-error→StatusError", fnName(fn), p.InstrPos(gets[0].In), "after the ids of a height were listed, a failed Get can be reported as "+strings.Join(wrong, ",")+": the scan (DA retrieval, based sequencer) treats that as an empty or future height and moves past blobs that exist", nil)
		}
	}
	// the class of a failed listing or read is decided by matching the error's text (only the
	// message survives the transport). What it is matched against is the whole text of one of the
	// DA interface's sentinels: a shorter fragment ("not found") also matches "header: not found",
	// "method not found" — a failure of the DA node reported as an empty height, which the scan
	// moves past for good.
	for i, mn := range g.Select(func(n *Node) bool {
		cn := CallName(n)
		return cn == "strings.Contains" || cn == "strings.HasPrefix" || cn == "strings.HasSuffix" || cn == "strings.EqualFold" || cn == "strings.Index"
	}) {
		hay, needle := ArgTerm(mn, 0), ArgTerm(mn, 1)
		if hay == nil || needle == nil || !p.DeepContains(hay, func(x *Term) bool {
			return (x.Op == "invoke" || x.Op == "call") && strings.HasSuffix(x.Name, "error).Error") || strings.HasSuffix(x.Name, ".Error")
		}, 3) {
			continue
		}
		sentinel := p.DeepContains(needle, func(x *Term) bool {
			v := x.V
			if u, ok := v.(*ssa.UnOp); ok && u.Op == token.MUL {
				v = u.X
			}
			gl, ok := v.(*ssa.Global)
			return ok && gl.Pkg != nil && gl.Pkg.Pkg.Path() == daPkg && strings.HasPrefix(gl.Name(), "Err")
		}, 3)
		inst := fmt.Sprintf("RetrieveWithHelpers ⟂ error text matched against a whole DA sentinel#%d", i+1)
		if sentinel {
			c.OK(rule, inst, fnName(mn.Ctx.Fn), p.InstrPos(mn.In), "the error's text is matched against "+trunc(needle.String(), 60), true)
		} else {
			c.Bad(rule, inst, fnName(mn.Ctx.Fn), p.InstrPos(mn.In), "the class of a failed DA request is decided by matching the error's text against "+trunc(needle.String(), 60)+", not against the whole text of a sentinel of the DA interface: unrelated failures of the DA node whose message contains the fragment (\"header: not found\", a misrouted RPC's \"method not found\") are reported as an empty height or a height from the future, and the scan moves past the height without its blobs", nil)
		}
	}
	// chunking: Get(ids[i:min(i+B, len(ids))]) with i = phi(0, i+B)
	arg := ArgTerm(gets[0], 1)
	okChunk := false
	why := trunc(arg.String(), 200)
	if arg.Op == "slice" {
		lo, hi := arg.Args[1], arg.Args[2]
		if lo.Op == "phi" && len(lo.Args) == 2 {
			var step *Term
			zero := false
			for _, a := range lo.Args {
				if a.Op == "const" && a.Name == "0" {
					zero = true
				} else if a.Op == "bin" && a.Name == "+" && a.Args[0].Op == "phi" {
					step = a.Args[1]
				}
			}
			base := arg.Args[0].String()
			if zero && step != nil && hi.IsCall("min") && len(hi.Args) == 2 {
				h0, h1 := hi.Args[0].String(), hi.Args[1].String()
				wantA := "(" + lo.String() + " + " + step.String() + ")"
				wantB := "len(" + base + ")"
				if (h0 == wantA && h1 == wantB) || (h1 == wantA && h0 == wantB) {
					okChunk = true
				}
			}
		}
	}
	// the same tiling written over a chunk counter: Get(ids[b*B:min(b*B+B, len(ids))]) for b = 0 … ⌈len(ids)/B⌉-1
	counterForm := false
	var counter *Term
	var stepK int64
	if !okChunk && arg.Op == "slice" {
		lo, hi := arg.Args[1].unconv(), arg.Args[2]
		base := arg.Args[0].String()
		if lo.Op == "bin" && lo.Name == "*" {
			for i := 0; i < 2; i++ {
				b, k := lo.Args[i].unconv(), lo.Args[1-i].unconv()
				if b.Op != "phi" || len(b.Args) != 2 || k.Op != "const" {
					continue
				}
				zero, inc := false, false
				for _, a := range b.Args {
					if a.Op == "const" && a.Name == "0" {
						zero = true
					} else if a.Op == "bin" && a.Name == "+" && a.Args[0].Op == "phi" && a.Args[1].Op == "const" && a.Args[1].Name == "1" {
						inc = true
					}
				}
				if _, err := fmt.Sscan(k.Name, &stepK); err != nil || !zero || !inc || stepK <= 0 {
					continue
				}
				if hi.IsCall("min") && len(hi.Args) == 2 {
					h0, h1 := hi.Args[0].String(), hi.Args[1].String()
					wantA := "(" + arg.Args[1].String() + " + " + k.String() + ")"
					wantB := "len(" + base + ")"
					if (h0 == wantA && h1 == wantB) || (h1 == wantA && h0 == wantB) {
						okChunk, counterForm, counter = true, true, b
					}
				}
			}
		}
	}
	if okChunk {
		c.OK(rule, "RetrieveWithHelpers ⟂ contiguous-chunks", fnName(fn), p.InstrPos(gets[0].In), "chunks are ids[i:min(i+B,len(ids))] for i = 0, B, 2B, …", true)
	} else {
		c.Bad(rule, "RetrieveWithHelpers ⟂ contiguous-chunks", fnName(fn), p.InstrPos(gets[0].In), "the chunks passed to DA.Get do not tile [0,len(ids)) contiguously: "+why, nil)
	}
	// loop continues while i < len(ids)
	bound := g.Select(EdgeWhere(func(t *Term, pol bool, n *Node) bool {
		return pol && t.Op == "bin" && t.Name == "<" && arg.Op == "slice" && t.Args[0].String() == arg.Args[1].String() && t.Args[1].String() == "len("+arg.Args[0].String()+")"
	}))
	boundOut := g.Select(EdgeWhere(func(t *Term, pol bool, n *Node) bool {
		return !pol && t.Op == "bin" && t.Name == "<" && arg.Op == "slice" && t.Args[0].String() == arg.Args[1].String() && t.Args[1].String() == "len("+arg.Args[0].String()+")"
	}))
	if counterForm {
		// the counter runs while b < N with N = (len(ids) + B - 1) / B
		isCeil := func(t *Term) bool {
			t = t.unconv()
			if t.Op != "bin" || t.Name != "/" || t.Args[1].unconv().Op != "const" || t.Args[1].unconv().Name != fmt.Sprint(stepK) {
				return false
			}
			var sum int64
			var walk func(x *Term, sign int64) bool
			seenLen := 0
			walk = func(x *Term, sign int64) bool {
				x = x.unconv()
				switch {
				case x.Op == "const":
					var k int64
					if _, err := fmt.Sscan(x.Name, &k); err != nil {
						return false
					}
					sum += sign * k
					return true
				case x.String() == "len("+arg.Args[0].String()+")" && sign == 1:
					seenLen++
					return true
				case x.Op == "bin" && x.Name == "+":
					return walk(x.Args[0], sign) && walk(x.Args[1], sign)
				case x.Op == "bin" && x.Name == "-":
					return walk(x.Args[0], sign) && walk(x.Args[1], -sign)
				}
				return false
			}
			return walk(t.Args[0], 1) && seenLen == 1 && sum == stepK-1
		}
		cb := func(want bool) []*Node {
			return g.Select(EdgeWhere(func(t *Term, pol bool, n *Node) bool {
				return pol == want && t.Op == "bin" && t.Name == "<" && t.Args[0].String() == counter.String() && isCeil(t.Args[1])
			}))
		}
		bound, boundOut = cb(true), cb(false)
	}
	if len(bound) == 0 || len(boundOut) == 0 {
		c.Bad(rule, "RetrieveWithHelpers ⟂ all-chunks-before-Success", fnName(fn), p.InstrPos(gets[0].In), "no loop bound that covers every chunk found (i < len(ids), or b < ⌈len(ids)/B⌉ for a chunk counter)", nil)
	} else {
		// after GetIDs ok with ids non-empty, Success only through the loop-exit edge (all chunks read)
		c.Decide(rule, "RetrieveWithHelpers ⟂ all-chunks-before-Success", fnName(fn), p.InstrPos(bound[0].In), "Success is returned only through the exit edge of the chunk loop",
			"Success can be returned before every chunk was read", g, g.MustPrecede(nodeSet(boundOut), nodeSet(succ)))
	}
	c.MinInstances(rule, 5)
}

// ruleNilGuard (C09-R5).
func ruleNilGuard(c *Check, p *Prog) {
	rule := "C09-R5"
	rl := p.MustFunc(mgrM("RetrieveLoop"))
	g := BuildECFG(p, rl, ExpandOpts{MaxDepth: 6})
	c.NoteGraph(g)
	typesPath := rootPath + "/types"
	// dereferences of pointer-to-struct fields of types declared in package types
	type deref struct {
		n    *Node
		base *Term
	}
	var derefs []deref
	for _, n := range g.Nodes {
		if !g.Live()[n] || n.Kind != NInstr {
			continue
		}
		var x ssa.Value
		// a method call on an interface-typed field of a decoded item (the signer's public key):
		// absent on the wire, the field is a nil interface and the call panics
		if ci, ok := n.In.(ssa.CallInstruction); ok && ci.Common().IsInvoke() {
			if base := TermOf(ci.Common().Value, n.Ctx); base != nil {
				bv := base.V
				var owner types.Type
				var fidx int
				switch b := bv.(type) {
				case *ssa.UnOp:
					if fa, ok := b.X.(*ssa.FieldAddr); ok && b.Op == token.MUL {
						if pt, ok := fa.X.Type().Underlying().(*types.Pointer); ok {
							owner, fidx = pt.Elem(), fa.Field
						}
					}
				case *ssa.Field:
					owner, fidx = b.X.Type(), b.Field
				}
				if nt, ok := owner.(*types.Named); ok && nt.Obj().Pkg() != nil && nt.Obj().Pkg().Path() == typesPath {
					if st, ok := nt.Underlying().(*types.Struct); ok {
						if _, isIface := st.Field(fidx).Type().Underlying().(*types.Interface); isIface {
							if r := rootOf(base); r != nil && r.Op == "alloc" {
								derefs = append(derefs, deref{n, base})
							}
						}
					}
				}
			}
			continue
		}
		switch in := n.In.(type) {
		case *ssa.FieldAddr:
			x = in.X
		case *ssa.UnOp:
			if in.Op == token.MUL {
				if _, isStruct := in.Type().Underlying().(*types.Struct); isStruct {
					x = in.X
				}
			}
		}
		if x == nil {
			continue
		}
		ld, ok := x.(*ssa.UnOp)
		if !ok || ld.Op != token.MUL {
			continue
		}
		fa, ok := ld.X.(*ssa.FieldAddr)
		if !ok {
			continue
		}
		st := derefStruct(fa.X.Type())
		if st == nil {
			continue
		}
		owner := fa.X.Type().Underlying().(*types.Pointer).Elem()
		nt, ok := owner.(*types.Named)
		if !ok || nt.Obj().Pkg() == nil || nt.Obj().Pkg().Path() != typesPath {
			continue
		}
		ft := st.Field(fa.Field).Type()
		if pt, ok := ft.Underlying().(*types.Pointer); !ok {
			continue
		} else if _, ok := pt.Elem().Underlying().(*types.Struct); !ok {
			continue
		}
		base := TermOf(ld, n.Ctx)
		// only items decoded from blob bytes in the scan (rooted at a local allocation)
		r := rootOf(base)
		if r == nil || (r.Op != "alloc") {
			continue
		}
		derefs = append(derefs, deref{n, base})
	}
	seen := map[string]bool{}
	for _, d := range derefs {
		key := fnShort(d.n.Ctx.Fn) + " ⟂ " + d.base.String()
		// one obligation per (function, pointer) and call path
		var chain []string
		for x := d.n.Ctx; x != nil && x.Depth > 1; x = x.Parent {
			chain = append(chain, fnShort(x.Fn))
		}
		key = strings.Join(chain, "<") + " ⟂ " + d.base.String()
		if seen[key] {
			continue
		}
		seen[key] = true
		facts := g.FactsAt(nodeSet([]*Node{d.n}), 3)
		guarded := false
		for _, f := range facts {
			t := f.Cond
			if t.Op == "bin" && t.Args[1].Name == "nil" && t.Args[0].String() == d.base.String() && ((t.Name == "!=" && f.Pol) || (t.Name == "==" && !f.Pol)) {
				guarded = true
			}
		}
		if guarded {
			c.OK(rule, key, fnName(d.n.Ctx.Fn), p.InstrPos(d.n.In), "dereference of "+d.base.String()+" is dominated by a nil test", true)
		} else {
			c.Bad(rule, key, fnName(d.n.Ctx.Fn), p.InstrPos(d.n.In), "a decoded item's pointer field "+d.base.String()+" is dereferenced without a dominating nil test: a blob that decodes without that part crashes the scan goroutine", nil)
		}
	}
	if len(derefs) == 0 {
		c.OK(rule, "no-pointer-field-dereference", fnName(rl), p.Pos(rl.Pos()), "no pointer field of a decoded item is dereferenced in the scan", false)
	}
	keys := make([]string, 0, len(seen))
	for k := range seen {
		keys = append(keys, k)
	}
	sort.Strings(keys)
}

// ruleHandOffNotDroppable (C09-R6): the hand-off of an admitted item to sync is a blocking send
// or a select whose only alternatives are cancellation; a default (or any other alternative)
// would drop a genuine blob while the scan moves on.
func ruleHandOffNotDroppable(c *Check, p *Prog) {
	rule := "C09-R6"
	n := 0
	for _, l := range []string{"RetrieveLoop", "HeaderStoreRetrieveLoop", "DataStoreRetrieveLoop"} {
		root := p.MustFunc(mgrM(l))
		g := BuildECFG(p, root, ExpandOpts{MaxDepth: 5})
		c.NoteGraph(g)
		for _, sn := range g.Select(func(x *Node) bool { si := classifySink(x); return si != nil && si.what == "send" }) {
			n++
			inst := l + " ⟂ hand-off in " + fnShort(sn.Ctx.Fn)
			pos := p.InstrPos(sn.In)
			sel, isSel := sn.In.(*ssa.Select)
			if !isSel {
				c.OK(rule, inst, fnName(sn.Ctx.Fn), pos, "plain blocking send: the item cannot be dropped (stop behaviour is C13's concern)", true)
				continue
			}
			bad := ""
			if !sel.Blocking {
				bad = "the select has a default branch"
			}
			for _, st := range sel.States {
				if st.Dir == types.SendOnly {
					continue
				}
				ch := TermOf(st.Chan, sn.Ctx)
				if !(ch.Op == "invoke" && ch.Name == "(context.Context).Done") {
					bad = "the select has an alternative other than cancellation: " + trunc(ch.String(), 60)
				}
			}
			if bad == "" {
				c.OK(rule, inst, fnName(sn.Ctx.Fn), pos, "send in a select whose only alternative is cancellation", true)
			} else {
				c.Bad(rule, inst, fnName(sn.Ctx.Fn), pos, bad+": when the sync queue is full a genuine item is dropped although it was already marked DA-included and the scan moves past its height", nil)
			}
		}
	}
	if n < 4 {
		c.Unk(rule, "hand-off-sends", "", "", fmt.Sprintf("anchor lost: %d hand-off sends found (4 confirmed by hand)", n))
	}
}

// ruleScanStart (C09-R7).
func ruleScanStart(c *Check, p *Prog) {
	nm := p.MustFunc(blockF("NewManager"))
	g := BuildECFG(p, nm, ExpandOpts{MaxDepth: 0})
	c.NoteGraph(g)
	fn := fnName(nm)
	// the cursor: the *atomic.Uint64 stored into the manager; its initial Store
	inits := g.Select(func(n *Node) bool {
		if CallName(n) != "(*sync/atomic.Uint64).Store" {
			return false
		}
		r := RecvTerm(n)
		return r != nil && r.Op == "alloc"
	})
	if len(inits) == 0 {
		c.Unk("C09-R7", "NewManager ⟂ cursor-init", fn, "", "anchor lost: no initial store of a local atomic counter in NewManager")
		return
	}
	// every value the cursor can start with is the persisted DA height itself
	okV := true
	v := ArgTerm(inits[0], 1)
	for _, in := range inits {
		if iv := ArgTerm(in, 1); !(iv.Op == "field" && iv.Name == "DAHeight") {
			okV, v = false, iv
		}
	}
	// the raise: a store state.DAHeight = config.DA.StartHeight guarded by state.DAHeight < config.DA.StartHeight, before the init
	raise := g.Select(func(n *Node) bool {
		st, ok := n.In.(*ssa.Store)
		if !ok {
			return false
		}
		at := TermOf(st.Addr, n.Ctx)
		return at.Op == "field" && at.Name == "DAHeight" && strings.HasSuffix(TermOf(st.Val, n.Ctx).String(), ".DA.StartHeight")
	})
	// the same raise written as one assignment: DAHeight = max(DAHeight, configured start)
	isMaxRaise := func(v *Term) bool {
		v = v.unconv()
		if !(v.Op == "call" && v.Name == "max" && len(v.Args) == 2) {
			return false
		}
		a, b := v.Args[0].String(), v.Args[1].String()
		return (strings.HasSuffix(a, ".DAHeight") && strings.HasSuffix(b, ".DA.StartHeight")) || (strings.HasSuffix(b, ".DAHeight") && strings.HasSuffix(a, ".DA.StartHeight"))
	}
	maxRaise := g.Select(func(n *Node) bool {
		st, ok := n.In.(*ssa.Store)
		if !ok {
			return false
		}
		at := TermOf(st.Addr, n.Ctx)
		return at.Op == "field" && at.Name == "DAHeight" && isMaxRaise(TermOf(st.Val, n.Ctx))
	})
	guarded := len(maxRaise) > 0
	raise = append(raise, maxRaise...)
	for _, r := range raise {
		for _, f := range g.NecessaryEdges(nodeSet([]*Node{r})) {
			t := f.Cond
			if f.Pol && t.Op == "bin" && t.Name == "<" && strings.HasSuffix(t.Args[0].String(), "DAHeight") && strings.HasSuffix(t.Args[1].String(), ".DA.StartHeight") {
				guarded = true
			}
		}
	}
	before := len(raise) > 0 && g.PathAvoiding(inits, nodeSet(raise), nil) == nil
	// nothing else raises the height the scan starts from: what was retrieved below a higher
	// start and not yet applied lives in memory only, and is never fetched again after a crash
	for _, n := range g.Select(func(n *Node) bool {
		st, ok := n.In.(*ssa.Store)
		if !ok {
			return false
		}
		at := TermOf(st.Addr, n.Ctx)
		return at.Op == "field" && at.Name == "DAHeight" && !strings.HasSuffix(TermOf(st.Val, n.Ctx).String(), ".DA.StartHeight") && !isMaxRaise(TermOf(st.Val, n.Ctx))
	}) {
		if g.PathAvoiding([]*Node{n}, nodeSet(inits), nil) == nil {
			continue
		}
		okV, v = false, TermOf(n.In.(*ssa.Store).Val, n.Ctx)
	}
	if okV && guarded && before {
		c.OK("C09-R7", "NewManager ⟂ cursor = max(state.DAHeight, configured start)", fn, p.InstrPos(inits[0].In), "the scan starts at the persisted DA height, raised to the configured start height when that is higher", true)
	} else {
		c.Bad("C09-R7", "NewManager ⟂ cursor = max(state.DAHeight, configured start)", fn, p.InstrPos(inits[0].In), fmt.Sprintf("the scan cursor is not initialised to max(state.DAHeight, config.DA.StartHeight) (from-state=%v [a start value is "+trunc(v.String(), 60)+"] raise-guarded=%v raise-before-init=%v): DA heights at or after the configured start can be skipped, or the scan starts before it", okV, guarded, before), nil)
	}
}

// ruleDropDecisionsArePure (C09-R8): in the functions that hand a DA blob to sync, a branch that
// gives the blob up (no hand-off reachable behind it while its sibling can still reach one) may
// depend only on the blob and on configuration fixed at construction (genesis, config, the
// payload provider): the same genuine blob must be admitted whenever it is scanned, in
// particular when it is scanned again after a restart. A decision on mutable node state (the
// caches and their persisted DA-included marks, the store, heights) drops genuine blobs on the
// re-scan.
func ruleDropDecisionsArePure(c *Check, p *Prog, rule string) {
	c.Doc(rule, "GA+VP: every branch of a DA blob handler that gives the blob up depends only on the blob and on construction-time configuration, never on mutable node state.")
	root := p.MustFunc(mgrM("RetrieveLoop"))
	rg := BuildECFG(p, root, ExpandOpts{MaxDepth: 5})
	handlers := map[*ssa.Function]bool{}
	for _, sn := range rg.Select(func(x *Node) bool { si := classifySink(x); return si != nil && si.what == "send" }) {
		handlers[sn.Ctx.Fn] = true
	}
	mutable := map[string]bool{"headerCache": true, "dataCache": true, "store": true, "daHeight": true, "daIncludedHeight": true, "lastState": true,
		"pendingHeaders": true, "pendingData": true, "headerStore": true, "dataStore": true, "txsAvailable": true, "lastBatchData": true}
	n := 0
	var hs []*ssa.Function
	for h := range handlers {
		hs = append(hs, h)
	}
	sort.Slice(hs, func(i, j int) bool { return fnName(hs[i]) < fnName(hs[j]) })
	for _, h := range hs {
		g := BuildECFG(p, h, ExpandOpts{MaxDepth: 1})
		c.NoteGraph(g)
		isSend := func(x *Node) bool { si := classifySink(x); return si != nil && si.what == "send" }
		sends := g.Select(isSend)
		if len(sends) == 0 {
			continue
		}
		reachesSend := func(e *Node) bool {
			for x := range g.Reachable([]*Node{e}, nil) {
				if isSend(x) {
					return true
				}
			}
			return false
		}
		byIf := map[ssa.Instruction][]*Node{}
		for _, e := range g.Select(func(x *Node) bool { return (x.Kind == NTrue || x.Kind == NFalse) && x.Ctx.Depth == 0 }) {
			byIf[e.In] = append(byIf[e.In], e)
		}
		var keys []ssa.Instruction
		for k := range byIf {
			keys = append(keys, k)
		}
		sort.Slice(keys, func(i, j int) bool { return keys[i].Pos() < keys[j].Pos() })
		// only decisions taken before the hand-off
		before := g.Reachable([]*Node{g.Entry}, isSend)
		for _, k := range keys {
			es := byIf[k]
			if len(es) != 2 || !before[es[0]] && !before[es[1]] {
				continue
			}
			r0, r1 := reachesSend(es[0]), reachesSend(es[1])
			if r0 == r1 {
				continue
			}
			drop := es[0]
			if r0 {
				drop = es[1]
			}
			t, _ := CondTerm(drop)
			n++
			var stateful []string
			t.Walk(func(x *Term) bool {
				if x.Op == "field" && mutable[x.Name] && len(x.Args) == 1 && strings.HasSuffix(x.Args[0].V.Type().String(), "block.Manager") {
					stateful = append(stateful, x.Name)
				}
				return true
			})
			// look through predicate helpers of the repository
			if len(stateful) == 0 && p.DeepContains(t, func(x *Term) bool {
				return x.Op == "field" && mutable[x.Name] && len(x.Args) == 1 && x.Args[0].V != nil && strings.HasSuffix(x.Args[0].V.Type().String(), "block.Manager")
			}, 2) {
				stateful = append(stateful, "(through a helper)")
			}
			// the local clock is mutable state too: what is scanned now may be dropped, the same
			// blob scanned a minute later admitted — and the scan does not come back
			if p.DeepContains(t, func(x *Term) bool {
				return x.Op == "call" && (x.Name == "time.Now" || x.Name == "time.Since" || x.Name == "time.Until")
			}, 2) {
				stateful = append(stateful, "the local clock")
			}
			inst := fnShort(h) + " ⟂ gives-up-on " + trunc(t.String(), 70)
			// a mark that only the consumer side writes says "sync already has this item":
			// giving up on it drops a duplicate, not a genuine item
			if len(stateful) > 0 {
				nt, pol := normFact(t, true)
				_ = pol
				if cv, ok := nt.V.(*ssa.Call); ok && nt.Op == "call" && cv.Common().StaticCallee() != nil {
					if why, ok := consumerOnlyMark(p, cv.Common().StaticCallee()); ok {
						c.OK(rule, inst, fnName(h), p.InstrPos(drop.In), "the decision reads a mark written only by the consuming side ("+why+"): a duplicate of an item sync already holds", true)
						continue
					}
				}
			}
			if len(stateful) == 0 {
				c.OK(rule, inst, fnName(h), p.InstrPos(drop.In), "the decision depends only on the blob and construction-time configuration", true)
			} else {
				c.Bad(rule, inst, fnName(h), p.InstrPos(drop.In), "a blob is given up on mutable node state ("+strings.Join(stateful, ", ")+"): the same genuine blob is dropped when it is scanned again (e.g. after a restart with persisted cache marks while its event was still queued), and sync never receives it", nil)
			}
		}
	}
	if n == 0 {
		c.Unk(rule, "DA-handlers", "", "", "anchor lost: no give-up decision found in the functions that hand DA blobs to sync")
	}
	c.MinInstances(rule, 4)
}

// consumerOnlyMark: pred is a reader method of the cache; the cache fields it reads are written
// (outside restoring the cache from disk) only by methods whose call sites in the block package
// are all unreachable from the DA / P2P retrieval loops, i.e. only the consuming side sets the
// mark.
func consumerOnlyMark(p *Prog, pred *ssa.Function) (string, bool) {
	fieldsOf := func(fn *ssa.Function, write bool) map[int]bool {
		out := map[int]bool{}
		for _, b := range fn.Blocks {
			for _, in := range b.Instrs {
				call, ok := in.(*ssa.Call)
				if !ok || !strings.HasPrefix(commonName(call.Common()), "(*sync.Map).") || len(call.Common().Args) == 0 {
					continue
				}
				m := commonName(call.Common())
				isW := strings.HasSuffix(m, ".Store") || strings.HasSuffix(m, ".Delete") || strings.HasSuffix(m, ".LoadOrStore") || strings.HasSuffix(m, ".Swap")
				if isW != write {
					continue
				}
				if u, ok := call.Common().Args[0].(*ssa.UnOp); ok {
					if fa, ok := u.X.(*ssa.FieldAddr); ok {
						out[fa.Field] = true
					}
				}
			}
		}
		return out
	}
	read := fieldsOf(pred, false)
	if len(read) == 0 {
		return "", false
	}
	pk := fnPkg(pred)
	if pk == nil {
		return "", false
	}
	var writers []*ssa.Function
	seenW := map[string]bool{}
	for _, fn := range p.Funcs {
		if fpk := fnPkg(fn); fpk == nil || fpk.Pkg.Path() != pk.Pkg.Path() || fn.Parent() != nil || fn.Signature.Recv() == nil {
			continue
		}
		w := fieldsOf(fn, true)
		hit := false
		for f := range read {
			if w[f] {
				hit = true
			}
		}
		// restoring the persisted cache is not a new mark
		restores := callsNamed(fn, func(n string) bool { return strings.HasPrefix(n, "os.") || strings.Contains(n, "encoding/gob") })
		if hit && !restores && !seenW[genericName(fnName(fn))] {
			seenW[genericName(fnName(fn))] = true
			writers = append(writers, fn)
		}
	}
	if len(writers) == 0 {
		return "", false
	}
	// functions reachable from the retrieval loops
	producer := map[*ssa.Function]bool{}
	var walk func(fn *ssa.Function, d int)
	walk = func(fn *ssa.Function, d int) {
		if producer[fn] || d > 8 {
			return
		}
		producer[fn] = true
		for _, cal := range staticCalleesOf(p, fn) {
			walk(cal, d+1)
		}
		for _, an := range fn.AnonFuncs {
			walk(an, d+1)
		}
	}
	for _, l := range []string{"RetrieveLoop", "HeaderStoreRetrieveLoop", "DataStoreRetrieveLoop"} {
		if f := p.Func(mgrM(l)); f != nil {
			walk(f, 0)
		}
	}
	var names []string
	for _, w := range writers {
		names = append(names, fnShort(w))
		gn := genericName(fnName(w))
		for _, fn := range p.Funcs {
			fpk := fnPkg(fn)
			if fpk == nil || fpk.Pkg.Path() != rootPath+"/block" {
				continue
			}
			calls := callsNamed(fn, func(n string) bool { return n == gn })
			top := fn
			for top.Parent() != nil {
				top = top.Parent()
			}
			if calls && (producer[fn] || producer[top]) {
				return "", false
			}
		}
	}
	sort.Strings(names)
	return "written by " + strings.Join(names, ", ") + ", never called from the retrieval loops", true
}

// ruleHelperSequential (C09-R11 / C20-R12): the retrieval helper returns the blobs of a height in
// the order of the listed ids; the based sequencer releases them in that order, and the ids it
// hands out alongside must line up with them. Chunks fetched by concurrent goroutines that append
// as they complete land in completion order. The helper (and everything it expands to inside the
// types package) therefore starts no goroutine: the chunks are fetched one after the other.
func ruleHelperSequential(c *Check, p *Prog, rule string) {
	c.Doc(rule, "CS: the DA retrieval helper starts no goroutine that appends to a slice it shares with the others (a `go` statement, directly or in a function of its package it calls, whose body stores append(…) into a captured variable): the blobs of a height are collected in the order of the listed ids, which concurrent chunk fetches appending on completion do not keep (a goroutine writing its own slot of a pre-sized slice is fine).")
	fn := p.MustFunc(typesF("RetrieveWithHelpers"))
	g := BuildECFG(p, fn, ownPkgOpts(rootPath+"/types", 2))
	c.NoteGraph(g)
	// a goroutine that appends to a shared slice collects in completion order; one that writes
	// its own slot of a pre-sized slice does not
	appendsShared := func(body *ssa.Function) bool {
		fns := append([]*ssa.Function{body}, body.AnonFuncs...)
		for _, bf := range fns {
			for _, b := range bf.Blocks {
				for _, in := range b.Instrs {
					st, ok := in.(*ssa.Store)
					if !ok {
						continue
					}
					if _, captured := st.Addr.(*ssa.FreeVar); !captured {
						continue
					}
					if call, isCall := st.Val.(*ssa.Call); isCall {
						if bi, isB := call.Common().Value.(*ssa.Builtin); isB && bi.Name() == "append" {
							return true
						}
					}
				}
			}
		}
		return false
	}
	var gos []string
	consider := func(gi *ssa.Go, where *ssa.Function) {
		body, _ := gi.Common().Value.(*ssa.MakeClosure)
		if body == nil {
			if sf := gi.Common().StaticCallee(); sf != nil && sf.Blocks != nil && !appendsShared(sf) {
				return
			}
			gos = append(gos, fnShort(where)+"@"+p.InstrPos(gi))
			return
		}
		if bf, _ := body.Fn.(*ssa.Function); bf != nil && !appendsShared(bf) {
			return
		}
		gos = append(gos, fnShort(where)+"@"+p.InstrPos(gi))
	}
	for _, nd := range g.Nodes {
		if gi, ok := nd.In.(*ssa.Go); ok && nd.Kind == NInstr {
			consider(gi, nd.Ctx.Fn)
		}
	}
	// closures of the helper are part of it
	for _, af := range fn.AnonFuncs {
		for _, b := range af.Blocks {
			for _, in := range b.Instrs {
				if gi, ok := in.(*ssa.Go); ok {
					consider(gi, af)
				}
			}
		}
	}
	sort.Strings(gos)
	inst := "RetrieveWithHelpers ⟂ sequential"
	if len(gos) == 0 {
		c.OK(rule, inst, fnName(fn), p.Pos(fn.Pos()), "no goroutine that appends to a shared slice is started while the blobs of a height are collected", true)
	} else {
		c.Bad(rule, inst, fnName(fn), p.Pos(fn.Pos()), "the retrieval helper starts goroutines ("+strings.Join(gos, ", ")+"): blobs fetched concurrently are collected in completion order, not in the order of the ids — a height with more blobs than one chunk is released out of DA order and the ids handed out with a batch no longer belong to its transactions", nil)
	}
	c.MinInstances(rule, 1)
}

// ruleAdmissionRejectsOnlyForgeries (C09-R12): "every genuine header and data blob at an examined
// height is handed to sync" — genuine means signed by the genesis proposer, whatever the kind of
// its key. The predicates by which the DA handlers give a decoded item up (a bool function of the
// block package applied to the item) therefore reject only for what makes an item not genuine or
// not decodable: a missing part (nil / no transactions), a signer that is not the genesis
// proposer, a key mismatch, a failed encoding, a signature that does not verify, a failed
// validation of the repository's types. Any other rejecting condition — the signature's length,
// a key type, a size — drops genuine items of some chains for good (the scan moves on).
func ruleAdmissionRejectsOnlyForgeries(c *Check, p *Prog, rule string) {
	c.Doc(rule, "FS: every rejecting alternative of an admission predicate the DA handlers apply to a decoded item (a bool function of the block package on the item) contains a fact of an admissible kind: a nil / empty part, an address or key inequality, an error of an encoding / validation / verification call, or a false Verify. A rejection on anything else (e.g. the signature's length) refuses genuine items.")
	root := p.MustFunc(mgrM("RetrieveLoop"))
	rg := BuildECFG(p, root, ExpandOpts{MaxDepth: 5})
	preds := map[*ssa.Function]bool{}
	var hs []*ssa.Function
	seenH := map[*ssa.Function]bool{}
	for _, sn := range rg.Select(func(x *Node) bool { si := classifySink(x); return si != nil && si.what == "send" }) {
		// the handler and the helpers of the package it delegates decoding / admission to
		var add func(fn *ssa.Function, d int)
		add = func(fn *ssa.Function, d int) {
			if seenH[fn] || fn.Blocks == nil {
				return
			}
			seenH[fn] = true
			hs = append(hs, fn)
			if d >= 2 {
				return
			}
			for _, cal := range staticCalleesOf(p, fn) {
				if pk := fnPkg(cal); pk != nil && pk.Pkg.Path() == rootPath+"/block" {
					if res := cal.Signature.Results(); res.Len() == 1 && isBoolType(res.At(0).Type()) {
						continue // a predicate: examined, not descended into
					}
					add(cal, d+1)
				}
			}
		}
		add(sn.Ctx.Fn, 0)
	}
	for _, h := range hs {
		for _, b := range h.Blocks {
			for _, in := range b.Instrs {
				call, ok := in.(*ssa.Call)
				if !ok || call.Common().StaticCallee() == nil {
					continue
				}
				cal := call.Common().StaticCallee()
				pk := fnPkg(cal)
				if pk == nil || pk.Pkg.Path() != rootPath+"/block" || cal.Blocks == nil {
					continue
				}
				res := cal.Signature.Results()
				if res.Len() != 1 || !isBoolType(res.At(0).Type()) {
					continue
				}
				// applied to a decoded item
				onItem := false
				for _, a := range call.Common().Args {
					ts := a.Type().String()
					if strings.HasSuffix(ts, "types.SignedHeader") || strings.HasSuffix(ts, "types.SignedData") || strings.HasSuffix(ts, "types.Data") {
						onItem = true
					}
				}
				if onItem {
					preds[cal] = true
				}
			}
		}
	}
	var ps []*ssa.Function
	for f := range preds {
		ps = append(ps, f)
	}
	sort.Slice(ps, func(i, j int) bool { return fnName(ps[i]) < fnName(ps[j]) })
	var admissible func(f Fact) bool
	var predicateOK func(fn *ssa.Function, depth int) bool
	predicateOK = func(fn *ssa.Function, depth int) bool {
		// a predicate of the package all of whose rejecting alternatives are admissible
		if depth > 2 || fn.Blocks == nil {
			return false
		}
		alts := rejectAltsPerEdge(p, fn)
		if len(alts) == 0 {
			return false
		}
		for _, alt := range alts {
			ok := false
			for _, f := range alt {
				if admissible(f) {
					ok = true
				}
			}
			if !ok {
				return false
			}
		}
		return true
	}
	admissible = func(f Fact) bool {
		t, pol := normFact(f.Cond, f.Pol)
		s := t.String()
		if t.Op == "call" && !pol {
			if cv, ok := t.V.(*ssa.Call); ok {
				if cal := cv.Common().StaticCallee(); cal != nil && fnPkg(cal) != nil && fnPkg(cal).Pkg.Path() == rootPath+"/block" {
					if res := cal.Signature.Results(); res.Len() == 1 && isBoolType(res.At(0).Type()) && predicateOK(cal, 1) {
						return true // a guard moved into a predicate that itself rejects only forgeries
					}
				}
			}
		}
		switch {
		case t.Op == "bin" && (t.Name == "==" || t.Name == "!=") && (t.Args[1].unconv().Name == "nil" || t.Args[0].unconv().Name == "nil"):
			// a nil test of a part (== nil true) or an error result (!= nil true)
			if (t.Name == "==") == pol {
				return true // something is nil
			}
			for _, a := range t.Args {
				if a.V != nil && a.V.Type().String() == "error" {
					return true // an error is non-nil
				}
			}
			return false
		case (t.Op == "call" || t.Op == "invoke") && !pol:
			// a bool-valued check came out false: equality of addresses / keys, signature verification
			return strings.Contains(t.Name, "bytes.Equal") || strings.HasSuffix(t.Name, ").Equals") || strings.HasSuffix(t.Name, ").Verify") || strings.HasSuffix(t.Name, ").Equal")
		case t.Op == "extract" && !pol:
			return strings.Contains(s, ").Verify(")
		case t.Op == "bin" && t.Name == "==" && pol && strings.HasPrefix(t.Args[0].unconv().String(), "len(") && strings.HasSuffix(t.Args[0].unconv().String(), ".Txs)") && strings.HasPrefix(t.Args[1].unconv().Name, "0"):
			return true // no transactions
		}
		return false
	}
	n := 0
	for _, pf := range ps {
		alts := rejectAltsPerEdge(p, pf)
		if len(alts) == 0 {
			c.Unk(rule, fnShort(pf)+" ⟂ rejecting alternatives", fnName(pf), "", "the predicate has no rejecting alternative that could be read")
			continue
		}
		bad := ""
		for _, alt := range alts {
			ok := false
			for _, f := range alt {
				if admissible(f) {
					ok = true
				}
			}
			if os.Getenv("VERIF_DEBUG_C09") != "" {
				fmt.Fprintln(os.Stderr, "DBG alt", fnShort(pf), ok, strings.Join(factStrings(alt), " ; "))
			}
			if !ok {
				bad = strings.Join(factStrings(alt), " ; ")
			}
		}
		n++
		inst := fnShort(pf) + " ⟂ rejects only what is not genuine"
		if bad == "" {
			c.OK(rule, inst, fnName(pf), p.Pos(pf.Pos()), fmt.Sprintf("each of the %d rejecting alternatives is a missing part, a signer / key mismatch, a failed call or a failed verification", len(alts)), true)
		} else {
			c.Bad(rule, inst, fnName(pf), p.Pos(pf.Pos()), "the predicate rejects an item on a condition that says nothing about its authenticity ("+trunc(bad, 200)+"): genuine items of a chain that meets the condition (e.g. a proposer whose signatures are not 64 bytes long) are dropped at every scanned height, and the scan does not come back", nil)
		}
	}
	if n == 0 {
		c.Unk(rule, "admission predicates", "", "", "anchor lost: no bool predicate of the block package applied to a decoded item in the DA handlers")
	}
	c.MinInstances(rule, 2)
}

// rejectAltsPerEdge: the rejecting alternatives of a bool function, one per edge by which a
// `return false` block is entered (if a || b { return false } gives two alternatives), plus the
// alternatives of returns that compute their value (return a && b) as RejectDNF reads them.
func rejectAltsPerEdge(p *Prog, fn *ssa.Function) []FactSet {
	ctx := &Ctx{Fn: fn}
	g := BuildECFG(p, fn, ExpandOpts{MaxDepth: 0, RootCtx: ctx})
	var out []FactSet
	computed := false
	for _, x := range g.Exits {
		ret := x.In.(*ssa.Return)
		if len(ret.Results) != 1 {
			continue
		}
		k, isK := spilledResult(ret, 0).(*ssa.Const)
		if !isK {
			computed = true
			continue
		}
		if k.Value == nil || k.Value.String() != "false" {
			continue
		}
		head := g.heads[g.RootCtx][ret.Block()]
		if head == nil || len(head.Pred) == 0 {
			xx := x
			out = append(out, FactSet(g.NecessaryEdges(func(n *Node) bool { return n == xx })))
			continue
		}
		for _, pr := range head.Pred {
			pr := pr
			fs := FactSet(g.NecessaryEdges(func(n *Node) bool { return n == pr }))
			if pr.Kind == NTrue || pr.Kind == NFalse {
				if t, pol := CondTerm(pr); t != nil {
					fs = append(fs, Fact{Cond: t, Pol: pol})
				}
			}
			out = append(out, fs)
		}
	}
	_ = computed
	for _, x := range g.Exits {
		ret := x.In.(*ssa.Return)
		if len(ret.Results) != 1 {
			continue
		}
		v := spilledResult(ret, 0)
		if _, isK := v.(*ssa.Const); isK {
			continue
		}
		S := ret.Block()
		head := g.heads[g.RootCtx][S]
		phi, isPhi := v.(*ssa.Phi)
		if !isPhi || phi.Block() != S || head == nil {
			// a value computed elsewhere: false is one alternative
			xx := x
			fs := FactSet(g.NecessaryEdges(func(n *Node) bool { return n == xx }))
			out = append(out, append(fs, Fact{Cond: TermOf(v, ctx), Pol: false}))
			continue
		}
		for i, e := range phi.Edges {
			pb := S.Preds[i]
			for _, pr := range head.Pred {
				if pr.In == nil || pr.In.Block() != pb {
					continue
				}
				pr := pr
				fs := FactSet(g.NecessaryEdges(func(n *Node) bool { return n == pr }))
				if pr.Kind == NTrue || pr.Kind == NFalse {
					if t, pol := CondTerm(pr); t != nil {
						fs = append(fs, Fact{Cond: t, Pol: pol})
					}
				}
				if k, isK := e.(*ssa.Const); isK {
					if k.Value != nil && k.Value.String() == "true" {
						continue
					}
				} else {
					fs = append(fs, Fact{Cond: TermOf(e, ctx), Pol: false})
				}
				out = append(out, fs)
			}
		}
	}
	return out
}

// ruleBlobBytesBoundsChecked (C09-R14 = C03-R8 = C12-R12): a blob fetched from the DA layer is
// arbitrary bytes of arbitrary length (only the empty blob is filtered out). In the scan, taking
// a fixed-size prefix, suffix or element of it (bz[:8], bz[4], bz[len(bz)-2:]) is behind a
// comparison on its length; otherwise a blob shorter than that panics the scan goroutine — on
// every restart again, at the same DA height.
func ruleBlobBytesBoundsChecked(c *Check, p *Prog, rule string) {
	c.Doc(rule, "GA: in the DA scan (RetrieveLoop and what it calls in the repository, 6 deep) every slicing, indexing or slice-to-array conversion of a blob's raw bytes, or of a byte field of a header / data item decoded from it (an address, a hash, a signature: as long as the third party made it), is dominated by a relational test on that value's length; slicing by proto.Unmarshal and the decoders of the wire types is theirs (C12-R4).")
	rl := p.MustFunc(mgrM("RetrieveLoop"))
	g := BuildECFG(p, rl, ExpandOpts{MaxDepth: 6})
	c.NoteGraph(g)
	isBlob := func(t *Term) bool {
		if t == nil || t.Op != "index" || len(t.Args) != 2 || t.Args[0].Op != "field" || t.Args[0].Name != "Data" || len(t.Args[0].Args) == 0 {
			return false
		}
		b := t.Args[0].Args[0]
		return b.V != nil && strings.Contains(b.V.Type().String(), "ResultRetrieve")
	}
	n, nBlobUses := 0, 0
	seen := map[string]bool{}
	for _, nd := range g.Nodes {
		if !g.Live()[nd] || nd.Kind != NInstr {
			continue
		}
		pk := fnPkg(nd.Ctx.Fn)
		if pk == nil || pk.Pkg.Path() != rootPath+"/block" {
			continue
		}
		var x ssa.Value
		what := ""
		switch in := nd.In.(type) {
		case *ssa.Slice:
			if in.Low != nil || in.High != nil {
				x, what = in.X, "sliced"
			}
		case *ssa.IndexAddr:
			x, what = in.X, "indexed"
		case *ssa.Index:
			x, what = in.X, "indexed"
		case *ssa.SliceToArrayPointer:
			x, what = in.X, "converted to an array"
		}
		if x == nil {
			continue
		}
		if st, ok := x.Type().Underlying().(*types.Slice); !ok {
			continue
		} else if bt, ok := st.Elem().Underlying().(*types.Basic); !ok || bt.Kind() != types.Byte {
			continue
		}
		base := TermOf(x, nd.Ctx)
		if os.Getenv("VERIF_DEBUG_C09") != "" {
			fmt.Fprintf(os.Stderr, "DBG blob? %s %s\n", p.InstrPos(nd.In), trunc(base.String(), 200))
		}
		// besides the raw blob: the byte fields of an item decoded from it (an address, a hash, a
		// signature, a transaction) are as long as the third party made them
		decodedField := false
		if bu := base.unconv(); !isBlob(base) && bu.Op == "field" && len(bu.Args) > 0 {
			for r := bu; r != nil && !decodedField; {
				if r.V != nil && (strings.Contains(r.V.Type().String(), "types.SignedHeader") || strings.Contains(r.V.Type().String(), "types.SignedData") || strings.Contains(r.V.Type().String(), "types.Data") || strings.Contains(r.V.Type().String(), "types.Header")) {
					decodedField = true
				}
				if (r.Op == "field" || r.Op == "index" || r.Op == "conv" || r.Op == "load") && len(r.Args) > 0 {
					r = r.Args[0]
				} else {
					r = nil
				}
			}
		}
		if !isBlob(base) && !decodedField {
			continue
		}
		if decodedField {
			what = "(a byte field of a decoded item: " + trunc(base.String(), 50) + ") " + what
		}
		nBlobUses++
		key := p.InstrPos(nd.In)
		if seen[key] {
			continue
		}
		seen[key] = true
		n++
		guarded := false
		bs := "len(" + base.String() + ")"
		for _, f := range g.FactsAt(nodeSet([]*Node{nd}), 2) {
			t := f.Cond
			if t.Op == "bin" && (t.Name == "<" || t.Name == "<=" || t.Name == ">" || t.Name == ">=") && strings.Contains(t.String(), bs) {
				guarded = true
			}
		}
		inst := fnShort(nd.Ctx.Fn) + " ⟂ blob bytes " + what + " under a length test @" + key
		if guarded {
			c.OK(rule, inst, fnName(nd.Ctx.Fn), key, "dominated by a comparison on the blob's length", true)
		} else {
			c.Bad(rule, inst, fnName(nd.Ctx.Fn), key, "the raw bytes of a DA blob are "+what+" without a dominating test on their length: a junk blob shorter than that panics the scan goroutine (no recover), and after the restart the scan meets the same blob at the same DA height again — the node never gets past it", nil)
		}
	}
	if n == 0 {
		c.OK(rule, "scan ⟂ blob bytes only handed on whole", fnName(rl), p.Pos(rl.Pos()), "no function of the block package slices or indexes a blob's raw bytes in the scan", true)
	}
}

// ruleFetchedHeightIsExamined (C09-R15): a DA height that was fetched successfully is examined —
// every blob of it goes to the handlers — before the scan moves on. After the success edge of the
// fetch the only non-error return that does not pass the loop over the blobs is the "nothing at
// this height" answer of the DA layer itself; a shortcut on metadata of the DA block (its
// timestamp against the genesis time, its size, its proposer) skips blobs that are there: the DA
// block's clock is not the chain's, and the first blocks of a chain can sit in a DA block stamped
// before the genesis time.
func ruleFetchedHeightIsExamined(c *Check, p *Prog, rule string) {
	c.Doc(rule, "EO: in the function that fetches a DA height, every path from the success edge of the fetch to a non-error return passes the head of the loop over the fetched blobs, or the edge on which the DA layer's own status says NotFound: no early return on other grounds.")
	var fn *ssa.Function
	for _, f := range funcsCalling(p, rootPath+"/block", func(n string) bool { return strings.HasSuffix(n, "block.Manager).fetchBlobs") }) {
		if f.Parent() == nil {
			fn = f
		}
	}
	if fn == nil {
		c.Unk(rule, "scan step", "", "", "anchor lost: the function that fetches a DA height")
		return
	}
	g := BuildECFG(p, fn, ownPkgOpts(rootPath+"/block", 1))
	c.NoteGraph(g)
	fetchOK := g.Select(ErrNilEdge(func(t *Term) bool { return t.IsCall("block.Manager).fetchBlobs") }))
	consts := enumConsts(p, daPkg, "StatusCode")
	nf := fmt.Sprint(consts["StatusNotFound"])
	notFound := g.Select(EdgeWhere(func(t *Term, pol bool, _ *Node) bool {
		t, pol = normFact(t, pol)
		return pol && t.Op == "bin" && t.Name == "==" && len(t.Args) == 2 && strings.HasSuffix(t.Args[0].unconv().String(), ".Code") && t.Args[1].unconv().Name == nf
	}))
	handlers := g.Select(func(x *Node) bool {
		cn := CallName(x)
		return strings.HasSuffix(cn, "block.Manager).handlePotentialHeader") || strings.HasSuffix(cn, "block.Manager).handlePotentialData")
	})
	if len(fetchOK) == 0 || len(handlers) == 0 {
		c.Unk(rule, fnShort(fn)+" ⟂ fetched height is examined", fnName(fn), "", fmt.Sprintf("anchor lost: %d checked fetches, %d hand-overs to the blob handlers", len(fetchOK), len(handlers)))
		return
	}
	var heads []*Node
	for _, h := range handlers {
		if hb := loopHeaderOf(h.In.Block()); hb != nil {
			if hn := g.headNode(h.Ctx, hb); hn != nil {
				heads = append(heads, hn)
			}
		}
	}
	if len(heads) == 0 {
		c.Unk(rule, fnShort(fn)+" ⟂ fetched height is examined", fnName(fn), "", "anchor lost: the loop over the fetched blobs")
		return
	}
	okExits := g.Select(g.SuccessExits())
	c.Decide(rule, fnShort(fn)+" ⟂ fetched height is examined", fnName(fn), p.InstrPos(fetchOK[0].In), "after a successful fetch the step returns without error only through the loop over the blobs or the DA layer's NotFound",
		"after a height was fetched successfully the step can return without error and without looking at its blobs (an early return on something other than the DA layer's NotFound status — the DA block's timestamp, for example): the scan moves past the height, and genuine headers and data that sit there are never handed to sync", g,
		g.PathAvoiding(fetchOK, nodeSet(okExits), orPred(nodeSet(notFound), nodeSet(heads))))
}
