package main

import (
	"encoding/json"
	"fmt"
	"os"
	"os/exec"
	"path/filepath"
	"sort"
	"strings"
	"time"
)

// Checker validation (thorough tier): every stored variant patch for this property — the
// reverse of a fix: commit, or a seeded change — is applied to a scratch copy of the current
// tree under $TMPDIR, the property's quick rules are re-run on the copy in a fresh process, and
// the expected rule must report a violation. A patch that no longer applies is skipped (the tree
// under test may legitimately differ); a patch that applies and is not detected makes the check
// fail as broken.

type variant struct {
	ID         string `json:"id"`
	Patch      string `json:"patch"`
	Property   string `json:"property"`
	ExpectRule string `json:"expect_rule"`
	What       string `json:"what"`
}

type variantResult struct {
	ID       string   `json:"id"`
	Expect   string   `json:"expect_rule"`
	Outcome  string   `json:"outcome"` // detected | missed | skipped
	Violated []string `json:"violated_rules,omitempty"`
	Seconds  float64  `json:"seconds"`
}

func runVariants(c *Check) []variantResult {
	root := filepath.Dir(variantsDir)
	b, err := os.ReadFile(filepath.Join(variantsDir, "index.json"))
	if err != nil {
		return nil
	}
	var all []variant
	if err := json.Unmarshal(b, &all); err != nil {
		fatalBroken("variants index: %v", err)
	}
	var out []variantResult
	self, _ := os.Executable()
	for _, v := range all {
		if v.Property != c.Prop {
			continue
		}
		t0 := time.Now()
		res := variantResult{ID: v.ID, Expect: v.ExpectRule}
		// one scratch directory per property, reused for all its variants: the Go build cache keys
		// packages of the main module by their directory, so a fresh directory per variant would add
		// a full set of cache entries each time
		tmp := filepath.Join(os.TempDir(), "verif-variant-"+c.Prop)
		os.RemoveAll(tmp)
		if err := os.MkdirAll(tmp, 0o755); err != nil {
			fatalBroken("variants: %v", err)
		}
		func() {
			defer os.RemoveAll(tmp)
			scratch := filepath.Join(tmp, "repo")
			if o, err := exec.Command("rsync", "-a", "--exclude", ".git", c.W.Repo+"/", scratch+"/").CombinedOutput(); err != nil {
				fatalBroken("variants: rsync: %v %s", err, o)
			}
			ap := exec.Command("patch", "-p1", "-s", "--no-backup-if-mismatch", "-i", filepath.Join(root, v.Patch))
			ap.Dir = scratch
			if _, err := ap.CombinedOutput(); err != nil {
				res.Outcome = "skipped"
				return
			}
			ev := filepath.Join(tmp, "ev.json")
			cmd := exec.Command(self, "-prop", c.Prop, "-tier", "quick", "-repo", scratch, "-out", ev, "-known", filepath.Join(tmp, "no-known-findings.json"), "-replay-out", filepath.Join(tmp, "replay.json"), "-variants", variantsDir)
			cmd.Run() // exit status 1 is expected
			eb, err := os.ReadFile(ev)
			if err != nil {
				res.Outcome = "missed"
				return
			}
			var e struct {
				Coverage struct {
					Samples []Obligation `json:"samples"`
				} `json:"coverage"`
			}
			json.Unmarshal(eb, &e)
			set := map[string]bool{}
			for _, o := range e.Coverage.Samples {
				if o.Verdict == Violated || o.Verdict == Undecided {
					set[o.Rule] = true
				}
			}
			for r := range set {
				res.Violated = append(res.Violated, r)
			}
			sort.Strings(res.Violated)
			if set[v.ExpectRule] {
				res.Outcome = "detected"
			} else {
				res.Outcome = "missed"
			}
		}()
		res.Seconds = time.Since(t0).Seconds()
		out = append(out, res)
		if res.Outcome == "missed" {
			c.Unk("variants", "variant "+v.ID, "", v.Patch, fmt.Sprintf("checker validation failed: the variant applies but rule %s did not report it (violated: %s) — the check is broken, nothing it reports should be believed", v.ExpectRule, strings.Join(res.Violated, ",")))
		}
	}
	return out
}
