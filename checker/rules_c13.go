package main

import (
	"fmt"
	"go/token"
	"go/types"
	"sort"
	"strings"

	"golang.org/x/tools/go/ssa"
)

func init() {
	register("C13", &propDef{
		run: runC13,
		explanation: "Decides: R1 (lockset) every field of the block manager that is written after construction and reachable from more than one worker root or from the exported API is of a self-synchronising type or is accessed with one common mutex held at every access (lock held locally or at every call site, fix-point); " +
			"R2 (blocking-operation audit) every channel send, channel receive, blocking select, time.Sleep and WaitGroup/Cond wait in the code reachable from the nine worker roots is interruptible by the root's context (a select with a ctx.Done case) or provably non-blocking (select with default; error-channel send covered by R3); " +
			"R3 the error channel's constant capacity is at least the number of workers of a mode that can send on it, each of which sends at most once, or every send is in a select with ctx.Done; " +
			"R4 every outermost loop of a worker root passes, on every cycle, a select that has a ctx.Done case leading to return; R5 in Run every worker is started through the wait-group wrapper (Add before go, deferred Done), cancellation precedes wg.Wait, and wg.Wait precedes Store.Close.",
		notDecided:  "Races inside libraries; that C01/C02/C06/C07 hold on every interleaving (their clauses are interleaving-independent, nothing more is claimed); promptness in seconds: calls into libraries that take the root's context are assumed to honour it; lock-order deadlocks.",
		assumptions: []string{"store, executor, sequencer, DA, logger, P2P stores, metrics and broadcaster implementations are thread-safe and honour the context passed to them", "sync/atomic, sync.Map, sync.Mutex semantics", "go/ssa"},
	})
}

type workerRoot struct {
	fn   *ssa.Function // the exported loop
	mode string        // "aggregator" | "full" | "both"
	errC bool          // takes the error channel
}

// workerRoots finds the functions started as workers in (*FullNode).Run. A worker is started by a
// go statement whose closure defers wg.Done and calls a function value: the parameter of a
// wait-group wrapper (spawnWorker(func() { … })), or an element of a table of closures walked by
// a loop in Run itself. spawn is the function that holds that go statement (the wrapper, or Run).
func workerRoots(c *Check, p *Prog) (run *ssa.Function, roots []workerRoot, spawn *ssa.Function) {
	run = p.MustFunc("(*" + rootPath + "/node.FullNode).Run")
	defersDone := func(body *ssa.Function) bool {
		if body == nil || len(body.Blocks) == 0 {
			return false
		}
		for _, in := range body.Blocks[0].Instrs {
			if d, ok := in.(*ssa.Defer); ok && commonName(d.Common()) == "(*sync.WaitGroup).Done" {
				return true
			}
		}
		return false
	}
	var spawnGo *ssa.Go
	hosts := append([]*ssa.Function{run}, run.AnonFuncs...)
	for _, h := range hosts {
		for _, b := range h.Blocks {
			for _, in := range b.Instrs {
				gi, ok := in.(*ssa.Go)
				if !ok {
					continue
				}
				if mc, ok := gi.Common().Value.(*ssa.MakeClosure); ok {
					if body, _ := mc.Fn.(*ssa.Function); defersDone(body) {
						spawn, spawnGo = h, gi
					}
				}
			}
		}
	}
	if spawn == nil {
		return
	}
	_ = spawnGo
	// call sites of the wrapper in Run: argument closures
	aggBlockDom := func(b *ssa.BasicBlock) string {
		// classify by the dominating test on ...Node.Aggregator
		for d := b; d != nil; d = d.Idom() {
			if ifi, ok := d.Instrs[len(d.Instrs)-1].(*ssa.If); ok {
				t := TermOf(ifi.Cond, &Ctx{Fn: run})
				if t.Op == "field" && t.Name == "Aggregator" {
					if d.Succs[0].Dominates(b) {
						return "aggregator"
					}
					if d.Succs[1].Dominates(b) {
						return "full"
					}
				}
			}
		}
		return "both"
	}
	addWorker := func(cl *ssa.MakeClosure, at *ssa.BasicBlock) {
		body := cl.Fn.(*ssa.Function)
		for _, bb := range body.Blocks {
			for _, bi := range bb.Instrs {
				if cc, ok := bi.(*ssa.Call); ok {
					if callee := cc.Common().StaticCallee(); callee != nil && p.InRepo(callee) {
						wr := workerRoot{fn: callee, mode: aggBlockDom(at)}
						for _, prm := range callee.Params {
							if ch, ok := prm.Type().Underlying().(*types.Chan); ok && ch.Elem().String() == "error" {
								wr.errC = true
							}
						}
						roots = append(roots, wr)
					}
				}
			}
		}
	}
	if spawn != run {
		for _, b := range run.Blocks {
			for _, in := range b.Instrs {
				call, ok := in.(*ssa.Call)
				if !ok {
					continue
				}
				mc, ok := call.Common().Value.(*ssa.MakeClosure)
				if !ok || mc.Fn != ssa.Value(spawn) {
					// spawnWorker is a local variable: the call value is a load of its alloc
					if u, isU := call.Common().Value.(*ssa.UnOp); isU {
						if al, isA := u.X.(*ssa.Alloc); isA {
							found := false
							for _, r := range *al.Referrers() {
								if st, isS := r.(*ssa.Store); isS {
									if m2, isM := st.Val.(*ssa.MakeClosure); isM && m2.Fn == ssa.Value(spawn) {
										found = true
									}
								}
							}
							if !found {
								continue
							}
						} else {
							continue
						}
					} else {
						continue
					}
				}
				for _, a := range call.Common().Args {
					if cl, ok := a.(*ssa.MakeClosure); ok {
						addWorker(cl, b)
					}
				}
			}
		}
	} else {
		// a table of closures: every parameterless closure literal of Run stored into an element of
		// a local array / slice of func()
		for _, b := range run.Blocks {
			for _, in := range b.Instrs {
				st, ok := in.(*ssa.Store)
				if !ok {
					continue
				}
				cl, ok := st.Val.(*ssa.MakeClosure)
				if !ok {
					continue
				}
				if _, isElem := st.Addr.(*ssa.IndexAddr); !isElem {
					continue
				}
				if sig, ok := cl.Type().Underlying().(*types.Signature); !ok || sig.Params().Len() != 0 || sig.Results().Len() != 0 {
					continue
				}
				addWorker(cl, b)
			}
		}
	}
	sort.Slice(roots, func(i, j int) bool { return roots[i].fn.String() < roots[j].fn.String() })
	return
}

func runC13(c *Check) {
	p := c.Mod(ModRoot)
	c.Doc("C13-R1", "LS: lockset of the manager's shared fields.")
	c.Doc("C13-R2", "BO: blocking operations reachable from the worker roots.")
	c.Doc("C13-R3", "CT+CS+EO: error channel capacity vs senders.")
	c.Doc("C13-R4", "GA: ctx.Done select on every cycle of the outermost loop of each root.")
	c.Doc("C13-R5", "EO: join discipline in Run.")
	depth := 7
	if c.Thorough() {
		depth = 10
	}
	run, roots, spawn := workerRoots(c, p)
	if spawn == nil || len(roots) < 9 {
		c.Unk("C13-R5", "Run ⟂ worker-roots", fnName(run), "", fmt.Sprintf("anchor lost: wait-group wrapper or worker roots not found (%d roots, 10 start sites confirmed by hand)", len(roots)))
		return
	}
	// distinct roots
	seenRoot := map[*ssa.Function]bool{}
	var distinct []workerRoot
	for _, r := range roots {
		if !seenRoot[r.fn] {
			seenRoot[r.fn] = true
			distinct = append(distinct, r)
		}
	}

	// ---- R3 first (R2 uses its verdict)
	errChOK := ruleErrCh(c, p, run, roots)

	// ---- R2 + R4 per root; collect reachable function sets for R1
	reach := map[*ssa.Function]map[*ssa.Function]bool{}
	for _, r := range distinct {
		g := BuildECFG(p, r.fn, ExpandOpts{MaxDepth: depth})
		c.NoteGraph(g)
		for _, u := range g.Undecided {
			c.Unk("C13-R2", "graph:"+fnShort(r.fn), fnName(r.fn), "", u)
		}
		set := map[*ssa.Function]bool{}
		live := g.Live()
		seenOp := map[ssa.Instruction]bool{}
		for _, n := range g.Nodes {
			if !live[n] || n.Kind != NInstr || n.In == nil {
				continue
			}
			set[n.Ctx.Fn] = true
			if seenOp[n.In] {
				continue
			}
			kind, detail, ok, why := blockingOp(g, n, errChOK)
			if kind == "" {
				continue
			}
			seenOp[n.In] = true
			inst := fnShort(r.fn) + " ⟂ " + kind + " in " + genericName(fnShort(n.Ctx.Fn)) + " ⟂ " + detail
			if ok {
				c.OK("C13-R2", inst, fnName(n.Ctx.Fn), p.InstrPos(n.In), why, true)
			} else {
				c.Bad("C13-R2", inst, fnName(n.Ctx.Fn), p.InstrPos(n.In), why+": a stop request at the wrong moment leaves this worker blocked and wg.Wait in Run never returns", nil)
			}
		}
		reach[r.fn] = set
		ruleLoopChecksContext(c, p, r.fn)
	}
	c.MinInstances("C13-R2", 20)
	c.MinInstances("C13-R4", 9)

	ruleJoinDiscipline(c, p, run, spawn)
	ruleLockset(c, p, distinct, reach)
	c.Doc("C13-R6", "VP+EO: contexts handed to other layers derive from the worker's context parameter.")
	ruleContextProvenance(c, p, distinct, depth)
	c.Doc("C13-R8", "EO: every loop that waits on a one-shot timer (time.NewTimer) re-arms that timer on every path that leads back to the wait; a path without Reset parks the loop for good (a ticker needs no re-arming).")
	ruleTimersRearmed(c, p, "C13-R8")
	c.Doc("C13-R9", "GA: every unbounded loop (no collection or counter bounds it) in the block package whose body calls another layer (executor, store, DA, sequencer) passes a context check on every cycle: a backlog worked off inside one call must not outlive the stop request.")
	ruleUnboundedLoopsCheckContext(c, p, "C13-R9")
	ruleWorkersStartNoStrayGoroutines(c, p, "C13-R10")
	c.Doc("C13-R7", "EO (pairing): every mutex acquisition in the node's packages and the sequencing layer is released on every path to a return (a leaked lock parks the loops that share it in Lock(), which no stop request can interrupt).")
	ruleLockPairing(c, "C13-R7", []*Prog{p, c.Mod(ModSingle)})
	c.Doc("C13-R11", "LS (guarded-by): in every struct of the repository that owns a mutex (other than the block manager, C13-R1), a field that some function writes with the mutex held is accessed with that mutex held everywhere outside construction (locally or at every call site of the enclosing helper): a lock-free read or write of such a field races with the guarded writers.")
	ruleStructLocksets(c, "C13-R11", []*Prog{p, c.Mod(ModSingle), c.Mod(ModDA), c.Mod(ModTestapp), c.Mod(ModBased)})
	c.MinInstances("C13-R11", 8)
	c.Doc("C13-R12", "CS: no package-level variable of the repository's packages is written after initialisation (store, element store, map update), and none holds a stateful object (interface value other than error, pointer to another module's type, not built by a constructor known to be safe for concurrent use) on which methods are invoked at run time: package-level state is shared by every worker loop and library goroutine.")
	ruleNoSharedPackageState(c, "C13-R12", []*Prog{p, c.Mod(ModSingle), c.Mod(ModDA), c.Mod(ModTestapp), c.Mod(ModBased)})
	c.MinInstances("C13-R12", 20)
	{
		var rfs []*ssa.Function
		for _, r := range distinct {
			rfs = append(rfs, r.fn)
		}
		ruleMetricsPreBound(c, p, "C13-R13", rfs, depth)
		c.MinInstances("C13-R13", 9)
	}
	c.Doc("C13-R14", "LS: every implementation of the sequencing, execution, DA and signer interfaces in the repository — entered by several of the node's goroutines at once — keeps no plain mutable state: each field written after construction is of a self-synchronising type or is written with the type's mutex held (R11 then covers its other accesses).")
	ruleLayerImplsSynchronised(c, "C13-R14", []*Prog{p, c.Mod(ModSingle), c.Mod(ModDA), c.Mod(ModTestapp), c.Mod(ModBased)})
	c.MinInstances("C13-R14", 6)
	rulePooledMemoryNotReturned(c, "C13-R15", []*Prog{p, c.Mod(ModSingle), c.Mod(ModDA), c.Mod(ModTestapp), c.Mod(ModBased)})
	ruleWorkerEndsOnlyStoppedOrReported(c, p, "C13-R16", []string{"DAIncluderLoop", "SyncLoop", "AggregationLoop"})
	ruleNoStaleReadAcrossUnlock(c, "C13-R17", []*Prog{p, c.Mod(ModSingle), c.Mod(ModDA), c.Mod(ModTestapp), c.Mod(ModBased), c.Mod(ModCore)})
	ruleSignalTakenOnlyAtTheWait(c, p, "C13-R18")
	c.MinInstances("C13-R16", 3)
}

// blockingOp classifies node n. kind == "" if it is not a blocking operation.
func blockingOp(g *Graph, n *Node, errChOK bool) (kind, detail string, ok bool, why string) {
	cancellable := func(t *Term) bool {
		return t.Op == "invoke" && t.Name == "(context.Context).Done" && !strings.Contains(t.String(), "context.Background()")
	}
	switch in := n.In.(type) {
	case *ssa.Send:
		ch := TermOf(in.Chan, n.Ctx)
		detail = chanName(ch)
		if ct, isC := in.Chan.Type().Underlying().(*types.Chan); isC && ct.Elem().String() == "error" {
			if errChOK {
				return "send", detail, true, "send on the error channel: cannot block (C13-R3: capacity >= senders, each sends once)"
			}
			return "send", detail, false, "plain send on the error channel, whose capacity is smaller than the number of workers that may send (C13-R3)"
		}
		return "send", detail, false, "unconditional channel send on " + detail + " (a full channel whose consumer has stopped blocks forever)"
	case *ssa.UnOp:
		if in.Op != token.ARROW {
			return "", "", false, ""
		}
		ch := TermOf(in.X, n.Ctx)
		detail = chanName(ch)
		if cancellable(ch) {
			return "recv", detail, true, "receive from the context's Done channel"
		}
		return "recv", detail, false, "unconditional channel receive from " + detail
	case *ssa.Select:
		if !in.Blocking {
			return "", "", false, "" // select with default never blocks
		}
		var names []string
		has := false
		for _, st := range in.States {
			t := TermOf(st.Chan, n.Ctx)
			names = append(names, chanName(t))
			if st.Dir == types.RecvOnly && cancellable(t) {
				has = true
			}
		}
		detail = "select[" + strings.Join(names, ",") + "]"
		if has {
			return "select", detail, true, "blocking select with a ctx.Done case"
		}
		return "select", detail, false, "blocking select without a ctx.Done case"
	case *ssa.Call, deferredCall:
		cn := CallName(n)
		switch cn {
		case "time.Sleep":
			return "sleep", "time.Sleep", false, "time.Sleep cannot be interrupted by the context"
		case "(*sync.WaitGroup).Wait", "(*sync.Cond).Wait":
			return "wait", cn, false, cn + " cannot be interrupted by the context"
		case "(*golang.org/x/sync/errgroup.Group).Wait":
			return "wait", "errgroup.Wait", true, "errgroup.Wait for goroutines that only call context-taking library functions (assumed to honour the context)"
		}
	}
	return "", "", false, ""
}

func chanName(t *Term) string {
	switch t.Op {
	case "field":
		return t.Name
	case "invoke", "call":
		return genericName(t.Name)
	case "param":
		return t.Name
	}
	return trunc(genericName(t.String()), 40)
}

// ruleErrCh (C13-R3). Returns whether sends on the error channel are non-blocking.
func ruleErrCh(c *Check, p *Prog, run *ssa.Function, roots []workerRoot) bool {
	// the channel: make(chan error, K) in Run
	var mk *ssa.MakeChan
	for _, b := range run.Blocks {
		for _, in := range b.Instrs {
			if m, ok := in.(*ssa.MakeChan); ok && m.Type().Underlying().(*types.Chan).Elem().String() == "error" {
				mk = m
			}
		}
	}
	if mk == nil {
		c.Unk("C13-R3", "Run ⟂ errCh", fnName(run), "", "anchor lost: no make(chan error, …) in Run")
		return false
	}
	capK := int64(-1)
	if k, ok := mk.Size.(*ssa.Const); ok {
		capK = k.Int64()
	}
	per := map[string]int{}
	allOnce, allSelect := true, true
	seen := map[*ssa.Function]bool{}
	for _, r := range roots {
		if !r.errC {
			continue
		}
		per[r.mode]++
		if seen[r.fn] {
			continue
		}
		seen[r.fn] = true
		g := BuildECFG(p, r.fn, ExpandOpts{MaxDepth: 4})
		c.NoteGraph(g)
		isErrSend := func(n *Node) bool {
			s, ok := n.In.(*ssa.Send)
			if !ok {
				return false
			}
			ct, ok := s.Chan.Type().Underlying().(*types.Chan)
			return ok && ct.Elem().String() == "error"
		}
		sends := g.Select(isErrSend)
		if len(sends) > 0 {
			allSelect = false
			path := g.PathAvoiding(sends, isErrSend, nil)
			if path != nil {
				allOnce = false
			}
			c.Decide("C13-R3", fnShort(r.fn)+" ⟂ sends-at-most-once", fnName(r.fn), p.InstrPos(sends[0].In), "after sending on the error channel the worker returns without sending again",
				"a worker can send on the error channel more than once", g, path)
		}
		// sends inside selects with ctx.Done are fine; count them
		for _, n := range g.Select(func(n *Node) bool {
			s, ok := n.In.(*ssa.Select)
			if !ok {
				return false
			}
			for _, st := range s.States {
				if ct, ok := st.Chan.Type().Underlying().(*types.Chan); ok && st.Dir == types.SendOnly && ct.Elem().String() == "error" {
					return true
				}
			}
			return false
		}) {
			_ = n
		}
	}
	maxSenders := 0
	for m, k := range per {
		n := k
		if m != "both" {
			n += per["both"]
		}
		if n > maxSenders {
			maxSenders = n
		}
	}
	inst := "Run ⟂ errCh-capacity>=senders"
	switch {
	case allSelect:
		c.OK("C13-R3", inst, fnName(run), p.InstrPos(mk), "every send on the error channel is inside a select with ctx.Done", true)
		return true
	case capK >= int64(maxSenders) && allOnce:
		c.OK("C13-R3", inst, fnName(run), p.InstrPos(mk), fmt.Sprintf("capacity %d >= %d workers of a mode that can send, each at most once", capK, maxSenders), true)
		return true
	default:
		c.Bad("C13-R3", inst, fnName(run), p.InstrPos(mk), fmt.Sprintf("the error channel has capacity %d but up to %d workers of one mode send on it with plain sends (each at most once: %v); if the node is stopped by the parent context nobody receives, a second sender blocks forever and wg.Wait never returns", capK, maxSenders, allOnce), nil)
		return false
	}
}

// ruleLoopChecksContext (C13-R4).
func ruleLoopChecksContext(c *Check, p *Prog, root *ssa.Function) {
	g := BuildECFG(p, root, ExpandOpts{MaxDepth: 2, Stop: func(f *ssa.Function) bool { return false }})
	c.NoteGraph(g)
	// loop headers of the root function itself or of the single loop function it delegates to
	type loopAt struct {
		fn  *ssa.Function
		ctx *Ctx
		hdr *ssa.BasicBlock
	}
	var loops []loopAt
	ctxs := map[*Ctx]bool{}
	for _, n := range g.Nodes {
		if g.Live()[n] && n.Ctx != nil && (n.Ctx.Depth <= 1 || (n.Ctx.Depth == 2 && n.Ctx.Parent != nil && n.Ctx.Parent.Fn != nil && n.Ctx.Parent.Fn.Synthetic != "")) {
			ctxs[n.Ctx] = true // (depth 2 through a bound-method wrapper: "loop := m.lazyLoop; loop(ctx)")
		}
	}
	for cx := range ctxs {
		fn := cx.Fn
		for _, b := range fn.Blocks {
			// natural loop header: has a predecessor it dominates
			isHdr := false
			for _, pr := range b.Preds {
				if b.Dominates(pr) {
					isHdr = true
				}
			}
			if !isHdr {
				continue
			}
			// outermost: not inside another loop of the same function
			outer := true
			for _, o := range fn.Blocks {
				if o == b {
					continue
				}
				for _, pr := range o.Preds {
					if o.Dominates(pr) && o.Dominates(b) && blockReaches(b, pr, o) {
						outer = false
					}
				}
			}
			if outer {
				loops = append(loops, loopAt{fn, cx, b})
			}
		}
	}
	// only infinite-style worker loops matter: those containing a blocking select
	n := 0
	for _, l := range loops {
		head := g.headNode(l.ctx, l.hdr)
		if head == nil {
			continue
		}
		hasBlockingSelect := false
		for _, b := range l.fn.Blocks {
			if !l.hdr.Dominates(b) {
				continue
			}
			for _, in := range b.Instrs {
				if s, ok := in.(*ssa.Select); ok && s.Blocking {
					hasBlockingSelect = true
				}
			}
		}
		if !hasBlockingSelect {
			continue
		}
		n++
		doneSel := func(x *Node) bool {
			s, ok := x.In.(*ssa.Select)
			if !ok || x.Ctx != l.ctx {
				return false
			}
			for _, st := range s.States {
				t := TermOf(st.Chan, x.Ctx)
				if st.Dir == types.RecvOnly && t.Op == "invoke" && t.Name == "(context.Context).Done" {
					return true
				}
			}
			return false
		}
		inst := fnShort(root) + " ⟂ loop in " + fnShort(l.fn)
		// every cycle through the header passes a select with ctx.Done
		var succ []*Node
		succ = append(succ, head)
		// a cycle of this loop stays inside this activation of its function: leaving through a
		// return and coming back by way of the caller's loop is the caller's cycle
		leaves := func(x *Node) bool {
			_, isRet := x.In.(*ssa.Return)
			return isRet && x.Ctx == l.ctx && l.ctx.Depth > 0
		}
		path := g.PathAvoiding(succ, func(x *Node) bool { return x == head }, orPred(doneSel, leaves))
		if path != nil {
			c.Bad("C13-R4", inst+" ⟂ every-cycle-checks-ctx", fnName(l.fn), p.Pos(l.fn.Pos()), "a cycle of the worker's outermost loop does not pass a select with a ctx.Done case: the loop cannot be stopped there", g.DescribePath(path))
			continue
		}
		// the Done case leads to a return without re-entering the loop
		doneEdges := selectCaseEdges(g, func(t *Term) bool { return t.Op == "invoke" && t.Name == "(context.Context).Done" })
		var mine []*Node
		for _, e := range doneEdges {
			if e.Ctx == l.ctx && l.hdr.Dominates(e.In.Block()) {
				mine = append(mine, e)
			}
		}
		okRet := false
		for _, e := range mine {
			ee := e
			exits := func(x *Node) bool {
				_, isRet := x.In.(*ssa.Return)
				return isRet && x.Ctx == l.ctx
			}
			if g.PathAvoiding([]*Node{ee}, exits, func(x *Node) bool { return x == head }) != nil &&
				g.PathAvoiding([]*Node{ee}, func(x *Node) bool { return x == head }, exits) == nil {
				okRet = true
			}
		}
		if okRet {
			c.OK("C13-R4", inst+" ⟂ every-cycle-checks-ctx", fnName(l.fn), p.Pos(l.fn.Pos()), "every cycle passes a select with ctx.Done, whose case returns", true)
		} else {
			c.Bad("C13-R4", inst+" ⟂ every-cycle-checks-ctx", fnName(l.fn), p.Pos(l.fn.Pos()), "the ctx.Done case of the worker loop does not lead straight to a return", nil)
		}
	}
	if n == 0 {
		c.Unk("C13-R4", fnShort(root)+" ⟂ worker-loop", fnName(root), "", "anchor lost: no loop with a blocking select in the worker root or its direct callees")
	}
}

// ruleJoinDiscipline (C13-R5).
func ruleJoinDiscipline(c *Check, p *Prog, run, spawn *ssa.Function) {
	// wrapper: wg.Add before go; the goroutine defers wg.Done
	{
		g := BuildECFG(p, spawn, ExpandOpts{MaxDepth: 0})
		c.NoteGraph(g)
		adds := g.Select(IsCall("(*sync.WaitGroup).Add"))
		defersDone := func(n *Node) bool {
			gi, ok := n.In.(*ssa.Go)
			if !ok {
				return false
			}
			if mc, ok := gi.Common().Value.(*ssa.MakeClosure); ok {
				body := mc.Fn.(*ssa.Function)
				for _, b := range body.Blocks {
					for _, in := range b.Instrs {
						if d, ok := in.(*ssa.Defer); ok && commonName(d.Common()) == "(*sync.WaitGroup).Done" && b == body.Blocks[0] {
							return true
						}
					}
				}
			}
			return false
		}
		gos := g.Select(func(n *Node) bool { _, ok := n.In.(*ssa.Go); return ok })
		if spawn == run {
			// the table form: Run also starts the RPC server, which is stopped through Shutdown
			gos = g.Select(defersDone)
		}
		okAdd := len(adds) > 0 && len(gos) == 1 && g.MustPrecede(nodeSet(adds), nodeSet(gos)) == nil
		okDone := len(gos) == 1 && defersDone(gos[0])
		if okAdd && okDone {
			c.OK("C13-R5", "Run ⟂ wrapper: Add<go, deferred Done", fnName(spawn), p.Pos(spawn.Pos()), "workers are counted before they start and un-counted on every exit", true)
		} else {
			c.Bad("C13-R5", "Run ⟂ wrapper: Add<go, deferred Done", fnName(spawn), p.Pos(spawn.Pos()), fmt.Sprintf("the worker wrapper does not Add before go (%v) or does not defer Done first (%v): Run can close the store under a running worker", okAdd, okDone), nil)
		}
	}
	g := BuildECFG(p, run, ExpandOpts{MaxDepth: 0})
	c.NoteGraph(g)
	waits := g.Select(IsCall("(*sync.WaitGroup).Wait"))
	closes := g.Select(IsCall(storeM("Close")))
	cancels := g.Select(func(n *Node) bool {
		cc := CallCommonOf(n)
		if cc == nil || cc.IsInvoke() || cc.StaticCallee() != nil {
			return false
		}
		t := TermOf(cc.Value, n.Ctx)
		return strings.Contains(t.String(), "context.WithCancel(") && strings.HasSuffix(t.String(), "#1")
	})
	if len(waits) == 0 || len(closes) == 0 {
		c.Unk("C13-R5", "Run ⟂ Wait<Store.Close", fnName(run), "", "anchor lost: wg.Wait or Store.Close not found in Run")
		return
	}
	c.Decide("C13-R5", "Run ⟂ Wait<Store.Close", fnName(run), p.InstrPos(closes[0].In), "the store is closed only after all workers have returned",
		"the store can be closed while workers are still running", g, g.MustPrecede(nodeSet(waits), nodeSet(closes)))
	if len(cancels) == 0 {
		c.Bad("C13-R5", "Run ⟂ cancel<Wait", fnName(run), p.InstrPos(waits[0].In), "the node context is not cancelled before waiting for the workers", nil)
	} else {
		// a nil error is never sent on the error channel (every send in the program sends a
		// constructed error), so the `received error == nil` edge is infeasible
		allNonNil := true
		for _, fn := range p.Funcs {
			for _, b := range fn.Blocks {
				for _, in := range b.Instrs {
					if sd, ok := in.(*ssa.Send); ok {
						if ct, ok := sd.Chan.Type().Underlying().(*types.Chan); ok && ct.Elem().String() == "error" && fnPkg(fn) != nil && strings.HasPrefix(fnPkg(fn).Pkg.Path(), rootPath+"/block") {
							if classifyValueAt(sd.X, b) != rcA {
								allNonNil = false
							}
						}
					}
				}
			}
		}
		var infeasible []*Node
		if allNonNil {
			infeasible = g.Select(EdgeWhere(func(t *Term, pol bool, n *Node) bool {
				t, pol = normFact(t, pol)
				return t.Op == "bin" && t.Args[1].Name == "nil" && strings.Contains(t.Args[0].String(), "select") && ((t.Name == "!=" && !pol) || (t.Name == "==" && pol))
			}))
		}
		c.Decide("C13-R5", "Run ⟂ cancel<Wait", fnName(run), p.InstrPos(waits[0].In), "the workers' context is cancelled on every path to wg.Wait (a nil error is never sent on the error channel)",
			"wg.Wait is reachable without cancelling the workers' context: Run waits for workers nobody asked to stop", g, g.PathAvoiding([]*Node{g.Entry}, nodeSet(waits), orPred(nodeSet(cancels), nodeSet(infeasible))))
	}
	// no worker is started outside the wrapper: `go` statements in Run other than the RPC server's
	nGo := 0
	for _, b := range run.Blocks {
		for _, in := range b.Instrs {
			if gi, ok := in.(*ssa.Go); ok {
				if mc, isMC := gi.Common().Value.(*ssa.MakeClosure); isMC && spawn == run {
					// the table form: the counted start site itself is a go statement of Run
					counted := false
					if body, _ := mc.Fn.(*ssa.Function); body != nil && len(body.Blocks) > 0 {
						for _, bi := range body.Blocks[0].Instrs {
							if d, ok := bi.(*ssa.Defer); ok && commonName(d.Common()) == "(*sync.WaitGroup).Done" {
								counted = true
							}
						}
					}
					if counted {
						continue
					}
				}
				nGo++
			}
		}
	}
	if nGo <= 1 {
		c.OK("C13-R5", "Run ⟂ workers-only-through-wrapper", fnName(run), p.Pos(run.Pos()), fmt.Sprintf("%d direct go statement(s) in Run (the RPC server, stopped through Shutdown)", nGo), true)
	} else {
		c.Bad("C13-R5", "Run ⟂ workers-only-through-wrapper", fnName(run), p.Pos(run.Pos()), fmt.Sprintf("%d goroutines are started in Run outside the wait-group wrapper", nGo), nil)
	}
	c.MinInstances("C13-R5", 4)
}

// ---------------------------------------------------------------------------------------------
// R1 lockset

func selfSync(t types.Type) bool {
	s := t.String()
	switch {
	case strings.HasPrefix(s, "sync/atomic."), strings.HasPrefix(s, "*sync/atomic."), s == "sync.Map", strings.HasPrefix(s, "chan "), strings.HasPrefix(s, "chan<-"), strings.HasPrefix(s, "<-chan"):
		return true
	case strings.HasPrefix(s, "*sync."), strings.HasPrefix(s, "sync."):
		return true
	}
	return false
}

func ruleLockset(c *Check, p *Prog, roots []workerRoot, reach map[*ssa.Function]map[*ssa.Function]bool) {
	mgr := p.TypesPkg(rootPath + "/block").Scope().Lookup("Manager").Type().Underlying().(*types.Struct)
	type access struct {
		fn    *ssa.Function
		in    ssa.Instruction
		write bool
	}
	acc := map[string][]access{}
	for _, fn := range p.Funcs {
		pk := fnPkg(fn)
		if pk == nil || pk.Pkg.Path() != rootPath+"/block" {
			continue
		}
		for _, b := range fn.Blocks {
			for _, in := range b.Instrs {
				fa, ok := in.(*ssa.FieldAddr)
				if !ok || !strings.HasSuffix(fa.X.Type().String(), "block.Manager") {
					continue
				}
				if al, isAl := fa.X.(*ssa.Alloc); isAl && al.Heap {
					continue // construction
				}
				name := fieldLabel(fa.X.Type(), fa.Field)
				w := false
				for _, r := range *fa.Referrers() {
					switch x := r.(type) {
					case *ssa.Store:
						if x.Addr == ssa.Value(fa) {
							w = true
						}
					case *ssa.FieldAddr, *ssa.IndexAddr:
						// nested write
						for _, rr := range *x.(ssa.Value).Referrers() {
							if st, ok := rr.(*ssa.Store); ok && st.Addr == x.(ssa.Value) {
								w = true
							}
						}
					}
				}
				acc[name] = append(acc[name], access{fn, in, w})
			}
		}
	}
	// which roots reach a function; exported non-loop methods form the "api" root
	rootsOf := func(fn *ssa.Function) []string {
		var out []string
		top := fn
		for top.Parent() != nil {
			top = top.Parent()
		}
		for _, r := range roots {
			if reach[r.fn][fn] || reach[r.fn][top] {
				out = append(out, r.fn.Name())
			}
		}
		if len(out) == 0 {
			if obj := top.Object(); obj != nil && obj.Exported() && top.Name() != "NewManager" {
				out = append(out, "api:"+top.Name())
			}
		}
		return out
	}
	nShared := 0
	for i := 0; i < mgr.NumFields(); i++ {
		f := mgr.Field(i)
		label := fieldLabel(p.TypesPkg(rootPath+"/block").Scope().Lookup("Manager").Type(), i)
		as := acc[label]
		var writers []access
		rootSet := map[string]bool{}
		for _, a := range as {
			if a.fn.Name() == "NewManager" {
				continue
			}
			if a.write {
				writers = append(writers, a)
			}
			for _, r := range rootsOf(a.fn) {
				rootSet[r] = true
			}
		}
		if len(writers) == 0 {
			continue // immutable after construction
		}
		nShared++
		inst := "Manager." + label
		pos := p.InstrPos(writers[0].in)
		if selfSync(f.Type()) {
			c.OK("C13-R1", inst, "", pos, "self-synchronising type "+f.Type().String(), false)
			continue
		}
		rs := sortedKeys(rootSet)
		if len(rs) <= 1 {
			c.OK("C13-R1", inst, "", pos, fmt.Sprintf("written after construction but only reachable from one root %v", rs), true)
			continue
		}
		// must be guarded by a common lock at every access
		var unguarded []string
		for _, a := range as {
			if a.fn.Name() == "NewManager" {
				continue
			}
			if !lockHeldInterproc(p, a.fn, a.in, "lastStateMtx", 3) {
				unguarded = append(unguarded, fnShort(a.fn)+"@"+p.InstrPos(a.in))
			}
		}
		sort.Strings(unguarded)
		if len(unguarded) == 0 {
			c.OK("C13-R1", inst, "", pos, fmt.Sprintf("accessed from roots %v, always with lastStateMtx held (locally or at every call site)", rs), true)
		} else {
			c.Bad("C13-R1", inst, "", pos, fmt.Sprintf("field is written after construction and accessed from roots %v without a common lock at: %s", rs, strings.Join(unguarded, ", ")), nil)
		}
	}
	if nShared < 3 {
		c.Unk("C13-R1", "Manager ⟂ shared-fields", "", "", fmt.Sprintf("anchor lost: only %d manager fields written after construction", nShared))
	}
}

// lockHeldInterproc: the mutex field is held at instruction in of fn: locally, or at every
// static call site of fn (recursively, bounded).
func lockHeldInterproc(p *Prog, fn *ssa.Function, in ssa.Instruction, mu string, depth int) bool {
	g := BuildECFG(p, fn, ExpandOpts{MaxDepth: 0})
	for _, n := range g.Nodes {
		if n.In == in && n.Kind == NInstr {
			if heldAt(g, n, mu) {
				return true
			}
		}
	}
	if depth == 0 {
		return false
	}
	callers := 0
	for _, caller := range p.Funcs {
		for _, b := range caller.Blocks {
			for _, ci := range b.Instrs {
				call, ok := ci.(*ssa.Call)
				if !ok || call.Common().StaticCallee() != fn {
					continue
				}
				callers++
				if !lockHeldInterproc(p, caller, ci, mu, depth-1) {
					return false
				}
			}
		}
	}
	return callers > 0
}

// ruleContextProvenance (C13-R6): every call into another layer (executor, sequencer, DA, P2P
// store) reachable from a worker root is given a context derived from the root's own context
// parameter — directly, through context.With*/errgroup.WithContext, or through a field that the
// root assigns from that parameter before the call. A constructor-time or background context is
// not cancelled by the node's stop request.
func ruleContextProvenance(c *Check, p *Prog, roots []workerRoot, depth int) {
	rule := "C13-R6"
	external := func(name string) bool {
		for _, s := range []string{"core/execution.Executor).", "core/sequencer.Sequencer).", "core/da.DA).", "go-header.Store["} {
			if strings.Contains(name, s) {
				return true
			}
		}
		return false
	}
	n := 0
	for _, r := range roots {
		var rootCtx *ssa.Parameter
		for _, prm := range r.fn.Params {
			if prm.Type().String() == "context.Context" {
				rootCtx = prm
			}
		}
		if rootCtx == nil {
			c.Unk(rule, fnShort(r.fn)+" ⟂ ctx-param", fnName(r.fn), "", "worker root without a context parameter")
			continue
		}
		g := BuildECFG(p, r.fn, ExpandOpts{MaxDepth: depth})
		c.NoteGraph(g)
		fromRoot := func(t *Term) bool {
			return t.Contains(func(x *Term) bool { return x.Op == "param" && x.V == ssa.Value(rootCtx) })
		}
		seen := map[ssa.Instruction]bool{}
		for _, nd := range g.Nodes {
			if !g.Live()[nd] || seen[nd.In] {
				continue
			}
			cc := CallCommonOf(nd)
			if cc == nil || !cc.IsInvoke() || !external(CallName(nd)) || len(cc.Args) == 0 || cc.Args[0].Type().String() != "context.Context" {
				continue
			}
			seen[nd.In] = true
			n++
			t := ArgTerm(nd, 0)
			inst := fnShort(r.fn) + " ⟂ " + shortName(CallName(nd)) + " in " + genericName(fnShort(nd.Ctx.Fn))
			if fromRoot(t) {
				c.OK(rule, inst, fnName(nd.Ctx.Fn), p.InstrPos(nd.In), "context derived from the worker's context parameter", true)
				continue
			}
			// a field holding the context: assigned from the root's parameter before this call?
			okField := false
			if t.Op == "field" {
				stores := g.Select(func(x *Node) bool {
					st, ok := x.In.(*ssa.Store)
					if !ok {
						return false
					}
					at := TermOf(st.Addr, x.Ctx)
					return at.Op == "field" && at.String() == t.String() && fromRoot(TermOf(st.Val, x.Ctx))
				})
				nn := nd
				if len(stores) > 0 && g.PathAvoiding([]*Node{g.Entry}, func(x *Node) bool { return x == nn }, nodeSet(stores)) == nil {
					okField = true
				}
			}
			if okField {
				c.OK(rule, inst, fnName(nd.Ctx.Fn), p.InstrPos(nd.In), "context field "+t.String()+" is assigned from the worker's context parameter before the call", true)
			} else {
				c.Bad(rule, inst, fnName(nd.Ctx.Fn), p.InstrPos(nd.In), "the context handed to another layer ("+trunc(t.String(), 80)+") does not derive from the worker's context: a stop request does not interrupt this call, the worker does not return and Run hangs in wg.Wait", nil)
			}
		}
	}
	if n < 10 {
		c.Unk(rule, "external-calls", "", "", fmt.Sprintf("anchor lost: %d context-taking calls into other layers found under the worker roots", n))
	}
}

// ruleLockPairing: for every non-deferred Lock/RLock in the repository's own packages, every
// path from it to a return of the function passes the matching Unlock/RUnlock of the same mutex
// (a deferred unlock runs at the function's exit and counts).
func ruleLockPairing(c *Check, rule string, progs []*Prog) {
	n := 0
	for _, p := range progs {
		for _, fn := range p.Funcs {
			pk := fnPkg(fn)
			if pk == nil || !strings.HasPrefix(pk.Pkg.Path(), rootPath) || fn.Blocks == nil {
				continue
			}
			if strings.Contains(pk.Pkg.Path(), "/test/") || strings.Contains(pk.Pkg.Path(), "/mocks") {
				continue
			}
			hasLock := false
			for _, b := range fn.Blocks {
				for _, in := range b.Instrs {
					if call, ok := in.(*ssa.Call); ok {
						switch commonName(call.Common()) {
						case "(*sync.Mutex).Lock", "(*sync.RWMutex).Lock", "(*sync.RWMutex).RLock":
							hasLock = true
						}
					}
				}
			}
			if !hasLock {
				continue
			}
			g := BuildECFG(p, fn, ExpandOpts{MaxDepth: 0})
			c.NoteGraph(g)
			for _, ln := range g.Select(func(x *Node) bool {
				if _, deferred := x.In.(deferredCall); deferred {
					return false
				}
				switch CallName(x) {
				case "(*sync.Mutex).Lock", "(*sync.RWMutex).Lock", "(*sync.RWMutex).RLock":
					return true
				}
				return false
			}) {
				n++
				mu := RecvTerm(ln)
				want := map[string]string{"(*sync.Mutex).Lock": "(*sync.Mutex).Unlock", "(*sync.RWMutex).Lock": "(*sync.RWMutex).Unlock", "(*sync.RWMutex).RLock": "(*sync.RWMutex).RUnlock"}[CallName(ln)]
				isUnlock := func(x *Node) bool {
					if CallName(x) != want {
						return false
					}
					r := RecvTerm(x)
					return r != nil && mu != nil && r.String() == mu.String()
				}
				inst := fnShort(fn) + " ⟂ " + trunc(mu.String(), 40) + " released on every exit"
				c.Decide(rule, inst, fnName(fn), p.InstrPos(ln.In), "every path from the acquisition to a return releases the mutex",
					"a return is reachable with the mutex still held: every later Lock() on it blocks forever, and a goroutine parked in Lock() cannot be stopped through its context", g,
					g.PathAvoiding([]*Node{ln}, g.AnyExit(), isUnlock))
			}
		}
	}
	if n == 0 {
		c.Unk(rule, "lock-sites", "", "", "anchor lost: no mutex acquisition found")
	}
	c.MinInstances(rule, 8)
}

// ruleTimersRearmed: for every blocking select in the block package with a receive case on the
// channel of a timer created by time.NewTimer, every path from that case back to the same select
// passes a Reset of that timer.
func ruleTimersRearmed(c *Check, p *Prog, rule string) {
	n := 0
	for _, fn := range p.Funcs {
		pk := fnPkg(fn)
		if pk == nil || pk.Pkg.Path() != rootPath+"/block" || fn.Parent() != nil || fn.Blocks == nil {
			continue
		}
		hasSel := false
		for _, body := range append([]*ssa.Function{fn}, fn.AnonFuncs...) {
			for _, b := range body.Blocks {
				for _, in := range b.Instrs {
					if s, ok := in.(*ssa.Select); ok && s.Blocking {
						hasSel = true
					}
				}
			}
		}
		if !hasSel {
			continue
		}
		g := BuildECFG(p, fn, ExpandOpts{MaxDepth: 3, Stop: func(f *ssa.Function) bool {
			pk := fnPkg(f)
			return strings.Contains(fnName(f), "publishBlockInternal") || isSubmitterFn(f) || pk == nil || pk.Pkg.Path() != fnPkg(fn).Pkg.Path()
		}})
		sels := g.Select(func(x *Node) bool {
			s, ok := x.In.(*ssa.Select)
			return ok && s.Blocking && topParent(x.Ctx.Fn) == fn
		})
		for _, sel := range sels {
			s := sel.In.(*ssa.Select)
			for idx, st := range s.States {
				if st.Dir != types.RecvOnly {
					continue
				}
				ch := TermOf(st.Chan, sel.Ctx)
				if ch.Op != "field" || ch.Name != "C" || len(ch.Args) != 1 {
					continue
				}
				tm := ch.Args[0]
				isOneShot := false
				tm.Walk(func(x *Term) bool {
					if x.IsCall("time.NewTimer") {
						isOneShot = true
					}
					return true
				})
				if !isOneShot {
					continue
				}
				c.NoteGraph(g)
				n++
				// the edges on which this case was taken
				idxC := idx
				caseEdges := g.Select(func(x *Node) bool {
					if x.Kind != NTrue && x.Kind != NFalse {
						return false
					}
					ifi := x.In.(*ssa.If)
					b, ok := ifi.Cond.(*ssa.BinOp)
					if !ok || b.Op != token.EQL {
						return false
					}
					ex, ok := b.X.(*ssa.Extract)
					if !ok || ex.Index != 0 || ex.Tuple != ssa.Value(s) {
						return false
					}
					k, ok := b.Y.(*ssa.Const)
					if !ok {
						return false
					}
					if x.Kind == NTrue {
						return int(k.Int64()) == idxC
					}
					return int(k.Int64())+1 == idxC && idxC == len(s.States)-1
				})
				if len(caseEdges) == 0 {
					// a select whose only case after ctx.Done is this one falls through without a test
					caseEdges = []*Node{sel}
				}
				tname := tm.String()
				isReset := func(x *Node) bool {
					if CallName(x) == "(*time.Timer).Reset" && RecvTerm(x) != nil && RecvTerm(x).String() == tname {
						return true
					}
					// a timer made anew on the way back to the wait (one timer per iteration) is armed
					if CallName(x) == "time.NewTimer" && x.Kind == NInstr {
						if v, ok := x.In.(ssa.Value); ok && TermOf(v, x.Ctx).String() == tname {
							return true
						}
					}
					return false
				}
				inst := fnShort(fn) + " ⟂ " + trunc(tname, 40) + " re-armed before waiting again"
				from := caseEdges
				if len(from) == 1 && from[0] == sel {
					// leave the select first: successors of the select node
					from = sel.Succ
				}
				c.Decide(rule, inst, fnName(fn), p.InstrPos(sel.In), "every path from the timer's case back to the wait resets the timer",
					"the loop can return to its wait after the timer fired without resetting it: a one-shot timer never fires again, so the loop sleeps until shutdown (submission / production stops for good)", g,
					g.PathAvoiding(from, func(x *Node) bool { return x == sel }, isReset))
			}
		}
	}
	if n == 0 {
		c.OK(rule, "block ⟂ one-shot-timers", "", "", "no loop of the block package waits on a one-shot timer outside the aggregation loops' own rule", false)
	}
}

// ruleUnboundedLoopsCheckContext (C13-R9).
func ruleUnboundedLoopsCheckContext(c *Check, p *Prog, rule string) {
	layer := func(name string) bool {
		for _, pre := range []string{"(" + rootPath + "/pkg/store.Store).", "(" + rootPath + "/core/execution.Executor).", "(" + rootPath + "/core/sequencer.Sequencer).", "(" + rootPath + "/core/da.DA)."} {
			if strings.HasPrefix(name, pre) {
				return true
			}
		}
		return false
	}
	n := 0
	for _, fn := range p.Funcs {
		pk := fnPkg(fn)
		if pk == nil || pk.Pkg.Path() != rootPath+"/block" || fn.Blocks == nil || fn.Parent() != nil {
			continue
		}
		if fn.Origin() != nil && fn.Origin() != fn {
			continue
		}
		hasCtx := false
		for _, prm := range fn.Params {
			if prm.Type().String() == "context.Context" {
				hasCtx = true
			}
		}
		if !hasCtx {
			continue
		}
		var g *Graph
		for _, hb := range fn.Blocks {
			isHdr := false
			for _, pr := range hb.Preds {
				if hb.Dominates(pr) {
					isHdr = true
				}
			}
			if !isHdr {
				continue
			}
			// bounded by a collection or a counter? the header's own exit test mentions a phi of
			// the header, a range iterator, or a channel receive
			bounded := false
			if ifi, ok := hb.Instrs[len(hb.Instrs)-1].(*ssa.If); ok {
				var uses func(v ssa.Value, d int) bool
				uses = func(v ssa.Value, d int) bool {
					if d > 3 {
						return false
					}
					switch x := v.(type) {
					case *ssa.Phi:
						return x.Block() == hb
					case *ssa.BinOp:
						return uses(x.X, d+1) || uses(x.Y, d+1)
					case *ssa.Extract:
						_, isNext := x.Tuple.(*ssa.Next)
						if u, isRecv := x.Tuple.(*ssa.UnOp); isRecv && u.CommaOk {
							return true
						}
						return isNext
					case *ssa.UnOp:
						return uses(x.X, d+1)
					}
					return false
				}
				bounded = uses(ifi.Cond, 0)
			}
			if bounded {
				continue
			}
			// does the loop body call another layer (directly, or through the repo functions it calls)?
			if g == nil {
				g = BuildECFG(p, fn, ExpandOpts{MaxDepth: 2, Stop: func(f *ssa.Function) bool { return isSubmitterFn(f) }})
			}
			head := g.headNode(g.RootCtx, hb)
			if head == nil {
				continue
			}
			// nodes on some cycle through the header
			fwd := g.Reachable([]*Node{head}, nil)
			onCycle := func(x *Node) bool {
				if !fwd[x] {
					return false
				}
				return g.PathAvoiding([]*Node{x}, func(y *Node) bool { return y == head }, nil) != nil
			}
			callsLayer := false
			for x := range fwd {
				if cc := CallCommonOf(x); cc != nil && cc.IsInvoke() && layer(commonName(cc)) && onCycle(x) {
					callsLayer = true
					break
				}
			}
			// loops that wait (blocking select) are the worker loops of C13-R4
			waits := false
			for _, b := range fn.Blocks {
				if !hb.Dominates(b) {
					continue
				}
				for _, in := range b.Instrs {
					if sl, ok := in.(*ssa.Select); ok && sl.Blocking {
						waits = true
					}
				}
			}
			if !callsLayer || waits {
				continue
			}
			c.NoteGraph(g)
			n++
			isCheck := func(x *Node) bool {
				if sl, ok := x.In.(*ssa.Select); ok {
					for _, st := range sl.States {
						t := TermOf(st.Chan, x.Ctx)
						if t.Op == "invoke" && t.Name == "(context.Context).Done" {
							return true
						}
					}
				}
				cn := CallName(x)
				return cn == "(context.Context).Err" || (x.Kind == NInstr && func() bool {
					u, ok := x.In.(*ssa.UnOp)
					if !ok || u.Op != token.ARROW {
						return false
					}
					t := TermOf(u.X, x.Ctx)
					return t.Op == "invoke" && t.Name == "(context.Context).Done"
				}())
			}
			inst := fnShort(fn) + " ⟂ unbounded loop @" + p.Pos(hb.Instrs[0].Pos()) + " checks the context each cycle"
			inst = fnShort(fn) + " ⟂ unbounded-loop-checks-context"
			c.Decide(rule, inst, fnName(fn), p.InstrPos(hb.Instrs[len(hb.Instrs)-1]), "every cycle of the loop passes a context check",
				"a cycle of an unbounded loop that calls the executor / store / DA / sequencer passes no context check: a backlog worked off inside one call (e.g. catching up over many cached blocks) ignores the stop request until it is finished", g,
				g.PathAvoiding(head.Succ, func(y *Node) bool { return y == head }, isCheck))
		}
	}
	if n == 0 {
		c.Unk(rule, "unbounded-loops", "", "", "anchor lost: no unbounded loop calling another layer found in the block package")
	}
	c.MinInstances(rule, 1)
}

// ruleWorkersStartNoStrayGoroutines (C13-R10): the node joins its activities — it waits for every
// worker function it started before it closes the store and the services. That only covers what
// runs on the worker's own goroutine. A plain `go` statement inside the block package (a reaping
// round run in the background, a submission fired and forgotten) is joined by nobody: shutdown
// returns while it still runs, and successive rounds overlap (the same transactions are handed to
// the sequencer twice). Concurrency inside a step goes through a group that is waited for.
func ruleWorkersStartNoStrayGoroutines(c *Check, p *Prog, rule string) {
	c.Doc(rule, "CS: no function of the block package starts a goroutine with a plain go statement (concurrency inside a step uses a group that is waited for before the step returns): everything a worker does ends before the worker returns, so the node's join covers it and rounds do not overlap.")
	var stray []string
	nFns := 0
	for _, fn := range p.Funcs {
		pk := fnPkg(fn)
		if pk == nil || pk.Pkg.Path() != rootPath+"/block" || fn.Blocks == nil {
			continue
		}
		nFns++
		for _, b := range fn.Blocks {
			for _, in := range b.Instrs {
				if g, ok := in.(*ssa.Go); ok {
					stray = append(stray, fnShort(fn)+" → "+trunc(commonName(g.Common()), 60)+" @"+p.InstrPos(in))
				}
			}
		}
	}
	sort.Strings(stray)
	if nFns < 50 {
		c.Unk(rule, "anchor-count", "", "", fmt.Sprintf("anchor lost: only %d functions of the block package seen", nFns))
	}
	if len(stray) == 0 {
		c.OK(rule, "block ⟂ no-stray-goroutines", "", "", fmt.Sprintf("no go statement in %d functions of the block package", nFns), true)
	} else {
		c.Bad(rule, "block ⟂ no-stray-goroutines", "", "", "a goroutine is started that nothing waits for ("+strings.Join(stray, "; ")+"): the worker returns (and the node closes its store) while it is still running, and a new round can start before the previous one finished", nil)
	}
}
