package main

import (
	"fmt"
	"go/token"
	"go/types"
	"strings"

	"golang.org/x/tools/go/ssa"
)

func init() {
	register("C17", &propDef{
		run: runC17,
		explanation: "Decides the structural clauses behind 'no lost wake-up': R1 the notification channel has a constant capacity >= 1 and the notifier is a select with default (never blocks, a pending notification is kept); " +
			"R2 in the lazy loop the pending-transactions flag is set in the notification case and cleared only after the production function was called in the same iteration, so a notification that arrives during production (it sets the flag again in a later iteration or waits in the buffered channel) leads to a further block; " +
			"R3 every path through a timer case that continues the loop re-arms that timer; R4 in the normal loop no production call is reachable from the notification case.",
		notDecided:  "Every timing bound of the statement (within one block interval, one per idle interval, never faster than one per block interval).",
		assumptions: []string{"time.Timer semantics", "go/ssa"},
	})
}

func runC17(c *Check) {
	p := c.Mod(ModRoot)
	c.Doc("C17-R1", "CT+BO: buffered notification channel and non-blocking notifier.")
	c.Doc("C17-R2", "EO: flag cleared only after producing in the same iteration; set on notification.")
	c.Doc("C17-R3", "EO: timers re-armed on every continuing path through their case.")
	c.Doc("C17-R4", "EO: notifications do not trigger production in normal mode.")
	c.Doc("C17-R13", "BO: in both aggregation loops the production call is given the loop's context, never one the loop derived with a deadline (context.WithTimeout / WithDeadline): a slow production is late, it is not cancelled and retried for ever.")
	c.Doc("C17-R6", "EO+VP: every production is followed, before the loop waits again, by a reset of the block timer whose duration derives from the configured block interval.")

	// the notification channel: the channel field the notifier sends on
	notifyField := "txNotifyCh"
	if nfn := p.Func(mgrM("NotifyNewTransactions")); nfn != nil {
		for _, b := range nfn.Blocks {
			for _, in := range b.Instrs {
				var ch ssa.Value
				switch x := in.(type) {
				case *ssa.Select:
					for _, st := range x.States {
						if st.Dir == types.SendOnly {
							ch = st.Chan
						}
					}
				case *ssa.Send:
					ch = x.Chan
				}
				if ch != nil {
					if t := TermOf(ch, &Ctx{Fn: nfn}); t.Op == "field" {
						notifyField = t.Name
					}
				}
			}
		}
	}
	// ---- R1
	nm := p.MustFunc(blockF("NewManager"))
	capOK := false
	for _, b := range nm.Blocks {
		for _, in := range b.Instrs {
			st, ok := in.(*ssa.Store)
			if !ok {
				continue
			}
			fa, ok := st.Addr.(*ssa.FieldAddr)
			if !ok || derefStruct(fa.X.Type()) == nil || fieldLabel(fa.X.Type(), fa.Field) != notifyField {
				continue
			}
			if mk, ok := st.Val.(*ssa.MakeChan); ok {
				if k, ok := mk.Size.(*ssa.Const); ok && k.Int64() >= 1 {
					capOK = true
					c.OK("C17-R1", "txNotifyCh ⟂ capacity>=1", fnName(nm), p.InstrPos(mk), fmt.Sprintf("capacity %d", k.Int64()), true)
				} else {
					c.Bad("C17-R1", "txNotifyCh ⟂ capacity>=1", fnName(nm), p.InstrPos(mk), "the notification channel is unbuffered or of non-constant capacity: a notification sent while a block is being produced is dropped by the non-blocking notifier", nil)
					capOK = true
				}
			}
		}
	}
	if !capOK {
		c.Unk("C17-R1", "txNotifyCh ⟂ capacity>=1", fnName(nm), "", "anchor lost: the notification channel is not created with make in NewManager")
	}
	nf := p.MustFunc(mgrM("NotifyNewTransactions"))
	{
		okSel := false
		// the send may sit in a small helper of the package (a generic "try to send")
		gn := BuildECFG(p, nf, ownPkgOpts(rootPath+"/block", 1))
		for _, nd := range gn.Nodes {
			if !gn.Live()[nd] || nd.Kind != NInstr {
				continue
			}
			switch x := nd.In.(type) {
			case *ssa.Select:
				for _, st := range x.States {
					t := TermOf(st.Chan, nd.Ctx)
					if st.Dir == types.SendOnly && t != nil && t.Op == "field" && t.Name == notifyField && !x.Blocking {
						okSel = true
					}
				}
			}
		}
		for _, nd := range gn.Nodes {
			if sd, ok := nd.In.(*ssa.Send); ok && gn.Live()[nd] && nd.Kind == NInstr {
				if t := TermOf(sd.Chan, nd.Ctx); t != nil && t.Op == "field" && t.Name == notifyField {
					okSel = false // a plain (blocking) send on the notification channel
				}
			}
		}
		if okSel {
			c.OK("C17-R1", "NotifyNewTransactions ⟂ non-blocking-send", fnName(nf), p.Pos(nf.Pos()), "send inside a select with default", true)
		} else {
			c.Bad("C17-R1", "NotifyNewTransactions ⟂ non-blocking-send", fnName(nf), p.Pos(nf.Pos()), "the notifier is not a non-blocking send on the notification channel: the transaction path blocks while a block is produced", nil)
		}
	}
	// the send is attempted on every call: a notifier that returns early on some remembered
	// state ("a notification is already outstanding") relies on that state being reset exactly
	// when the loop takes the notification — reset later, every notification in between is lost
	{
		g := BuildECFG(p, nf, ownPkgOpts(rootPath+"/block", 1))
		c.NoteGraph(g)
		sel := g.Select(func(x *Node) bool {
			s, ok := x.In.(*ssa.Select)
			if !ok || x.Kind != NInstr {
				return false
			}
			for _, st := range s.States {
				if st.Dir == types.SendOnly {
					if t := TermOf(st.Chan, x.Ctx); t != nil && t.Op == "field" && t.Name == notifyField {
						return true
					}
				}
			}
			return false
		})
		if len(sel) == 0 {
			c.Unk("C17-R12", "NotifyNewTransactions ⟂ send attempted on every call", fnName(nf), "", "anchor lost: the send on the notification channel")
		} else {
			c.Decide("C17-R12", "NotifyNewTransactions ⟂ send attempted on every call", fnName(nf), p.InstrPos(sel[0].In), "every path through the notifier passes the send attempt",
				"the notifier can return without attempting the send on the notification channel (an early return on remembered state): a notification raised while that state says \"already notified\" — for example while the block triggered by the previous one is still being produced — never reaches the channel, the loop clears its flag after the block, and the new transactions wait for the idle interval", g,
				g.PathAvoiding([]*Node{g.Entry}, nodeSet(g.Exits), nodeSet(sel)))
		}
	}
	c.Doc("C17-R12", "EO: every path through NotifyNewTransactions passes the (non-blocking) send attempt on the notification channel: no early return on remembered state.")
	// ---- the loops
	agg := p.MustFunc(loopAggregation)
	var lazy, normal *ssa.Function
	{
		for _, callee := range calleesAndMethodValues(p, agg) {
			timers, notify := 0, false
			// the loop body may sit in a closure of the loop function
			bodies := append([]*ssa.Function{callee}, callee.AnonFuncs...)
			// the wait may sit in a helper of the package that the loop calls ("wait for the next
			// wake-up and say which it was")
			for _, h := range staticCalleesOf(p, callee) {
				if pk := fnPkg(h); pk != nil && pk.Pkg.Path() == rootPath+"/block" && h.Blocks != nil && h != callee && !strings.Contains(fnName(h), "publishBlock") && !strings.Contains(fnName(h), "produceBlock") {
					bodies = append(bodies, h)
				}
			}
			for _, body := range bodies {
				for _, cb := range body.Blocks {
					for _, ci := range cb.Instrs {
						s, ok := ci.(*ssa.Select)
						if !ok || !s.Blocking {
							continue
						}
						for _, st := range s.States {
							t := TermOf(st.Chan, &Ctx{Fn: body})
							if t.Op == "field" && t.Name == "C" {
								timers++
							}
							if t.Op == "field" && t.Name == notifyField {
								notify = true
							}
						}
					}
				}
			}
			if notify && timers >= 2 {
				lazy = callee
			} else if notify && timers == 1 {
				normal = callee
			}
		}
	}
	if lazy == nil || normal == nil {
		c.Unk("C17-R2", "aggregation-loops", fnName(agg), "", "anchor lost: the lazy (two timers + notification) and normal (one timer + notification) loops are not both found among AggregationLoop's callees")
		return
	}
	isProduce := func(n *Node) bool {
		cc := CallCommonOf(n)
		if cc == nil || cc.IsInvoke() || cc.StaticCallee() != nil {
			return false
		}
		t := TermOf(cc.Value, n.Ctx)
		return t.Op == "field" && t.Name == "publishBlock"
	}
	// ---- lazy loop
	{
		g := BuildECFG(p, lazy, ExpandOpts{MaxDepth: 2, Stop: func(fn *ssa.Function) bool {
			return strings.HasSuffix(fnName(fn), "publishBlockInternal") || strings.Contains(fnName(fn), "publishBlockInternal$bound")
		}})
		c.NoteGraph(g)
		fn := fnName(lazy)
		sel := g.Select(func(n *Node) bool {
			s, ok := n.In.(*ssa.Select)
			if !ok || !s.Blocking {
				return false
			}
			if n.Ctx.Depth == 0 || (n.Ctx.Depth == 1 && n.Ctx.Fn.Parent() == g.Root) {
				return true
			}
			// the wait in a helper the loop calls directly: a select on the notification channel
			if n.Ctx.Depth == 1 {
				for _, st := range s.States {
					if t := TermOf(st.Chan, n.Ctx); t != nil && t.Op == "field" && t.Name == notifyField {
						return true
					}
				}
			}
			return false
		})
		flagStore := func(val string) NodePred {
			return func(n *Node) bool {
				st, ok := n.In.(*ssa.Store)
				if !ok {
					return false
				}
				at := TermOf(st.Addr, n.Ctx)
				return at.Op == "field" && at.Name == "txsAvailable" && TermOf(st.Val, n.Ctx).Name == val
			}
		}
		clears := g.Select(flagStore("false"))
		sets := g.Select(flagStore("true"))
		notifyEdges := selectCaseEdges(g, fieldNamed(notifyField))
		if len(sel) != 1 || len(notifyEdges) == 0 {
			c.Unk("C17-R2", "lazy ⟂ anchors", fn, "", "anchor lost: select / notification case of the lazy loop")
		} else {
			if len(sets) > 0 && g.MustPrecede(nodeSet(notifyEdges), nodeSet(sets)) == nil {
				// every notification sets the flag: from the notify edge to the select, a set is passed
				path := g.PathAvoiding(notifyEdges, nodeSet(sel), nodeSet(sets))
				c.Decide("C17-R2", "lazy ⟂ notification-sets-flag", fn, p.InstrPos(sets[0].In), "a received notification always sets the pending flag", "a notification can be consumed without setting the pending flag: it is lost", g, path)
			} else {
				c.Bad("C17-R2", "lazy ⟂ notification-sets-flag", fn, "", "the pending flag is not set in the notification case", nil)
			}
			if len(clears) == 0 {
				c.Bad("C17-R2", "lazy ⟂ flag-cleared-only-after-producing", fn, p.Pos(lazy.Pos()), "the loop never clears the pending flag itself: once a notification has set it, every block-timer tick produces a block — an idle chain runs at one block per block interval instead of one per idle interval (a clear left to a callee under a condition of its own, such as \"the batch was not empty\", does not clear it when the notified transactions went into an earlier block)", nil)
			} else {
				path := g.PrecedeSince(nodeSet(sel), isProduce, nodeSet(clears))
				c.Decide("C17-R2", "lazy ⟂ flag-cleared-only-after-producing", fn, p.InstrPos(clears[0].In), "the pending flag is cleared only after the production function ran in the same iteration",
					"the pending flag can be cleared without producing a block: the notified transactions wait for the idle timer", g, path)
				// and the flag is cleared after production returns, not before it starts: a notification
				// arriving during production sits in the channel (capacity>=1) and sets the flag again
				path2 := g.PathAvoiding(clears, isProduce, nodeSet(sel))
				c.Decide("C17-R2", "lazy ⟂ no-production-after-clear-in-same-iteration", fn, p.InstrPos(clears[0].In), "after clearing the flag the loop returns to the select before producing again",
					"the flag is cleared before production in the same iteration: a notification consumed meanwhile would be forgotten", g, path2)
			}
			// a set flag leads to production at the block timer: the block-timer case calls produce when the flag is set
			blockTimerEdges := selectCaseEdges(g, func(t *Term) bool {
				return t.Op == "field" && t.Name == "C" && strings.Contains(t.Args[0].String(), timerParamName(lazy))
			})
			flagSet := g.Select(EdgeWhere(func(t *Term, pol bool, n *Node) bool {
				t, pol = normFact(t, pol)
				return pol && t.Op == "field" && t.Name == "txsAvailable"
			}))
			if len(flagSet) > 0 && len(clears) > 0 {
				// … and the block it triggered takes the flag down again, on every path back to the
				// wait: a flag left standing turns every block-timer tick into a block
				c.Decide("C17-R2", "lazy ⟂ flag-cleared-after-its-block", fn, p.InstrPos(flagSet[0].In), "from the flag-set edge of the block-timer case every path back to the select clears the flag",
					"with the flag set the block-timer case can return to the wait with the flag still set (it is cleared only under some condition): every later tick produces another — empty — block, and a lazy chain runs at the block interval instead of the idle interval", g,
					g.PathAvoiding(flagSet, nodeSet(sel), nodeSet(clears)))
			}
			if len(blockTimerEdges) > 0 && len(flagSet) > 0 {
				path := g.PathAvoiding(flagSet, orPred(nodeSet(sel), g.AnyExit()), isProduce)
				c.Decide("C17-R2", "lazy ⟂ flag-set→produce-at-block-timer", fn, p.InstrPos(flagSet[0].In), "with the flag set the block-timer case always calls the production function",
					"with pending transactions the block-timer case can go back to waiting without producing", g, path)
			} else {
				c.Bad("C17-R2", "lazy ⟂ flag-set→produce-at-block-timer", fn, "", "the block-timer case does not test the pending flag", nil)
			}
		}
		// R3 timers
		for _, prm := range lazy.Params {
			if !strings.HasSuffix(prm.Type().String(), "time.Timer") {
				continue
			}
		}
		timerCases := map[string][]*Node{}
		for _, e := range selectCaseEdges(g, func(t *Term) bool { return t.Op == "field" && t.Name == "C" }) {
			ifi := e.In.(*ssa.If)
			b := ifi.Cond.(*ssa.BinOp)
			selI := b.X.(*ssa.Extract).Tuple.(*ssa.Select)
			idx := int(b.Y.(*ssa.Const).Int64())
			t := TermOf(selI.States[idx].Chan, e.Ctx)
			timerCases[t.Args[0].String()] = append(timerCases[t.Args[0].String()], e)
		}
		for _, tname := range sortedKeys(timerCases) {
			edges := timerCases[tname]
			reset := func(n *Node) bool {
				if CallName(n) != "(*time.Timer).Reset" {
					return false
				}
				return RecvTerm(n).String() == tname
			}
			path := g.PathAvoiding(edges, nodeSet(sel), reset)
			c.Decide("C17-R3", "lazy ⟂ "+tname+"-rearmed", fn, p.InstrPos(edges[0].In), "every continuing path through the "+tname+" case resets that timer",
				"the loop can return to its select after the "+tname+" fired without re-arming it: that timer never fires again (no more idle / block-interval blocks)", g, path)
		}
		if len(timerCases) < 2 {
			c.Unk("C17-R3", "lazy ⟂ timers", fn, "", fmt.Sprintf("anchor lost: %d timer cases", len(timerCases)))
		}
		// R6: after every production the block timer is pushed back by the block interval
		// before the loop waits again, whichever case produced
		{
			flagSet := g.Select(EdgeWhere(func(t *Term, pol bool, n *Node) bool {
				t, pol = normFact(t, pol)
				return pol && t.Op == "field" && t.Name == "txsAvailable"
			}))
			blockTimer := ""
			for _, tname := range sortedKeys(timerCases) {
				if len(flagSet) > 0 && g.PathAvoiding(timerCases[tname], nodeSet(flagSet), nodeSet(sel)) != nil {
					blockTimer = tname
				}
			}
			prods := g.Select(isProduce)
			ruleProductionNoDeadline(c, p, g, "lazy", fn, prods)
			if blockTimer == "" || len(prods) == 0 || len(sel) != 1 {
				c.Unk("C17-R6", "lazy ⟂ production→block-timer-pushed-back", fn, "", "anchor lost: block timer (the timer whose case tests the pending flag) / production call")
			} else {
				pushBack := func(n *Node) bool {
					return CallName(n) == "(*time.Timer).Reset" && RecvTerm(n).String() == blockTimer && resetsByBlockTime(p, n)
				}
				ruleResetReferenceBeforeProduction(c, p, g, "lazy", fn, prods, sel)
				path := g.PathAvoiding(prods, nodeSet(sel), pushBack)
				c.Decide("C17-R6", "lazy ⟂ production→block-timer-pushed-back", fn, p.InstrPos(prods[0].In), "every path from a production back to the select resets the block timer by the block interval",
					"after a block was produced (e.g. by the idle timer) the loop can wait again without pushing the block timer back by the block interval: the block timer keeps its old phase and the next block can follow in less than one block interval", g, path)
			}
		}
	}
	// ---- normal loop
	{
		g := BuildECFG(p, normal, ExpandOpts{MaxDepth: 1, Stop: func(fn *ssa.Function) bool { return strings.Contains(fnName(fn), "publishBlockInternal") }})
		c.NoteGraph(g)
		fn := fnName(normal)
		ruleProductionNoDeadline(c, p, g, "normal", fn, g.Select(isProduce))
		sel := g.Select(func(n *Node) bool {
			s, ok := n.In.(*ssa.Select)
			return ok && s.Blocking && (n.Ctx.Depth == 0 || (n.Ctx.Depth == 1 && n.Ctx.Fn.Parent() == g.Root))
		})
		notifyEdges := selectCaseEdges(g, fieldNamed(notifyField))
		if len(sel) != 1 || len(notifyEdges) == 0 {
			c.Unk("C17-R4", "normal ⟂ anchors", fn, "", "anchor lost: select / notification case of the normal loop")
		} else {
			path := g.PathAvoiding(notifyEdges, isProduce, nodeSet(sel))
			c.Decide("C17-R4", "normal ⟂ notification-does-not-produce", fn, p.InstrPos(notifyEdges[0].In), "no production call is reachable from the notification case before the next select",
				"in normal mode a notification triggers block production outside the block interval", g, path)
			for _, e := range selectCaseEdges(g, func(t *Term) bool { return t.Op == "field" && t.Name == "C" }) {
				reset := func(n *Node) bool { return CallName(n) == "(*time.Timer).Reset" }
				path := g.PathAvoiding([]*Node{e}, nodeSet(sel), reset)
				c.Decide("C17-R3", "normal ⟂ block-timer-rearmed", fn, p.InstrPos(e.In), "every continuing path through the block-timer case resets the timer",
					"the normal loop can return to its select without re-arming the block timer: block production stops", g, path)
				pushBack := func(n *Node) bool { return CallName(n) == "(*time.Timer).Reset" && resetsByBlockTime(p, n) }
				ruleResetReferenceBeforeProduction(c, p, g, "normal", fn, g.Select(isProduce), sel)
				path3 := g.PathAvoiding(g.Select(isProduce), nodeSet(sel), pushBack)
				c.Decide("C17-R6", "normal ⟂ production→block-timer-pushed-back", fn, p.InstrPos(e.In), "every path from a production back to the select resets the block timer by the block interval",
					"after a block was produced the normal loop can wait again on a timer that was not reset by the block interval", g, path3)
				// the block timer case produces
				path2 := g.PathAvoiding([]*Node{e}, orPred(nodeSet(sel), g.AnyExit()), isProduce)
				c.Decide("C17-R4", "normal ⟂ block-timer-produces", fn, p.InstrPos(e.In), "the block-timer case always calls the production function",
					"the block-timer case can be passed without producing", g, path2)
			}
		}
	}
	// ---- R5: start-up pacing
	c.Doc("C17-R5", "VP+GA: the start-up delay is measured from the genesis time only when no block exists yet (store height below the initial height); once a block exists it is measured from the last block's time.")
	{
		g := BuildECFG(p, agg, ExpandOpts{MaxDepth: 2})
		c.NoteGraph(g)
		fn := fnName(agg)
		useGenesis := g.Select(func(n *Node) bool {
			if CallName(n) != "(time.Time).Add" {
				return false
			}
			return strings.HasSuffix(ArgTerm(n, 0).String(), ".GenesisDAStartTime")
		})
		useLast := g.Select(func(n *Node) bool {
			fa, ok := n.In.(*ssa.FieldAddr)
			return ok && derefStruct(fa.X.Type()) != nil && derefStruct(fa.X.Type()).Field(fa.Field).Name() == "LastBlockTime"
		})
		if len(useGenesis) == 0 || len(useLast) == 0 {
			// the genesis time may be selected into a variable first: look at loads of the field
			useGenesis = g.Select(func(n *Node) bool {
				fa, ok := n.In.(*ssa.FieldAddr)
				return ok && derefStruct(fa.X.Type()) != nil && derefStruct(fa.X.Type()).Field(fa.Field).Name() == "GenesisDAStartTime" && n.Ctx.Depth <= 1
			})
		}
		if len(useGenesis) == 0 || len(useLast) == 0 {
			c.Unk("C17-R5", "start-up-delay ⟂ bases", fn, "", "anchor lost: the start-up delay does not read the genesis time and the last block time")
		} else {
			// classify the comparison height ? initialHeight on the paths to the last-block-time read
			rel := func(f Fact) string {
				t := f.Cond
				if t.Op != "bin" {
					return ""
				}
				a, b := t.Args[0].String(), t.Args[1].String()
				isH := func(s string) bool { return strings.Contains(s, "pkg/store.Store).Height(") }
				isI := func(s string) bool { return strings.HasSuffix(s, ".InitialHeight") }
				op := t.Name
				switch {
				case isH(a) && isI(b):
				case isI(a) && isH(b):
					op = map[string]string{"<": ">", "<=": ">=", ">": "<", ">=": "<=", "==": "==", "!=": "!="}[op]
				default:
					return ""
				}
				if !f.Pol {
					op = map[string]string{"<": ">=", "<=": ">", ">": "<=", ">=": "<", "==": "!=", "!=": "=="}[op]
				}
				return op // reads: height <op> initialHeight holds
			}
			lastRel := ""
			for _, f := range g.NecessaryEdges(nodeSet(useLast)) {
				if r := rel(f); r != "" {
					lastRel = r
				}
			}
			// genesis base: unconditional read is fine as long as the *last block* base is chosen for every height >= initial
			if lastRel == ">=" {
				c.OK("C17-R5", "start-up-delay ⟂ last-block-base-iff-a-block-exists", fn, p.InstrPos(useLast[0].In), "the last block's time is the base whenever store height >= initial height", true)
			} else {
				c.Bad("C17-R5", "start-up-delay ⟂ last-block-base-iff-a-block-exists", fn, p.InstrPos(useLast[0].In), "the last block's time is the base of the start-up delay only when store height "+lastRel+" initial height; for the remaining heights at which a block already exists the (old) genesis time is used, the delay comes out non-positive and a restart right after that block produces the next one immediately — two blocks closer than one block interval", nil)
			}
		}
	}
	// ---- R7: no production before the start-up delay has elapsed. Every path from the entry of
	// the aggregation loop to a production passes a gate: the delay is not positive, or a wait on
	// time.After(delay) returned, or the timer case taken belongs to a timer created with the delay.
	c.Doc("C17-R7", "EO: every path from the start of the aggregation loop to a production passes the start-up delay (not positive, waited for, or carried by the timer whose case fired) — in lazy and in normal mode.")
	{
		g := BuildECFG(p, agg, ExpandOpts{MaxDepth: 3, Stop: func(fn *ssa.Function) bool {
			return strings.HasSuffix(fnName(fn), "publishBlockInternal") || strings.Contains(fnName(fn), "publishBlockInternal$bound")
		}})
		c.NoteGraph(g)
		// the delay: a duration computed with time.Until (possibly inside a helper)
		isDelay := func(t *Term) bool {
			return t != nil && p.DeepContains(t, func(x *Term) bool { return x.IsCall("time.Until") }, 2)
		}
		chanGate := func(t *Term) bool {
			// <-time.After(delay)
			if t.IsCall("time.After") && len(t.Args) == 1 && isDelay(t.Args[0]) {
				return true
			}
			// <-timer.C with timer = time.NewTimer(delay…)
			if t.Op == "field" && t.Name == "C" && len(t.Args) == 1 {
				tm := t.Args[0]
				found := false
				tm.Walk(func(x *Term) bool {
					if x.IsCall("time.NewTimer") && len(x.Args) == 1 && isDelay(x.Args[0]) {
						found = true
					}
					return true
				})
				return found && !strings.Contains(tm.String(), "time.NewTimer(0")
			}
			return false
		}
		gates := g.Select(func(n *Node) bool {
			if n.Kind != NTrue && n.Kind != NFalse {
				return false
			}
			ifi := n.In.(*ssa.If)
			b, ok := ifi.Cond.(*ssa.BinOp)
			if !ok {
				return false
			}
			// delay > 0 is false
			t, pol := CondTerm(n)
			if t.Op == "bin" && t.Name == ">" && !pol && isDelay(t.Args[0]) && t.Args[1].Op == "const" {
				return true
			}
			if b.Op != token.EQL {
				return false
			}
			ex, ok := b.X.(*ssa.Extract)
			if !ok || ex.Index != 0 {
				return false
			}
			sel, ok := ex.Tuple.(*ssa.Select)
			k, isK := b.Y.(*ssa.Const)
			if !ok || !isK {
				return false
			}
			idx := int(k.Int64())
			if n.Kind == NTrue {
				return idx < len(sel.States) && chanGate(TermOf(sel.States[idx].Chan, n.Ctx))
			}
			// the false edge of the last comparison selects the remaining states
			for i := idx + 1; i < len(sel.States); i++ {
				if !chanGate(TermOf(sel.States[i].Chan, n.Ctx)) {
					return false
				}
			}
			return idx+1 < len(sel.States)
		})
		// a plain receive <-time.After(delay) / time.Sleep(delay)
		waits := g.Select(func(n *Node) bool {
			if u, ok := n.In.(*ssa.UnOp); ok && u.Op == token.ARROW {
				return chanGate(TermOf(u.X, n.Ctx))
			}
			return CallName(n) == "time.Sleep" && isDelay(ArgTerm(n, 0))
		})
		prods := g.Select(isProduce)
		if len(prods) == 0 {
			c.Unk("C17-R7", "AggregationLoop ⟂ start-up-delay-before-first-production", fnName(agg), "", "anchor lost: no production call in reach of the aggregation loop")
		} else {
			c.Decide("C17-R7", "AggregationLoop ⟂ start-up-delay-before-first-production", fnName(agg), p.InstrPos(prods[0].In), "every path to a production passes the start-up delay",
				"a production is reachable without the start-up delay having elapsed (a timer armed with zero fires at once): after a restart a block follows its predecessor in less than one block interval", g,
				g.PathAvoiding([]*Node{g.Entry}, nodeSet(prods), orPred(nodeSet(gates), nodeSet(waits))))
		}
		c.MinInstances("C17-R7", 1)
	}
	// ---- R8: the mode is what the configuration says. With lazy mode configured the normal loop
	// is unreachable and vice versa: no further condition (interval ratios …) selects the loop.
	c.Doc("C17-R8", "GA: the lazy loop runs exactly when lazy mode is configured: from the true edge of the LazyMode test the normal loop is unreachable, from its false edge the lazy loop is.")
	{
		g := BuildECFG(p, agg, ExpandOpts{MaxDepth: 0})
		c.NoteGraph(g)
		isMode := func(t *Term) bool { return t.Op == "field" && t.Name == "LazyMode" }
		on := g.Select(EdgeWhere(func(t *Term, pol bool, n *Node) bool { t, pol = normFact(t, pol); return pol && isMode(t) }))
		off := g.Select(EdgeWhere(func(t *Term, pol bool, n *Node) bool { t, pol = normFact(t, pol); return !pol && isMode(t) }))
		callsTo := func(fn *ssa.Function) NodePred {
			return func(n *Node) bool { cc := CallCommonOf(n); return cc != nil && cc.StaticCallee() == fn }
		}
		// the loop chosen through a function value ("loop := m.normalLoop; if lazy { loop = m.lazyLoop }; loop(ctx)"):
		// the value that arrives over the lazy edge must be the lazy loop, every other one the normal loop
		viaValue, valueOK, valueWhy := false, true, ""
		if len(on) > 0 && len(g.Select(callsTo(lazy))) == 0 && len(g.Select(callsTo(normal))) == 0 {
			target := func(v ssa.Value) *ssa.Function {
				mc, ok := v.(*ssa.MakeClosure)
				if !ok {
					return nil
				}
				f, _ := mc.Fn.(*ssa.Function)
				for _, cal := range calleesAndMethodValues(p, agg) {
					if f != nil && f.Synthetic != "" {
						for _, b := range f.Blocks {
							for _, in := range b.Instrs {
								if call, ok := in.(*ssa.Call); ok && call.Common().StaticCallee() == cal {
									return cal
								}
							}
						}
					}
				}
				return f
			}
			ifi, _ := on[0].In.(*ssa.If)
			for _, b := range agg.Blocks {
				for _, in := range b.Instrs {
					call, ok := in.(*ssa.Call)
					if !ok {
						continue
					}
					ph, ok := call.Common().Value.(*ssa.Phi)
					if !ok || ifi == nil {
						continue
					}
					viaValue = true
					lazyBlk := ifi.Block().Succs[0]
					for i, e := range ph.Edges {
						pred := ph.Block().Preds[i]
						fromLazy := pred == lazyBlk || lazyBlk.Dominates(pred)
						t := target(e)
						switch {
						case t == nil:
							valueOK, valueWhy = false, "a value that is not one of the loops"
						case fromLazy && t != lazy:
							valueOK, valueWhy = false, "over the lazy-mode edge the value is "+fnShort(t)
						case !fromLazy && t != normal:
							valueOK, valueWhy = false, "without lazy mode the value is "+fnShort(t)
						}
					}
				}
			}
		}
		if viaValue && len(off) > 0 {
			if valueOK {
				c.OK("C17-R8", "AggregationLoop ⟂ mode-follows-configuration", fnName(agg), p.InstrPos(on[0].In), "the loop is chosen through a function value that is the lazy loop exactly on the lazy-mode edge", true)
			} else {
				c.Bad("C17-R8", "AggregationLoop ⟂ mode-follows-configuration", fnName(agg), p.InstrPos(on[0].In), "the loop called through a function value does not follow the configured mode: "+valueWhy, nil)
			}
		} else if len(on) == 0 || len(off) == 0 {
			c.Unk("C17-R8", "AggregationLoop ⟂ mode-follows-configuration", fnName(agg), "", "anchor lost: no branch on the configured LazyMode in the aggregation loop")
		} else if pth := g.PathAvoiding(on, callsTo(normal), nil); pth != nil {
			c.Bad("C17-R8", "AggregationLoop ⟂ mode-follows-configuration", fnName(agg), p.InstrPos(on[0].In), "with lazy mode configured the normal loop can still be chosen (a further condition decides): blocks are then produced once per block interval instead of on demand and once per idle interval", g.DescribePath(pth))
		} else if pth := g.PathAvoiding(off, callsTo(lazy), nil); pth != nil {
			c.Bad("C17-R8", "AggregationLoop ⟂ mode-follows-configuration", fnName(agg), p.InstrPos(off[0].In), "without lazy mode configured the lazy loop can be chosen", g.DescribePath(pth))
		} else {
			c.OK("C17-R8", "AggregationLoop ⟂ mode-follows-configuration", fnName(agg), p.InstrPos(on[0].In), "the configured mode alone selects the loop", true)
		}
		c.MinInstances("C17-R8", 1)
	}
	ruleHandOffNotifies(c, p, nf, "C17-R9")
	ruleIntervalsDefaulted(c, p, "C17-R10")
	c.MinInstances("C17-R2", 4)
	c.MinInstances("C17-R3", 3)
	c.MinInstances("C17-R4", 2)
	c.MinInstances("C17-R6", 2)
	c.Doc("C17-R11", "VP+EO: a timer reset that follows a production and is computed from an instant (the remaining part of the interval since time.Now()) takes that instant before the production call, not after it: the time spent producing counts against the interval (otherwise a notification that arrives during production is served a whole block interval after production ended, and blocks come every interval + production time).")
	c.MinInstances("C17-R11", 2)
	c.MinInstances("C17-R13", 3)
}

// resetsByBlockTime: the duration of the timer reset derives from the configured block interval
// (directly, or as the remainder of it since a start time), not from the lazy interval.
func resetsByBlockTime(p *Prog, n *Node) bool {
	d := ArgTerm(n, 1)
	if d == nil {
		return false
	}
	isBT := func(t *Term) bool { return t.Op == "field" && t.Name == "BlockTime" }
	isLazy := func(t *Term) bool { return t.Op == "field" && t.Name == "LazyBlockInterval" }
	return p.DeepContains(d, isBT, 2) && !p.DeepContains(d, isLazy, 2)
}

// timerParamName: the name of fn's parameter of type *time.Timer ("" if none).
func timerParamName(fn *ssa.Function) string {
	for _, prm := range fn.Params {
		if prm.Type().String() == "*time.Timer" {
			return prm.Name()
		}
	}
	return "\x00"
}

// ruleHandOffNotifies (C17-R9): the wake-up starts where transactions are handed to the sequencing
// layer. Once the layer accepted a batch, the function that handed it over reaches its return only
// through the notifier — or through the test showing that there is nobody to notify (no manager,
// nothing submitted). A failure of the bookkeeping that follows the hand-off must not skip it: in
// lazy mode nothing else wakes the loop before the idle interval.
func ruleHandOffNotifies(c *Check, p *Prog, notifier *ssa.Function, rule string) {
	c.Doc(rule, "EO: in every function that hands transactions to the sequencing layer and notifies the block manager, every path from the layer's acceptance to a return passes the notifier (or a test on the manager / the batch showing there is nothing to notify).")
	isSubmit := IsCall(seqM("SubmitBatchTxs"))
	isNotify := func(n *Node) bool { cc := CallCommonOf(n); return cc != nil && cc.StaticCallee() == notifier }
	n := 0
	for _, fn := range p.Funcs {
		pk := fnPkg(fn)
		if pk == nil || pk.Pkg.Path() != rootPath+"/block" || fn.Blocks == nil || fn.Parent() != nil {
			continue
		}
		calls := false
		for _, b := range fn.Blocks {
			for _, in := range b.Instrs {
				if call, ok := in.(*ssa.Call); ok && commonName(call.Common()) == seqM("SubmitBatchTxs") {
					calls = true
				}
			}
		}
		if !calls {
			continue
		}
		g := BuildECFG(p, fn, ExpandOpts{MaxDepth: 1})
		c.NoteGraph(g)
		notes := g.Select(isNotify)
		inst := fnShort(fn) + " ⟂ accepted-batch→notification"
		if len(notes) == 0 {
			c.Bad(rule, inst, fnName(fn), p.Pos(fn.Pos()), "transactions are handed to the sequencing layer without notifying the block manager: in lazy mode no block is produced for them before the idle interval", nil)
			n++
			continue
		}
		accepted := g.Select(ErrNilEdge(func(t *Term) bool {
			return t.IsCall(seqM("SubmitBatchTxs")) || (t.Op == "invoke" && strings.HasSuffix(t.Name, "SubmitBatchTxs"))
		}))
		if len(accepted) == 0 {
			c.Unk(rule, inst, fnName(fn), "", "anchor lost: no branch on the error of SubmitBatchTxs")
			continue
		}
		// the tests that guard the notifier and depend on no call result: their other side means "nothing to notify"
		var nothing []*Node
		guards := map[ssa.Instruction]bool{}
		after := map[ssa.Instruction]bool{}
		for nd, r := range g.Reachable(accepted, nil) {
			if r && nd.Kind == NInstr && nd.In != nil {
				after[nd.In] = true
			}
		}
		for _, f := range g.NecessaryEdges(nodeSet(notes)) {
			if f.Node == nil || f.Node.In == nil {
				continue
			}
			pure := true
			f.Cond.Walk(func(t *Term) bool {
				if in, ok := t.V.(ssa.Instruction); ok && after[in] {
					if call, isCall := in.(*ssa.Call); isCall {
						if _, builtin := call.Common().Value.(*ssa.Builtin); !builtin {
							pure = false // depends on something done after the hand-off
						}
					}
				}
				return true
			})
			if pure {
				guards[f.Node.In] = true
			}
		}
		acc := map[*Node]bool{}
		for _, a := range accepted {
			acc[a] = true
		}
		for _, e := range g.Nodes {
			if (e.Kind == NTrue || e.Kind == NFalse) && e.In != nil && guards[e.In] && !acc[e] {
				isNecessary := false
				for _, f := range g.NecessaryEdges(nodeSet(notes)) {
					if f.Node == e {
						isNecessary = true
					}
				}
				reachesNotify := false
				for nd, r := range g.Reachable([]*Node{e}, nil) {
					if r && isNotify(nd) {
						reachesNotify = true
					}
				}
				if !isNecessary && !reachesNotify {
					nothing = append(nothing, e)
				}
			}
		}
		n++
		_ = isSubmit
		c.Decide(rule, inst, fnName(fn), p.InstrPos(notes[0].In), "after the sequencing layer accepted the batch every return is reached through the notifier",
			"the function can return after the sequencing layer accepted the batch without notifying the block manager: in lazy mode the transactions wait for the idle interval instead of getting a block within a block interval",
			g, g.MustFollow(nodeSet(accepted), orPred(isNotify, nodeSet(nothing)), g.AnyExit()))
	}
	if n == 0 {
		c.Unk(rule, "anchor-count", "", "", "anchor lost: no function of the block package hands transactions to the sequencing layer")
	}
}

// ruleIntervalsDefaulted (C17-R10): the loops arm their timers with the configured block interval
// and idle interval. An interval of zero (left out of the file, a configuration built in code)
// makes a timer fire at once, over and over: blocks far faster than one per block interval, or an
// "idle" block every millisecond. The constructor therefore replaces a zero interval by its
// default — each of the two fields by a store into that very field under the test that it is zero.
func ruleIntervalsDefaulted(c *Check, p *Prog, rule string) {
	c.Doc(rule, "GA+VP: the manager's constructor replaces a zero block interval and a zero idle interval by a positive default, each by a store into the same configuration field it tested for zero (a default written into the wrong field leaves the other interval at zero: the loop then produces a block every millisecond).")
	nm := p.Func(rootPath + "/block.NewManager")
	if nm == nil {
		c.Unk(rule, "NewManager", "", "", "anchor lost: the manager's constructor")
		return
	}
	g := BuildECFG(p, nm, ownPkgOpts(rootPath+"/block", 2))
	c.NoteGraph(g)
	for _, f := range []string{"BlockTime", "LazyBlockInterval"} {
		suffix := ".Node." + f + ".Duration"
		inst := "NewManager ⟂ zero " + f + " is replaced by its default"
		var stores []*Node
		for _, nd := range g.Nodes {
			st, ok := nd.In.(*ssa.Store)
			if !ok || nd.Kind != NInstr || !g.Live()[nd] {
				continue
			}
			if strings.HasSuffix(TermOf(st.Addr, nd.Ctx).String(), suffix) {
				stores = append(stores, nd)
			}
		}
		if len(stores) == 0 {
			if pos, ok := defaultedThroughTable(g, suffix); ok {
				c.OK(rule, inst, fnName(nm), pos, "a table of (field address, positive default) rows is walked by a loop that stores the row's default through the row's address under the test that the value behind that address is zero", true)
				continue
			}
		}
		if len(stores) == 0 {
			c.Bad(rule, inst, fnName(nm), p.Pos(nm.Pos()), "the constructor never writes a default into Node."+f+": a configuration that leaves it zero arms the loop's timer with 0 — it fires at once, every time", nil)
			continue
		}
		ok := false
		for _, sn := range stores {
			st := sn.In.(*ssa.Store)
			v := TermOf(st.Val, sn.Ctx).unconv()
			positive := false
			if v.Op == "const" {
				var k int64
				if _, err := fmt.Sscan(v.Name, &k); err == nil && k > 0 {
					positive = true
				}
			}
			tested := false
			ss := sn
			for _, fct := range g.NecessaryEdges(func(x *Node) bool { return x == ss }) {
				a, op, b, okc := canonCmp(fct.Cond, fct.Pol)
				if okc && op == "==" && ((strings.HasSuffix(a.String(), suffix) && b.unconv().Name == "0") || (strings.HasSuffix(b.String(), suffix) && a.unconv().Name == "0")) {
					tested = true
				}
			}
			if positive && tested {
				ok = true
			}
		}
		if ok {
			c.OK(rule, inst, fnName(nm), p.InstrPos(stores[0].In), "a positive default is stored into the field under the test that it is zero", true)
		} else {
			c.Bad(rule, inst, fnName(nm), p.InstrPos(stores[0].In), "Node."+f+" is not given a positive default under the test that it itself is zero", nil)
		}
	}
}

// defaultedThroughTable: the constructor walks a local table of rows (address of a field, default)
// and stores, under the test that the value behind the row's address is zero, the row's default
// through that address; one row addresses the field with the given suffix and carries a positive
// constant.
func defaultedThroughTable(g *Graph, suffix string) (string, bool) {
	for _, nd := range g.Nodes {
		st, ok := nd.In.(*ssa.Store)
		if !ok || nd.Kind != NInstr || !g.Live()[nd] {
			continue
		}
		al, pf := tableField(st.Addr, 0)
		al2, vf := tableField(st.Val, 0)
		if al == nil || al != al2 || pf == vf {
			continue
		}
		// the guard: *row.ptr == 0
		tested := false
		ss := nd
		for _, fct := range g.NecessaryEdges(func(x *Node) bool { return x == ss }) {
			a, op, b, okc := canonCmp(fct.Cond, fct.Pol)
			if !okc || op != "==" {
				continue
			}
			for _, pr := range [][2]*Term{{a, b}, {b, a}} {
				if pr[1].unconv().Name != "0" {
					continue
				}
				if ld, isLd := pr[0].unconv().V.(*ssa.UnOp); isLd && ld.Op == token.MUL {
					if tal, tf := tableField(ld.X, 0); tal == al && tf == pf {
						tested = true
					}
				}
			}
		}
		if !tested {
			continue
		}
		lit := ssa.Value(al)
		for _, r := range *al.Referrers() {
			if s2, ok := r.(*ssa.Store); ok && s2.Addr == ssa.Value(al) {
				if ld, ok := s2.Val.(*ssa.UnOp); ok && ld.Op == token.MUL {
					if inner, ok := ld.X.(*ssa.Alloc); ok {
						lit = inner
					}
				}
			}
		}
		rows := litStores(lit)
		for i := 0; ; i++ {
			ps, vs := rows[fmt.Sprintf("[%d].%s", i, pf)], rows[fmt.Sprintf("[%d].%s", i, vf)]
			if len(ps) != 1 || len(vs) != 1 {
				break
			}
			pt, vt := TermOf(ps[0], nd.Ctx), TermOf(vs[0], nd.Ctx).unconv()
			var k int64
			if strings.HasSuffix(strings.TrimPrefix(pt.String(), "&"), suffix) && vt.Op == "const" {
				if _, err := fmt.Sscan(vt.Name, &k); err == nil && k > 0 {
					return g.P.InstrPos(nd.In), true
				}
			}
		}
	}
	return "", false
}

// ruleResetReferenceBeforeProduction (C17-R11): for every timer Reset reachable from a production
// before the loop waits again whose duration derives from a time.Now() call: that call is not
// reachable from the production within the iteration (it was made before production began).
var c17r11Seen = map[string]bool{}

// ruleProductionNoDeadline (C17-R13): the aggregation loop hands its own context to the production
// call. A deadline set in the loop (context.WithTimeout / WithDeadline around the attempt) cancels
// every production that takes longer than it: the saved block is retried under the same deadline,
// so the cadence "one block per interval, or as fast as production allows" becomes "no block".
func ruleProductionNoDeadline(c *Check, p *Prog, g *Graph, mode, fn string, prods []*Node) {
	for _, nd := range prods {
		cc := CallCommonOf(nd)
		if cc == nil || len(cc.Args) == 0 {
			continue
		}
		ct := TermOf(cc.Args[0], nd.Ctx)
		inst := mode + " ⟂ production called with the loop's context, no deadline of the loop's own"
		if p.DeepContains(ct, func(t *Term) bool {
			return t.IsCall("context.WithTimeout") || t.IsCall("context.WithDeadline") || t.IsCall("context.WithTimeoutCause") || t.IsCall("context.WithDeadlineCause")
		}, 1) {
			c.Bad("C17-R13", inst, fn, p.InstrPos(nd.In), "the production call runs under a deadline set in the aggregation loop ("+trunc(ct.String(), 80)+"): a production that takes longer than it is cancelled, and so is every retry — no block is produced while production is slower than the deadline, instead of one block per production time", nil)
		} else {
			c.OK("C17-R13", inst, fn, p.InstrPos(nd.In), "the context handed to the production is the loop's own", true)
		}
	}
}

func ruleResetReferenceBeforeProduction(c *Check, p *Prog, g *Graph, mode, fn string, prods, sel []*Node) {
	if c17r11Seen[mode] {
		return
	}
	c17r11Seen[mode] = true
	after := g.Reachable(prods, nodeSet(sel))
	n := 0
	for nd := range after {
		if nd.Kind != NInstr || CallName(nd) != "(*time.Timer).Reset" {
			continue
		}
		d := ArgTerm(nd, 1)
		if d == nil {
			continue
		}
		var nows []ssa.Value
		var collect func(t *Term, depth int)
		collect = func(t *Term, depth int) {
			t.Walk(func(x *Term) bool {
				if x.Op == "call" && x.Name == "time.Now" && x.V != nil {
					nows = append(nows, x.V)
				}
				return true
			})
		}
		collect(d, 0)
		if len(nows) == 0 {
			continue
		}
		n++
		inst := mode + " ⟂ " + trunc(RecvTerm(nd).String(), 20) + ".Reset reference instant precedes production @" + p.InstrPos(nd.In)
		var late []*Node
		for _, nv := range nows {
			nv := nv
			if pth := g.PathAvoiding(prods, func(x *Node) bool {
				return x.Kind == NInstr && x.In != nil && ssa.Value(nil) != nv && instrValue(x.In) == nv
			}, nodeSet(sel)); pth != nil {
				late = pth
			}
		}
		c.Decide("C17-R11", inst, fn, p.InstrPos(nd.In), "the instant the remaining interval is measured from is taken before the production call",
			"the timer is re-armed for the remaining part of the interval measured from an instant taken after the production: the time spent producing is not deducted, so a notification that arrived during production waits a whole further block interval and blocks are spaced interval + production time apart", g, late)
	}
	if n == 0 {
		c.OK("C17-R11", mode+" ⟂ no reset computed from an instant", fn, "", "no timer reset after a production derives from time.Now()", false)
	}
}

func instrValue(in ssa.Instruction) ssa.Value {
	if v, ok := in.(ssa.Value); ok {
		return v
	}
	return nil
}
