package main

import (
	"encoding/json"
	"flag"
	"fmt"
	"os"
	"runtime"
	"runtime/debug"
	"sort"
	"strconv"
	"time"
)

type propDef struct {
	run         func(c *Check)
	explanation string
	notDecided  string
	assumptions []string
}

var registry = map[string]*propDef{}
var variantsDir string

func register(id string, d *propDef) { registry[id] = d }

func main() {
	os.Setenv("PATH", goBin+":"+os.Getenv("PATH"))
	for _, kv := range [][2]string{{"GOWORK", "off"}, {"GOFLAGS", "-mod=mod"}, {"GOPROXY", "off"}, {"GOSUMDB", "off"}, {"GOTOOLCHAIN", "local"}} {
		os.Setenv(kv[0], kv[1])
	}
	startWatchdog()
	prop := flag.String("prop", "", "property id (C01..C20)")
	tier := flag.String("tier", "quick", "quick|thorough")
	repo := flag.String("repo", "/repo", "repository under analysis")
	out := flag.String("out", "", "evidence file")
	known := flag.String("known", "/verif/known_findings.json", "known findings file")
	replayOut := flag.String("replay-out", "", "where to write the violation report")
	replay := flag.String("replay", "", "violation report to replay")
	list := flag.Bool("list", false, "list properties")
	dump := flag.String("dump", "", "debug: dump ECFG summary of function")
	warm := flag.Bool("warm", false, "load every module once (fills the build cache)")
	variants := flag.String("variants", "/verif/variants", "directory of variant patches (thorough tier)")
	flag.Parse()

	if *list {
		var ids []string
		for id := range registry {
			ids = append(ids, id)
		}
		sort.Strings(ids)
		for _, id := range ids {
			fmt.Println(id)
		}
		return
	}
	variantsDir = *variants
	if *warm {
		w := NewWorld(*repo)
		for _, m := range []string{ModRoot, ModDA, ModSingle, ModBased, ModTestapp} {
			p := w.Mod(m)
			fmt.Printf("loaded %s: %d packages, %d functions\n", m, len(p.Pkgs), len(p.Funcs))
		}
		return
	}
	if *dump != "" {
		debugDump(*repo, *dump, flag.Args())
		return
	}
	d := registry[*prop]
	if d == nil {
		fatalBroken("unknown property %q", *prop)
	}
	if *tier != "quick" && *tier != "thorough" {
		fatalBroken("unknown tier %q", *tier)
	}
	seed := 0
	if s := os.Getenv("VERIF_SEED"); s != "" {
		seed, _ = strconv.Atoi(s)
	}
	t0 := time.Now()
	c := &Check{Prop: *prop, Tier: *tier, W: NewWorld(*repo), known: loadKnown(*known),
		Explanation: d.explanation, NotDecided: d.notDecided, Assumptions: d.assumptions}
	func() {
		defer func() {
			if r := recover(); r != nil {
				fatalBroken("analyser panic: %v\n%s", r, debug.Stack())
			}
		}()
		d.run(c)
		if c.Thorough() {
			c.Variants = runVariants(c)
		}
		c.finish()
	}()
	if *out == "" {
		*out = fmt.Sprintf("/verif/evidence/%s.json", *prop)
	}
	if *replayOut == "" {
		*replayOut = fmt.Sprintf("/verif/evidence/replay/%s-%s.json", *prop, *tier)
	}
	viol := c.writeEvidence(*out, time.Since(t0), seed)

	// summary
	n := map[Verdict]int{}
	for _, o := range c.Obls {
		n[o.Verdict]++
	}
	fmt.Printf("property=%s tier=%s obligations=%d discharged=%d known=%d violated=%d undecided=%d functions=%d ecfg_nodes=%d wall=%.1fs\n",
		c.Prop, c.Tier, len(c.Obls), n[Discharged], n[Known], n[Violated], n[Undecided], c.Stats.Functions, c.Stats.ECFGNodes, time.Since(t0).Seconds())
	for _, o := range c.Obls {
		switch o.Verdict {
		case Known:
			fmt.Printf("KNOWN-FINDING: property=%s rule=%s instance=%q at %s: %s\n", c.Prop, o.Rule, o.Instance, o.Pos, o.Detail)
		case Violated, Undecided:
			fmt.Printf("  %s: rule=%s instance=%q func=%s at %s: %s\n", o.Verdict, o.Rule, o.Instance, o.Func, o.Pos, o.Detail)
			for _, p := range o.Path {
				fmt.Printf("      | %s\n", p)
			}
		}
	}
	if *replay != "" {
		replayReport(c, *replay)
	}
	if viol > 0 {
		c.writeReplay(*replayOut)
		fmt.Printf("VIOLATION property=%s replay=%s\n", c.Prop, *replayOut)
		os.Exit(1)
	}
}

// replayReport re-evaluates the instances recorded in a violation report against the current tree.
func replayReport(c *Check, path string) {
	b, err := os.ReadFile(path)
	if err != nil {
		fatalBroken("replay: %v", err)
	}
	var rep struct {
		Violations []Obligation `json:"violations"`
	}
	if err := json.Unmarshal(b, &rep); err != nil {
		fatalBroken("replay: %v", err)
	}
	cur := map[string]*Obligation{}
	for _, o := range c.Obls {
		cur[o.Rule+"|"+o.Instance] = o
	}
	for _, v := range rep.Violations {
		if o := cur[v.Rule+"|"+v.Instance]; o != nil {
			fmt.Printf("replay: %s %q recorded=%s now=%s\n", v.Rule, v.Instance, v.Verdict, o.Verdict)
		} else {
			fmt.Printf("replay: %s %q recorded=%s now=absent (instance no longer exists)\n", v.Rule, v.Instance, v.Verdict)
		}
	}
}

func debugDump(repo, fn string, args []string) {
	w := NewWorld(repo)
	mod := ModRoot
	depth := 3
	if len(args) > 0 {
		mod = args[0]
	}
	if len(args) > 1 {
		depth, _ = strconv.Atoi(args[1])
	}
	p := w.Mod(mod)
	f := p.MustFunc(fn)
	g := BuildECFG(p, f, ExpandOpts{MaxDepth: depth})
	fmt.Printf("nodes=%d exits=%d unbound=%d recursive=%d depthcut=%d undecided=%v\n", len(g.Nodes), len(g.Exits), len(g.Unbound), len(g.Recursive), len(g.DepthCut), g.Undecided)
	live := g.Live()
	for _, n := range g.Nodes {
		if !live[n] {
			continue
		}
		if cn := CallName(n); cn != "" {
			fmt.Printf("%5d d%d %s  [%s]\n", n.ID, n.Ctx.Depth, shortName(cn), p.InstrPos(n.In))
		}
	}
	for _, n := range g.Unbound {
		fmt.Println("unbound:", g.Describe(n))
	}
}

// startWatchdog keeps a run-away analysis from taking the machine down: when the heap passes the
// budget (VERIF_MEM_GB, default 24) or the run passes the time budget (VERIF_MAX_SECONDS, default
// 3600) the check stops as broken, with the stacks of all goroutines on stderr — a broken check
// is reported as such, never as a verdict.
func startWatchdog() {
	memGB, maxSec := 24.0, 3600.0
	if v := os.Getenv("VERIF_MEM_GB"); v != "" {
		fmt.Sscan(v, &memGB)
	}
	if v := os.Getenv("VERIF_MAX_SECONDS"); v != "" {
		fmt.Sscan(v, &maxSec)
	}
	start := time.Now()
	go func() {
		var ms runtime.MemStats
		for {
			time.Sleep(500 * time.Millisecond)
			runtime.ReadMemStats(&ms)
			over := ""
			if float64(ms.HeapAlloc) > memGB*(1<<30) {
				over = fmt.Sprintf("heap %.1f GB above the budget of %.0f GB", float64(ms.HeapAlloc)/(1<<30), memGB)
			} else if time.Since(start).Seconds() > maxSec {
				over = fmt.Sprintf("run time above the budget of %.0f s", maxSec)
			}
			if over != "" {
				buf := make([]byte, 1<<20)
				n := runtime.Stack(buf, true)
				fmt.Fprintf(os.Stderr, "CHECK-BROKEN: analysis stopped by the watchdog: %s\n%s\n", over, buf[:n])
				fmt.Println("CHECK-BROKEN: analysis stopped by the watchdog: " + over)
				os.Exit(3)
			}
		}
	}()
}
