package main

import (
	"fmt"
	"go/types"
	"os"
	"sort"
	"strings"

	"golang.org/x/tools/go/ssa"
)

func init() {
	register("C06", &propDef{
		run: runC06,
		explanation: "Decides the structural clauses behind the submission watermark: R1 every writer of the watermark is a compare-and-swap from 0 (load of the persisted value) or one guarded by new > old (monotone); " +
			"R2 the watermark setter is called only from the submitter's post-acceptance callback (or to acknowledge items that have nothing to submit, C08-R2); inside the submitter that callback is reachable only for result code Success (enum-conditioned reachability over all DA status codes), receives remaining[:SubmittedCount] with remaining advanced by exactly the accepted counts, and passes on the height of the last element of that slice; " +
			"R3 the submit helper reports Success only when the DA returned no error, with SubmittedCount = number of ids returned; R4 the pending range is (watermark, Store.Height()], ascending, contiguous, cut at the first fetch error; " +
			"R5 the submitter leaves its retry loop only when all is submitted, attempts are exhausted or the context is cancelled, and the submission loops return only on cancellation; " +
			"R6 the blobs are encodings of the committed items (header: proto of the stored header; data: SignedData{stored data, Sign(MarshalBinary(data)), signer's key, genesis address}, skipped only when it has no transactions); " +
			"R7 with no persisted watermark the range must start at the genesis initial height.",
		notDecided:  "What actually is on the DA layer; lost acknowledgements; behaviour over restarts beyond the persisted watermark being what R1/R2 wrote; that retries eventually succeed.",
		assumptions: []string{"DA, Store, Signer are effect leaves", "sync/atomic semantics", "go/ssa"},
	})
	register("C07", &propDef{
		run: runC07,
		explanation: "Decides: R1 the DA-included height has two writers: NewManager (load of the persisted 8-byte value) and the increment, a compare-and-swap (cur, cur+1) with cur the loaded value; " +
			"R2 in the increment Executor.SetFinal(cur+1) succeeds before the height is persisted, which succeeds before the in-memory height moves; " +
			"R3 the increment is called only when IsDAIncluded(cur+1) returned true and the DA-height mapping of that height was stored; " +
			"R4 IsDAIncluded accepts only if height <= Store.Height(), the header hash of the stored block is marked and (the data commitment is the empty hash or it is marked); " +
			"R5 the marks are set only by the retriever under C03 admission with the scanned DA height and by the submitter's post-acceptance callback with the accepted result's height.",
		notDecided:  "Eventually reaching h (liveness; the marks live in memory only and are lost on a crash — noted in DESIGN 7); the DA layer's own view.",
		assumptions: []string{"Executor/Store effect leaves", "sync/atomic", "go/ssa"},
	})
	register("C08", &propDef{
		run: runC08,
		explanation: "Decides: R1 the refusing return of the production step is taken only if limit != 0 and (pending headers >= limit or pending data >= limit), with pending = Store.Height() - watermark; " +
			"R2 in the step that turns pending data into submissions every element is, on every path through the loop body, appended to the submission list, acknowledged through the watermark setter, or passed over behind an element appended earlier in the same pass — otherwise a class of items (empty data) can only grow the counter and any limit >= 1 is eventually reached for good on an idle chain.",
		notDecided:  "'Resumes as soon as' (timing); DA acceptance itself.",
		assumptions: []string{"Store effect leaf", "go/ssa"},
	})
}

const daPkg = rootPath + "/core/da"

func submitterInstances(p *Prog) []*ssa.Function {
	var out []*ssa.Function
	for _, fn := range p.Funcs {
		if fn.Parent() == nil && isSubmitterFn(fn) && len(fn.TypeArgs()) > 0 {
			out = append(out, fn)
		}
	}
	sort.Slice(out, func(i, j int) bool { return out[i].String() < out[j].String() })
	return out
}

func runC06(c *Check) {
	p := c.Mod(ModRoot)
	c.Doc("C06-R1", "CS+GA+VP: writers of pendingBase.lastHeight.")
	c.Doc("C06-R2", "CS+ER+VP: who may move the watermark, under which result code, with which slice and height.")
	c.Doc("C06-R3", "ER+VP: SubmitWithHelpers: Success only with err == nil; SubmittedCount = len(ids).")
	c.Doc("C06-R4", "VP: shape of the pending range in pendingBase.getPending.")
	c.Doc("C06-R5", "EO: exits of the retry loop and of the submission loops.")
	c.Doc("C06-R6", "VP: provenance of the submitted blobs.")
	c.Doc("C06-R7", "VP: the lower end of the pending range when no watermark is persisted derives from the genesis initial height.")

	// ---- R1: writers of lastHeight
	nW := 0
	seenGeneric := map[string]bool{}
	for _, fn := range p.Funcs {
		pk := fnPkg(fn)
		if pk == nil || pk.Pkg.Path() != rootPath+"/block" {
			continue
		}
		if gn := genericName(fnName(fn)); gn != fnName(fn) {
			if seenGeneric[gn] {
				continue // one representative per generic body
			}
			seenGeneric[gn] = true
		}
		g := BuildECFG(p, fn, ExpandOpts{MaxDepth: 2})
		for _, n := range g.Select(func(n *Node) bool { _, ok := isAtomicMutatorOn(n, "lastHeight"); return ok && n.Ctx.Depth == 0 }) {
			c.NoteGraph(g)
			nW++
			m, _ := isAtomicMutatorOn(n, "lastHeight")
			inst := genericName(fnShort(fn)) + " ⟂ lastHeight." + m
			pos := p.InstrPos(n.In)
			if m != "CompareAndSwap" {
				c.Bad("C06-R1", inst, fnName(fn), pos, "the watermark is written with "+m+": not a guarded compare-and-swap, it can move down", nil)
				continue
			}
			old, nw := ArgTerm(n, 1), ArgTerm(n, 2)
			if old.Op == "const" && old.Name == "0" {
				fromStore := strings.Contains(nw.String(), "Uint64(") && strings.Contains(nw.String(), "pkg/store.Store).GetMetadata(") && strings.Contains(nw.String(), ".metaKey")
				if fromStore {
					c.OK("C06-R1", inst, fnName(fn), pos, "initialisation: CAS from 0 to the value persisted under the tracker's own key: "+trunc(nw.String(), 80), true)
				} else {
					c.Bad("C06-R1", inst, fnName(fn), pos, "the watermark is initialised from something other than the value persisted under the tracker's own metadata key ("+trunc(nw.String(), 100)+"): after a restart submission does not resume where it stopped", nil)
				}
				continue
			}
			isLoad := old.IsCall("atomic.Uint64).Load") && old.Args[0].Op == "field" && old.Args[0].Name == "lastHeight"
			facts := g.NecessaryEdges(nodeSet([]*Node{n}))
			guard := false
			for _, f := range facts {
				t := f.Cond
				if t.Op == "bin" && ((t.Name == ">" && f.Pol && t.Args[0].String() == nw.String() && t.Args[1].String() == old.String()) ||
					(t.Name == "<" && f.Pol && t.Args[1].String() == nw.String() && t.Args[0].String() == old.String()) ||
					(t.Name == "<=" && !f.Pol && t.Args[0].String() == nw.String() && t.Args[1].String() == old.String())) {
					guard = true
				}
			}
			// the new watermark is persisted under the tracker's key after the CAS succeeded
			persisted := false
			casOK := g.Select(EdgeWhere(func(t *Term, pol bool, x *Node) bool {
				t, pol = normFact(t, pol)
				return pol && t.V == ssa.Value(n.In.(*ssa.Call))
			}))
			for _, sm := range g.Select(IsCall(storeM("SetMetadata"))) {
				k, v := ArgTerm(sm, 1), ArgTerm(sm, 2)
				wrote := false
				if al, ok := rootAlloc(rootOf(v)); ok || v.Op == "make" {
					_ = al
				}
				// the bytes written: PutUint64(buf, new)
				for _, pu := range g.Select(func(x *Node) bool { return strings.HasSuffix(CallName(x), ").PutUint64") }) {
					if ArgTerm(pu, 2) != nil && ArgTerm(pu, 2).String() == nw.String() && ArgTerm(pu, 1).String() == v.String() {
						wrote = true
					}
				}
				if k.Op == "field" && k.Name == "metaKey" && wrote && len(casOK) > 0 && g.PathAvoiding([]*Node{g.Entry}, nodeSet([]*Node{sm}), nodeSet(casOK)) == nil {
					persisted = true
				}
			}
			if isLoad && guard && !persisted {
				c.Bad("C06-R1", inst+" ⟂ persisted", fnName(fn), pos, "after a successful CAS the new watermark is not written (as the same value, under the tracker's own key) to the store: a restart resumes from an older height or from another tracker's", nil)
			} else if isLoad && guard {
				c.OK("C06-R1", inst+" ⟂ persisted", fnName(fn), pos, "the value set is persisted under the tracker's key after the CAS succeeded", true)
			}
			if isLoad && guard {
				c.OK("C06-R1", inst, fnName(fn), pos, "CAS(old, new) with old = Load() and guarded by new > old", true)
			} else {
				c.Bad("C06-R1", inst, fnName(fn), pos, fmt.Sprintf("watermark CAS is not (Load(), new) under new > old (old-is-load=%v guard=%v): the recorded height could decrease", isLoad, guard), nil)
			}
		}
	}
	// the watermark is encoded and decoded with the same byte order
	{
		orders := func(names []string, put bool) map[string]bool {
			out := map[string]bool{}
			for _, fn := range p.Funcs {
				pk := fnPkg(fn)
				if pk == nil || pk.Pkg.Path() != rootPath+"/block" || !strings.Contains(fn.String(), "pendingBase[") {
					continue
				}
				for n := range callNames(fn) {
					if !strings.HasPrefix(n, "(encoding/binary.") {
						continue
					}
					isPut := strings.Contains(n, ").Put") || strings.Contains(n, ").Append")
					if isPut == put && strings.HasSuffix(n, "int64") {
						out[n[len("(encoding/binary."):strings.Index(n, ")")]] = true
					}
				}
				for _, cal := range staticCalleesOf(p, fn) {
					for n := range callNames(cal) {
						if strings.HasPrefix(n, "(encoding/binary.") && strings.HasSuffix(n, "int64") {
							isPut := strings.Contains(n, ").Put") || strings.Contains(n, ").Append")
							if isPut == put {
								out[n[len("(encoding/binary."):strings.Index(n, ")")]] = true
							}
						}
					}
				}
			}
			return out
		}
		w, r := sortedKeys(orders(nil, true)), sortedKeys(orders(nil, false))
		if len(w) == 1 && len(r) == 1 && w[0] == r[0] {
			c.OK("C06-R1", "watermark-codec ⟂ same-byte-order", "", "", "written and read as "+w[0]+" uint64", true)
		} else {
			c.Bad("C06-R1", "watermark-codec ⟂ same-byte-order", "", "", fmt.Sprintf("the persisted watermark is written as %v but read as %v: after a restart the tracker loads a byte-swapped height far above the store height; the pending count underflows and block production is refused for good", w, r), nil)
		}
	}
	c.MinInstances("C06-R1", 2)

	// ---- R2a: who calls the setter
	setter := func(n *Node) bool {
		return genericName(CallName(n)) == "(*"+rootPath+"/block.pendingBase[_]).setLastSubmittedHeight"
	}
	loops := []string{"HeaderSubmissionLoop", "DataSubmissionLoop", "AggregationLoop", "SyncLoop", "RetrieveLoop", "DAIncluderLoop", "HeaderStoreRetrieveLoop", "DataStoreRetrieveLoop"}
	coveredSetters := map[ssa.Instruction]bool{}
	coveredSites := map[ssa.Instruction]bool{} // call sites on the way from a worker loop to a setter call
	loopRoots := map[*ssa.Function]bool{}
	for _, l := range loops {
		root := p.MustFunc(mgrM(l))
		loopRoots[root] = true
		g := BuildECFG(p, root, ExpandOpts{MaxDepth: 7})
		c.NoteGraph(g)
		for _, n := range g.Select(setter) {
			coveredSetters[n.In] = true
			for x := n.Ctx; x != nil; x = x.Parent {
				if x.Site != nil {
					coveredSites[x.Site.(ssa.Instruction)] = true
				}
			}
			// the wrapper that called it and its caller
			var chain []string
			for x := n.Ctx; x != nil; x = x.Parent {
				chain = append(chain, fnShort(x.Fn))
			}
			inst := l + " ⟂ watermark-setter via " + chain[len(chain)-1]
			if len(chain) >= 2 {
				inst = l + " ⟂ watermark-setter in " + chain[1]
			}
			pos := p.InstrPos(n.In)
			if inSubmitter(n) {
				c.OK("C06-R2", inst, fnName(n.Ctx.Fn), pos, "called from the submitter's post-acceptance callback", true)
				continue
			}
			// acknowledgement of an item with nothing to submit: guarded by len(item.Txs) == 0 and by "nothing appended yet"
			facts := g.FactsAt(nodeSet([]*Node{n}), 2)
			hArg := ArgTerm(n, 2)
			emptyItem, nothingQueued := false, false
			for _, f := range facts {
				t := f.Cond
				if t.Op == "bin" && t.Name == "==" && f.Pol && t.Args[1].Name == "0" {
					s := t.Args[0].String()
					if strings.HasPrefix(s, "len(") && strings.HasSuffix(s, ".Txs)") {
						item := strings.TrimSuffix(strings.TrimPrefix(s, "len("), ".Txs)")
						if strings.Contains(hArg.String(), item) {
							emptyItem = true
						}
					} else if strings.HasPrefix(s, "len(") && strings.Contains(s, "append(") || strings.HasPrefix(s, "len(φ(") {
						nothingQueued = true
					}
				}
			}
			if emptyItem && nothingQueued {
				c.OK("C06-R2", inst, fnName(n.Ctx.Fn), pos, "acknowledges an item without transactions (nothing to submit) while nothing earlier in the pass is waiting", true)
			} else {
				c.Bad("C06-R2", inst, fnName(n.Ctx.Fn), pos, fmt.Sprintf("the watermark is moved outside the post-acceptance callback (empty-item guard=%v, nothing-queued guard=%v): it could pass a height the DA layer did not accept", emptyItem, nothingQueued), nil)
			}
		}
	}
	// census: setter call sites not covered by any loop graph
	for _, fn := range p.Funcs {
		for _, b := range fn.Blocks {
			for _, in := range b.Instrs {
				call, ok := in.(*ssa.Call)
				if !ok || genericName(commonName(call.Common())) != "(*"+rootPath+"/block.pendingBase[_]).setLastSubmittedHeight" {
					continue
				}
				if !coveredSetters[in] {
					// wrappers are fine if all *their* call sites are covered; report only if the wrapper is exported or called from an uncovered place
					callers := callersOf(p, fn)
					if len(callers) == 0 {
						continue // dead or test-only wrapper
					}
					c.Bad("C06-R2", "uncovered watermark-setter in "+fnShort(fn), fnName(fn), p.InstrPos(in), "the watermark setter is reachable from code outside the worker loops", nil)
				}
			}
		}
	}

	// census of the call chains: every function on a path from a worker loop to the setter is
	// called only from call sites that lie on such a path (a wrapper of the setter called from
	// anywhere else, e.g. at start-up, moves the watermark without an acceptance)
	{
		onPath := map[*ssa.Function]bool{}
		for site := range coveredSites {
			if cs, ok := site.(ssa.CallInstruction); ok {
				if cal := cs.Common().StaticCallee(); cal != nil {
					onPath[cal] = true
				}
			}
		}
		for _, fn := range p.Funcs {
			for _, b := range fn.Blocks {
				for _, in := range b.Instrs {
					cs, ok := in.(ssa.CallInstruction)
					if !ok {
						continue
					}
					cal := cs.Common().StaticCallee()
					if cal == nil || !onPath[cal] || loopRoots[cal] || coveredSites[in] {
						continue
					}
					// a call of an instantiation's sibling is the same source call site
					if isSubmitterFn(cal) || strings.Contains(fnName(cal), "$") {
						continue
					}
					sets := false
					for _, b2 := range cal.Blocks {
						for _, in2 := range b2.Instrs {
							if coveredSetters[in2] || coveredSites[in2] {
								sets = true
							}
						}
					}
					if !sets {
						continue
					}
					c.Bad("C06-R2", "uncovered watermark-setter path via "+fnShort(cal)+" in "+fnShort(fn), fnName(fn), p.InstrPos(in), fnShort(cal)+" moves the submission watermark and is called here, outside the submission loops' post-acceptance path: the watermark can pass heights the DA layer never accepted (they are never submitted)", nil)
				}
			}
		}
	}

	// ---- R2b: inside the submitter
	consts := enumConsts(p, daPkg, "StatusCode")
	if len(consts) < 8 {
		c.Unk("C06-R2", "StatusCode enum", "", "", fmt.Sprintf("anchor lost: only %d StatusCode constants found", len(consts)))
	}
	subs := submitterInstances(p)
	if len(subs) == 0 {
		c.Unk("C06-R2", "submitToDA", "", "", "anchor lost: no instantiation of the generic submitter")
	}
	for _, sub := range subs {
		g := BuildECFG(p, sub, ExpandOpts{MaxDepth: 1})
		c.NoteGraph(g)
		fn := fnName(sub)
		sh := fnShort(sub)
		isSubmit := IsCall(typesF("SubmitWithHelpers"))
		submitNodes := g.Select(isSubmit)
		// parameters by type, not by position: the post-acceptance callback is the function-typed
		// parameter without results, the items are the slice parameter
		var postParam, itemsParam *ssa.Parameter
		for _, prm := range sub.Params {
			switch t := prm.Type().Underlying().(type) {
			case *types.Signature:
				if t.Results().Len() == 0 {
					postParam = prm
				}
			case *types.Slice:
				itemsParam = prm
			}
		}
		if postParam == nil || itemsParam == nil {
			c.Unk("C06-R2", sh+" ⟂ parameters", fn, "", "anchor lost: the submitter has no result-less callback parameter or no slice parameter")
			continue
		}
		post := g.Select(func(n *Node) bool {
			cc := CallCommonOf(n)
			if cc == nil || n.Ctx.Depth != 0 {
				return false
			}
			pv, ok := cc.Value.(*ssa.Parameter)
			return ok && pv == postParam
		})
		if len(submitNodes) != 1 || len(post) == 0 {
			c.Unk("C06-R2", sh+" ⟂ postSubmit", fn, "", fmt.Sprintf("anchor lost: %d SubmitWithHelpers calls, %d calls of the post-acceptance parameter", len(submitNodes), len(post)))
			continue
		}
		isCode := func(t *Term) bool {
			return t.Op == "field" && t.Name == "Code" && strings.Contains(t.String(), "types.SubmitWithHelpers(")
		}
		reach := g.EnumReach(submitNodes, nodeSet(post), isCode, consts, isSubmit)
		var codes []string
		for k := range reach {
			codes = append(codes, k)
		}
		sort.Strings(codes)
		if len(codes) == 1 && codes[0] == "StatusSuccess" {
			c.OK("C06-R2", sh+" ⟂ postSubmit-only-on-Success", fn, p.InstrPos(post[0].In), fmt.Sprintf("of %d status codes the post-acceptance callback is reachable only for StatusSuccess", len(consts)), true)
		} else {
			c.Bad("C06-R2", sh+" ⟂ postSubmit-only-on-Success", fn, p.InstrPos(post[0].In), "the post-acceptance callback (which moves the watermark) is reachable for result codes "+strings.Join(codes, ","), g.DescribePath(firstPath(reach, "StatusSuccess")))
		}
		// the slice handed to the callback
		arg := ArgTerm(post[0], 0)
		okSlice := arg.Op == "slice" && strings.Contains(arg.Args[2].String(), ".SubmittedCount") && arg.Args[1].Name == "_"
		base := arg
		if okSlice {
			base = arg.Args[0]
		}
		itemsName := itemsParam.Name()
		okBase := false
		{
			hasItems, hasAdvance, other := false, false, false
			for _, a := range flattenPhi(base) {
				switch {
				case a.String() == itemsName:
					hasItems = true
				case a.Op == "slice" && strings.Contains(a.Args[1].String(), ".SubmittedCount") && a.Args[2].Name == "_" && a.Args[0].Op == "phi":
					hasAdvance = true
				case a.Op == "phi": // cycle marker
				default:
					other = true
				}
			}
			okBase = hasItems && hasAdvance && !other
		}
		if okSlice && okBase {
			c.OK("C06-R2", sh+" ⟂ submitted=remaining[:SubmittedCount]", fn, p.InstrPos(post[0].In), "callback receives remaining[:res.SubmittedCount]; remaining is items advanced by the accepted counts: "+trunc(arg.String(), 120), true)
		} else {
			c.Bad("C06-R2", sh+" ⟂ submitted=remaining[:SubmittedCount]", fn, p.InstrPos(post[0].In), "the slice handed to the post-acceptance callback is not remaining[:res.SubmittedCount] with remaining = items advanced by accepted counts: "+trunc(arg.String(), 200), nil)
		}
		// the blobs sent are the marshalled remaining items: marshaled advanced the same way
		sb := ArgTerm(submitNodes[0], 3)
		okBlobs := false
		if sb != nil {
			hasMake, hasAdv, other := false, false, false
			var alts []*Term
			for _, a := range flattenPhi(sb) {
				if a.Op == "extract" || a.Op == "call" {
					// the list is built by a helper: what the helper returns
					if ls := p.Alternatives(a, 2); len(ls) > 0 {
						alts = append(alts, ls...)
						continue
					}
				}
				alts = append(alts, a)
			}
			for _, a := range alts {
				switch {
				case a.Op == "const" && a.Name == "nil": // the helper's error return: the caller returns before the first hand-off
				case a.Op == "make" && strings.Contains(a.String(), "len("+itemsName+")"):
					hasMake = true
				case a.Op == "slice" && strings.Contains(a.Args[1].String(), ".SubmittedCount") && a.Args[2].Name == "_" && a.Args[0].Op == "phi":
					hasAdv = true
				case a.Op == "phi":
				default:
					other = true
				}
			}
			okBlobs = hasMake && hasAdv && !other
		}
		if okBlobs {
			c.OK("C06-R2", sh+" ⟂ blobs-advance-with-items", fn, p.InstrPos(submitNodes[0].In), "the blob list is advanced by the same accepted counts as the item list", true)
		} else {
			c.Bad("C06-R2", sh+" ⟂ blobs-advance-with-items", fn, p.InstrPos(submitNodes[0].In), "the blob list passed to the DA is not the marshalled list advanced by accepted counts: "+trunc(sb.String(), 160), nil)
		}

		// ---- R5: exits of the retry loop
		hdr := loopHeaderOf(submitNodes[0].In.Block())
		if hdr == nil {
			c.Unk("C06-R5", sh+" ⟂ retry-loop", fn, "", "anchor lost: SubmitWithHelpers is not inside a loop")
		} else {
			head := g.headNode(g.RootCtx, hdr)
			cancelEdges := ctxDoneEdges(g)
			isCancelCode := EdgeWhere(func(t *Term, pol bool, n *Node) bool {
				t, pol = normFact(t, pol)
				return pol && t.Op == "bin" && t.Name == "==" && isCode(t.Args[0].unconv()) && t.Args[1].unconv().Name == fmt.Sprint(consts["StatusContextCanceled"])
			})
			avoid := orPred(func(n *Node) bool { return n == head }, nodeSet(cancelEdges), isCancelCode)
			path := g.PathAvoiding(submitNodes, g.AnyExit(), avoid)
			c.Decide("C06-R5", sh+" ⟂ retry-loop-exits", fn, p.InstrPos(submitNodes[0].In), "after a submission attempt the function returns only through the loop condition or on cancellation",
				"the submitter can return from inside the retry loop for a reason other than cancellation: remaining items are abandoned", g, path)
		}
	}
	c.MinInstances("C06-R2", 8)
	// ---- R9: what is handed to the submitter starts at the watermark. The post-acceptance callback
	// moves the watermark to the height of the last accepted item, which is sound only if every
	// earlier pending height was accepted before: the list given to the submitter is the pending
	// list from its first element (whole, or cut at the upper end). A list cut at the lower end
	// outside the submitter — the next chunk of a backlog — is submitted although the submitter
	// returns nil also for a chunk the DA layer did not take (cancellation, attempts used up): the
	// next accepted chunk then moves the watermark over the one that was skipped.
	{
		c.Doc("C06-R9", "VP+EO: on the way from the submission loops to the generic submitter the list of items is never re-sliced with a non-zero lower bound (only the submitter advances it, by the DA layer's accepted count) — unless every nil return of the submitter is behind the test that everything it was given was accepted: the watermark is set to the height of the last accepted item, so everything before it must have been offered and accepted first.")
		// the submitter's contract: does nil mean "everything was accepted"? Only then may a caller
		// move on to a later part of the backlog after a nil return.
		strict := len(subs) > 0
		for _, sub := range subs {
			sg := BuildECFG(p, sub, ExpandOpts{MaxDepth: 0})
			all := sg.Select(EdgeWhere(func(t *Term, pol bool, n *Node) bool {
				a, op, b, okc := canonCmp(t, pol)
				return okc && op == "==" && (strings.Contains(a.String(), ".SubmittedCount") || strings.Contains(b.String(), ".SubmittedCount"))
			}))
			if len(all) == 0 || sg.PathAvoiding([]*Node{sg.Entry}, sg.SuccessExits(), nodeSet(all)) != nil {
				strict = false
			}
		}
		n9 := 0
		for _, loop := range []string{"HeaderSubmissionLoop", "DataSubmissionLoop"} {
			root := p.MustFunc(mgrM(loop))
			g := BuildECFG(p, root, ExpandOpts{MaxDepth: 5})
			c.NoteGraph(g)
			for _, nd := range g.Nodes {
				if nd.Kind != NInstr || !g.Live()[nd] {
					continue
				}
				cc := CallCommonOf(nd)
				if cc == nil || cc.StaticCallee() == nil {
					continue
				}
				isSub := false
				for _, sub := range subs {
					if cc.StaticCallee() == sub || (cc.StaticCallee().Origin() != nil && cc.StaticCallee().Origin() == sub.Origin()) {
						isSub = true
					}
				}
				if !isSub {
					continue
				}
				// the items argument: the slice-typed one
				for i, a := range cc.Args {
					if _, isSl := a.Type().Underlying().(*types.Slice); !isSl {
						continue
					}
					if _, isBytes := a.Type().Underlying().(*types.Slice).Elem().Underlying().(*types.Basic); isBytes {
						continue
					}
					n9++
					t := ArgTerm(nd, i)
					var cut *Term
					t.Walk(func(x *Term) bool {
						if x.Op == "slice" && len(x.Args) >= 2 {
							lo := x.Args[1].unconv()
							if !(lo.Op == "const" && (lo.Name == "_" || strings.HasPrefix(lo.Name, "0"))) && lo.Name != "_" {
								cut = x
							}
						}
						return true
					})
					inst := loop + " ⟂ items offered from the start of the pending list ⟂ " + fnShort(nd.Ctx.Fn)
					if cut != nil && strict {
						c.OK("C06-R9", inst, fnName(nd.Ctx.Fn), p.InstrPos(nd.In), "the list is cut at its lower end outside the submitter, and every nil return of the submitter is behind the test that the DA layer accepted everything it was given", true)
					} else if cut == nil {
						c.OK("C06-R9", inst, fnName(nd.Ctx.Fn), p.InstrPos(nd.In), "the list handed to the submitter is not cut at its lower end: "+trunc(t.String(), 100), true)
					} else {
						c.Bad("C06-R9", inst, fnName(nd.Ctx.Fn), p.InstrPos(nd.In), "the list handed to the submitter can be a remainder cut at its lower end outside the submitter ("+trunc(cut.String(), 120)+"): the submitter returns nil also when the DA layer did not take the previous part (cancellation, attempts used up), so a later part can be accepted first and its post-acceptance callback moves the watermark past heights that were never accepted — they are never submitted, also not after a restart", nil)
					}
				}
			}
		}
		if n9 < 2 {
			c.Unk("C06-R9", "submitter call sites", "", "", fmt.Sprintf("anchor lost: %d calls of the generic submitter reachable from the submission loops", n9))
		}
		c.MinInstances("C06-R9", 2)
	}
	ruleWholePendingListOffered(c, p, "C06-R10")
	ruleNoPendingItemPassedOver(c, p, "C06-R12")
	ruleVerifierBoundBeforeValidation(c, p, "C06-R11")
	c.MinInstances("C06-R5", 4)

	// loops return only on ctx.Done
	for _, l := range []string{"HeaderSubmissionLoop", "DataSubmissionLoop"} {
		root := p.MustFunc(mgrM(l))
		g := BuildECFG(p, root, ExpandOpts{MaxDepth: 0})
		c.NoteGraph(g)
		path := g.PathAvoiding([]*Node{g.Entry}, g.AnyExit(), nodeSet(ctxDoneEdges(g)))
		c.Decide("C06-R5", l+" ⟂ returns-only-on-cancel", fnName(root), p.Pos(root.Pos()), "the loop returns only through its ctx.Done case",
			"the submission loop can return without cancellation: submission stops for good", g, path)
	}

	// ---- postSubmit closures: height passed on = height of the last element of the submitted slice
	for _, fnL := range submitterCallers(p) {
		for _, cl := range fnL.AnonFuncs {
			g := BuildECFG(p, cl, ExpandOpts{MaxDepth: 2})
			ss := g.Select(setter)
			if len(ss) == 0 {
				continue
			}
			c.NoteGraph(g)
			sub := cl.Params[0].Name()
			h := ArgTerm(ss[0], 2)
			want := sub + "[(len(" + sub + ") - 1)]"
			// every alternative of the height (looking through a helper that computes it) is the
			// last element's height or 0
			alts := flattenPhi(h)
			if h.Op == "call" || h.Op == "extract" {
				if ls := p.Alternatives(h, 2); len(ls) > 0 {
					alts = ls
				}
			}
			ok, zeroOther := len(alts) >= 1, false
			lastSeen := false
			for _, a := range alts {
				switch {
				case a.unconv().Op == "const" && a.unconv().Name == "0":
					zeroOther = true
				case a.Op == "phi" && a.Name == "↺":
				case strings.Contains(a.String(), want) && (strings.Contains(a.String(), ").Height(") || strings.HasSuffix(a.String(), ".Height")):
					lastSeen = true
				default:
					ok = false
				}
			}
			ok = ok && lastSeen
			if os.Getenv("VERIF_DEBUG_C06") != "" {
				for _, a := range alts {
					fmt.Fprintf(os.Stderr, "DBG alt %s\n", trunc(a.String(), 200))
				}
			}
			if ok && zeroOther {
				c.OK("C06-R2", fnShort(cl)+" ⟂ height-of-last-accepted", fnName(cl), p.InstrPos(ss[0].In), "the watermark is set to the height of the last element of the accepted slice (or 0 = no-op)", true)
			} else {
				c.Bad("C06-R2", fnShort(cl)+" ⟂ height-of-last-accepted", fnName(cl), p.InstrPos(ss[0].In), "the height handed to the watermark setter is not that of the last accepted item: "+trunc(h.String(), 200), nil)
			}
		}
	}

	ruleSubmitHelper(c, p)
	rulePendingRange(c, p)
	ruleBlobProvenance(c, p)
	c.Doc("C06-R8", "EO: a submission loop passes over a tick without reading its pending list only if its own tracker reports empty.")
	ruleLoopSkipsOnlyWhenOwnTrackerEmpty(c, p, "C06-R8")
}

func firstPath(m map[string][]*Node, except string) []*Node {
	for _, k := range sortedKeys(m) {
		if k != except {
			return m[k]
		}
	}
	return nil
}

// callersOf: functions with a static call to fn.
func callersOf(p *Prog, fn *ssa.Function) []*ssa.Function {
	var out []*ssa.Function
	for _, f := range p.Funcs {
		for _, b := range f.Blocks {
			for _, in := range b.Instrs {
				if call, ok := in.(*ssa.Call); ok && call.Common().StaticCallee() == fn {
					out = append(out, f)
				}
			}
		}
	}
	return out
}

// ruleSubmitHelper (C06-R3).
func ruleSubmitHelper(c *Check, p *Prog) {
	rule := "C06-R3"
	fn := p.MustFunc(typesF("SubmitWithHelpers"))
	g := BuildECFG(p, fn, ExpandOpts{MaxDepth: 0})
	c.NoteGraph(g)
	consts := enumConsts(p, daPkg, "StatusCode")
	success := fmt.Sprint(consts["StatusSuccess"])
	isSub := func(t *Term) bool { return t.Op == "invoke" && strings.HasSuffix(t.Name, "da.DA).SubmitWithOptions") }
	okEdges := g.Select(ErrNilEdge(isSub))
	n := 0
	for _, x := range g.Exits {
		ret := x.In.(*ssa.Return)
		views := p.returnedLits(ret.Results[0], g.RootCtx, 2)
		if len(views) != 1 {
			c.Unk(rule, "SubmitWithHelpers ⟂ return-literal", fnName(fn), p.InstrPos(ret), "a return value that is not a struct literal")
			continue
		}
		lv := views[0]
		code := ""
		if v := lv.Field("BaseResult.Code"); len(v) == 1 {
			code = v[0].unconv().Name
		}
		if code != success {
			continue
		}
		n++
		path := g.PathAvoiding([]*Node{g.Entry}, nodeSet([]*Node{x}), nodeSet(okEdges))
		c.Decide(rule, "SubmitWithHelpers ⟂ Success-only-without-error", fnName(fn), p.InstrPos(ret), "StatusSuccess is returned only on the nil-error edge of DA.SubmitWithOptions",
			"StatusSuccess can be returned although DA.SubmitWithOptions failed: unsent blobs would be marked submitted", g, path)
		cnt := ""
		if v := lv.Field("BaseResult.SubmittedCount"); len(v) == 1 {
			cnt = v[0].String()
		}
		if strings.Contains(cnt, "len(") && strings.Contains(cnt, "SubmitWithOptions(") && strings.Contains(cnt, "#0") {
			c.OK(rule, "SubmitWithHelpers ⟂ SubmittedCount=len(ids)", fnName(fn), p.InstrPos(ret), "SubmittedCount ← "+trunc(cnt, 100), true)
		} else {
			c.Bad(rule, "SubmitWithHelpers ⟂ SubmittedCount=len(ids)", fnName(fn), p.InstrPos(ret), "SubmittedCount of a successful result is not the number of ids the DA returned: "+trunc(cnt, 120), nil)
		}
	}
	if n == 0 {
		c.Unk(rule, "SubmitWithHelpers ⟂ Success", fnName(fn), "", "anchor lost: no return with Code = StatusSuccess")
	}
	c.MinInstances(rule, 2)
}

// structLitAlloc: v is the load of a struct literal built in a local alloc.
func structLitAlloc(v ssa.Value) *ssa.Alloc {
	if u, ok := v.(*ssa.UnOp); ok {
		if al, ok := u.X.(*ssa.Alloc); ok {
			return al
		}
	}
	return nil
}

// rulePendingRange (C06-R4, C06-R7).
func rulePendingRange(c *Check, p *Prog) {
	var gp *ssa.Function
	for _, fn := range p.GenericReps("(*" + rootPath + "/block.pendingBase[_]).getPending") {
		gp = fn
	}
	if gp == nil {
		c.Unk("C06-R4", "pendingBase.getPending", "", "", "anchor lost")
		return
	}
	g := BuildECFG(p, gp, ownPkgOpts(rootPath+"/block", 1))
	c.NoteGraph(g)
	fn := genericName(fnName(gp))
	fetch := g.Select(func(n *Node) bool {
		cc := CallCommonOf(n)
		if cc == nil || cc.IsInvoke() || cc.StaticCallee() != nil {
			return false
		}
		t := TermOf(cc.Value, n.Ctx)
		return t.Op == "field" && t.Name == "fetch"
	})
	if len(fetch) != 1 {
		c.Unk("C06-R4", "getPending ⟂ fetch", fn, "", fmt.Sprintf("anchor lost: %d calls of the fetch function field", len(fetch)))
		return
	}
	idx := ArgTerm(fetch[0], 2)
	pos := p.InstrPos(fetch[0].In)
	// index = φ(Load(lastHeight)+1 | ↺+1)
	okIdx := idx.Op == "phi" && len(idx.Args) == 2
	startOK, stepOK := false, false
	if okIdx {
		for _, a := range idx.Args {
			s := a.String()
			if a.Op == "bin" && a.Name == "+" && a.Args[1].Name == "1" && strings.Contains(a.Args[0].String(), "atomic.Uint64).Load(") && strings.Contains(a.Args[0].String(), ".lastHeight") {
				startOK = true
			} else if a.Op == "bin" && a.Name == "+" && a.Args[1].Name == "1" && a.Args[0].Op == "phi" && a.Args[0].Name == "↺" {
				stepOK = true
			} else {
				_ = s
			}
		}
	}
	if startOK && stepOK {
		c.OK("C06-R4", "getPending ⟂ index", fn, pos, "fetch index runs watermark+1, +1, …: "+trunc(idx.String(), 100), true)
	} else {
		c.Bad("C06-R4", "getPending ⟂ index", fn, pos, "the fetch index is not watermark+1 stepping by one: "+trunc(idx.String(), 160), nil)
	}
	// loop bound: index <= Store.Height()#0
	bound := g.Select(EdgeWhere(func(t *Term, pol bool, n *Node) bool {
		return pol && t.Op == "bin" && t.Name == "<=" && t.Args[0].String() == idx.String() && strings.Contains(t.Args[1].String(), "pkg/store.Store).Height(") && strings.HasSuffix(t.Args[1].String(), "#0")
	}))
	if len(bound) > 0 {
		c.Decide("C06-R4", "getPending ⟂ bound", fn, p.InstrPos(bound[0].In), "every fetch is under index <= Store.Height()", "a fetch is reachable without the bound index <= Store.Height()", g, g.MustPrecede(nodeSet(bound), nodeSet(fetch)))
	} else {
		c.Bad("C06-R4", "getPending ⟂ bound", fn, pos, "no loop bound index <= Store.Height() on the fetch index", nil)
	}
	// a fetch error ends the pass (contiguity): no fetch reachable after the error edge
	errEdge := g.Select(EdgeWhere(func(t *Term, pol bool, n *Node) bool {
		t, pol = normFact(t, pol)
		return pol && t.Op == "bin" && t.Name == "!=" && t.Args[1].Name == "nil" && t.Args[0].Op == "extract" && t.Args[0].Name == "1" && t.Args[0].Args[0].Op == "dyncall"
	}))
	if len(errEdge) == 0 {
		c.Bad("C06-R4", "getPending ⟂ stop-at-first-error", fn, pos, "the fetch error is not checked", nil)
	} else {
		c.Decide("C06-R4", "getPending ⟂ stop-at-first-error", fn, p.InstrPos(errEdge[0].In), "after a fetch error no further item is fetched (the list stays contiguous)",
			"after a fetch error the loop goes on: a later item could be submitted with a gap before it", g, g.PathAvoiding(errEdge, nodeSet(fetch), nil))
	}
	// items appended in order: append(pending φ, item)
	app := g.Select(func(n *Node) bool { return CallName(n) == "append" })
	okApp := false
	for _, a := range app {
		t0, t1 := ArgTerm(a, 0), ArgTerm(a, 1)
		if t0 != nil && t1 != nil && p.DeepContains(t1, func(t *Term) bool {
			return t.Op == "extract" && t.Name == "0" && t.Args[0].Op == "dyncall" && strings.Contains(t.Args[0].String(), ".fetch")
		}, 2) {
			okApp = true
		}
	}
	if okApp {
		c.OK("C06-R4", "getPending ⟂ append-in-order", fn, pos, "each fetched item is appended to the result in loop order", true)
	} else {
		c.Bad("C06-R4", "getPending ⟂ append-in-order", fn, pos, "fetched items are not appended to the result list", nil)
	}
	c.MinInstances("C06-R4", 4)

	// R7: initial height
	usesInitial := false
	for _, f := range p.Funcs {
		if genericName(fnName(f)) == "(*"+rootPath+"/block.pendingBase[_]).init" || genericName(fnName(f)) == rootPath+"/block.newPendingBase[_]" || f == gp {
			for _, b := range f.Blocks {
				for _, in := range b.Instrs {
					if fa, ok := in.(*ssa.FieldAddr); ok {
						if st := derefStruct(fa.X.Type()); st != nil && st.Field(fa.Field).Name() == "InitialHeight" {
							usesInitial = true
						}
					}
				}
			}
		}
	}
	// or a caller stores an initial value derived from genesis.InitialHeight into the watermark
	for _, f := range p.Funcs {
		gg := f
		for _, b := range gg.Blocks {
			for _, in := range b.Instrs {
				call, ok := in.(*ssa.Call)
				if !ok {
					continue
				}
				n := &Node{Kind: NInstr, In: call, Ctx: &Ctx{Fn: f}}
				if m, ok := isAtomicMutatorOn(n, "lastHeight"); ok {
					for i := range call.Common().Args {
						if strings.Contains(ArgTerm(n, i).String(), "InitialHeight") {
							usesInitial = true
						}
					}
					_ = m
				}
			}
		}
	}
	if usesInitial {
		c.OK("C06-R7", "pendingBase ⟂ initial-height", fn, p.Pos(gp.Pos()), "the start of the pending range takes the genesis initial height into account", true)
	} else {
		c.Bad("C06-R7", "pendingBase ⟂ initial-height", fn, p.Pos(gp.Pos()), "with no persisted watermark the pending range starts at height 1 whatever genesis.InitialHeight is: for an initial height > 1 the first fetch fails forever and nothing is ever submitted", nil)
	}
}

// ruleBlobProvenance (C06-R6).
func ruleBlobProvenance(c *Check, p *Prog) {
	rule := "C06-R6"
	// header blobs: the marshal function passed by submitHeadersToDA
	var sh, sd *ssa.Function
	for _, f := range submitterCallers(p) {
		if len(f.Params) >= 3 && strings.Contains(f.Params[2].Type().String(), "SignedHeader") {
			sh = f
		} else if len(f.Params) >= 3 && strings.Contains(f.Params[2].Type().String(), "SignedData") {
			sd = f
		}
	}
	if sh == nil || sd == nil {
		c.Unk(rule, "submitter-callers", "", "", "anchor lost: the functions handing headers / signed data to the generic submitter")
		return
	}
	okH := false
	// the marshal function may be a closure of the caller or a function of the package handed over as a value
	marshalCands := func(caller *ssa.Function) []*ssa.Function {
		out := append([]*ssa.Function{}, caller.AnonFuncs...)
		for _, b := range caller.Blocks {
			for _, in := range b.Instrs {
				call, ok := in.(*ssa.Call)
				if !ok || call.Common().StaticCallee() == nil || !isSubmitterFn(call.Common().StaticCallee()) {
					continue
				}
				for _, a := range call.Common().Args {
					v := a
					if ct, isCT := v.(*ssa.ChangeType); isCT {
						v = ct.X
					}
					if mc, isMC := v.(*ssa.MakeClosure); isMC {
						v = mc.Fn
					}
					if af, isF := v.(*ssa.Function); isF && af.Blocks != nil && fnPkg(af) != nil && fnPkg(af).Pkg.Path() == rootPath+"/block" {
						out = append(out, af)
					}
				}
			}
		}
		return out
	}
	for _, cl := range marshalCands(sh) {
		if cl.Signature.Results().Len() != 2 {
			continue
		}
		for _, b := range cl.Blocks {
			if ret, ok := b.Instrs[len(b.Instrs)-1].(*ssa.Return); ok {
				t := TermOf(ret.Results[0], &Ctx{Fn: cl})
				if t.Op == "extract" && t.Args[0].IsCall("proto.Marshal") && strings.Contains(t.Args[0].Args[0].String(), "types.SignedHeader).ToProto("+cl.Params[0].Name()+")") {
					okH = true
				}
			}
		}
		if okH {
			c.OK(rule, "header-blob = proto.Marshal(ToProto(header))", fnName(cl), p.Pos(cl.Pos()), "the header blob is the protobuf encoding of the pending header", true)
		}
	}
	if !okH {
		c.Bad(rule, "header-blob = proto.Marshal(ToProto(header))", fnName(sh), p.Pos(sh.Pos()), "the header marshal function does not return proto.Marshal(header.ToProto())", nil)
	}
	okD := false
	for _, cl := range sd.AnonFuncs {
		if cl.Signature.Results().Len() != 2 {
			continue
		}
		for _, b := range cl.Blocks {
			if ret, ok := b.Instrs[len(b.Instrs)-1].(*ssa.Return); ok {
				t := TermOf(ret.Results[0], &Ctx{Fn: cl})
				if t.Op == "extract" && strings.Contains(t.Args[0].String(), "types.SignedData).MarshalBinary("+cl.Params[0].Name()+")") {
					okD = true
				}
			}
		}
	}
	if !okD {
		// the marshal function given as the method expression (*types.SignedData).MarshalBinary
		for _, b := range sd.Blocks {
			for _, in := range b.Instrs {
				call, ok := in.(*ssa.Call)
				if !ok || call.Common().StaticCallee() == nil || !isSubmitterFn(call.Common().StaticCallee()) {
					continue
				}
				for _, a := range call.Common().Args {
					v := a
					if ct, isCT := v.(*ssa.ChangeType); isCT {
						v = ct.X
					}
					if mc, isMC := v.(*ssa.MakeClosure); isMC {
						v = mc.Fn
					}
					if af, isF := v.(*ssa.Function); isF {
						nm := strings.TrimSuffix(strings.TrimSuffix(fnName(af), "$thunk"), "$bound")
						if strings.HasSuffix(nm, "types.SignedData).MarshalBinary") {
							okD = true
						}
					}
				}
			}
		}
	}
	if okD {
		c.OK(rule, "data-blob = SignedData.MarshalBinary", fnName(sd), p.Pos(sd.Pos()), "the data blob is the binary encoding of the signed data", true)
	} else {
		c.Bad(rule, "data-blob = SignedData.MarshalBinary", fnName(sd), p.Pos(sd.Pos()), "the data marshal function does not return signedData.MarshalBinary()", nil)
	}
	// the signed data literal
	steps := stepFuncs(c, p, mgrM("DataSubmissionLoop"), 3, "(*"+rootPath+"/block.PendingData).getPendingData")
	if len(steps) == 0 {
		c.Unk(rule, "signed-data-builder", "", "", "anchor lost: no function reachable from DataSubmissionLoop reads the pending data")
		return
	}
	for _, step := range steps {
		ctx := &Ctx{Fn: step}
		var lit *ssa.Alloc
		// the literal may sit in a closure of the step (a loop body wrapped in a func literal)
		for _, cx := range bodyCtxs(step) {
			for _, b := range cx.Fn.Blocks {
				for _, in := range b.Instrs {
					if al, ok := in.(*ssa.Alloc); ok && al.Type().String() == "*"+rootPath+"/types.SignedData" && al.Heap {
						lit, ctx = al, cx
					}
				}
			}
		}
		if lit == nil {
			continue
		}
		st := litStores(lit)
		get := func(k string) *Term {
			if len(st[k]) != 1 {
				return mk("unknown", "missing", nil, ctx)
			}
			return TermOf(st[k][0], ctx)
		}
		pos := p.InstrPos(lit)
		dataT := get("Data")
		sig := get("Signature")
		okData := strings.Contains(dataT.String(), "getPendingData(")
		chk := func(name string, ok bool, got string) {
			if ok {
				c.OK(rule, fnShort(step)+" ⟂ "+name, fnName(step), pos, name+" ← "+trunc(got, 120), true)
			} else {
				c.Bad(rule, fnShort(step)+" ⟂ "+name, fnName(step), pos, name+" has an unexpected origin: "+trunc(got, 160), nil)
			}
		}
		chk("SignedData.Data", okData, dataT.String())
		// signature = Sign(MarshalBinary(the same data))
		okSig := p.DeepContains(sig, func(t *Term) bool {
			return t.Op == "invoke" && strings.HasSuffix(t.Name, "signer.Signer).Sign") && strings.Contains(t.String(), "types.Data).MarshalBinary(")
		}, 3) && strings.Contains(sig.String(), "getPendingData(")
		// … on every alternative: a remembered signature (a cache keyed by less than what is
		// signed) is not the signature of this item
		if okSig {
			for _, alt := range p.Alternatives(sig, 3) {
				if alt.Op == "const" && alt.Name == "nil" {
					continue // the error alternative of a helper
				}
				isSign := alt.Op == "extract" && len(alt.Args) == 1 && alt.Args[0].Op == "invoke" && strings.HasSuffix(alt.Args[0].Name, "signer.Signer).Sign")
				if !isSign {
					okSig = false
					sig = mk("unknown", "an alternative that is not a fresh signature: "+trunc(alt.String(), 100), nil, ctx)
				}
			}
		}
		chk("SignedData.Signature", okSig, sig.String())
		pk := get("Signer.PubKey")
		if len(st["Signer"]) == 1 { // signer built separately and copied whole
			sv := TermOf(st["Signer"][0], ctx)
			_ = sv
		}
		pkS, adS := pk.String(), get("Signer.Address").String()
		if pk.Name == "missing" {
			// the Signer struct is a separate local literal
			for _, b := range step.Blocks {
				for _, in := range b.Instrs {
					if al, ok := in.(*ssa.Alloc); ok && strings.HasSuffix(al.Type().String(), "types.Signer") {
						s2 := litStores(al)
						if len(s2["PubKey"]) == 1 {
							pkS = TermOf(s2["PubKey"][0], ctx).String()
						}
						if len(s2["Address"]) == 1 {
							adS = TermOf(s2["Address"][0], ctx).String()
						}
					}
				}
			}
		}
		if pk.Name == "missing" && strings.Contains(pkS, "missing") && len(st["Signer"]) == 1 {
			// the signer identity is built by a helper of the package and copied whole
			for _, lv := range p.returnedLits(st["Signer"][0], ctx, 2) {
				if pkv := lv.Field("PubKey"); len(pkv) == 1 {
					pkS = pkv[0].String()
					if adv := lv.Field("Address"); len(adv) == 1 {
						adS = adv[0].String()
					}
				}
			}
		}
		chk("SignedData.Signer.PubKey", strings.Contains(pkS, "signer.Signer).GetPublic(") && strings.HasSuffix(pkS, "#0"), pkS)
		chk("SignedData.Signer.Address", strings.HasSuffix(adS, ".genesis.ProposerAddress"), adS)
	}
	c.MinInstances(rule, 6)
}

// ---------------------------------------------------------------------------------------------

func runC08(c *Check) {
	p := c.Mod(ModRoot)
	c.Doc("C08-R1", "FS+VP: the refusing return of the production step.")
	c.Doc("C08-R2", "EO-flag: every pending data item can leave the count.")
	for _, step := range productionStep(c, p) {
		g := BuildECFG(p, step, ExpandOpts{MaxDepth: 3})
		c.NoteGraph(g)
		fn := fnName(step)
		// refusing exits: success exits reachable without any store/sequencer call and not through ctx.Done
		// (a return that neither asked the sequencer for a batch nor saved a block has produced nothing)
		firstAction := IsCall(storeM("SaveBlockData"), seqM("GetNextBatch"))
		cancel := ctxDoneEdges(g)
		var refusing []*Node
		for _, x := range g.Exits {
			xx := x
			if g.ExitClass(x) == rcA {
				continue
			}
			if g.PathAvoiding([]*Node{g.Entry}, func(n *Node) bool { return n == xx }, orPred(firstAction, nodeSet(cancel))) != nil {
				refusing = append(refusing, x)
			}
		}
		if len(refusing) == 0 {
			c.Unk("C08-R1", fnShort(step)+" ⟂ refusing-return", fn, "", "anchor lost: no success return of the production step that neither takes a batch nor saves a block")
			continue
		}
		limitNZ := g.Select(EdgeWhere(func(t *Term, pol bool, n *Node) bool {
			t, pol = normFact(t, pol)
			return pol && t.Op == "bin" && t.Name == "!=" && strings.HasSuffix(t.Args[0].String(), ".MaxPendingHeadersAndData") && t.Args[1].Name == "0"
		}))
		over := g.Select(EdgeWhere(func(t *Term, pol bool, n *Node) bool {
			t, pol = normFact(t, pol)
			return pol && t.Op == "bin" && t.Name == ">=" && strings.Contains(t.Args[0].String(), ").numPending") && strings.HasSuffix(t.Args[1].String(), ".MaxPendingHeadersAndData")
		}))
		isLimit := func(t *Term) bool { return strings.HasSuffix(t.unconv().String(), ".MaxPendingHeadersAndData") }
		isZero := func(t *Term) bool { u := t.unconv(); return u.Op == "const" && strings.HasPrefix(u.Name, "0") }
		isLimitNZ := func(f Fact) bool {
			a, op, b, ok := canonCmp(f.Cond, f.Pol)
			if !ok {
				return false
			}
			return (op == "!=" && ((isLimit(a) && isZero(b)) || (isLimit(b) && isZero(a)))) || (op == "<" && isZero(a) && isLimit(b)) || (op == ">" && isLimit(a) && isZero(b))
		}
		isOver := func(f Fact) bool {
			a, op, b, ok := canonCmp(f.Cond, f.Pol)
			if !ok {
				return false
			}
			cnt := func(t *Term) bool { return strings.Contains(t.String(), ").numPending") }
			return (op == ">=" && cnt(a) && isLimit(b)) || (op == "<=" && isLimit(a) && cnt(b))
		}
		for _, x := range refusing {
			pos := p.InstrPos(x.In)
			tgt := nodeSet([]*Node{x})
			// the guard may have been moved into a predicate: then the refusing return is behind "helper() = true"
			// and every accepting alternative of the helper must contain both clauses
			viaHelper := false
			for _, f := range g.NecessaryEdgesFrom([]*Node{g.Entry}, tgt) {
				if !f.Pol || f.Cond.Op != "call" {
					continue
				}
				cv, ok := f.Cond.V.(*ssa.Call)
				if !ok || cv.Common().StaticCallee() == nil || !p.InRepo(cv.Common().StaticCallee()) {
					continue
				}
				callee := cv.Common().StaticCallee()
				alts := p.AcceptDNF(callee, &Ctx{Parent: f.Cond.Ctx, Site: cv, Fn: callee}, 0, 2)
				if len(alts) == 0 {
					continue
				}
				allNZ, allOver := true, true
				for _, alt := range alts {
					nz, ov := false, false
					for _, af := range alt {
						if isLimitNZ(af) {
							nz = true
						}
						if isOver(af) {
							ov = true
						}
					}
					allNZ = allNZ && nz
					allOver = allOver && ov
				}
				if allNZ || allOver {
					viaHelper = true
					if allNZ {
						c.OK("C08-R1", fnShort(step)+" ⟂ refuse-only-if-limit-set", fn, pos, "the refusing return is behind "+fnShort(callee)+"(), every accepting alternative of which requires limit != 0", true)
					} else {
						c.Bad("C08-R1", fnShort(step)+" ⟂ refuse-only-if-limit-set", fn, pos, "block production can be refused although no limit is configured (predicate "+fnShort(callee)+")", nil)
					}
					if allOver {
						c.OK("C08-R1", fnShort(step)+" ⟂ refuse-only-if-count>=limit", fn, pos, "every accepting alternative of "+fnShort(callee)+"() requires a pending count >= limit", true)
					} else {
						c.Bad("C08-R1", fnShort(step)+" ⟂ refuse-only-if-count>=limit", fn, pos, "block production can be refused although neither pending count reached the limit (predicate "+fnShort(callee)+")", nil)
					}
				}
			}
			if viaHelper {
				continue
			}
			c.Decide("C08-R1", fnShort(step)+" ⟂ refuse-only-if-limit-set", fn, pos, "the refusing return requires limit != 0",
				"block production can be refused although no limit is configured", g, g.PathAvoiding([]*Node{g.Entry}, tgt, orPred(nodeSet(limitNZ), firstAction)))
			if len(over) < 2 {
				c.Bad("C08-R1", fnShort(step)+" ⟂ refuse-only-if-count>=limit", fn, pos, fmt.Sprintf("expected the two comparisons numPendingHeaders/numPendingData >= limit, found %d", len(over)), nil)
			} else {
				c.Decide("C08-R1", fnShort(step)+" ⟂ refuse-only-if-count>=limit", fn, pos, "the refusing return requires pending headers >= limit or pending data >= limit",
					"block production can be refused although neither pending count reached the limit", g, g.PathAvoiding([]*Node{g.Entry}, tgt, orPred(nodeSet(over), firstAction)))
			}
		}
	}
	// numPending = Store.Height() - watermark
	for _, fn := range p.GenericReps("(*" + rootPath + "/block.pendingBase[_]).numPending") {
		ok := false
		var got string
		for _, b := range fn.Blocks {
			if ret, isR := b.Instrs[len(b.Instrs)-1].(*ssa.Return); isR {
				t := TermOf(ret.Results[0], &Ctx{Fn: fn})
				got += t.String() + " | "
				isStoreHeight := func(x *Term) bool {
					return strings.Contains(x.String(), "pkg/store.Store).Height(") || p.DeepContains(x, func(y *Term) bool { return y.Op == "invoke" && strings.HasSuffix(y.Name, "pkg/store.Store).Height") }, 2)
				}
				if t.Op == "bin" && t.Name == "-" && isStoreHeight(t.Args[0]) && strings.Contains(t.Args[1].String(), ".lastHeight") && strings.Contains(t.Args[1].String(), "Load(") {
					ok = true
				}
			}
		}
		if ok {
			c.OK("C08-R1", "numPending = Store.Height() - watermark", fnName(fn), p.Pos(fn.Pos()), trunc(got, 140), true)
		} else {
			c.Bad("C08-R1", "numPending = Store.Height() - watermark", fnName(fn), p.Pos(fn.Pos()), "unexpected definition of the pending count: "+trunc(got, 200), nil)
		}
	}
	c.MinInstances("C08-R1", 3)

	// R2
	steps := stepFuncs(c, p, mgrM("DataSubmissionLoop"), 3, "(*"+rootPath+"/block.PendingData).getPendingData")
	for _, step := range steps {
		g := BuildECFG(p, step, ExpandOpts{MaxDepth: 3})
		c.NoteGraph(g)
		fn := fnName(step)
		skip := g.Select(EdgeWhere(func(t *Term, pol bool, n *Node) bool {
			t, pol = normFact(t, pol)
			return n.Ctx.Depth == 0 && pol && t.Op == "bin" && t.Name == "==" && strings.HasPrefix(t.Args[0].String(), "len(") && strings.HasSuffix(t.Args[0].String(), ".Txs)") && t.Args[1].Name == "0"
		}))
		if len(skip) == 0 {
			c.OK("C08-R2", fnShort(step)+" ⟂ no-item-is-passed-over", fn, p.Pos(step.Pos()), "no pending item is skipped on the ground of being empty", true)
			continue
		}
		isAppend := func(n *Node) bool { return n.Ctx.Depth == 0 && CallName(n) == "append" }
		ack := func(n *Node) bool {
			return genericName(CallName(n)) == "(*"+rootPath+"/block.pendingBase[_]).setLastSubmittedHeight"
		}
		// "something was appended earlier in this pass": the false edge of len(list) == 0 where list is the appended slice
		behind := g.Select(EdgeWhere(func(t *Term, pol bool, n *Node) bool {
			t, pol = normFact(t, pol)
			if n.Ctx.Depth != 0 || t.Op != "bin" {
				return false
			}
			s := t.Args[0].String()
			isLenList := strings.HasPrefix(s, "len(") && (strings.Contains(s, "append(") || strings.HasPrefix(s, "len(φ("))
			return isLenList && t.Args[1].Name == "0" && ((t.Name == "==" && !pol) || (t.Name == "!=" && pol) || (t.Name == ">" && pol))
		}))
		hdr := loopHeaderOf(skip[0].In.Block())
		var head *Node
		if hdr != nil {
			head = g.headNode(g.RootCtx, hdr)
		}
		if head == nil {
			c.Unk("C08-R2", fnShort(step)+" ⟂ empty-data-can-leave-the-count", fn, p.InstrPos(skip[0].In), "the skip of empty data is not inside a loop over the pending list")
			continue
		}
		path := g.PathAvoiding(skip, func(n *Node) bool { return n == head }, orPred(isAppend, ack, nodeSet(behind)))
		c.Decide("C08-R2", fnShort(step)+" ⟂ empty-data-can-leave-the-count", fn, p.InstrPos(skip[0].In),
			"an item without transactions is acknowledged through the watermark setter or passed over only behind an item queued earlier in the pass",
			"pending data without transactions is neither submitted nor acknowledged: on an idle chain the pending-data count grows by one per (empty) block until any limit >= 1 is reached, and production is refused for good", g, path)
	}
	c.MinInstances("C08-R2", 1)
	c.Doc("C08-R4", "= C13-R8 (liveness of the submission loops, on which the release of the limit depends): a loop waiting on a one-shot timer re-arms it on every path back to the wait.")
	ruleTimersRearmed(c, p, "C08-R4")
	c.Doc("C08-R3", "EO: a submission loop passes over a tick without reading its pending list only if its own tracker reports empty (otherwise pending items never leave the count and the limit is never released).")
	ruleLoopSkipsOnlyWhenOwnTrackerEmpty(c, p, "C08-R3")
	ruleWholePendingListOffered(c, p, "C08-R6")
	ruleNoPendingItemPassedOver(c, p, "C08-R7")
	ruleSubmissionBounded(c, p, "C08-R5")
}

// ruleSubmissionBounded (C08-R5): the submission loops call the DA layer synchronously, and the
// loop's own context carries no deadline. The limit is released only when an attempt returns, so
// every call that hands blobs to the DA layer inside the submitter gets a context derived, in the
// submitter, from context.WithTimeout / WithDeadline: a DA endpoint that stops answering (no
// error, just silence) ends that attempt instead of holding the loop — and the limit — for good.
func ruleSubmissionBounded(c *Check, p *Prog, rule string) {
	doneInst := map[string]bool{}
	c.Doc(rule, "BO: every hand-off of blobs to the DA layer inside the submitter is given a context that the submitter derived with a deadline (context.WithTimeout / WithDeadline): a silent DA endpoint ends the attempt, it does not hold the submission loop and the pending limit for good.")
	n := 0
	for _, fn := range p.Funcs {
		if !isSubmitterFn(fn) || fn.Blocks == nil {
			continue
		}
		if fn.Origin() != nil && fn.Origin() != fn {
			// one instantiation per item type: same body; keep the first by name
		}
		g := BuildECFG(p, fn, ExpandOpts{MaxDepth: 0})
		for _, nd := range g.Select(func(nd *Node) bool {
			cn := CallName(nd)
			return cn == typesF("SubmitWithHelpers") || strings.HasSuffix(cn, "da.DA).SubmitWithOptions") || strings.HasSuffix(cn, "da.DA).Submit")
		}) {
			inst := genericName(fnShort(fn)) + " ⟂ DA hand-off has a deadline"
			if doneInst[inst] {
				continue // instantiations of the generic submitter share the body
			}
			doneInst[inst] = true
			n++
			cc := CallCommonOf(nd)
			var ctxArg *Term
			for i, a := range cc.Args {
				if a.Type().String() == "context.Context" {
					ctxArg = ArgTerm(nd, i)
					if cc.IsInvoke() {
						ctxArg = TermOf(a, nd.Ctx)
					}
					break
				}
			}
			bounded := ctxArg != nil && p.DeepContains(ctxArg, func(t *Term) bool {
				return t.IsCall("context.WithTimeout") || t.IsCall("context.WithDeadline")
			}, 1)
			if bounded {
				c.OK(rule, inst, genericName(fnName(fn)), p.InstrPos(nd.In), "the context handed to the DA layer carries a deadline set by the submitter", true)
			} else {
				s := "<none>"
				if ctxArg != nil {
					s = trunc(ctxArg.String(), 80)
				}
				c.Bad(rule, inst, genericName(fnName(fn)), p.InstrPos(nd.In), "the DA layer is called with a context that has no deadline of the submitter's ("+s+"): if the DA endpoint stops answering, this call never returns, the submission loop is stuck, nothing leaves the pending count and block production is refused for good", nil)
			}
		}
	}
	if n == 0 {
		c.Unk(rule, "anchor-count", "", "", "anchor lost: no hand-off to the DA layer found in the submitter")
	}
}

// ---------------------------------------------------------------------------------------------

func runC07(c *Check) {
	p := c.Mod(ModRoot)
	c.Doc("C07-R1", "CS+VP: writers of Manager.daIncludedHeight.")
	c.Doc("C07-R2", "EO+GA: SetFinal ok < SetMetadata(DAIncludedHeightKey) ok < CompareAndSwap in the increment.")
	c.Doc("C07-R3", "CS+GA: the increment is called only under IsDAIncluded(cur+1) = true and after the DA-height mapping was stored.")
	c.Doc("C07-R4", "FS: accept alternatives of IsDAIncluded.")
	c.Doc("C07-R5", "CS+VP: the DA height recorded with a mark.")

	var incr *ssa.Function
	nW := 0
	for _, fn := range p.Funcs {
		pk := fnPkg(fn)
		if pk == nil || pk.Pkg.Path() != rootPath+"/block" || (fn.Origin() != nil && fn.Origin() != fn) {
			continue
		}
		g := BuildECFG(p, fn, ExpandOpts{MaxDepth: 1})
		for _, n := range g.Select(func(n *Node) bool { _, ok := isAtomicMutatorOn(n, "daIncludedHeight"); return ok && n.Ctx.Depth == 0 }) {
			c.NoteGraph(g)
			nW++
			m, _ := isAtomicMutatorOn(n, "daIncludedHeight")
			inst := fnShort(fn) + " ⟂ daIncludedHeight." + m
			pos := p.InstrPos(n.In)
			switch m {
			case "Store":
				v := ArgTerm(n, 1)
				if fnName(fn) == blockF("NewManager") && strings.Contains(v.String(), "Uint64(") && strings.Contains(v.String(), "GetMetadata(") {
					c.OK("C07-R1", inst, fnName(fn), pos, "start-up: loads the persisted value: "+trunc(v.String(), 100), true)
				} else {
					c.Bad("C07-R1", inst, fnName(fn), pos, "the DA-included height is stored outside start-up or not from the persisted value: it can decrease or jump", nil)
				}
			case "CompareAndSwap":
				old, nw := ArgTerm(n, 1), ArgTerm(n, 2)
				isLoad := p.DeepContains(old, func(t *Term) bool {
					return t.IsCall("atomic.Uint64).Load") && len(t.Args) > 0 && t.Args[0].Op == "field" && t.Args[0].Name == "daIncludedHeight"
				}, 2)
				plus1 := nw.Op == "bin" && nw.Name == "+" && nw.Args[1].Name == "1" && nw.Args[0].String() == old.String()
				if isLoad && plus1 {
					incr = fn
					c.OK("C07-R1", inst, fnName(fn), pos, "CAS(cur, cur+1) with cur the loaded height", true)
				} else {
					c.Bad("C07-R1", inst, fnName(fn), pos, fmt.Sprintf("CAS is not (cur, cur+1) on the loaded height (load=%v, +1=%v): %s → %s", isLoad, plus1, trunc(old.String(), 60), trunc(nw.String(), 60)), nil)
				}
			default:
				c.Bad("C07-R1", inst, fnName(fn), pos, "unexpected mutator of the DA-included height", nil)
			}
		}
	}
	c.MinInstances("C07-R1", 2)
	if incr == nil {
		c.Unk("C07-R2", "increment", "", "", "anchor lost: no CAS(cur,cur+1) writer of the DA-included height")
		return
	}
	// R2
	daKey, okKey := constString(p, rootPath+"/pkg/store", "DAIncludedHeightKey")
	if !okKey {
		c.Unk("C07-R2", "DAIncludedHeightKey", "", "", "anchor lost: store.DAIncludedHeightKey is not a string constant")
	}
	{
		g := BuildECFG(p, incr, ExpandOpts{MaxDepth: 1})
		c.NoteGraph(g)
		fn := fnName(incr)
		finalOK := g.Select(ErrNilEdge(func(t *Term) bool { return t.Op == "invoke" && strings.HasSuffix(t.Name, "Executor).SetFinal") }))
		metaOK := g.Select(ErrNilEdge(func(t *Term) bool {
			return t.Op == "invoke" && strings.HasSuffix(t.Name, "Store).SetMetadata") && len(t.Args) > 2 && termIsConstString(t.Args[2], daKey)
		}))
		isMeta := func(n *Node) bool {
			return CallName(n) == storeM("SetMetadata") && termIsConstString(ArgTerm(n, 1), daKey)
		}
		cas := func(n *Node) bool {
			m, ok := isAtomicMutatorOn(n, "daIncludedHeight")
			return ok && m == "CompareAndSwap"
		}
		if len(finalOK) == 0 || len(metaOK) == 0 {
			c.Bad("C07-R2", fnShort(incr)+" ⟂ SetFinal<persist<CAS", fn, "", fmt.Sprintf("missing success branches: SetFinal=%d SetMetadata(DAIncludedHeightKey)=%d", len(finalOK), len(metaOK)), nil)
		} else {
			c.Decide("C07-R2", fnShort(incr)+" ⟂ SetFinal-ok<persist", fn, posOf(g, isMeta), "the height is persisted only after the execution layer finalised it",
				"the DA-included height can be persisted before Executor.SetFinal succeeded", g, g.MustPrecede(nodeSet(finalOK), isMeta))
			c.Decide("C07-R2", fnShort(incr)+" ⟂ persist-ok<CAS", fn, posOf(g, cas), "the reported height moves only after it was persisted",
				"the reported DA-included height can move before it is durable: after a restart it would decrease", g, g.MustPrecede(nodeSet(metaOK), cas))
		}
		// SetFinal argument and persisted value are cur+1
		for _, n := range g.Select(IsCall(execM("SetFinal"))) {
			a := ArgTerm(n, 1)
			if a.Op == "bin" && a.Name == "+" && a.Args[1].Name == "1" {
				c.OK("C07-R2", fnShort(incr)+" ⟂ SetFinal(cur+1)", fn, p.InstrPos(n.In), "finalises exactly the next height: "+trunc(a.String(), 80), true)
			} else {
				c.Bad("C07-R2", fnShort(incr)+" ⟂ SetFinal(cur+1)", fn, p.InstrPos(n.In), "Executor.SetFinal is not called with cur+1: "+trunc(a.String(), 100), nil)
			}
		}
	}
	c.MinInstances("C07-R2", 3)
	// R3: callers of the increment
	nCall := 0
	// the outermost functions of the package that reach the increment through static calls: a
	// helper that wraps the increment hands the obligation to whoever calls it
	var entries []*ssa.Function
	{
		seen := map[*ssa.Function]bool{}
		work := callersOf(p, incr)
		for len(work) > 0 {
			f := topParent(work[0])
			work = work[1:]
			if seen[f] {
				continue
			}
			seen[f] = true
			up := callersOf(p, f)
			if len(up) == 0 || (f.Object() != nil && f.Object().Exported()) {
				entries = append(entries, f)
			}
			if len(seen) < 12 {
				work = append(work, up...)
			}
		}
		sort.Slice(entries, func(i, j int) bool { return fnName(entries[i]) < fnName(entries[j]) })
	}
	isMapFn := p.Func(mgrM("SetRollkitHeightToDAHeight"))
	isIncFn := p.Func(mgrM("IsDAIncluded"))
	for _, caller := range entries {
		g := BuildECFG(p, caller, ExpandOpts{MaxDepth: 3, Stop: func(f *ssa.Function) bool {
			pk := fnPkg(f)
			return pk == nil || pk.Pkg.Path() != rootPath+"/block" || f == incr || f == isMapFn || f == isIncFn
		}})
		c.NoteGraph(g)
		for _, n := range g.Select(func(n *Node) bool { cc := CallCommonOf(n); return cc != nil && cc.StaticCallee() == incr }) {
			nCall++
			facts := g.NecessaryEdges(nodeSet([]*Node{n}))
			okInc, okMap := false, false
			var hInc string
			var hIncT *Term
			for _, f := range facts {
				t := f.Cond
				if f.Pol && t.Op == "extract" && t.Name == "0" && t.Args[0].IsCall("block.Manager).IsDAIncluded") {
					okInc = true
					hInc = t.Args[0].Args[2].String()
					hIncT = t.Args[0].Args[2]
				}
			}
			for _, f := range facts {
				if call, _, ok := acceptedCall(f); ok && call.IsCall("block.Manager).SetRollkitHeightToDAHeight") && call.Args[2].String() == hInc {
					okMap = true
				}
			}
			plus1 := strings.HasSuffix(hInc, " + 1)") && strings.Contains(hInc, "GetDAIncludedHeight(")
			// … or a counter that starts at cur+1 and is stepped by one per loop cycle, where every
			// cycle passes a successful increment (so the counter stays cur+1)
			if !plus1 && hIncT != nil && hIncT.Op == "phi" {
				start, step, other := false, false, false
				for _, a := range hIncT.Args {
					au := a.unconv()
					switch {
					case au.Op == "bin" && au.Name == "+" && au.Args[1].unconv().Name == "1" && strings.Contains(au.Args[0].String(), "GetDAIncludedHeight(") && !strings.Contains(au.Args[0].String(), "↺"):
						start = true
					case au.Op == "bin" && au.Name == "+" && au.Args[1].unconv().Name == "1" && au.Args[0].Op == "phi" && au.Args[0].Name == "↺":
						step = true
					default:
						other = true
					}
				}
				if ph, ok := hIncT.V.(*ssa.Phi); ok && start && step && !other {
					var head *Node
					for cx, m := range g.heads {
						if cx != nil && cx.Fn == ph.Parent() {
							if hn := m[ph.Block()]; hn != nil && g.Live()[hn] {
								head = hn
							}
						}
					}
					incOK := g.Select(ErrNilEdge(func(t *Term) bool { cv, ok := t.V.(*ssa.Call); return ok && cv.Common().StaticCallee() == incr }))
					if head != nil && len(incOK) > 0 {
						leaves := func(x *Node) bool { _, isRet := x.In.(*ssa.Return); return isRet && x.Ctx == head.Ctx }
						if g.PathAvoiding([]*Node{head}, func(x *Node) bool { return x == head }, orPred(nodeSet(incOK), leaves)) == nil {
							plus1 = true
						}
					}
				}
			}
			inst := fnShort(caller) + " ⟂ increment-guarded"
			if okInc && okMap && plus1 {
				c.OK("C07-R3", inst, fnName(caller), p.InstrPos(n.In), "called only after IsDAIncluded("+trunc(hInc, 60)+") = true and the mapping for that height was stored", true)
			} else {
				c.Bad("C07-R3", inst, fnName(caller), p.InstrPos(n.In), fmt.Sprintf("the DA-included height is advanced without IsDAIncluded(cur+1)=true (%v), the stored mapping (%v) or for a height other than cur+1 (%v: %s)", okInc, okMap, plus1, trunc(hInc, 80)), nil)
			}
		}
	}
	if nCall == 0 {
		c.Unk("C07-R3", "increment callers", "", "", "anchor lost: the increment has no static caller")
	}
	// R4
	isInc := p.MustFunc(mgrM("IsDAIncluded"))
	alts := p.AcceptDNF(isInc, nil, 0, 3)
	if len(alts) == 0 {
		c.Unk("C07-R4", "IsDAIncluded", fnName(isInc), "", "no accepting alternative found")
	}
	hParam := isInc.Params[2].Name()
	for i, alt := range alts {
		var below, hdr, dataOK, sameBlock bool
		for _, f := range alt {
			t, s := f.Cond, f.Cond.String()
			// height <= Store.Height(), in any spelling — with the store height itself, not a
			// value computed from it (store height + 1 lets the includer pass a block that is
			// saved but not yet committed)
			if t.Op == "bin" && len(t.Args) == 2 {
				isStoreH := func(x *Term) bool {
					x = x.unconv()
					return x.Op == "extract" && x.Name == "0" && len(x.Args) == 1 && x.Args[0].Op == "invoke" && strings.HasSuffix(x.Args[0].Name, "Store).Height")
				}
				isH := func(x *Term) bool { return x.unconv().String() == hParam }
				a, b := t.Args[0], t.Args[1]
				switch {
				case t.Name == "<" && !f.Pol && isStoreH(a) && isH(b),
					t.Name == ">=" && f.Pol && isStoreH(a) && isH(b),
					t.Name == ">" && !f.Pol && isH(a) && isStoreH(b),
					t.Name == "<=" && f.Pol && isH(a) && isStoreH(b):
					below = true
				}
			}
			if f.Pol && t.IsCall("Cache[_]).IsDAIncluded") && t.Args[0].Name == "headerCache" && strings.Contains(s, "types.Header).Hash(") && strings.Contains(s, "GetBlockData(") {
				hdr = true
				if strings.Contains(s, ", "+hParam+")#0") {
					sameBlock = true
				}
			}
			if f.Pol && t.IsCall("Cache[_]).IsDAIncluded") && t.Args[0].Name == "dataCache" && strings.Contains(s, "DACommitment(") && strings.Contains(s, ", "+hParam+")#1") {
				dataOK = true
			}
			if f.Pol && t.Op == "call" && t.Name == "bytes.Equal" && strings.Contains(s, "DACommitment(") && strings.Contains(s, "dataHashForEmptyTxs") && strings.Contains(s, ", "+hParam+")#1") {
				dataOK = true
			}
		}
		inst := fmt.Sprintf("IsDAIncluded ⟂ alternative-%d", i+1)
		if below && hdr && dataOK && sameBlock {
			c.OK("C07-R4", inst, fnName(isInc), p.Pos(isInc.Pos()), "accepts only with height <= Store.Height(), header mark of the stored block, and data mark or empty-data hash", true)
		} else {
			c.Bad("C07-R4", inst, fnName(isInc), p.Pos(isInc.Pos()), fmt.Sprintf("an accepting alternative lacks a clause (height<=store:%v header-mark:%v of-block-h:%v data-mark-or-empty:%v); facts: %s", below, hdr, sameBlock, dataOK, trunc(strings.Join(alt.Strings(), " ; "), 700)), nil)
		}
	}
	c.MinInstances("C07-R4", 2)

	// R5: recorded DA heights
	for _, l := range []string{"RetrieveLoop", "HeaderSubmissionLoop", "DataSubmissionLoop"} {
		root := p.MustFunc(mgrM(l))
		g := BuildECFG(p, root, ExpandOpts{MaxDepth: 6})
		c.NoteGraph(g)
		for _, n := range g.Select(func(n *Node) bool { return CallName(n) == cacheSetDAIncluded }) {
			h := ArgTerm(n, 2)
			inst := l + " ⟂ recorded-DA-height in " + fnShort(n.Ctx.Fn)
			if inSubmitter(n) {
				init := allocInit(rootOf(h))
				if h.Op == "field" && h.Name == "Height" && (strings.Contains(h.String(), "SubmitWithHelpers(") || (init != nil && strings.Contains(init.String(), "SubmitWithHelpers("))) {
					c.OK("C07-R5", inst, fnName(n.Ctx.Fn), p.InstrPos(n.In), "the accepted result's height", true)
				} else {
					c.Bad("C07-R5", inst, fnName(n.Ctx.Fn), p.InstrPos(n.In), "the DA height recorded by the submitter is not the accepted result's height: "+trunc(h.String(), 120), nil)
				}
			} else {
				// the scanned height: the value loaded from the scan cursor and passed to the fetch
				if strings.Contains(h.String(), "atomic.Uint64).Load(") && strings.Contains(h.String(), ".daHeight") {
					c.OK("C07-R5", inst, fnName(n.Ctx.Fn), p.InstrPos(n.In), "the scanned DA height (cursor value)", true)
				} else {
					c.Bad("C07-R5", inst, fnName(n.Ctx.Fn), p.InstrPos(n.In), "the DA height recorded by the retriever is not the scanned height: "+trunc(h.String(), 120), nil)
				}
			}
		}
	}
	c.MinInstances("C07-R5", 4)
	c.Doc("C07-R6", "VP: sibling agreement of the cache save and load paths.")
	ruleCachePathsAgree(c, p)
	c.Doc("C07-R7", "VP+GA: the DA heights stored per block come from the mark of the part they describe: the header's from the header cache, the data's from the data cache (the header's only for a block without transactions).")
	ruleStoredDAHeightsProvenance(c, p)
	ruleCachesSavedAfterJoin(c, p, "C07-R8")
	ruleMarksOnlyForAdmittedItems(c, p, "C07-R9")
	ruleCacheSaverWritesWhatChanged(c, p, "C07-R10")
	ruleWakeChannelBuffered(c, p, "C07-R11", "DAIncluderLoop")
	c.MinInstances("C07-R11", 1)
	ruleSightingWakesIncluder(c, p, "C07-R12")
	ruleWorkerEndsOnlyStoppedOrReported(c, p, "C07-R13", []string{"DAIncluderLoop"})
	ruleSignalTakenOnlyAtTheWait(c, p, "C07-R14")
	c.MinInstances("C07-R12", 2)
}

// ruleCacheSaverWritesWhatChanged (C07-R10): the DA-inclusion marks live in memory and reach the
// disk only through the cache saver at shutdown; the submission watermark is persisted at once.
// A mark that is not saved is lost for good: the watermark says "submitted", nothing submits the
// block part again, and the DA-included height never passes it. So the saver writes its files on
// every success return — or skips them only on a test of a field that every method changing the
// cache's contents sets (a dirty flag that one of the mutators forgets reports "nothing changed"
// for exactly that kind of change).
func ruleCacheSaverWritesWhatChanged(c *Check, p *Prog, rule string) {
	c.Doc(rule, "EO+GA: every success return of the cache saver follows the writes of its files, or is taken only on a test of a receiver field that every content-changing method of the cache (every method that stores into or deletes from one of its maps) writes on every path: a skip keyed on a dirty flag that one mutator does not set drops that mutator's changes at shutdown.")
	cachePkg := rootPath + "/pkg/cache"
	var saver *ssa.Function
	var methods []*ssa.Function
	seenGen := map[string]bool{}
	for _, fn := range p.Funcs {
		pk := fnPkg(fn)
		if pk == nil || pk.Pkg.Path() != cachePkg || fn.Parent() != nil || fn.Blocks == nil || fn.Signature.Recv() == nil {
			continue
		}
		gn := genericName(fnName(fn))
		if seenGen[gn] {
			continue // one representative per generic method
		}
		seenGen[gn] = true
		methods = append(methods, fn)
		if strings.HasSuffix(gn, ").SaveToDisk") {
			saver = fn
		}
	}
	if saver == nil {
		c.Unk(rule, "cache saver", "", "", "anchor lost: (*Cache).SaveToDisk")
		return
	}
	writesFile := func(fn *ssa.Function) bool {
		return callsNamed(fn, func(n string) bool {
			return n == "os.Create" || n == "os.WriteFile" || n == "os.Rename" || n == "os.OpenFile" || n == "os.CreateTemp"
		})
	}
	g := BuildECFG(p, saver, ExpandOpts{MaxDepth: 0})
	c.NoteGraph(g)
	fileWrites := g.Select(func(n *Node) bool {
		cc := CallCommonOf(n)
		if cc == nil {
			return false
		}
		if cal := cc.StaticCallee(); cal != nil && fnPkg(cal) != nil && fnPkg(cal).Pkg.Path() == cachePkg && writesFile(cal) {
			return true
		}
		cn := CallName(n)
		return cn == "os.Create" || cn == "os.WriteFile" || cn == "os.Rename"
	})
	if len(fileWrites) == 0 {
		c.Unk(rule, "cache saver ⟂ file writes", fnName(saver), "", "anchor lost: the saver writes no file")
		return
	}
	isMapMut := func(n *Node) bool {
		cn := CallName(n)
		return cn == "(*sync.Map).Store" || cn == "(*sync.Map).Delete" || cn == "(*sync.Map).LoadOrStore" || cn == "(*sync.Map).LoadAndDelete" || cn == "(*sync.Map).Swap" || cn == "(*sync.Map).CompareAndSwap" || cn == "(*sync.Map).Clear"
	}
	recv := saver.Params[0].Name()
	nSkip := 0
	for _, x := range g.Exits {
		cls := g.ExitClass(x)
		if cls == rcA {
			continue
		}
		if cls != rcB {
			// neither a constant nil nor a constructed error: a forwarded call result counts as a
			// possible success, an error variable returned behind its own non-nil test does not
			ret := x.In.(*ssa.Return)
			rv := TermOf(spilledResult(ret, len(ret.Results)-1), x.Ctx)
			if rv.Op != "call" && rv.Op != "invoke" && rv.Op != "extract" {
				continue
			}
			nonNil := false
			xx0 := x
			for _, f := range g.NecessaryEdges(func(n *Node) bool { return n == xx0 }) {
				a, op, b, okc := canonCmp(f.Cond, f.Pol)
				if okc && op == "!=" && ((b.unconv().Name == "nil" && a.String() == rv.String()) || (a.unconv().Name == "nil" && b.String() == rv.String())) {
					nonNil = true
				}
			}
			if nonNil {
				continue // returned behind its own non-nil test: an error return
			}
		}
		xx := x
		tgt := func(n *Node) bool { return n == xx }
		path := g.PathAvoiding([]*Node{g.Entry}, tgt, nodeSet(fileWrites))
		if path == nil {
			continue
		}
		nSkip++
		inst := "SaveToDisk ⟂ skip @" + p.InstrPos(x.In)
		var flds []string
		for _, f := range g.NecessaryEdges(tgt) {
			f.Cond.Walk(func(t *Term) bool {
				if t.Op == "field" && len(t.Args) == 1 && t.Args[0].String() == recv {
					flds = append(flds, t.Name)
				}
				return true
			})
		}
		if len(flds) == 0 {
			c.Bad(rule, inst, fnName(saver), p.InstrPos(x.In), "the saver can report success without writing its files, on no test of the cache's own state: what changed since the last save is lost at shutdown (the DA-inclusion marks are kept nowhere else)", g.DescribePath(path))
			continue
		}
		why := ""
		for _, fld := range flds {
			for _, m := range methods {
				if m == saver {
					continue
				}
				mg := BuildECFG(p, m, ExpandOpts{MaxDepth: 0})
				muts := mg.Select(isMapMut)
				if len(muts) == 0 {
					continue
				}
				setsFld := func(n *Node) bool {
					if fieldStoreTo(mg, fld)(n) {
						return true
					}
					_, ok := isAtomicMutatorOn(n, fld)
					return ok
				}
				if mg.PathAvoiding([]*Node{mg.Entry}, mg.AnyExit(), setsFld) != nil && mg.PathAvoiding(muts, mg.AnyExit(), setsFld) != nil {
					why = fnShort(m) + " changes a map of the cache and can return without writing " + fld
				}
			}
		}
		if why == "" {
			c.OK(rule, inst, fnName(saver), p.InstrPos(x.In), fmt.Sprintf("the files are skipped only on a test of %v, which every content-changing method of the cache writes", flds), true)
		} else {
			c.Bad(rule, inst, fnName(saver), p.InstrPos(x.In), fmt.Sprintf("the saver skips its files on a test of %v, but %s: that method's changes (e.g. the DA-inclusion marks a sequencer sets for accepted data) are not written at shutdown; the submission watermark is already past them, so after the restart they are never re-established and the DA-included height stops there", flds, why), g.DescribePath(path))
		}
	}
	if nSkip == 0 {
		c.OK(rule, "SaveToDisk ⟂ every success return follows the file writes", fnName(saver), p.Pos(saver.Pos()), "no success return of the saver precedes the writes of its files", true)
	}
	c.MinInstances(rule, 1)
}

// ruleMarksOnlyForAdmittedItems (C07-R9): on a full node the DA-inclusion mark of a block part is
// the record "this part was observed on the DA layer". What was observed is a blob; it is that
// part only if its signature verifies under the genesis proposer's key (the header hash does not
// cover the signature, so a copy of a known header with a garbage signature has the same hash).
// Every mark set from the DA scan — outside the submitter's own post-acceptance path — is
// therefore behind the admission facts of the item it names (the C03 sink analysis, applied to
// the marks): a shortcut for "already seen" hashes lets anyone make the node report a height as
// DA-included, and finalise it, that the sequencer never published there.
func ruleMarksOnlyForAdmittedItems(c *Check, p *Prog, rule string) {
	c.Doc(rule, "FS+GA: every DA-inclusion mark set on the DA scanning path (not the submitter's own acceptance path) is reachable only under the signature verification of the marked item under its own key and the binding of that key to the genesis proposer (the header hash does not cover the signature: a copy with a broken signature hashes the same).")
	root := p.MustFunc(mgrM("RetrieveLoop"))
	g := BuildECFG(p, root, ExpandOpts{MaxDepth: 7})
	c.NoteGraph(g)
	n := 0
	for _, nd := range g.Select(func(x *Node) bool { si := classifySink(x); return si != nil && si.what == "SetDAIncluded" }) {
		if inSubmitter(nd) {
			continue
		}
		si := classifySink(nd)
		n++
		inst := "RetrieveLoop ⟂ " + si.kind + " mark in " + fnShort(nd.Ctx.Fn)
		if si.item == nil {
			c.Unk(rule, inst, fnName(nd.Ctx.Fn), p.InstrPos(nd.In), "cannot identify the item whose hash is marked")
			continue
		}
		verified, bound, _, key, _, _ := sinkAdmission(p, g, nd, si)
		if verified && bound {
			c.OK(rule, inst, fnName(nd.Ctx.Fn), p.InstrPos(nd.In), "the mark is set only for an item verified under "+trunc(key, 60)+", bound to the genesis proposer", true)
		} else {
			c.Bad(rule, inst, fnName(nd.Ctx.Fn), p.InstrPos(nd.In), fmt.Sprintf("a DA-inclusion mark is set for a blob that was not verified under the genesis proposer's key on every path (verified=%v, key bound to genesis=%v): a copy of a known header / data with a broken signature has the same hash, is recorded as that part's DA publication, and the DA-included height and the finalisation move to a height whose part was never published on the DA layer", verified, bound), nil)
		}
	}
	if n == 0 {
		c.Unk(rule, "RetrieveLoop ⟂ marks", fnName(root), "", "anchor lost: no DA-inclusion mark set on the scanning path")
	}
	c.MinInstances(rule, 2)
}

// ruleStoredDAHeightsProvenance (C07-R7): in the function that stores the per-block DA heights
// (metadata keys built from RollkitHeightToDAHeightKey), each stored 8-byte value is filled by a
// PutUint64 whose operand derives from GetDAIncludedHeight of the matching cache.
func ruleStoredDAHeightsProvenance(c *Check, p *Prog) {
	rule := "C07-R7"
	prefix, _ := constString(p, rootPath+"/pkg/store", "RollkitHeightToDAHeightKey")
	prefix = strings.Trim(prefix, "\"")
	// the key as far as it is known statically: Sprintf's format with the constant arguments filled in
	var keyPattern func(k *Term) string
	keyPattern = func(k *Term) string {
		k = k.unconv()
		switch {
		case k.Op == "const" && strings.HasPrefix(k.Name, "\""):
			return strings.Trim(k.Name, "\"")
		case k.Op == "global" && strings.HasSuffix(k.Name, "RollkitHeightToDAHeightKey"):
			return prefix
		case k.Op == "bin" && k.Name == "+" && len(k.Args) == 2:
			return keyPattern(k.Args[0]) + keyPattern(k.Args[1]) // a key built by concatenation
		case k.Op == "phi":
			return "%v"
		case k.Op == "call" && !k.IsCall("fmt.Sprintf"):
			// a key built by a helper of the package: what the helper returns for these arguments
			if rs := p.ReturnTerms(k); len(rs) == 1 {
				return keyPattern(rs[0])
			}
			return "%v"
		}
		if !k.IsCall("fmt.Sprintf") || len(k.Args) == 0 || k.Args[0].unconv().Op != "const" {
			return "%v"
		}
		f := strings.Trim(k.Args[0].unconv().Name, "\"")
		args := k.Args[1:]
		if len(args) == 1 && args[0].Op == "list" {
			args = args[0].Args
		}
		var out strings.Builder
		ai := 0
		for i := 0; i < len(f); i++ {
			if f[i] != '%' || i+1 >= len(f) {
				out.WriteByte(f[i])
				continue
			}
			i++
			if f[i] == '%' {
				out.WriteByte('%')
				continue
			}
			if ai < len(args) {
				a := args[ai]
				ai++
				if sub := keyPattern(a); !strings.Contains(sub, "%v") {
					out.WriteString(sub)
					continue
				}
			}
			out.WriteString("%" + string(f[i]))
		}
		return out.String()
	}
	type cand struct {
		root *ssa.Function
		g    *Graph
		sn   *Node
		part string
	}
	best := map[string]cand{}
	for _, fn := range p.Funcs {
		pk := fnPkg(fn)
		if pk == nil || pk.Pkg.Path() != rootPath+"/block" || fn.Parent() != nil {
			continue
		}
		g := BuildECFG(p, fn, ownPkgOpts(rootPath+"/block", 2))
		for _, sn := range g.Select(func(x *Node) bool { return CallName(x) == storeM("SetMetadata") }) {
			k := ArgTerm(sn, 1)
			if k == nil {
				continue
			}
			pat := keyPattern(k)
			if prefix == "" || !(strings.Contains(pat, prefix) || strings.Contains(k.String(), "RollkitHeightToDAHeightKey")) {
				continue
			}
			part := ""
			switch {
			case strings.HasSuffix(pat, "/h"):
				part = "header"
			case strings.HasSuffix(pat, "/d"):
				part = "data"
			default:
				continue // the component is a parameter here: decided in the caller's graph
			}
			key := p.InstrPos(sn.In) + "|" + part
			if b, ok := best[key]; !ok || sn.Ctx.Depth < b.sn.Ctx.Depth || (sn.Ctx.Depth == b.sn.Ctx.Depth && fnName(fn) < fnName(b.root)) {
				best[key] = cand{fn, g, sn, part}
			}
		}
	}
	n := 0
	for _, key := range sortedKeys(best) {
		cd := best[key]
		fn, g, sn, part := cd.root, cd.g, cd.sn, cd.part
		c.NoteGraph(g)
		fromCache := func(t *Term, cache string) bool {
			return p.DeepContains(t, func(x *Term) bool {
				return x.IsCall("Cache[_]).GetDAIncludedHeight") && len(x.Args) > 0 && x.Args[0].Op == "field" && x.Args[0].Name == cache
			}, 2)
		}
		n++
		buf := CallCommonOf(sn).Args[len(CallCommonOf(sn).Args)-1]
		inst := fnShort(fn) + " ⟂ stored " + part + " DA height ← " + part + " cache"
		bad, any := "", false
		for _, pn := range g.Select(func(x *Node) bool { return strings.HasSuffix(CallName(x), "Endian).PutUint64") }) {
			if cc := CallCommonOf(pn); cc == nil || len(cc.Args) < 2 || cc.Args[len(cc.Args)-2] != buf || pn.Ctx != sn.Ctx {
				continue
			}
			any = true
			v := TermOf(CallCommonOf(pn).Args[len(CallCommonOf(pn).Args)-1], pn.Ctx)
			okV := false
			// every alternative of the value comes from the part's own mark; the header's mark is
			// allowed for the data of a block without transactions only
			alts := flattenPhi(v)
			if len(alts) == 0 {
				alts = []*Term{v}
			}
			okAll := true
			for _, a := range alts {
				switch {
				case fromCache(a, part+"Cache"):
				case part == "data" && fromCache(a, "headerCache"):
					// the value is the header's mark: only on paths where the data is the empty-block commitment
					emptyOnly := false
					pp := pn
					for _, f := range g.NecessaryEdges(func(x *Node) bool { return x == pp }) {
						if f.Pol && f.Cond.IsCall("bytes.Equal") && strings.Contains(f.Cond.String(), "dataHashForEmptyTxs") {
							emptyOnly = true
						}
					}
					// … or the value is a variable preset with the header's mark and overwritten,
					// behind the non-empty test, with the data's own mark
					if !emptyOnly && len(alts) > 1 {
						for _, o := range alts {
							if fromCache(o, "dataCache") {
								emptyOnly = overwrittenUnless(g, v, "dataHashForEmptyTxs")
							}
						}
					}
					if !emptyOnly {
						okAll = false
					}
				default:
					okAll = false
				}
			}
			okV = okAll
			if !okV {
				bad = trunc(v.String(), 90) + " @" + p.InstrPos(pn.In)
			}
		}
		switch {
		case !any:
			c.Unk(rule, inst, fnName(fn), p.InstrPos(sn.In), "anchor lost: the stored bytes are not filled by PutUint64 into the same buffer")
		case bad == "":
			c.OK(rule, inst, fnName(fn), p.InstrPos(sn.In), "every value stored for the "+part+" comes from the "+part+"'s own DA-inclusion mark", true)
		default:
			c.Bad(rule, inst, fnName(fn), p.InstrPos(sn.In), "the DA height stored for the "+part+" of a block is "+bad+", not the height recorded for that "+part+": the recorded height is one at which its blob is not", nil)
		}
	}
	if n == 0 {
		c.Unk(rule, "stored-DA-heights", "", "", "anchor lost: no function stores the per-block DA heights")
	}
	c.MinInstances(rule, 2)
}

// overwrittenUnless: v is a phi of two alternatives chosen by a test that mentions marker: the
// alternative that does not come through the marker-is-equal edge replaces the preset value.
func overwrittenUnless(g *Graph, v *Term, marker string) bool {
	ph, ok := v.V.(*ssa.Phi)
	if !ok {
		return false
	}
	blk := ph.Block()
	for _, pr := range blk.Preds {
		if ifi, ok := pr.Instrs[len(pr.Instrs)-1].(*ssa.If); ok {
			if strings.Contains(TermOf(ifi.Cond, &Ctx{Fn: blk.Parent()}).String(), marker) {
				return true
			}
		}
		for _, pp := range pr.Preds {
			if ifi, ok := pp.Instrs[len(pp.Instrs)-1].(*ssa.If); ok {
				if strings.Contains(TermOf(ifi.Cond, &Ctx{Fn: blk.Parent()}).String(), marker) {
					return true
				}
			}
		}
	}
	return false
}

// ruleLoopSkipsOnlyWhenOwnTrackerEmpty (C06-R8 / C08-R3): in a submission loop a tick may be
// passed over without reading the pending list only if the tracker *whose list the loop reads*
// reports empty (or on cancellation).
func ruleLoopSkipsOnlyWhenOwnTrackerEmpty(c *Check, p *Prog, rule string) {
	for _, l := range []string{"HeaderSubmissionLoop", "DataSubmissionLoop"} {
		root := p.MustFunc(mgrM(l))
		g := BuildECFG(p, root, ExpandOpts{MaxDepth: 4})
		c.NoteGraph(g)
		fn := fnName(root)
		getter := g.Select(func(n *Node) bool {
			return genericName(CallName(n)) == "(*"+rootPath+"/block.pendingBase[_]).getPending"
		})
		if len(getter) == 0 {
			c.Unk(rule, l+" ⟂ reads-own-tracker", fn, "", "anchor lost: the loop does not read a pending list")
			continue
		}
		// the tracker: receiver path of the getter, e.g. m.pendingData.base
		tracker := RecvTerm(getter[0]).String()
		ticks := selectCaseEdges(g, func(t *Term) bool { return t.Op == "field" && t.Name == "C" })
		var sels []*Node
		for _, n := range g.Nodes {
			if _, ok := n.In.(*ssa.Select); ok && n.Ctx.Depth == 0 && g.Live()[n] {
				sels = append(sels, n)
			}
		}
		if len(ticks) == 0 || len(sels) == 0 {
			c.Unk(rule, l+" ⟂ tick", fn, "", "anchor lost: no ticker case in the loop's select")
			continue
		}
		ownEmpty := g.Select(EdgeWhere(func(t *Term, pol bool, n *Node) bool {
			t, pol = normFact(t, pol)
			if !pol || t.Op != "call" || n.Ctx.Depth > 2 {
				return false
			}
			// X.isEmpty() where X.base is the tracker
			if !strings.HasSuffix(t.Name, ").isEmpty") || len(t.Args) == 0 {
				return false
			}
			return strings.HasPrefix(tracker, t.Args[0].String()+".") || tracker == t.Args[0].String()
		}))
		path := g.PathAvoiding(ticks, orPred(nodeSet(sels), g.AnyExit()), orPred(nodeSet(getter), nodeSet(ownEmpty)))
		c.Decide(rule, l+" ⟂ tick-skipped-only-if-own-tracker-empty", fn, p.InstrPos(getter[0].In),
			"a tick is passed over without reading "+tracker+" only when that tracker reports empty",
			"the loop can pass over a tick without looking at its pending list although that list ("+tracker+") is not empty — e.g. it tests another tracker: items stay pending, and with a pending limit block production is refused for good", g, path)
	}
	c.MinInstances(rule, 2)
}

// submitterCallers: the functions of package block that call an instantiation of the generic submitter.
func submitterCallers(p *Prog) []*ssa.Function {
	var out []*ssa.Function
	seen := map[*ssa.Function]bool{}
	for _, fn := range p.Funcs {
		pk := fnPkg(fn)
		if pk == nil || pk.Pkg.Path() != rootPath+"/block" || fn.Parent() != nil {
			continue
		}
		for _, cal := range staticCalleesOf(p, fn) {
			if isSubmitterFn(cal) && !seen[fn] && !isSubmitterFn(fn) {
				seen[fn] = true
				out = append(out, fn)
			}
		}
	}
	sort.Slice(out, func(i, j int) bool { return out[i].String() < out[j].String() })
	return out
}

// ruleCachePathsAgree (C07-R6): the shutdown caches (which hold the DA-inclusion marks) are
// loaded from exactly the paths they are saved to.
func ruleCachePathsAgree(c *Check, p *Prog) {
	rule := "C07-R6"
	usesMethod := func(suffix string) []*ssa.Function {
		out := funcsCalling(p, rootPath+"/block", func(n string) bool { return strings.HasSuffix(n, suffix) })
		for _, fn := range p.Funcs {
			pk := fnPkg(fn)
			if pk == nil || pk.Pkg.Path() != rootPath+"/block" || fn.Parent() != nil {
				continue
			}
			if len(boundMethodRows(fn, suffix)) > 0 {
				dup := false
				for _, o := range out {
					if o == fn {
						dup = true
					}
				}
				if !dup {
					out = append(out, fn)
				}
			}
		}
		return out
	}
	savers := usesMethod("Cache[_]).SaveToDisk")
	loaders := usesMethod("Cache[_]).LoadFromDisk")
	if len(savers) != 1 || len(loaders) != 1 {
		c.Unk(rule, "cache-save/load", "", "", fmt.Sprintf("anchor lost: %d functions saving and %d loading the caches", len(savers), len(loaders)))
		return
	}
	paths := func(fn *ssa.Function, suffix string) map[string]string {
		out := map[string]string{}
		ctx := &Ctx{Fn: fn}
		recv := ""
		if len(fn.Params) > 0 {
			recv = fn.Params[0].Name()
		}
		for _, b := range fn.Blocks {
			for _, in := range b.Instrs {
				call, ok := in.(*ssa.Call)
				if !ok || !strings.HasSuffix(commonName(call.Common()), suffix) {
					continue
				}
				which := TermOf(call.Common().Args[0], ctx)
				path := TermOf(call.Common().Args[1], ctx).String()
				// make the receiver's name irrelevant
				path = strings.ReplaceAll(path, recv+".", "recv.")
				out[which.Name] = path
			}
		}
		// the method taken as a value in a table of steps walked by a loop: one call per row,
		// the row's fields standing for themselves in the path
		rows := boundMethodRows(fn, suffix)
		if len(rows) > 0 {
			for _, b := range fn.Blocks {
				for _, in := range b.Instrs {
					call, ok := in.(*ssa.Call)
					if !ok || call.Common().StaticCallee() != nil || call.Common().IsInvoke() || len(call.Common().Args) < 1 {
						continue
					}
					al, _ := tableField(call.Common().Value, 0)
					if al == nil || al != rows[0].table {
						continue
					}
					at := TermOf(call.Common().Args[0], ctx)
					for _, r := range rows {
						path := at.String()
						at.Walk(func(x *Term) bool {
							if x.V == nil {
								return true
							}
							if tal, tf := tableField(x.V, 0); tal == r.table && tf != "" {
								if vs := r.fields[tf]; len(vs) == 1 {
									path = strings.ReplaceAll(path, x.String(), TermOf(vs[0], ctx).String())
								}
							}
							return true
						})
						path = strings.ReplaceAll(path, recv+".", "recv.")
						out[r.which] = path
					}
				}
			}
		}
		return out
	}
	sp, lp := paths(savers[0], "Cache[_]).SaveToDisk"), paths(loaders[0], "Cache[_]).LoadFromDisk")
	for _, k := range sortedKeys(sp) {
		inst := "cache " + k + " ⟂ load-path = save-path"
		if lp[k] == sp[k] && sp[k] != "" {
			c.OK(rule, inst, fnName(loaders[0]), p.Pos(loaders[0].Pos()), "both use "+trunc(sp[k], 100), true)
		} else {
			c.Bad(rule, inst, fnName(loaders[0]), p.Pos(loaders[0].Pos()), "the cache is saved to "+trunc(sp[k], 100)+" but loaded from "+trunc(lp[k], 100)+": with a configuration for which the two differ the DA-inclusion marks saved at shutdown are not found at the next start; a sequencer never re-submits or re-scans, so the DA-included height stalls for good", nil)
		}
	}
	if len(sp) < 2 {
		c.Unk(rule, "cache-paths", "", "", fmt.Sprintf("anchor lost: %d caches saved", len(sp)))
	}
}

// ruleCachesSavedAfterJoin (C07-R8): the DA-inclusion marks live in the caches and are written to
// disk once, at shutdown. A submission that is acknowledged while the workers wind down still sets
// its marks and moves the persisted last-submitted height. If the caches were saved before the
// workers ended, those marks are lost while the watermark says "submitted": after the restart the
// heights are neither re-submitted nor ever reported DA-included. So the node saves the caches
// only after it has joined every worker.
func ruleCachesSavedAfterJoin(c *Check, p *Prog, rule string) {
	c.Doc(rule, "EO: the node saves the block manager's caches (which carry the DA-inclusion marks) only after it has waited for all its workers: no mark set by a submission acknowledged during shutdown is missing from the saved cache while the persisted watermark already counts it.")
	n := 0
	for _, fn := range p.Funcs {
		pk := fnPkg(fn)
		if pk == nil || pk.Pkg.Path() != rootPath+"/node" || fn.Blocks == nil || fn.Parent() != nil {
			continue
		}
		if !callsNamed(fn, func(nm string) bool { return nm == mgrM("SaveCache") }) {
			continue
		}
		g := BuildECFG(p, fn, ExpandOpts{MaxDepth: 0})
		c.NoteGraph(g)
		saves := g.Select(IsCall(mgrM("SaveCache")))
		joins := g.Select(IsCall("(*sync.WaitGroup).Wait"))
		n++
		inst := fnShort(fn) + " ⟂ caches saved after the workers were joined"
		if len(joins) == 0 {
			c.Bad(rule, inst, fnName(fn), p.InstrPos(saves[0].In), "the function saves the caches but never waits for the workers it started", nil)
			continue
		}
		c.Decide(rule, inst, fnName(fn), p.InstrPos(saves[0].In), "SaveCache is reached only after WaitGroup.Wait",
			"the caches can be saved while workers are still running: a DA-inclusion mark set by a submission that is acknowledged during shutdown is not in the saved cache, although the persisted last-submitted height counts it — after the restart that height is never re-submitted and never reported DA-included",
			g, g.MustPrecede(nodeSet(joins), nodeSet(saves)))
	}
	if n == 0 {
		c.Unk(rule, "anchor-count", "", "", "anchor lost: no function of the node package saves the block manager's caches")
	}
}

// boundMethodRows: fn builds a local table (slice / array literal of structs) one of whose fields
// holds, row by row, a method value of a receiver field (m.headerCache.LoadFromDisk): the rows with
// the receiver field's label and the row's other fields.
type methodRow struct {
	table  *ssa.Alloc
	which  string
	fields map[string][]ssa.Value
}

func boundMethodRows(fn *ssa.Function, suffix string) []methodRow {
	var out []methodRow
	ctx := &Ctx{Fn: fn}
	for _, b := range fn.Blocks {
		for _, in := range b.Instrs {
			al, ok := in.(*ssa.Alloc)
			if !ok {
				continue
			}
			if _, isArr := al.Type().(*types.Pointer).Elem().Underlying().(*types.Array); !isArr {
				continue
			}
			rows := litStores(al)
			for i := 0; ; i++ {
				prefix := fmt.Sprintf("[%d].", i)
				fields := map[string][]ssa.Value{}
				for k, v := range rows {
					if strings.HasPrefix(k, prefix) {
						fields[strings.TrimPrefix(k, prefix)] = v
					}
				}
				if len(fields) == 0 {
					break
				}
				for _, vs := range fields {
					if len(vs) != 1 {
						continue
					}
					mc, ok := vs[0].(*ssa.MakeClosure)
					if !ok || len(mc.Bindings) != 1 {
						continue
					}
					mf, _ := mc.Fn.(*ssa.Function)
					if mf == nil || !strings.HasSuffix(strings.TrimSuffix(genericName(fnName(mf)), "$bound"), suffix) {
						continue
					}
					out = append(out, methodRow{table: al, which: TermOf(mc.Bindings[0], ctx).Name, fields: fields})
				}
			}
		}
	}
	return out
}

// ruleWholePendingListOffered (C06-R10 / C08-R6): the pending limit counts the tracker's whole
// range (store height − last submitted), and only the submitter's acceptance callback moves the
// range's lower end. The header list handed to the submitter is therefore the tracker's list
// itself: a list filtered on the way (headers "already known to be on the DA layer" left out)
// leaves the filtered heights counted as pending with nobody to submit them — with as many of them
// as the limit allows, block production is refused for good although the DA layer accepts
// everything.
func ruleWholePendingListOffered(c *Check, p *Prog, rule string) {
	c.Doc(rule, "VP: the list of headers handed to the generic submitter is the value the pending tracker's getPending returns, on every alternative (looked through the package's wrappers): nothing that is counted as pending is left out of the submission (a height filtered out is never submitted and never leaves the count the pending limit reads).")
	subs := submitterInstances(p)
	root := p.MustFunc(mgrM("HeaderSubmissionLoop"))
	g := BuildECFG(p, root, ExpandOpts{MaxDepth: 5})
	c.NoteGraph(g)
	n := 0
	for _, nd := range g.Nodes {
		if nd.Kind != NInstr || !g.Live()[nd] {
			continue
		}
		cc := CallCommonOf(nd)
		if cc == nil || cc.StaticCallee() == nil {
			continue
		}
		isSub := false
		for _, sub := range subs {
			if cc.StaticCallee() == sub || (cc.StaticCallee().Origin() != nil && cc.StaticCallee().Origin() == sub.Origin()) {
				isSub = true
			}
		}
		if !isSub {
			continue
		}
		for i, a := range cc.Args {
			sl, isSl := a.Type().Underlying().(*types.Slice)
			if !isSl {
				continue
			}
			if _, isBytes := sl.Elem().Underlying().(*types.Basic); isBytes {
				continue
			}
			n++
			t := ArgTerm(nd, i)
			bad := ""
			isTracker := func(u *Term) bool {
				return u.Op == "extract" && u.Name == "0" && len(u.Args) == 1 && strings.Contains(genericName(u.Args[0].Name), "pendingBase[_]).getPending")
			}
			var walk func(x *Term, d int)
			walk = func(x *Term, d int) {
				u := x.unconv()
				for u.Op == "slice" && len(u.Args) > 0 {
					u = u.Args[0].unconv() // an upper cut keeps the list a prefix (C06-R9 looks at lower cuts)
				}
				switch {
				case isTracker(u) || (u.Op == "const" && u.Name == "nil") || (u.Op == "phi" && len(u.Args) == 0):
				case u.Op == "phi":
					for _, a := range u.Args {
						walk(a, d)
					}
				default:
					if d > 0 {
						if rs := p.ReturnTerms(u); len(rs) > 0 {
							for _, r := range rs {
								walk(r, d-1)
							}
							return
						}
					}
					bad = trunc(u.String(), 100)
				}
			}
			walk(t, 4)
			inst := "HeaderSubmissionLoop ⟂ the tracker's whole list is offered"
			if bad == "" {
				c.OK(rule, inst, fnName(nd.Ctx.Fn), p.InstrPos(nd.In), "the submitted list is the pending tracker's list: "+trunc(t.String(), 80), true)
			} else {
				c.Bad(rule, inst, fnName(nd.Ctx.Fn), p.InstrPos(nd.In), "the list of headers handed to the submitter can be something other than the pending tracker's list ("+bad+"): heights left out stay counted as pending (the limit reads the tracker's range) but are never submitted, so with enough of them block production is refused for good", nil)
			}
		}
	}
	if n == 0 {
		c.Unk(rule, "HeaderSubmissionLoop ⟂ submitter call", fnName(root), "", "anchor lost: no call of the generic submitter reachable from the header submission loop")
	}
	c.MinInstances(rule, 1)
}

// ruleNoPendingItemPassedOver (C06-R12 = C08-R7): the function that turns the pending data into
// the list handed to the submitter walks the pending list in height order. Acceptance of the list
// moves the single watermark to the height of its last item, so the list must not have a gap: from
// the point where an item is known to carry transactions, the only ways on are the append of that
// item or leaving the function — never the next item (a signing failure that is logged and
// passed over is acknowledged with the item behind it, and that block's data is never published).
func ruleNoPendingItemPassedOver(c *Check, p *Prog, rule string) {
	c.Doc(rule, "EO: in the builder of the signed-data list, from the not-empty edge of an item (or, without an emptiness test, from the loop's entry into the body) no path reaches the next iteration without appending the item: the list handed to the submitter has no gap that the watermark would jump.")
	steps := stepFuncs(c, p, mgrM("DataSubmissionLoop"), 3, "(*"+rootPath+"/block.PendingData).getPendingData")
	n := 0
	for _, step := range steps {
		g := BuildECFG(p, step, ExpandOpts{MaxDepth: 3})
		c.NoteGraph(g)
		fn := fnName(step)
		apps := g.Select(func(n *Node) bool { return n.Ctx.Depth == 0 && CallName(n) == "append" })
		if len(apps) == 0 {
			continue
		}
		hdr := loopHeaderOf(apps[0].In.Block())
		if hdr == nil {
			continue
		}
		head := g.headNode(g.RootCtx, hdr)
		if head == nil {
			continue
		}
		n++
		isEmptyTest := func(t *Term) bool {
			return t.Op == "bin" && len(t.Args) == 2 && strings.HasPrefix(t.Args[0].String(), "len(") && strings.HasSuffix(t.Args[0].String(), ".Txs)") && t.Args[1].Name == "0"
		}
		src := g.Select(EdgeWhere(func(t *Term, pol bool, n *Node) bool {
			t, pol = normFact(t, pol)
			if n.Ctx.Depth != 0 || !isEmptyTest(t) {
				return false
			}
			return (t.Name == "==" && !pol) || (t.Name == "!=" && pol) || (t.Name == ">" && pol)
		}))
		if len(src) == 0 {
			// no emptiness test: every item that enters the body
			src = g.Select(func(n *Node) bool {
				return n.Ctx.Depth == 0 && n.Kind == NTrue && n.In != nil && n.In.Block() == hdr
			})
		}
		if len(src) == 0 {
			c.Unk(rule, fnShort(step)+" ⟂ no item with transactions is passed over", fn, p.Pos(step.Pos()), "anchor lost: the entry of the loop body over the pending list")
			continue
		}
		isApp := nodeSet(apps)
		path := g.PathAvoiding(src, func(n *Node) bool { return n == head }, isApp)
		c.Decide(rule, fnShort(step)+" ⟂ no item with transactions is passed over", fn, p.InstrPos(apps[0].In),
			"an item that carries transactions is appended to the list or ends the pass",
			"a pending item that carries transactions can be passed over without being queued while later items still are: when the DA layer accepts the list, the watermark moves to its last height, past the item left out — that block's data is never published, in this run or after a restart", g, path)
	}
	if n == 0 {
		c.Unk(rule, "anchor-count", "", "", "anchor lost: no loop that appends to the list of signed data")
	}
}
